"""Scenario generation, physical measurement oracle and harness runner for C02 / C18.

The oracle does not use the library's T/U algebra: a VNA is modelled as a linear 2n-port error
network between the ideal receivers and the device,

        M = El + Et S (I - Em S)^-1 Er                                  (n x n blocks)

with diagonal Et, Em, Er and diagonal El for the 8-term types, a full El (off-diagonal leakage)
for TE10/UE10, full blocks for T16/U16, and one independent set of diagonal blocks per driving
port (column) for UE14/E12.  Calibrating on measurements produced by this model and applying the
calibration to a measurement of a device produced by the same model must return the device.
Python standard library only.
"""
import cmath
import math
import os
import re
import sys

sys.path.insert(0, os.path.dirname(os.path.abspath(__file__)))
import vplib

TYPES = ["T8", "U8", "TE10", "UE10", "T16", "U16", "UE14", "E12"]
EIGHT = ("T8", "U8", "TE10", "UE10")


# ----------------------------------------------------------------------------- small linear algebra
def ident(n):
    return [[1.0 + 0j if i == j else 0j for j in range(n)] for i in range(n)]


def mmul(a, b):
    n, k, m = len(a), len(b), len(b[0])
    return [[sum(a[i][t] * b[t][j] for t in range(k)) for j in range(m)] for i in range(n)]


def madd(a, b):
    return [[x + y for x, y in zip(r, s)] for r, s in zip(a, b)]


def msub(a, b):
    return [[x - y for x, y in zip(r, s)] for r, s in zip(a, b)]


def minv(a):
    n = len(a)
    m = [list(r) + [1.0 + 0j if i == j else 0j for j in range(n)] for i, r in enumerate(a)]
    for c in range(n):
        p = max(range(c, n), key=lambda r: abs(m[r][c]))
        if abs(m[p][c]) < 1e-300:
            raise ZeroDivisionError("singular")
        m[c], m[p] = m[p], m[c]
        d = m[c][c]
        m[c] = [x / d for x in m[c]]
        for r in range(n):
            if r != c and m[r][c] != 0:
                f = m[r][c]
                m[r] = [x - f * y for x, y in zip(m[r], m[c])]
    return [r[n:] for r in m]


def cond_est(a):
    """crude condition estimate: max|a| * max|a^-1| * n"""
    try:
        b = minv(a)
    except ZeroDivisionError:
        return float("inf")
    return len(a) * max(abs(x) for r in a for x in r) * max(abs(x) for r in b for x in r)


# ----------------------------------------------------------------------------- random helpers
def crand(rng, lo, hi):
    """complex number with modulus uniform in [lo, hi] and uniform angle"""
    return cmath.rect(rng.uniform(lo, hi), rng.uniform(-math.pi, math.pi))


def cgauss(rng, sigma):
    """circular complex Gaussian with E|z|^2 = sigma^2 (each component sigma/sqrt 2)"""
    s = sigma / math.sqrt(2.0)
    return complex(rng.gauss(0.0, s), rng.gauss(0.0, s))


# ----------------------------------------------------------------------------- physical error model
class ErrorModel(object):
    def __init__(self, rng, typ, n, nf, strength=1.0):
        self.typ, self.n, self.nf = typ, n, nf
        self.cols = []          # per frequency: list over columns of (El, Et, Em, Er) or one shared tuple
        for f in range(nf):
            if typ in ("UE14", "E12"):
                self.cols.append([self._blocks(rng, typ, n, strength) for _ in range(n)])
            else:
                self.cols.append([self._blocks(rng, typ, n, strength)])

    @staticmethod
    def _blocks(rng, typ, n, k):
        full = typ in ("T16", "U16")
        leak = typ in ("TE10", "UE10", "UE14", "E12") or full

        def diagm(lo, hi):
            return [[crand(rng, lo, hi) if i == j else 0j for j in range(n)] for i in range(n)]

        def withoff(m, amp):
            return [[m[i][j] if i == j else crand(rng, 0.2 * amp, amp) for j in range(n)] for i in range(n)]
        el = diagm(0.02 * k, 0.25 * k)
        et = diagm(0.7, 1.2)
        er = diagm(0.7, 1.2)
        em = diagm(0.02 * k, 0.25 * k)
        if leak:
            el = withoff(el, 0.08 * k)
        if full:
            et = withoff(et, 0.06 * k)
            er = withoff(er, 0.06 * k)
            em = withoff(em, 0.06 * k)
        return (el, et, em, er)

    def scale_tracking(self, k):
        """multiply both tracking blocks (Et, Er) by k: the same network seen through k^2 of loss
        (raw measurements of the signal paths scale with k^2, directivity / leakage do not)"""
        self.cols = [[(el, [[z * k for z in row] for row in et], em, [[z * k for z in row] for row in er])
                      for (el, et, em, er) in blocks] for blocks in self.cols]

    def measure(self, s, f):
        """n x n measurement of a device with scattering matrix s at frequency index f"""
        n = self.n
        out = [[0j] * n for _ in range(n)]
        blocks = self.cols[f]
        for ci, (el, et, em, er) in enumerate(blocks):
            w = minv(msub(ident(n), mmul(em, s)))
            m = madd(el, mmul(mmul(et, mmul(s, w)), er))
            if len(blocks) == 1:
                return m
            for r in range(n):
                out[r][ci] = m[r][ci]
        return out


# ----------------------------------------------------------------------------- scenario text
def fnum(x):
    return "%.17g" % x


def cnum(z):
    z = complex(z)
    return "%.17g %.17g" % (z.real, z.imag)


class Scenario(object):
    """Builds the command text for harness/selfcal_harness.c and remembers the truths."""

    def __init__(self, sid, typ, n, freqs):
        self.sid, self.typ, self.n, self.freqs = sid, typ, n, list(freqs)
        self.nf = len(freqs)
        self.lines = ["begin %s" % sid,
                      "cal %s %d %d %d %s" % (typ, n, n, self.nf, " ".join(fnum(f) for f in freqs))]
        self.truth = {}         # unknown/correlated parameter name -> list of true values per frequency
        self.guess = {}
        self.dut = None
        self.meta = {}
        self._k = 0

    def _name(self, p):
        self._k += 1
        return "%s%d" % (p, self._k)

    def known(self, values):
        """parameter with the given per-frequency values; returns its name"""
        values = [complex(v) for v in values]
        if all(v == values[0] for v in values):
            for nm, z in (("match", 0), ("open", 1), ("short", -1)):
                if values[0] == z:
                    return nm
            nm = self._name("k")
            self.lines.append("scalar %s %s" % (nm, cnum(values[0])))
            return nm
        nm = self._name("v")
        self.lines.append("vector %s %d %s %s" % (nm, self.nf, " ".join(fnum(f) for f in self.freqs),
                                                   " ".join(cnum(v) for v in values)))
        return nm

    def unknown(self, truth, guess, name=None):
        g = self.known_vec(guess)
        nm = name or self._name("u")
        self.lines.append("unknown %s %s" % (nm, g))
        self.truth[nm] = [complex(v) for v in truth]
        self.guess[nm] = [complex(v) for v in guess]
        return nm

    def known_vec(self, values):
        """always a vector (or scalar when one frequency) parameter, never a predefined name"""
        values = [complex(v) for v in values]
        if self.nf == 1:
            nm = self._name("k")
            self.lines.append("scalar %s %s" % (nm, cnum(values[0])))
            return nm
        nm = self._name("v")
        self.lines.append("vector %s %d %s %s" % (nm, self.nf, " ".join(fnum(f) for f in self.freqs),
                                                   " ".join(cnum(v) for v in values)))
        return nm

    def correlated(self, other, sigma, truth, name=None):
        nm = name or self._name("c")
        self.lines.append("correlated %s %s 1 - %s" % (nm, other, fnum(sigma)))
        self.truth[nm] = [complex(v) for v in truth]
        return nm

    def cells(self, mlist):
        """mlist[f] = matrix at frequency f  ->  per cell, per frequency text"""
        r, c = len(mlist[0]), len(mlist[0][0])
        out = []
        for i in range(r):
            for j in range(c):
                for f in range(self.nf):
                    out.append(cnum(mlist[f][i][j]))
        return "%d %d %s" % (r, c, " ".join(out))

    def add_mapped(self, names, mlist):
        n = len(names)
        self.lines.append("mapped %d %d %s - %s" % (n, n, " ".join(x for r in names for x in r), self.cells(mlist)))

    def add_single(self, name, port, mlist):
        self.lines.append("single %s %d %s" % (name, port, self.cells(mlist)))

    def add_double(self, n1, n2, p1, p2, mlist):
        self.lines.append("double %s %s %d %d %s" % (n1, n2, p1, p2, self.cells(mlist)))

    def add_through(self, p1, p2, mlist):
        self.lines.append("through %d %d %s" % (p1, p2, self.cells(mlist)))

    def add_line(self, names4, p1, p2, mlist):
        self.lines.append("line %s %d %d %s" % (" ".join(names4), p1, p2, self.cells(mlist)))

    def cmd(self, text):
        self.lines.append(text)

    def solve(self):
        self.lines.append("solve")

    def getparams(self):
        for nm in sorted(self.truth):
            self.lines.append("getparam %s" % nm)

    def apply(self, mlist, sdut):
        self.dut = sdut
        self.lines.append("apply %s" % self.cells(mlist))

    def text(self):
        return "\n".join(self.lines + ["end"]) + "\n"


# ----------------------------------------------------------------------------- running
LSAN_SUPP = """# no suppressions: the leaks that belonged to other properties' defects (D15, D37) are repaired
"""


def run_env(ctx, leak=True):
    env = ctx.run_env(leak=leak)
    sp = os.path.join(ctx.tmp, "lsan.supp")
    if not os.path.exists(sp):
        with open(sp, "w") as f:
            f.write(LSAN_SUPP)
    env["LSAN_OPTIONS"] = env.get("LSAN_OPTIONS", "") + ":suppressions=%s:print_suppressions=0" % sp
    return env


def leak_functions(stderr):
    """top libvna frame of every leak record in an LSan report"""
    out = []
    for rec in re.split(r"\n(?=(?:Direct|Indirect) leak of)", stderr):
        if not re.match(r"(?:Direct|Indirect) leak of", rec):
            continue
        fn = None
        for m in re.finditer(r"#\d+ 0x[0-9a-f]+ in (\S+) (\S+)", rec):
            if "/src/vna" in m.group(2):
                fn = m.group(1)
                break
        out.append(fn)
    return out


def parse_output(out):
    """-> {sid: {"ended":bool, "solve":[...], "params":{name:[..]}, "apply":{...}, "S":{f:[...]}, "adds":[...]}}"""
    res = {}
    cur = None
    order = []
    for line in out.splitlines():
        p = line.split()
        if not p:
            continue
        if p[0] == "begin":
            cur = {"ended": False, "solve": [], "params": {}, "apply": [], "S": [], "ops": [], "err": None}
            res[p[1]] = cur
            order.append(p[1])
            continue
        if cur is None:
            continue
        if p[0] == "end":
            cur["ended"] = True
        elif p[0] == "HARNESS-ERROR":
            cur["err"] = line
        elif p[0] == "solve":
            d = dict(x.split("=", 1) for x in p[1:])
            d["rc"] = int(d["rc"])
            d["cb"] = int(d["cb"])
            d["pvalues"] = [float(x) for x in d["pvalues"].split(",")]
            cur["solve"].append(d)
        elif p[0] == "param":
            vals = [float(x) for x in p[2:-1]]
            cur["params"].setdefault(p[1], []).append(
                [complex(vals[i], vals[i + 1]) for i in range(0, len(vals), 2)])
        elif p[0] == "paramat":
            vals = [float(x) for x in p[2:-1]]
            cur.setdefault("paramat", {}).setdefault(p[1], []).append(
                [complex(vals[i], vals[i + 1]) for i in range(0, len(vals), 2)])
        elif p[0] == "apply":
            d = dict(x.split("=", 1) for x in p[1:])
            d["rc"] = int(d["rc"])
            cur["apply"].append(d)
            cur["S"].append({})
        elif p[0] == "merrorvec":
            if p[1] == "none":
                cur.setdefault("merrorvec", []).append(None)
            else:
                v = [float(x) for x in p[1:]]
                cur.setdefault("merrorvec", []).append([(v[i], v[i + 1]) for i in range(0, len(v), 2)])
        elif p[0] == "S":
            vals = [float(x) for x in p[2:]]
            cur["S"][-1][int(p[1])] = [complex(vals[i], vals[i + 1]) for i in range(0, len(vals), 2)]
        else:
            d = dict(x.split("=", 1) for x in p[1:] if "=" in x)
            d["op"] = p[0]
            cur["ops"].append(d)
    return res, order


def run_batch(ctx, exe, scenarios, per_timeout=20.0, leak=True):
    """Run scenarios through the harness, restarting after a crash/timeout.
    Returns {sid: result}; result gets "crash" (sanitizer signature / timeout) when the process
    died inside that scenario and "leaks" (list of function names) for a leak report."""
    results = {}
    todo = list(scenarios)
    env = run_env(ctx, leak)
    while todo:
        text = "".join(s.text() for s in todo)
        rc, out, err = vplib.sh([exe], input=text, timeout=30 + per_timeout * len(todo), env=env)
        res, order = parse_output(out)
        done = 0
        for s in todo:
            r = res.get(s.sid)
            if r is None:
                break
            results[s.sid] = r
            done += 1
            if not r["ended"]:
                break
        if rc == 0:
            break
        last = todo[done - 1] if done else todo[0]
        r = results.setdefault(last.sid, {"ended": False, "solve": [], "params": {}, "apply": [], "S": [],
                                          "ops": [], "err": None})
        if r["ended"]:
            # process failed after the last scenario finished: leak report at exit
            leaks = leak_functions(err)
            for s in todo[:done]:
                results[s.sid]["leaks_in_batch"] = leaks
            results["__batch_leaks__"] = results.get("__batch_leaks__", []) + [(leaks, [s.sid for s in todo[:done]], err[-3000:])]
            if done >= len(todo):
                break
            todo = todo[done:]
            continue
        if rc == 124 or rc == -14:
            r["crash"] = {"kind": "timeout", "error": "timeout", "function": None}
        else:
            sig = vplib.asan_signature(err) or {"kind": "fault", "error": "exit %d" % rc, "function": None}
            r["crash"] = sig
        r["stderr"] = err[-3000:]
        todo = todo[done:] if done else todo[1:]
    return results


def run_one(ctx, exe, scenario, timeout=60.0, leak=True):
    """One scenario in its own process (so that leaks are attributed exactly)."""
    rc, out, err = vplib.sh([exe], input=scenario.text(), timeout=timeout, env=run_env(ctx, leak))
    res, _ = parse_output(out)
    r = res.get(scenario.sid) or {"ended": False, "solve": [], "params": {}, "apply": [], "S": [], "ops": [],
                                  "err": None}
    if rc == 124 or rc == -14:
        r["crash"] = {"kind": "timeout", "error": "timeout", "function": None}
    elif rc != 0:
        if r["ended"]:
            r["leaks"] = leak_functions(err)
            if not r["leaks"]:
                r["crash"] = vplib.asan_signature(err) or {"kind": "fault", "error": "exit %d" % rc, "function": None}
        else:
            r["crash"] = vplib.asan_signature(err) or {"kind": "fault", "error": "exit %d" % rc, "function": None}
        r["stderr"] = err[-3000:]
    return r


# ----------------------------------------------------------------------------- standards
def rand_reflect(rng, k):
    """k-th reflect of a well spread family: short-ish, open-ish, match-ish, then anything"""
    base = [-1.0, 1.0, 0.0, 1j, -1j]
    if k < len(base):
        return base[k] * rng.uniform(0.85, 1.0) + crand(rng, 0.0, 0.08)
    return crand(rng, 0.3, 1.0)


def rand_full_s(rng, n):
    """random reciprocal-free, passive-ish, well conditioned n-port with every port pair connected"""
    while True:
        s = [[crand(rng, 0.25, 0.75) for _ in range(n)] for _ in range(n)]
        if cond_est(s) < 30:
            return s


def rand_dut(rng, n):
    return [[crand(rng, 0.1, 0.8) for _ in range(n)] for _ in range(n)]


def unknowns_per_system(typ, n):
    if typ in EIGHT:
        return 4 * n - 1
    if typ in ("T16", "U16"):
        return 4 * n * n - 1
    return 2 * n + 1


def systems(typ, n):
    return n if typ in ("UE14", "E12") else 1


def eq_per_standard(typ, n, full):
    """equations contributed to *each* system by a standard (full S or diagonal S)"""
    if typ in ("T16", "U16"):
        return n * n
    if typ in ("UE14", "E12"):
        return n if full else 1
    return n * n if full else n


def max_err(a, b):
    return max(abs(x - y) for x, y in zip(a, b))


# ----------------------------------------------------------------------------- scenario families
def default_freqs(nf):
    return [1.0e9 * (i + 1) for i in range(nf)]


def perturb(rng, truth, radius):
    """guess within `radius` (relative to max(|truth|, 0.2)) of the truth, at least radius/3 away"""
    out = []
    for t in truth:
        scale = max(abs(t), 0.2)
        out.append(t + crand(rng, radius * scale / 3.0, radius * scale))
    return out


def build_general(rng, sid, typ, n, nf, n_unknown=0, n_corr=0, radius=0.1, excess=3, sigma_corr=0.05,
                  em=None, corr_known_base=False, noise=None, outlier=None):
    """Over-determined calibration made of `multi-reflect' standards (diagonal S, ports not
    connected: they also provide the leakage samples) and fully connected random n-port standards.
    n_unknown reflection coefficients are declared unknown (guesses within `radius`); n_corr further
    ones are declared correlated with the first unknown / with a known parameter (same true value).
    noise = (sigma_nf, sigma_tr, rng) adds measurement noise of exactly that model;
    outlier = (index of standard, sigmas) shifts every cell of one standard."""
    freqs = default_freqs(nf)
    em = em or ErrorModel(rng, typ, n, nf)
    sc = Scenario(sid, typ, n, freqs)
    sc.em = em
    usys = unknowns_per_system(typ, n)
    nsys = systems(typ, n)
    p_len = n_unknown + n_corr
    need = usys + excess + (p_len + nsys - 1) // nsys       # equations wanted in every system
    if n == 1:
        nfull, nrefl = 0, need
    else:
        nfull = 2 if typ in EIGHT else max(2, (need * 2 // 3) // eq_per_standard(typ, n, True))
        rest = need - nfull * eq_per_standard(typ, n, True)
        nrefl = max(4, -(-rest // eq_per_standard(typ, n, False)))
    # reflect standards: values[k][port][f]
    refl = [[[rand_reflect(rng, (k + port) if k < 5 else k) for _ in range(nf)] for port in range(n)]
            for k in range(nrefl)]
    for k in range(nrefl):          # constant over frequency for the first three (scalar parameters)
        if k < 3:
            for port in range(n):
                refl[k][port] = [refl[k][port][0]] * nf
    names = [[None] * n for _ in range(nrefl)]
    # choose the unknown slots among the reflect standards with index >= 3 (three known reflects
    # per port always remain)
    slots = [(k, port) for k in range(3, nrefl) for port in range(n)]
    rng.shuffle(slots)
    first_unknown = None
    for i in range(min(n_unknown, len(slots))):
        k, port = slots[i]
        nm = sc.unknown(refl[k][port], perturb(rng, refl[k][port], radius))
        names[k][port] = nm
        if first_unknown is None:
            first_unknown = (nm, refl[k][port])
    for i in range(n_unknown, min(n_unknown + n_corr, len(slots))):
        k, port = slots[i]
        if first_unknown is not None and not corr_known_base:
            base_nm, base_truth = first_unknown
        else:
            base_truth = refl[k][port]
            base_nm = sc.known_vec(base_truth)
        refl[k][port] = list(base_truth)
        names[k][port] = sc.correlated(base_nm, sigma_corr, base_truth)
    sc.meta.update({"type": typ, "n": n, "nf": nf, "n_unknown": n_unknown, "n_corr": n_corr,
                    "radius": radius, "nrefl": nrefl, "nfull": nfull})
    stds = []
    for k in range(nrefl):
        for port in range(n):
            if names[k][port] is None:
                names[k][port] = sc.known(refl[k][port])
        nm = [[names[k][i] if i == j else "zero" for j in range(n)] for i in range(n)]
        st = [[[refl[k][i][f] if i == j else 0j for j in range(n)] for i in range(n)] for f in range(nf)]
        stds.append((nm, st))
    for k in range(nfull):
        sf = [rand_full_s(rng, n) for _ in range(nf)]
        if k == 0:
            sf = [sf[0]] * nf
        nm = [[sc.known([sf[f][i][j] for f in range(nf)]) for j in range(n)] for i in range(n)]
        stds.append((nm, sf))
    order = list(range(len(stds)))
    rng.shuffle(order)
    sc.std_truth = []
    for idx, si in enumerate(order):
        nm, st = stds[si]
        ms = [em.measure(st[f], f) for f in range(nf)]
        if noise is not None:
            snf, str_, nrng = noise
            ms = [[[z + cgauss(nrng, math.sqrt(snf * snf + str_ * str_ * abs(z) ** 2)) for z in row]
                   for row in m] for m in ms]
        if outlier is not None and outlier[0] == idx:
            snf, str_ = outlier[2], outlier[3]
            fsel = outlier[4] if len(outlier) > 4 else None          # only these frequency indices
            ms = [[[z + (outlier[1] * math.sqrt(snf * snf + str_ * str_ * abs(z) ** 2) * cmath.rect(1.0, 0.7)
                         if (fsel is None or fi in fsel) else 0.0)
                    for z in row] for row in m] for fi, m in enumerate(ms)]
        sc.add_mapped(nm, ms)
        sc.std_truth.append(st)
    sc.nstd = len(stds)
    return sc


def add_dut(rng, sc):
    d = [rand_dut(rng, sc.n) for _ in range(sc.nf)]
    sc.apply([sc.em.measure(d[f], f) for f in range(sc.nf)], d)
    return d


def quantise(z, bits):
    if bits is None:
        return z
    k = float(1 << bits)
    z = complex(z)
    return complex(round(z.real * k) / k, round(z.imag * k) / k)


def build_trl(rng, sid, typ, nf=2, gfrac=0.6, swap=False, quant=None, tracking_scale=None):
    """2-port through / reflect / line with unknown reflect and line; guesses on the right side
    of the root choice (closer to the truth than to -r, resp. 1/l, by the factor gfrac).
    quant = number of fractional bits kept in the measurements and guesses (for exact-rational
    evaluation of the model on the same numbers)."""
    freqs = default_freqs(nf)
    em = ErrorModel(rng, typ, 2, nf)
    if tracking_scale is not None:
        em.scale_tracking(tracking_scale)
    sc = Scenario(sid, typ, 2, freqs)
    sc.em = em
    rt, lt, rg, lg = [], [], [], []
    for f in range(nf):
        r = crand(rng, 0.3, 1.5)
        while True:
            l = crand(rng, 0.3, 1.5)
            ang = abs(cmath.phase(l))
            if 0.35 < ang < math.pi - 0.35:         # not too close to a through (l = +-1)
                break
        rt.append(r)
        lt.append(l)
        rg.append(quantise(r + crand(rng, 0.0, gfrac * abs(r)), quant))
        lg.append(quantise(l + crand(rng, 0.0, gfrac * 0.5 * abs(l - 1.0 / l)), quant))
    t = [[0, 1], [1, 0]]
    items = ["T", "R", "L"]
    if swap:
        rng.shuffle(items)
    rn = ln = None

    def meas(s):
        return [[[quantise(z, quant) for z in row] for row in em.measure(s(f), f)] for f in range(nf)]
    sc.trl_meas = {}
    for it in items:
        if it == "T":
            sc.trl_meas["T"] = meas(lambda f: t)
            sc.add_through(1, 2, sc.trl_meas["T"])
        elif it == "R":
            rn = sc.unknown(rt, rg, "r")
            sc.trl_meas["R"] = meas(lambda f: [[rt[f], 0], [0, rt[f]]])
            sc.add_double(rn, rn, 1, 2, sc.trl_meas["R"])
        else:
            ln = sc.unknown(lt, lg, "l")
            sc.trl_meas["L"] = meas(lambda f: [[0, lt[f]], [lt[f], 0]])
            sc.add_line(["match", ln, ln, "match"], 1, 2, sc.trl_meas["L"])
    sc.meta.update({"type": typ, "family": "trl", "order": "".join(items), "quant": quant,
                    "tracking_scale": tracking_scale})
    return sc


# ----------------------------------------------------------------------------- directed scenarios
def _embed(n, ports, small, rng):
    """full n x n truth of a standard that occupies `ports` (1-based); the other ports see
    arbitrary constant terminations without coupling"""
    s = [[0j] * n for _ in range(n)]
    for i in range(n):
        s[i][i] = crand(rng, 0.1, 0.6)
    for a, pa in enumerate(ports):
        for b, pb in enumerate(ports):
            s[pa - 1][pb - 1] = small[a][b]
    return s


def build_partial_s_unknown(rng, sid, typ="T8", n=2, nf=1, merror=None):
    """Candidate D19: single-reflect standards (incomplete S matrix) together with an unknown
    parameter on the Levenberg-Marquardt path."""
    freqs = default_freqs(nf)
    em = ErrorModel(rng, typ, n, nf)
    sc = Scenario(sid, typ, n, freqs)
    sc.em = em
    t = [[0, 1], [1, 0]]
    sc.add_through(1, 2, [em.measure(_embed(n, (1, 2), t, rng), f) for f in range(nf)])
    for port in range(1, n + 1):
        for g, nm in ((-1.0, "short"), (1.0, "open"), (0.0, "match")):
            full = _embed(n, (port,), [[g]], rng)
            sc.add_single(nm, port, [em.measure(full, f) for f in range(nf)])
    for port in range(1, n + 1):
        truth = [crand(rng, 0.4, 0.9)] * nf
        u = sc.unknown(truth, perturb(rng, truth, 0.05))
        full = _embed(n, (port,), [[truth[0]]], rng)
        sc.add_single(u, port, [em.measure(full, f) for f in range(nf)])
    for port in range(1, n + 1):
        g = crand(rng, 0.5, 0.9)
        full = _embed(n, (port,), [[g]], rng)
        sc.add_single(sc.known([g] * nf), port, [em.measure(full, f) for f in range(nf)])
    if merror:
        sc.cmd(merror)
    sc.meta.update({"family": "partial_s_unknown", "type": typ})
    return sc


def build_trl_like_single(rng, sid, typ="T8"):
    """three standards, two unknowns, 2x2, one of them a single reflect: the TRL classifier
    looks at the S cells of a standard whose off-diagonal cells are absent"""
    nf, n = 1, 2
    em = ErrorModel(rng, typ, n, nf)
    sc = Scenario(sid, typ, n, default_freqs(nf))
    sc.em = em
    t = [[0, 1], [1, 0]]
    sc.add_through(1, 2, [em.measure(t, 0)])
    r1 = [crand(rng, 0.5, 0.9)]
    u1 = sc.unknown(r1, perturb(rng, r1, 0.05))
    sc.add_single(u1, 1, [em.measure(_embed(n, (1,), [[r1[0]]], rng), 0)])
    r2 = [crand(rng, 0.5, 0.9)]
    u2 = sc.unknown(r2, perturb(rng, r2, 0.05))
    sc.add_double(u2, u2, 1, 2, [em.measure([[r2[0], 0], [0, r2[0]]], 0)])
    sc.meta.update({"family": "trl_like_single", "type": typ})
    return sc


def build_correlated_exact(rng, sid, typ="T8", n=1, nf=1, merror="merror 1 - 1e-3 -"):
    """Candidate D38: measurement-error modelling on, every system exactly determined, the only
    unknowns are correlated parameters (equations + correlated = error terms + unknowns)."""
    em = ErrorModel(rng, typ, n, nf)
    sc = Scenario(sid, typ, n, default_freqs(nf))
    sc.em = em
    per = unknowns_per_system(typ, n)
    assert n == 1
    vals = [-0.95, 0.9, 0.05j]
    for k in range(per):
        truth = [vals[k]] * nf
        if k == per - 1:
            base = sc.known_vec(truth)
            nm = sc.correlated(base, 0.05, truth)
        else:
            nm = sc.known(truth)
        sc.add_single(nm, 1, [em.measure([[truth[0]]], f) for f in range(nf)])
    if merror:
        sc.cmd(merror)
    sc.meta.update({"family": "correlated_exact", "type": typ})
    return sc


# ----------------------------------------------------------------------------- evaluation helpers
def param_error(sc, res):
    """max |solved - truth| over the unknown parameters and frequencies (None when not available)"""
    worst = 0.0
    for nm, tr in sc.truth.items():
        got = res["params"].get(nm)
        if not got:
            return None
        worst = max(worst, max_err(got[0], tr))
    return worst


def dut_error(sc, res, k=0):
    if len(res["S"]) <= k or not res["S"][k]:
        return None
    worst = 0.0
    for f in range(sc.nf):
        flat = [x for row in sc.dut[f] for x in row]
        if f not in res["S"][k]:
            return None
        worst = max(worst, max_err(res["S"][k][f], flat))
    return worst


def build_wb(ctx):
    h = os.path.join(vplib.VERIF, "harness")
    return ctx.build_harness("selfcal_wb", san=True,
                             extra=[os.path.join(h, "selfcal_wb_simple.c"), os.path.join(h, "selfcal_wb_auto.c"),
                                    os.path.join(h, "selfcal_wb_pvalue.c"), os.path.join(h, "selfcal_wb_trl.c")],
                             exclude=("vnacal_new_solve_simple.c", "vnacal_new_solve_auto.c",
                                      "vnacal_new_solve_pvalue.c", "vnacal_new_solve_trl.c"))


def parse_wb(out):
    """white-box lines -> list of solve_auto runs (one per frequency): each a list of iterations
    {"sum_k","best_sum_k","best","mult","lambda","sum_d","sum_dx","converged"}; plus weights dumps"""
    runs, cur, it = [], None, None
    weights = []
    eqm = []
    mats = []
    for line in out.splitlines():
        if not line.startswith("wb "):
            continue
        p = line.split()
        if p[1] == "weights":
            weights.append({"findex": int(p[2].split("=")[1]), "w": [float(x) for x in p[4:]]})
            eqm.append({})
        elif p[1] == "eqm":
            vals = [float(x) for x in p[4:]]
            eqm[-1][int(p[3].split("=")[1])] = [complex(vals[i], vals[i + 1]) for i in range(0, len(vals), 2)]
        elif p[1] in ("A", "b"):
            vals = [float(x) for x in p[4:]]
            mats.append((p[1], int(p[2]), int(p[3]),
                         [complex(vals[i], vals[i + 1]) for i in range(0, len(vals), 2)]))
        elif p[1] == "qr":
            it = {"best": False, "reject": False, "converged": False, "steps": 0}
            if cur is None:
                cur = []
                runs.append(cur)
            cur.append(it)
        elif p[1] == "mldivide" and it is not None:
            it["steps"] += 1
        elif p[1] == "qrsolve":
            mats.append(("qrsolve", int(p[2]), int(p[3]), None))
        elif p[1] == "ev" and it is not None:
            if p[2] in ("best", "reject"):
                it[p[2]] = True
            elif p[2] == "converged":
                it["converged"] = True
                cur = None
            else:
                it[p[2]] = float(p[3])
        elif p[1] == "endsolve":
            cur = None
    return runs, weights, eqm, mats


# ----------------------------------------------------------------------------- re-solve histories (write-back)
def build_resolve_history(rng, sid, typ, n):
    """The same unknown and correlated parameter handles are solved in several vnacal_new_t
    structures of one vnacal_t, on grids of equal and of different length; after every solve the
    parameters are queried at that solve's frequencies.  Known standards are constant over
    frequency, the unknown's true value depends on the frequency."""
    grids = [[1.0e9, 2.0e9, 3.0e9], [1.5e9, 2.5e9, 3.5e9], [1.2e9, 2.8e9], [2.0e9, 3.3e9], [1.1e9, 2.2e9, 3.4e9]]
    rng.shuffle(grids)
    r0 = crand(rng, 0.5, 0.9)
    slope = rng.uniform(0.05, 0.1) * rng.choice([-1, 1])

    def utruth(f):
        return r0 * cmath.exp(1j * slope * f / 1.0e9)
    base = crand(rng, 0.5, 0.9)
    sc = Scenario(sid, typ, n, grids[0])
    sc.history = []
    fixed = [[rand_reflect(rng, k + port) for port in range(n)] for k in range(3)]
    extra = [[crand(rng, 0.4, 0.9) for port in range(n)] for k in range(2)]
    fulls = [rand_full_s(rng, n) for _ in range(2)] if n > 1 else []
    names = {}

    def kn(z):
        key = complex(z)
        if key not in names:
            names[key] = sc.known([z])
        return names[key]
    guess = sc.known_vec([r0 * cmath.exp(1j * slope * 2.2)] * sc.nf) if False else None
    gname = sc._name("k")
    sc.lines.append("scalar %s %s" % (gname, cnum(r0 * cmath.exp(1j * slope * 2.2) * (1 + 0.03))))
    sc.lines.append("unknown u %s" % gname)
    bname = sc._name("k")
    sc.lines.append("scalar %s %s" % (bname, cnum(base)))
    sc.lines.append("correlated c %s 1 - 0.05" % bname)
    sc.truth = {}
    for gi, grid in enumerate(grids):
        if gi > 0:
            sc.lines.append("newcal %s %d %d %d %s" % (typ, n, n, len(grid), " ".join(fnum(f) for f in grid)))
        sc.freqs, sc.nf = list(grid), len(grid)
        em = ErrorModel(rng, typ, n, sc.nf)
        stds = []
        for k in range(3):
            stds.append(([kn(fixed[k][p]) for p in range(n)], [[fixed[k][p]] * sc.nf for p in range(n)]))
        # the unknown on port 1 (other ports known), the correlated parameter on the last port
        stds.append((["u"] + [kn(extra[0][p]) for p in range(1, n)],
                     [[utruth(f) for f in grid]] + [[extra[0][p]] * sc.nf for p in range(1, n)]))
        stds.append(([kn(extra[1][p]) for p in range(n - 1)] + ["c"],
                     [[extra[1][p]] * sc.nf for p in range(n - 1)] + [[base] * sc.nf]))
        stds.append(([kn(extra[1][p] * 0.5) for p in range(n)], [[extra[1][p] * 0.5] * sc.nf for p in range(n)]))
        for nm, vals in stds:
            nmm = [[nm[i] if i == j else "zero" for j in range(n)] for i in range(n)]
            st = [[[vals[i][f] if i == j else 0j for j in range(n)] for i in range(n)] for f in range(sc.nf)]
            sc.add_mapped(nmm, [em.measure(st[f], f) for f in range(sc.nf)])
        for sf in fulls:
            nmm = [[kn(sf[i][j]) for j in range(n)] for i in range(n)]
            sc.add_mapped(nmm, [em.measure(sf, f) for f in range(sc.nf)])
        sc.cmd("ptol 1e-9")
        sc.cmd("ettol 1e-9")
        sc.solve()
        sc.cmd("getparam u")
        sc.cmd("getparam c")
        sc.history.append((list(grid), {"u": [utruth(f) for f in grid], "c": [base] * len(grid)}))
    sc.meta.update({"family": "resolve_history", "type": typ, "n": n, "grids": grids})
    return sc


# ----------------------------------------------------------------------------- long unknown line, several frequencies
def build_unknown_line_multifreq(rng, sid, typ, nf=6, step_deg=108.0):
    """2-port 8-term calibration from three known double reflects and a matched reciprocal line
    of unknown transmission whose phase advances by step_deg per frequency point; the guess
    (a vector parameter) is within 5 % of the truth at every frequency.  With reflects only,
    -l is also an exact root, so the starting point decides."""
    freqs = [1.0e9 + 0.3e9 * k for k in range(nf)]
    em = ErrorModel(rng, typ, 2, nf)
    sc = Scenario(sid, typ, 2, freqs)
    sc.em = em
    th0 = rng.uniform(0.3, 1.2)
    mag = rng.uniform(0.85, 0.98)
    lt = [mag * cmath.exp(-1j * (th0 + math.radians(step_deg) * k)) for k in range(nf)]
    lg = [z * (1.0 + crand(rng, 0.01, 0.05)) for z in lt]
    for a, b in ((-1.0, -1.0), (1.0, 1.0), (0.0, 0.0)):
        ga = a * rng.uniform(0.9, 1.0) + crand(rng, 0, 0.05)
        gb = b * rng.uniform(0.9, 1.0) + crand(rng, 0, 0.05)
        sc.add_double(sc.known([ga]), sc.known([gb]), 1, 2,
                      [em.measure([[ga, 0], [0, gb]], f) for f in range(nf)])
    ln = sc.unknown(lt, lg, "l")
    sc.add_line(["match", ln, ln, "match"], 1, 2, [em.measure([[0, lt[f]], [lt[f], 0]], f) for f in range(nf)])
    sc.meta.update({"family": "unknown_line_multifreq", "type": typ, "nf": nf, "step_deg": step_deg})
    return sc


# ----------------------------------------------------------------------------- TRL-shaped inputs
TRL_VARIANTS = ["exact_trl", "mismatched_line", "mismatched_line_two", "asym_through", "reflect_two_unknowns",
                "reflect_known_one_port", "line_two_unknowns", "correlated_reflect", "trl_with_merror",
                "four_standards", "known_reflect_on_line_diag_unknown"]


def build_trl_shaped(rng, sid, typ, variant, order=None):
    """Three (or four) 2-port standards that look like through / reflect / line; only
    variant 'exact_trl' is a TRL calibration.  Records the cell classes of every standard
    (sc.std_cells: Z zero, O one, K<i> known, U<i> unknown, C<i> correlated) for the dispatch model."""
    nf = 1
    em = ErrorModel(rng, typ, 2, nf)
    sc = Scenario(sid, typ, 2, default_freqs(nf))
    sc.em = em
    ids = {}

    def tok(name):
        if name in ("zero", "match"):
            return "Z"
        if name in ("one", "open"):
            return "O"
        if name not in ids:
            ids[name] = len(ids)
        kind = "U" if name in sc.guess else ("C" if name in sc.truth else "K")
        return "%s%d" % (kind, ids[name])
    r = crand(rng, 0.4, 0.9)
    while True:
        l = crand(rng, 0.5, 0.95)
        if 0.5 < abs(cmath.phase(l)) < math.pi - 0.5:
            break

    def unk(truth, name):
        return sc.unknown([truth], [truth * (1.0 + crand(rng, 0.01, 0.04))], name)
    items = []          # (kind, names4, truth 2x2)
    tnames, ttruth = ["zero", "one", "one", "zero"], [[0, 1], [1, 0]]
    if variant == "asym_through":
        k = crand(rng, 0.8, 0.97)
        tnames, ttruth = ["zero", "one", sc.known([k]), "zero"], [[0, 1], [k, 0]]
    items.append(("T", tnames, ttruth))
    if variant == "reflect_two_unknowns":
        r2 = crand(rng, 0.4, 0.9)
        items.append(("R", [unk(r, "r"), "zero", "zero", unk(r2, "r2")], [[r, 0], [0, r2]]))
    elif variant == "reflect_known_one_port":
        r2 = crand(rng, 0.4, 0.9)
        items.append(("R", [unk(r, "r"), "zero", "zero", sc.known([r2])], [[r, 0], [0, r2]]))
    elif variant == "correlated_reflect":
        base = sc.known_vec([r])
        cn = sc.correlated(base, 0.05, [r], "r")
        items.append(("R", [cn, "zero", "zero", cn], [[r, 0], [0, r]]))
    else:
        rn = unk(r, "r")
        items.append(("R", [rn, "zero", "zero", rn], [[r, 0], [0, r]]))
    if variant == "mismatched_line":
        g = 0.08 + 0.03j
        gn = sc.known([g])
        ln = unk(l, "l")
        items.append(("L", [gn, ln, ln, gn], [[g, l], [l, g]]))
    elif variant == "mismatched_line_two":
        g1, g2 = 0.08 + 0.03j, -0.05 + 0.06j
        ln = unk(l, "l")
        items.append(("L", [sc.known([g1]), ln, ln, sc.known([g2])], [[g1, l], [l, g2]]))
    elif variant == "line_two_unknowns":
        l2 = l * cmath.exp(0.3j)
        items.append(("L", ["zero", unk(l, "l"), unk(l2, "l2"), "zero"], [[0, l], [l2, 0]]))
    elif variant == "known_reflect_on_line_diag_unknown":
        # "line" whose diagonal is the unknown reflect and whose transmission is known
        k = crand(rng, 0.5, 0.9)
        kn = sc.known([k])
        ln = unk(l, "l")
        items.append(("L", [ln, kn, kn, ln], [[l, k], [k, l]]))
    else:
        ln = unk(l, "l")
        items.append(("L", ["zero", ln, ln, "zero"], [[0, l], [l, 0]]))
    if variant == "four_standards":
        items.append(("X", ["zero", "zero", "zero", "zero"], [[0, 0], [0, 0]]))
    if order is None:
        order = list(range(len(items)))
        rng.shuffle(order)
    sc.std_cells = []
    for i in order:
        kind, nm, tr = items[i]
        sc.add_line(nm, 1, 2, [em.measure(tr, 0)])
        sc.std_cells.append([tok(x) for x in nm])
    if variant == "trl_with_merror":
        sc.cmd("merror 1 - 1e-4 -")
    sc.meta.update({"family": "trl_shaped", "variant": variant, "type": typ,
                    "m_error": variant == "trl_with_merror"})
    return sc


# ----------------------------------------------------------------------------- partial standards in TRL-sized calibrations
TRL_PARTIAL_VARIANTS = ["single1_single2_through", "single2_double_through", "single1_double_through",
                        "line_single2_through", "double2unk_single2known_through", "single2_single2_through",
                        "reflect_line_single1"]


def build_trl_partial(rng, sid, typ, variant, order):
    """2x2, exactly three standards and exactly two unknown parameters, at least one of the standards
    with absent S cells (single reflect: [u N; N N] completed by the library to [u 0; 0 N] resp.
    [N 0; 0 u]).  _vnacal_new_solve_is_trl passes its count tests and classifies the standards.
    Records sc.std_cells with A for an absent cell."""
    nf, n = 1, 2
    em = ErrorModel(rng, typ, n, nf)
    sc = Scenario(sid, typ, n, default_freqs(nf))
    sc.em = em
    ids = {}

    def tok(name):
        if name is None:
            return "A"
        if name in ("zero", "match"):
            return "Z"
        if name in ("one", "open"):
            return "O"
        if name not in ids:
            ids[name] = len(ids)
        kind = "U" if name in sc.guess else ("C" if name in sc.truth else "K")
        return "%s%d" % (kind, ids[name])

    def unk(name):
        t = crand(rng, 0.4, 0.9)
        return sc.unknown([t], [t * (1.0 + crand(rng, 0.01, 0.04))], name), t

    def single(name, truth, port):
        full = _embed(n, (port,), [[truth]], rng)
        cells = [name, "zero", "zero", None] if port == 1 else [None, "zero", "zero", name]
        return ("single", (name, port), full, cells)

    def double(n1, t1, n2, t2):
        return ("double", (n1, n2), [[t1, 0], [0, t2]], [n1, "zero", "zero", n2])
    through = ("through", None, [[0, 1], [1, 0]], ["zero", "one", "one", "zero"])
    u1, t1 = unk("u1")
    u2, t2 = unk("u2")
    if variant == "single1_single2_through":
        items = [single(u1, t1, 1), single(u2, t2, 2), through]
    elif variant == "single2_double_through":
        items = [single(u1, t1, 2), double(u2, t2, u2, t2), through]
    elif variant == "single1_double_through":
        items = [single(u1, t1, 1), double(u2, t2, u2, t2), through]
    elif variant == "line_single2_through":
        items = [("line", None, [[0, t1], [t1, 0]], ["zero", u1, u1, "zero"]), single(u2, t2, 2), through]
    elif variant == "double2unk_single2known_through":
        k = crand(rng, 0.5, 0.9)
        items = [double(u1, t1, u2, t2), single(sc.known([k]), k, 2), through]
    elif variant == "single2_single2_through":
        items = [single(u1, t1, 2), single(u2, t2, 2), through]
    else:   # reflect_line_single1: T missing, R and L present, third standard partial
        k = crand(rng, 0.5, 0.9)
        items = [double(u1, t1, u1, t1), ("line", None, [[0, t2], [t2, 0]], ["zero", u2, u2, "zero"]),
                 single(sc.known([k]), k, 1)]
    sc.std_cells = []
    for i in order:
        kind, arg, truth, cells = items[i]
        ms = [em.measure(truth, 0)]
        if kind == "single":
            sc.add_single(arg[0], arg[1], ms)
        elif kind == "double":
            sc.add_double(arg[0], arg[1], 1, 2, ms)
        elif kind == "through":
            sc.add_through(1, 2, ms)
        else:
            sc.add_line(cells, 1, 2, ms)
        sc.std_cells.append([tok(x) for x in cells])
    sc.meta.update({"family": "trl_partial", "variant": variant, "type": typ, "order": list(order), "m_error": False})
    return sc


def build_unequal_systems(rng, sid, typ, n=2, k_first=7, k_other=2, merror="merror 1 - 1e-3 1e-2"):
    """UE14 / E12: many single reflects on port 1, few on the other ports, one through: the linear
    system of column 1 is over-determined, the others are not, so that with measurement-error
    modelling _vnacal_new_solve_init allocates the V matrix of system 0 only."""
    nf = 1
    em = ErrorModel(rng, typ, n, nf)
    sc = Scenario(sid, typ, n, default_freqs(nf))
    sc.em = em
    t = [[0, 1], [1, 0]]
    sc.add_through(1, 2, [em.measure(_embed(n, (1, 2), t, rng), 0)])
    for port in range(1, n + 1):
        for k in range(k_first if port == 1 else k_other):
            g = rand_reflect(rng, k)
            sc.add_single(sc.known([g]), port, [em.measure(_embed(n, (port,), [[g]], rng), 0)])
    if merror:
        sc.cmd(merror)
    sc.meta.update({"family": "unequal_systems", "type": typ, "n": n})
    return sc


# ----------------------------------------------------------------------------- checked-memory walks (GuardModel)
def guard_compare(ctx, wb, drv, sc):
    """Run `wbguard` (harness/selfcal_harness.c, white-box build) on the scenario's calibration and
    compare the three walks with the extracted coq/SelfCal/GuardModel.v on the same pointer shapes
    and markers.  Returns a dict: crash (sanitizer signature or None), s (ok, detail, cells seen),
    shape / save / restore (ok, detail), stats."""
    lines = [l for l in sc.lines if l != "solve" and not l.startswith(("getparam", "apply"))]
    text = "\n".join(lines + ["wbguard", "end"]) + "\n"
    rc, out, err = vplib.sh([wb], input=text, timeout=120, env=run_env(ctx))
    res = {"crash": None, "s": (None, ""), "shape": (None, ""), "save": (None, ""), "restore": (None, ""),
           "stats": {}, "stderr": err[-2000:]}
    if rc != 0 or "wb guard done" not in out:
        res["crash"] = vplib.asan_signature(err) or {"kind": "fault", "error": "exit %d" % rc, "function": None}
        return res
    rec = {"scells": {}, "sbefore": {}, "safter": {}, "vshape": {}, "vafter": []}
    for line in out.splitlines():
        p = line.split()
        if len(p) < 2 or p[0] != "wb":
            continue
        if p[1] == "sdim":
            rec["sdim"] = [int(x) for x in p[2:]]
        elif p[1] in ("scells", "sbefore", "safter"):
            rec[p[1]][int(p[2])] = p[3:]
        elif p[1] == "vdim":
            rec["vdim"] = [int(x) for x in p[2:]]
        elif p[1] == "vshape":
            rec["vshape"][int(p[2])] = p[3:]
        elif p[1] == "vbuf":
            rec["vbuf"] = p[2:]
        elif p[1] == "vafter":
            rec["vafter"].append((int(p[2]), int(p[3]), p[4:]))
    sr, scn, nstd, nunk, nf = rec["sdim"]
    # ---- update_s_matrices
    pv = " ".join(str(1000 * (u + 1) + f) for u in range(nunk) for f in range(nf))
    q = "updates %d %d %d %d 0 %s %d %s" % (
        sr, scn, nunk, nf, pv, nstd,
        " ".join(" ".join(rec["scells"][i]) + " " + " ".join(rec["sbefore"][i]) for i in range(nstd)))
    got_c = [v for i in range(nstd) for v in rec["safter"][i]]
    systems, v_cells, nstd2, ups, merr = rec["vdim"][:5]
    eqc = rec["vdim"][5:]
    qs = [q, "vinit %d %d %d %d %s" % (v_cells, merr, ups, systems, " ".join(map(str, eqc)))]
    # ---- V matrices: shapes as observed, markers as the harness wrote them
    marker = 1
    sv, rs = [], []
    for i in range(nstd):
        sh_ = rec["vshape"][i]
        if sh_ == ["-"]:
            sv.append("-")
            rs.append("-")
            continue
        a, b = ["v"], ["v"]
        for t in sh_:
            if t == "N":
                a.append("N")
                b.append("N")
            else:
                a.append("P " + " ".join(str(marker + c) for c in range(v_cells)))
                b.append("P " + " ".join(str(9000 + c) for c in range(v_cells)))
                marker += v_cells
        sv.append(" ".join(a))
        rs.append(" ".join(b))
    blen = nstd * systems * v_cells
    qs.append("vsave %d %d %d %s %d %s" % (systems, v_cells, nstd, " ".join(sv), blen, " ".join(["7777"] * blen)))
    qs.append("vrestore %d %d %d %s %d %s" % (systems, v_cells, nstd, " ".join(rs), blen, " ".join(rec.get("vbuf", []))))
    rc, mout, merr_ = vplib.sh([drv], input="\n".join(qs) + "\n", timeout=120)
    ml = [l.split() for l in mout.splitlines() if l]
    if rc != 0 or len(ml) != 4:
        for k in ("s", "shape", "save", "restore"):
            res[k] = (False, "model driver failed: %s" % merr_[-200:])
        return res
    mu, mi, ms, mr = ml
    ncells_absent = sum(1 for i in range(nstd) for t in rec["scells"][i] if t == "N")
    ncells_unknown = sum(1 for i in range(nstd) for t in rec["scells"][i] if t.startswith("U"))
    res["stats"] = {"absent_cells": ncells_absent, "unknown_cells": ncells_unknown,
                    "null_vectors": sum(1 for i in range(nstd) if rec["vshape"][i] == ["-"]),
                    "null_matrices": sum(rec["vshape"][i].count("N") for i in range(nstd)),
                    "present_matrices": sum(rec["vshape"][i].count("P") for i in range(nstd))}
    ok = mu[:2] == ["updates", "ok"] and mu[2:] == got_c
    res["s"] = (ok, "" if ok else "%s: cells %s: s matrices after update_s_matrices %s, model %s"
                % (sc.sid, [rec["scells"][i] for i in range(nstd)], got_c, mu[1:]))
    want_shape = mi[1:]
    bad = [i for i in range(nstd) if rec["vshape"][i] != want_shape]
    res["shape"] = (not bad, "" if not bad else "%s: standard %d: V vector shape %s, model of _vnacal_new_solve_init %s "
                    "(equation counts %s, unknowns %d, m_error %d)" % (sc.sid, bad[0], rec["vshape"][bad[0]], want_shape, eqc, ups, merr))
    ok = ms[:2] == ["vsave", "ok"] and ms[2:] == rec.get("vbuf", [])
    res["save"] = (ok, "" if ok else "%s: buffer after save_v_matrices %s, model %s" % (sc.sid, rec.get("vbuf"), ms[1:]))
    got_r = [v for (_, _, vals) in rec["vafter"] for v in vals]
    ok = mr[:2] == ["vrestore", "ok"] and mr[2:] == got_r
    res["restore"] = (ok, "" if ok else "%s: V matrices after restore_v_matrices %s, model %s" % (sc.sid, got_r, mr[1:]))
    return res


def build_rectangular_unknowns(rng, sid, typ, mr, mc):
    """A calibration whose measurement matrix is not square (T types 1x2, U / E types 2x1): the
    standards still have ports x ports S matrices; unknown parameters sit in cells outside the
    leading mr x mc block (S12, S21, S22).  Only the add calls matter (used for the white-box walk
    of the solve state), the measured values are those of a square network cut to mr x mc."""
    nf, n = 1, 2
    em = ErrorModel(rng, "T8" if typ[0] == "T" else "U8", n, nf)
    sc = Scenario(sid, typ, n, default_freqs(nf))
    sc.lines[1] = "cal %s %d %d %d %s" % (typ, mr, mc, nf, " ".join(fnum(f) for f in sc.freqs))
    sc.em = em

    def cut(m):
        return [[m[i][j] for j in range(mc)] for i in range(mr)]
    l = crand(rng, 0.5, 0.9)
    r = crand(rng, 0.4, 0.9)
    l2 = crand(rng, 0.5, 0.9)
    ln = sc.unknown([l], [l * 1.02], "l")
    rn = sc.unknown([r], [r * 1.02], "r")
    l2n = sc.unknown([l2], [l2 * 1.02], "l2")
    sc.add_through(1, 2, [cut(em.measure([[0, 1], [1, 0]], 0))])
    sc.add_line(["match", ln, ln, "match"], 1, 2, [cut(em.measure([[0, l], [l, 0]], 0))])
    sc.add_double(rn, rn, 1, 2, [cut(em.measure([[r, 0], [0, r]], 0))])
    sc.add_line([sc.known([0.1]), ln, l2n, rn], 1, 2, [cut(em.measure([[0.1, l], [l2, r]], 0))])
    sc.meta.update({"family": "rectangular_unknowns", "type": typ, "mr": mr, "mc": mc})
    return sc


# ----------------------------------------------------------------------------- C18: unequal column systems, leakage sample counts
def _noisy(ms, noise):
    """measurement noise of exactly the declared model (sigma_nf, sigma_tr, rng) on a list of matrices"""
    if noise is None:
        return ms
    snf, str_, nrng = noise
    return [[[z + cgauss(nrng, math.sqrt(snf * snf + str_ * str_ * abs(z) ** 2)) for z in row] for row in m] for m in ms]


def build_unequal_columns(rng, sid, typ, n, extra, nf=1, n_unknown=0, excess=2, noise=None):
    """build_general (a determining, over-determined set with the same number of equations in every
    system) followed by extra[p] further known single-reflect standards on port p + 1.  For UE14 /
    E12 a single reflect on port p adds one equation to the system of column p only, so that the
    column systems get DIFFERENT equation counts (e.g. extra = [2, 1, 0]: five, four, three more
    than ... on ports 1, 2, 3); it also adds one leakage sample to the cells of row / column p, so
    that the cells have different sample counts.  For the other types it adds equations to the one
    system."""
    sc = build_general(rng, sid, typ, n, nf, n_unknown, 0, excess=excess, noise=noise)
    for port in range(1, n + 1):
        for k in range(extra[port - 1]):
            g = crand(rng, 0.15, 0.95)
            full = _embed(n, (port,), [[g]], rng)
            ms = _noisy([sc.em.measure(full, f) for f in range(nf)], noise)
            sc.add_single(sc.known([g] * nf), port, ms)
    sc.meta.update({"family": "unequal_columns", "extra": list(extra)})
    return sc


def build_connected_only(rng, sid, typ, n, nfull, nsep=0, nf=1, noise=None):
    """nfull known standards that connect every pair of ports (random full n-port S, none of the
    off-diagonal cells zero) and nsep multi-reflect standards (diagonal S: no path between any two
    ports).  Every off-diagonal leakage cell gets exactly nsep samples: 0 when nsep = 0 (every
    standard connects the ports), 1, or more."""
    freqs = default_freqs(nf)
    em = ErrorModel(rng, typ, n, nf)
    sc = Scenario(sid, typ, n, freqs)
    sc.em = em
    stds = []
    for k in range(nfull):
        sf = rand_full_s(rng, n)
        nm = [[sc.known([sf[i][j]] * nf) for j in range(n)] for i in range(n)]
        stds.append((nm, [sf] * nf))
    for k in range(nsep):
        g = [rand_reflect(rng, k + p) for p in range(n)]
        nm = [[sc.known([g[i]] * nf) if i == j else "zero" for j in range(n)] for i in range(n)]
        stds.append((nm, [[[g[i] if i == j else 0j for j in range(n)] for i in range(n)]] * nf))
    rng.shuffle(stds)
    for nm, st in stds:
        sc.add_mapped(nm, _noisy([em.measure(st[f], f) for f in range(nf)], noise))
    sc.nstd = len(stds)
    sc.meta.update({"family": "connected_only", "type": typ, "n": n, "nfull": nfull, "nsep": nsep,
                    "expected_leak_count": nsep})
    return sc


def parse_pvalue_taps(out):
    """white-box lines of the _vnacal_new_solve_calc_pvalue tap -> one dict per call:
    {"findex", "unknowns", "eqs": [..], "cells": [((row, col), count, [(given, connected), ...])],
     "exp": [arguments of exp() inside the call], "p": returned p-value}"""
    calls, cur = [], None
    for line in out.splitlines():
        if not line.startswith("wb "):
            continue
        p = line.split()
        if p[1] == "pvin":
            d = dict(x.split("=", 1) for x in p[2:])
            cur = {"findex": int(d["findex"]), "unknowns": int(d["unknowns"]),
                   "eqs": [int(x) for x in d["eqs"].split(",") if x], "cells": [], "exp": [], "p": None}
            calls.append(cur)
        elif cur is None:
            continue
        elif p[1] == "leakcell":
            d = dict(x.split("=", 1) for x in p[4:])
            std = [(t[0] == "1", t[1] == "1") for t in d["std"].split(",") if t]
            cur["cells"].append(((int(p[2]), int(p[3])), int(d["count"]), std))
        elif p[1] == "exp" and cur["p"] is None:
            cur["exp"].append(float(p[2]))
        elif p[1] == "pvout":
            cur["p"] = float(p[2])
            cur = None
    return calls


# ----------------------------------------------------------------------------- C18: exact rationals for the models
from fractions import Fraction


def qstr(x):
    """exact value of a double (or int / Fraction) as "p/q" for the extracted drivers"""
    f = Fraction(x)
    return "%d/%d" % (f.numerator, f.denominator)


def qparse(s):
    a, b = s.split("/") if "/" in s else (s, "1")
    return Fraction(int(a), int(b))


F_EXTRAPOLATION = 0.01          # VNACAL_F_EXTRAPOLATION (src/vnacal_internal.h)


# ----------------------------------------------------------------------------- C18: histories of vnacal_new_set_m_error
MERR_VALID = ["off", "one", "one_tr", "cal", "cal_tr", "own", "own_tr"]
MERR_INVALID = ["nonf", "nf_nonpos", "tr_neg", "not_ascending", "out_of_range", "bad_count"]


def gen_merror_call(rng, freqs, kind):
    """One call of vnacal_new_set_m_error on a calibration with frequencies `freqs`:
    -> {"kind", "cmd" (harness command), "n" (frequencies argument), "fv", "nf", "tr" (lists or None = NULL),
        "tab": [(fv, ys, values at the calibration frequencies)] for the spline calls, "spline": bool}.
    Own-grid data are LINEAR in frequency (sigma_nf rising, sigma_tr falling), so that any interpolation
    through the given points has the stated values at every calibration frequency."""
    nfq = len(freqs)
    lo, hi = freqs[0], freqs[-1]
    snf = rng.choice([1e-6, 1e-4, 1e-2]) * rng.uniform(0.5, 2.0)
    strk = rng.choice([0.0, 1e-5, 1e-3, 1e-1]) * rng.uniform(0.5, 2.0)
    c = {"kind": kind, "tab": [], "spline": False, "fv": None, "nf": None, "tr": None, "n": 1}

    def own_grid():
        lay = rng.choice(["two", "two_off", "own", "own_off"])
        if lay == "two":
            gf = [lo, hi] if nfq > 1 else [lo * 0.5, lo * 1.5]
        elif lay == "two_off":
            gf = [lo * 0.9, hi * 1.1]
        elif lay == "own":
            gf = sorted(set([lo * 0.75] + list(freqs) + [0.5 * (freqs[i] + freqs[i + 1]) for i in range(nfq - 1)] + [hi * 1.25]))
        else:
            k = rng.choice([3, 4, 6])
            gf = [lo * 0.8 + (hi * 1.2 - lo * 0.8) * (i / float(k - 1)) ** 1.3 for i in range(k)]
        return gf

    def linear(gf, base, slope):
        span = gf[-1] - gf[0]
        return lambda f: base * (1.0 + slope * (f - gf[0]) / span)

    def finish():
        n = c["n"]
        fvt = "-" if c["fv"] is None else " ".join(fnum(x) for x in c["fv"])
        if c["nf"] is None:
            c["cmd"] = "merror_nonf %d %s" % (n, " ".join(fnum(x) for x in c["tr"]))
        else:
            c["cmd"] = "merror %d %s %s %s" % (n, fvt, " ".join(fnum(x) for x in c["nf"]),
                                               "-" if c["tr"] is None else " ".join(fnum(x) for x in c["tr"]))
        return c

    if kind == "off":
        c["cmd"] = "merror off"
        return c
    if kind in ("one", "one_tr"):
        c["nf"] = [snf]
        c["tr"] = [strk] if kind == "one_tr" else None
        if nfq == 1 and rng.random() < 0.4:
            c["fv"] = [lo]                      # frequencies == 1 WITH a frequency vector: still element 0
        return finish()
    if kind in ("cal", "cal_tr"):
        c["n"] = nfq
        c["nf"] = [snf * (1 + 0.5 * i) for i in range(nfq)]
        c["tr"] = [strk * (1 + 0.25 * i) for i in range(nfq)] if kind == "cal_tr" else None
        return finish()
    if kind in ("own", "own_tr"):
        gf = own_grid()
        nf_of, tr_of = linear(gf, snf, 0.5), linear(gf, 2.0 * strk, -0.4)
        c["n"], c["fv"], c["spline"] = len(gf), gf, True
        c["nf"] = [nf_of(f) for f in gf]
        c["tab"].append((gf, c["nf"], [nf_of(f) for f in freqs]))
        if kind == "own_tr":
            c["tr"] = [tr_of(f) for f in gf]
            c["tab"].append((gf, c["tr"], [tr_of(f) for f in freqs]))
        return finish()
    # ---- calls the function must reject (return -1, nothing stored or changed)
    if kind == "nonf":
        c["n"] = rng.choice([1, nfq])
        c["tr"] = [max(strk, 1e-6)] * c["n"]
        return finish()
    if kind in ("nf_nonpos", "tr_neg"):
        c["n"] = rng.choice([1, nfq])
        c["nf"] = [snf] * c["n"]
        c["tr"] = [strk] * c["n"]
        i = rng.randrange(c["n"])
        if kind == "nf_nonpos":
            c["nf"][i] = rng.choice([0.0, -snf])
            if rng.random() < 0.5:
                c["tr"] = None
        else:
            c["tr"][i] = -max(strk, 1e-6)
        return finish()
    gf = own_grid()
    if kind == "not_ascending":
        i = rng.randrange(1, len(gf))
        if rng.random() < 0.5:
            gf[i] = gf[i - 1]
        else:
            gf[i - 1], gf[i] = gf[i], gf[i - 1]
    elif kind == "out_of_range":
        if rng.random() < 0.5:
            gf = [lo * 1.02 + (g - gf[0]) for g in gf]            # starts above (1 + 0.01) fmin
        else:
            sh_ = hi * 0.98 - gf[-1]
            gf = [g + sh_ for g in gf]                            # ends below (1 - 0.01) fmax
            if gf[0] <= 0:
                gf = [hi * 0.5 + (hi * 0.48) * i / float(len(gf) - 1) for i in range(len(gf))]
    if kind == "bad_count":
        c["n"] = nfq + 1
        c["nf"] = [snf] * c["n"]
        c["tr"] = [strk] * c["n"] if rng.random() < 0.5 else None
        return finish()
    c["n"], c["fv"] = len(gf), gf
    c["nf"] = [snf] * len(gf)
    c["tr"] = [strk] * len(gf) if rng.random() < 0.5 else None
    # a rejected call never reaches the interpolation, but the model's table must be total
    c["tab"].append((gf, c["nf"], [snf] * nfq))
    if c["tr"] is not None:
        c["tab"].append((gf, c["tr"], [strk] * nfq))
    return finish()


def merror_history_scenario(sid, typ, n, freqs, calls):
    """calibration without standards; every call followed by a dump of the stored vector"""
    sc = Scenario(sid, typ, n, freqs)
    for c in calls:
        sc.cmd(c["cmd"])
        sc.cmd("dumpmerror")
    sc.meta.update({"family": "merror_history", "type": typ, "kinds": [c["kind"] for c in calls],
                    "calls": [c["cmd"] for c in calls]})
    return sc


def merror_model_query(freqs, calls, fresh_seed=0):
    """the `merra` line for ocaml/drv_selfcal.ml: environment of the calibration, interpolation table,
    the calls with their arguments as exact rationals, arbitrary malloc contents"""
    F = len(freqs)
    lo = (1.0 + F_EXTRAPOLATION) * freqs[0]
    hi = (1.0 - F_EXTRAPOLATION) * freqs[-1]
    tab = [t for c in calls for t in c["tab"]]
    out = ["merra", str(F)] + [qstr(f) for f in freqs] + ["1", qstr(lo), qstr(hi), "1", str(len(tab))]
    for fv, ys, vals in tab:
        out += [str(len(fv))] + [qstr(x) for x in fv] + [qstr(x) for x in ys] + [qstr(x) for x in vals]
    out.append(str(len(calls)))
    for k, c in enumerate(calls):
        out.append(str(c["n"]))
        for key in ("fv", "nf", "tr"):
            out += ["-"] if c[key] is None else [qstr(x) for x in c[key]]
        for i in range(F):
            out += ["%d/7" % (900 + 10 * k + i + fresh_seed), "%d/3" % (500 + 10 * k + i + fresh_seed)]
    return " ".join(out)


def parse_merra(line):
    """-> [(returned 0?, None | [(nf, tr) as Fractions])] per call"""
    out = []
    p = line.split()
    assert p[0] == "merra"
    for i in range(1, len(p), 2):
        r = p[i].split("=")[1] == "1"
        s = p[i + 1].split("=", 1)[1]
        out.append((r, None if s == "none" else [tuple(qparse(x) for x in pr.split(",")) for pr in s.split(";")]))
    return out


# ----------------------------------------------------------------------------- C18: leakage sample patterns
def build_leak_pattern(rng, sid, typ, n, nfull, pairs=(), nsep=0, nf=1, noise=None):
    """nfull known standards connecting every pair of ports; for every (a, b) of `pairs` a standard that
    connects ports a and b only (random full 2-port between them, the other ports terminated, no
    coupling); nsep multi-reflect standards (no path between any two ports).  The off-diagonal leakage
    cell (r, c) gets one sample from every standard WITHOUT a path between r and c: nsep + the number of
    pair standards other than {r, c}'s own -- 0 for some cells, 1 or more for others, depending on the
    pattern.  The error model has no leakage in cells without a sample (the library cannot estimate it
    there and assumes none), so that the data are consistent up to the added noise."""
    freqs = default_freqs(nf)
    em = ErrorModel(rng, typ, n, nf)
    counts = {}
    for r in range(n):
        for c in range(n):
            if r != c:
                counts[(r, c)] = nsep + sum(1 for (a, b) in pairs if {a - 1, b - 1} != {r, c})
    for f in range(nf):
        for (el, et, emm, er) in em.cols[f]:
            for (r, c), k in counts.items():
                if k == 0:
                    el[r][c] = 0j
    sc = Scenario(sid, typ, n, freqs)
    sc.em = em
    stds = []
    for k in range(nfull):
        sf = rand_full_s(rng, n)
        nm = [[sc.known([sf[i][j]] * nf) for j in range(n)] for i in range(n)]
        stds.append((nm, sf))
    for (a, b) in pairs:
        two = rand_full_s(rng, 2)
        s = [[0j] * n for _ in range(n)]
        for i in range(n):
            s[i][i] = rand_reflect(rng, i)
        for i, pi_ in enumerate((a - 1, b - 1)):
            for j, pj in enumerate((a - 1, b - 1)):
                s[pi_][pj] = two[i][j]
        nm = [[sc.known([s[i][j]] * nf) if (i == j or {i, j} == {a - 1, b - 1}) else "zero" for j in range(n)] for i in range(n)]
        stds.append((nm, s))
    for k in range(nsep):
        g = [rand_reflect(rng, k + p) for p in range(n)]
        nm = [[sc.known([g[i]] * nf) if i == j else "zero" for j in range(n)] for i in range(n)]
        stds.append((nm, [[g[i] if i == j else 0j for j in range(n)] for i in range(n)]))
    rng.shuffle(stds)
    for nm, st in stds:
        sc.add_mapped(nm, _noisy([em.measure(st, f) for f in range(nf)], noise))
    sc.nstd = len(stds)
    sc.meta.update({"family": "leak_pattern", "type": typ, "n": n, "nfull": nfull, "pairs": [list(p) for p in pairs],
                    "nsep": nsep, "expected_leak_counts": sorted(set(counts.values()))})
    sc.leak_counts = counts
    return sc


def parse_pvalue_inputs(out):
    """white-box dump "wb <mode> <trace> 2" -> one dict per call of _vnacal_new_solve_calc_pvalue:
    parse_pvalue_taps plus {"noise": (nf, tr), "x": [...], "eqs_terms": {sindex: [(own m, [term])]},
    "leak": [((row, col), count, sum, sumsq, [(given, connected, m)])], "expval": [values of exp()]}"""
    calls, cur = [], None
    for line in out.splitlines():
        if not line.startswith("wb "):
            continue
        p = line.split()
        if p[1] == "pvin":
            d = dict(x.split("=", 1) for x in p[2:])
            cur = {"findex": int(d["findex"]), "unknowns": int(d["unknowns"]),
                   "eqs": [int(x) for x in d["eqs"].split(",") if x], "cells": [], "exp": [], "expval": [], "p": None,
                   "noise": None, "x": None, "eqs_terms": {}, "leak": []}
            calls.append(cur)
        elif cur is None:
            continue
        elif p[1] == "leakcell":
            d = dict(x.split("=", 1) for x in p[4:])
            std = [(t[0] == "1", t[1] == "1") for t in d["std"].split(",") if t]
            cur["cells"].append(((int(p[2]), int(p[3])), int(d["count"]), std))
        elif p[1] == "pvnoise":
            cur["noise"] = (float(p[2]), float(p[3]))
        elif p[1] == "pvx":
            v = [float(x) for x in p[3:]]
            cur["x"] = [(v[i], v[i + 1]) for i in range(0, len(v), 2)]
        elif p[1] == "pveq":
            s = int(p[2])
            own = (float(p[3]), float(p[4]))
            terms, i = [], 5
            while i < len(p):
                neg = p[i] == "1"
                i += 1
                fac = []
                for _ in range(3):
                    if p[i] == "-":
                        fac.append(None)
                        i += 1
                    else:
                        fac.append((float(p[i]), float(p[i + 1])))
                        i += 2
                xi = None if p[i] == "-" else int(p[i])
                i += 1
                terms.append((neg, fac[0], fac[1], fac[2], xi))
            cur["eqs_terms"].setdefault(s, []).append((own, terms))
        elif p[1] == "pvleak":
            nstd = int(p[8])
            stds = []
            for k in range(nstd):
                t = p[9 + 3 * k]
                stds.append((t[0] == "1", t[1] == "1", (float(p[10 + 3 * k]), float(p[11 + 3 * k]))))
            cur["leak"].append(((int(p[2]), int(p[3])), int(p[4]), (float(p[5]), float(p[6])), float(p[7]), stds))
        elif p[1] == "exp" and cur["p"] is None:
            cur["exp"].append(float(p[2]))
            if len(p) > 3:
                cur["expval"].append(float(p[3]))
        elif p[1] == "pvout":
            cur["p"] = float(p[2])
            cur = None
    return calls


def pvstat_query(call):
    """the `pvstat` line of ocaml/drv_selfcal.ml from one parsed call (exact values of the doubles)"""
    def cx(z):
        return "%s %s" % (qstr(z[0]), qstr(z[1]))

    def ocx(z):
        return "-" if z is None else cx(z)
    nfv, trv = call["noise"]
    out = ["pvstat", str(call["unknowns"]), qstr(nfv), qstr(trv), str(len(call["x"]))] + [cx(z) for z in call["x"]]
    nsys = len(call["eqs"])
    out.append(str(nsys))
    for s in range(nsys):
        eqs = call["eqs_terms"].get(s, [])
        out.append(str(len(eqs)))
        for own, terms in eqs:
            out += [cx(own), str(len(terms))]
            for (neg, m, s_, v, xi) in terms:
                out += ["1" if neg else "0", ocx(m), ocx(s_), ocx(v), "-" if xi is None else str(xi)]
    if not call["cells"]:
        out.append("-")
    else:
        out.append(str(len(call["leak"])))
        for (_, _, _, _, stds) in call["leak"]:
            out.append(str(len(stds)))
            for (g, c, m) in stds:
                out += ["%d%d" % (1 if g else 0, 1 if c else 0), cx(m)]
    return " ".join(out)
