"""stub (replaced below)"""
C03_VFILES = []
C12_VFILES = []
MODELLED = []
def run_tie(ctx, exe, prop):
    return []
MODELLED_C12 = []
