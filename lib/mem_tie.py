"""Model / C tie for the memory models (properties C03 and C12).

The same op scripts run on the extracted models (ocaml/drv_mem.ml over coq/Mem/*.v) and on the
white-box C harness harness/mem_wb.c (static list / map functions of vnaproperty.c, the static hash
functions of vnacal_new_parameter.c, the parameter-slot allocator, vnacal_new_add_mapped_matrix_m
without a port map) under ASan/UBSan with the allocation interposer.  After every op the outcome
class (Done / errno class) and the number of live blocks of the object are compared; for the two
hash tables (coq/Mem/HashTab.v) also allocation, count, the keys of every chain in link order and
the insertion-order list.  For C12 every op additionally runs with request number k+1 failing.
"""
import os

import vplib
import mem_gen
import prop_lib

C03_VFILES = ["Mem/Alloc.v", "Mem/AllocProofs.v", "Mem/PropList.v", "Mem/Owned.v", "Mem/PropListProofs.v",
              "Mem/ParamSlots.v", "Mem/ParamProofs.v", "Mem/DataAlloc.v", "Mem/DataProofs.v", "Mem/DataZ0.v", "Mem/DataZ0Proofs.v", "Mem/AddArrays.v", "Mem/AddArraysProofs.v",
              "Mem/HashTab.v", "Mem/HashTabProofs.v", "Mem/NewAlloc.v", "Mem/NewAllocProofs.v", "Mem/NewHoldProofs.v", "Properties_C03.v"]
C12_VFILES = ["Mem/Alloc.v", "Mem/AllocProofs.v", "Mem/PropList.v", "Mem/Owned.v", "Mem/PropListProofs.v",
              "Mem/ParamSlots.v", "Mem/ParamProofs.v", "Mem/DataAlloc.v", "Mem/DataProofs.v", "Mem/DataZ0.v", "Mem/DataZ0Proofs.v",
              "Mem/HashTab.v", "Mem/HashTabProofs.v", "Mem/NewAlloc.v", "Mem/NewAllocProofs.v", "Mem/NewHoldProofs.v", "Properties_C12.v"]

MODELLED = [
    "vnaproperty.c: list_check_allocation, list_alloc, list_subtree, list_insert, list_append, list_delete, scalar_alloc, "
    "vnaproperty_free (of a list of scalars), tail of vnaproperty_vset (coq/Mem/PropList.v)",
    "vnacal_parameter.c: _vnacal_alloc_parameter, _vnacal_free_parameter (scalar), _vnacal_teardown_parameter_collection; "
    "vnacal_delete_parameter look-up (coq/Mem/ParamSlots.v)",
    "vnadata_alloc.c: vnadata_alloc, _vnadata_extend_p, _vnadata_extend_m, _vnadata_extend_f, the allocation part of vnadata_resize, "
    "vnadata_free, for an object whose z0 mode is fixed (coq/Mem/DataAlloc.v)",
    "vnadata z0 modes: _vnadata_convert_to_fz0 (row vector and one row for EVERY allocated frequency, unwind of the rows, release of the "
    "simple vector), _vnadata_convert_to_z0, vnadata_set_z0, vnadata_set_fz0, vnadata_set_all_z0, vnadata_set_z0_vector and "
    "vnadata_set_fz0_vector with the caller's vector taken from vnadata_get_z0_vector / vnadata_get_fz0_vector of the same object "
    "(copy before the conversion: D72 / D73), the loops of vnadata_resize that re-initialise vacated z0 cells (coq/Mem/DataZ0.v)",
    "vnacal_new_add_common.c: declared lengths of m_cell_map, s_cell_map, port_connected, m_row_given, m_column_given, "
    "s_row_given, s_column_given against the loop bounds, calls without port map (coq/Mem/AddArrays.v)",
    "vnacal_new_parameter.c: hash_expand, hash_lookup, hash_insert, _vnacal_new_init_parameter_hash, "
    "_vnacal_new_free_parameter_hash, the look-up / malloc / insert sequence of _vnacal_new_get_parameter for a scalar "
    "parameter (coq/Mem/HashTab.v)",
    "vnaproperty.c: map_compare_keys (as the rank of (crc32c, name)), map_find_anchor, map_expand, map_subtree, map_delete, "
    "map_alloc, the calloc/fill of vnaproperty_vkeys, vnaproperty_free of a map (coq/Mem/HashTab.v)",
]
MODELLED_C12 = MODELLED[:4] + MODELLED[5:]

HASH_PARAMS = 150         # scalar parameters created for the parameter-hash scripts (indices 3 .. 152)


def _hash_keys(rng):
    """parameter indices that collide modulo 8, 16, 32 and 64, enough of them (> 32) to grow 8 -> 16 -> 32 -> 64"""
    c, d = rng.sample(range(8), 2)
    keys = [c, c + 8, c + 16, c + 24, c + 32, c + 64, c + 72, c + 96, c + 128, d, d + 16, d + 32, d + 64, d + 128, d + 8]
    pool = [x for x in range(0, HASH_PARAMS + 3) if x not in keys]
    keys += rng.sample(pool, 22)
    absent = [x for x in (c + 40, c + 48, c + 136, d + 24, d + 96) if x not in keys] + rng.sample([x for x in pool if x not in keys], 3)
    return keys, absent


def gen_hash_script(rng, faults, mode):
    """one parameter hash: insert (get) in ascending / descending / shuffled order, look-ups (find) of
    present and absent colliding indices, repeated gets, negative indices.
    faults: mode 0 = every insert first with its malloc failing (k = 0), then with the realloc of a due
    hash_expand failing (k = 1); mode 1 = malloc failing then a clean retry; mode 2 = random k; mode 3 = the
    initial table allocation fails"""
    keys, absent = _hash_keys(rng)
    order = ["asc", "desc", "shuffle"][mode % 3] if not faults else rng.choice(["asc", "desc", "shuffle"])
    ins = sorted(keys) if order == "asc" else sorted(keys, reverse=True) if order == "desc" else rng.sample(keys, len(keys))
    ops = ["%d H new %d" % (0 if (faults and mode == 3) else -1, HASH_PARAMS)]
    done = []
    for i, p in enumerate(ins):
        if faults and mode == 0:
            ops += ["0 H get %d" % p, "1 H get %d" % p]
        elif faults and mode == 1:
            ops += ["0 H get %d" % p, "-1 H get %d" % p]
        elif faults:
            k = rng.choice([-1, -1, 0, 1, 2])
            ops.append("%d H get %d" % (k, p))
            if k == 0:
                ops.append("%d H get %d" % (rng.choice([-1, 1]), p))
        else:
            ops.append("-1 H get %d" % p)
        done.append(p)
        if i % 4 == 3:
            q = rng.choice(done)
            ops.append("%d H find %d" % (rng.choice([-1, 0]) if faults else -1, q))
            ops.append("-1 H find %d" % rng.choice(absent))
            ops.append("%d H get %d" % (rng.choice([-1, 0, 1]) if faults else -1, rng.choice(done)))
    for p in keys + absent:
        ops.append("-1 H find %d" % p)
    ops += ["-1 H find -1", "-1 H get -1", "-1 H get -7", "-1 H free"]
    return ops


def _map_names(rng, full_pairs):
    names = []
    for mod, g, n in ((8, 1, 3), (16, 1, 3), (32, 1, 3), (11, 1, 4), (33, 1, 4), (99, 2, 6)):
        for grp in prop_lib.colliding_keys(rng, mod, groups=g, per_group=n):
            names += grp
    for a, b in full_pairs:
        names += [a, b]
    while len(set(names)) < 72:
        names.append(prop_lib._rand_key(rng, rng.randint(1, 5)))
    names = list(dict.fromkeys(names))
    absent = [k for grp in prop_lib.colliding_keys(rng, 99, groups=1, per_group=4) for k in grp if k not in names]
    return names, absent


def gen_map_script(rng, faults, mode, full_pairs=()):
    """one vnaproperty map driven through map_subtree / map_delete directly: 70+ keys (11 -> 33 -> 99 buckets;
    other sizes when an expansion failed), CRC-32C collisions modulo 8/16/32/11/33/99 and identical 32-bit
    CRCs, ascending / descending / shuffled insertion, delete then reinsert, look-ups of absent keys.
    faults: for set, request 1 is the realloc when an expansion is due, else the element malloc; k in 0..2"""
    names, absent = _map_names(rng, full_pairs)
    every = names + absent
    ranked = sorted(every, key=lambda k: (prop_lib.crc32c(k), k))
    rank = dict((k, i) for i, k in enumerate(ranked))

    def arg(k):
        return "%d %d %s" % (rank[k], prop_lib.crc32c(k), k.hex())
    order = ["asc", "desc", "shuffle"][mode % 3] if not faults else rng.choice(["asc", "desc", "shuffle"])
    ins = [k for k in ranked if k in names]
    ins = ins if order == "asc" else ins[::-1] if order == "desc" else rng.sample(names, len(names))
    ops = ["%d M new" % (0 if (faults and mode == 3) else -1)]
    present = []

    def fk(choices):
        return rng.choice(choices) if faults else -1
    for i, k in enumerate(ins):
        if faults and mode == 0:
            ops += ["0 M set " + arg(k), "1 M set " + arg(k), "2 M set " + arg(k), "-1 M set " + arg(k)]
        elif faults and mode == 1:
            ops += ["%d M set %s" % (rng.choice([0, 1]), arg(k)), "-1 M set " + arg(k)]
        else:
            kk = fk([-1, -1, 0, 1, 2])
            ops.append("%d M set %s" % (kk, arg(k)))
            if kk >= 0:
                ops.append("-1 M set " + arg(k))
        present.append(k)
        if i % 5 == 4:
            ops.append("%d M get %s" % (fk([-1, 0]), arg(rng.choice(present))))
            ops.append("%d M get %s" % (fk([-1, 0]), arg(rng.choice(absent))))
            ops.append("%d M set %s" % (fk([-1, 0, 1]), arg(rng.choice(present))))
        if i % 11 == 10:
            d = rng.choice(present)
            ops.append("%d M del %s" % (fk([-1, 0]), arg(d)))
            present.remove(d)
            ops.append("-1 M del " + arg(d))
            if rng.random() < 0.7:
                ops.append("%d M set %s" % (fk([-1, 0, 1, 2]), arg(d)))
                ops.append("-1 M set " + arg(d))
                present.append(d)
        if i % 17 == 16:
            ops.append("-1 M keys")
    ops.append("-1 M keys")
    for k in every:
        ops.append("-1 M get " + arg(k))
    for d in rng.sample(present, len(present) // 2):
        ops.append("%d M del %s" % (fk([-1, 0]), arg(d)))
    for k in absent:
        ops.append("-1 M del " + arg(k))
    ops.append("-1 M keys")
    for k in every:
        ops.append("-1 M get " + arg(k))
    ops.append("-1 M free")
    return ops

T_TYPES = [0, 2, 4]      # T8, TE10, T16
U_TYPES = [1, 3, 5]      # U8, UE10, U16


def gen_tie_script(rng, n, faults, obj):
    """ops on one list (obj "L") or one parameter table (obj "P"); indices from valid / boundary /
    invalid domains (the two objects are never mixed in one script: the interposer counts live
    blocks globally)"""
    ops = ["-1 %s new%s" % (obj[0], " 1" if obj == "D1" else " 0" if obj == "D" else "")]
    perf = obj == "D1"
    obj = obj[0]
    llen = 0
    pmax = 3
    for _ in range(n):
        k = -1
        if faults and rng.random() < 0.6:
            k = rng.randrange(0, 14) if obj == "D" else rng.choice([0, 0, 1, 1, 2, 3])
        if obj == "L":
            y = rng.random()
            if y < 0.35:
                ops.append("%d L append" % k)
                llen += 1
            elif y < 0.55:
                i = rng.choice([0, llen, llen + 1, max(llen - 1, 0), llen + rng.randint(0, 12), -1, 7, 8, 15, 16])
                ops.append("%d L set %d" % (k, i))
                llen = max(llen, i + 1)
            elif y < 0.7:
                i = rng.choice([0, 1, llen, max(llen - 1, 0), llen + 3, -1])
                ops.append("%d L insert %d" % (k, i))
                llen += 1
            elif y < 0.9:
                i = rng.choice([0, 0, max(llen - 1, 0), llen, llen + 1, -1, 3])
                ops.append("%d L delete %d" % (k, i))
                llen = max(llen - 1, 0)
            else:
                ops.append("%d L get %d" % (k, rng.choice([0, llen - 1, llen, -1, 100])))
        elif obj == "D":
            r, c = rng.choice([(0, 0), (1, 1), (2, 2), (3, 3), (1, 3), (4, 2), (2, 2), (0, 2), (-1, 1), (1, -1), (-1, -1)])
            f = rng.choice([0, 1, 2, 3, 5, 8, -1])
            ops.append("%d D resize %d %d %d" % (k, r, c, f))
        else:
            if rng.random() < 0.6:
                ops.append("%d P alloc" % k)
                pmax += 1
            else:
                ops.append("%d P delete %d" % (k, rng.choice([3, 4, 5, pmax - 1, pmax, pmax + 1, 0, 2, -1, 7, 8, 100])))
    ops.append("-1 %s free" % obj)
    return ops


def gen_z_script(rng, n, faults):
    """one vnadata_t driven through resize (grow, shrink, grow back inside the allocation) and every z0 setter, the vector
    setters with a buffer of the harness, with the object's own z0 vector and with one of its per-frequency rows; indices
    from valid / boundary / invalid domains"""
    ops = ["-1 Z new"]
    r = c = f = 0
    for _ in range(n):
        k = -1
        if faults and rng.random() < 0.6:
            k = rng.randrange(0, 12)
        y = rng.random()
        fi = rng.choice([0, 0, 1, max(f - 1, 0), f, f + 1, -1, 2, 3])
        pi = rng.choice([0, 0, 1, max(max(r, c) - 1, 0), max(r, c), -1])
        if y < 0.34:
            nr, nc = rng.choice([(0, 0), (1, 1), (2, 2), (3, 3), (1, 3), (4, 2), (2, 2), (0, 2), (-1, 1), (4, 4)])
            nf = rng.choice([0, 1, 2, 3, 5, 8, 10, -1])
            ops.append("%d Z resize %d %d %d" % (k, nr, nc, nf))
            if k < 0 and nr >= 0 and nc >= 0 and nf >= 0:
                r, c, f = nr, nc, nf
        elif y < 0.5:
            ops.append("%d Z setfz0 %d %d" % (k, fi, pi))
        elif y < 0.68:
            ops.append("%d Z setfz0v %d %d %d" % (k, fi, rng.choice([0, 1, 1, 2, 2]), rng.choice([0, 1, max(f - 1, 0), f, -1])))
        elif y < 0.78:
            ops.append("%d Z setz0 %d" % (k, pi))
        elif y < 0.93:
            ops.append("%d Z setz0v %d %d" % (k, rng.choice([0, 1, 2, 2, 2]), rng.choice([0, 1, max(f - 1, 0), f, -1])))
        else:
            ops.append("%d Z setallz0" % k)
    ops.append("-1 Z free")
    return ops


def gen_list_boundary_script(rng, n, faults):
    """a list filled to exactly n cells (n = 8, 16, 32: the vector is full), then every op kind at the boundary"""
    def k():
        return rng.choice([-1, 0, 1, 2]) if faults else -1
    ops = ["-1 L new"] + ["-1 L append"] * n
    tail = ["%d L insert 3" % k(), "-1 L insert 3", "%d L append" % k(), "-1 L delete 0", "-1 L delete 0", "%d L insert %d" % (k(), n - 1),
            "-1 L insert %d" % (n - 1), "%d L set %d" % (k(), n + 3), "-1 L get %d" % n, "-1 L delete %d" % (n + 3), "-1 L insert 0", "-1 L free"]
    if rng.random() < 0.5:
        tail = tail[2:4] + tail[0:2] + tail[4:]
    return ops + tail


def gen_add_cases(rng, n):
    out = []
    for _ in range(n):
        if rng.random() < 0.5:
            t = rng.choice(T_TYPES)
            fr, fc = rng.choice([(1, 1), (2, 2), (1, 2), (2, 3), (3, 3), (1, 3)])
        else:
            t = rng.choice(U_TYPES)
            fr, fc = rng.choice([(1, 1), (2, 2), (2, 1), (3, 2), (3, 3), (3, 1)])
        fs = max(fr, fc)
        br = rng.choice([fr, fr, fs, fr + 1, 0, -1, 1])
        bc = rng.choice([fc, fc, fs, fc + 1, 0, -1, 1])
        sr = rng.choice([fs, fs, fs, 0, -1, fs + 1, 1])
        sc = rng.choice([fs, fs, fs, 0, -1, fs + 1, 1])
        out.append("-1 A %d %d %d %d %d %d %d" % (t, fr, fc, br, bc, sr, sc))
    return out


# the refutation witnesses of the development (code as first read), replayed on the C side
WITNESSES = {
    "plist_delete_orig_oob_refuted": ["-1 L new"] + ["-1 L append"] * 8 + ["-1 L delete 0", "-1 L free"],
    "plist_delete_orig_leak_refuted": ["-1 L new", "-1 L append", "-1 L append", "-1 L delete 0", "-1 L free"],
    "pslots_orig_refuted": ["-1 P new"] + ["-1 P alloc"] * 5 + ["-1 P delete 7", "0 P alloc", "-1 P alloc", "-1 P free"],
    "vdata_extend_f_orig_refuted": ["-1 D new 1", "-1 D resize 0 0 2", "-1 D resize 2 2 2", "-1 D free"],
    # D72 / D73 as first read: the object's own vector handed to the setter that changes the z0 mode
    "set_fz0_vector_alias_refuted": ["-1 Z new", "-1 Z resize 2 2 2", "-1 Z setfz0v 1 1 0", "-1 Z free"],
    "set_z0_vector_alias_refuted": ["-1 Z new", "-1 Z resize 2 2 2", "-1 Z setfz0 0 0", "-1 Z setz0v 2 1", "-1 Z free"],
    # the shape of the seeded change C03-4: rows for the frequencies in use only
    "convert_rows_in_use_refuted": ["-1 Z new", "-1 Z resize 2 2 4", "-1 Z resize 2 2 1", "-1 Z setfz0 0 1", "-1 Z resize 2 2 3", "-1 Z setfz0 2 1", "-1 Z free"],
    "add_arrays_d14_refuted": ["-1 A 1 2 1 2 1 2 2"],
    "add_arrays_d50_refuted": ["-1 A 0 2 2 2 2 0 0"],
    "add_arrays_d48_refuted": ["-1 A 0 2 3 3 3 3 3"],
    # hash_insert pushing on the chain head: key 0 would be hidden behind key 8
    "phash_head_insert_refuted": ["-1 H new 20", "-1 H get 0", "-1 H get 8", "-1 H find 0", "-1 H get 0", "-1 H free"],
    # hash_expand pushing rehashed nodes on the chain head: after the growth to 16 buckets key 3 would be hidden behind 19
    "phash_rehash_head_refuted": ["-1 H new 20"] + ["-1 H get %d" % p for p in (3, 19, 4, 5, 6, 7, 9, 10)] + ["-1 H find 3", "-1 H get 3", "-1 H free"],
}


def run_c(ctx, exe, ops):
    sp = os.path.join(ctx.tmp, "tie_%d.txt" % abs(hash(tuple(ops))))
    with open(sp, "w") as f:
        f.write("\n".join(ops) + "\n")
    env = ctx.run_env(leak=False)
    rc, out, err = vplib.sh([exe, sp], timeout=60, env=env)
    os.unlink(sp)
    return rc, out.split("\n"), err


def run_model(ctx, drv, ops):
    rc, out, err = vplib.sh([drv], input="\n".join(ops) + "\n", timeout=120)
    return rc, out.split("\n"), err


def compare(ctx, exe, drv, ops):
    """None when model and C agree on every line, else (index, model line, C line, stderr)"""
    rc, c, err = run_c(ctx, exe, ops)
    rm, m, merr = run_model(ctx, drv, ops)
    for i in range(len(ops)):
        cl = c[i] if i < len(c) else "<C harness died rc=%d>" % rc
        ml = m[i] if i < len(m) else "<model driver died>"
        if cl != ml:
            return (i, ml, cl, err)
    return None


def run_tie(ctx, exe_unused, prop):
    broken = []
    try:
        # mem_wb.c #includes vnaproperty.c and vnacal_new_parameter.c: every global of those files is defined by the harness object, so the
        # linker never extracts the two members from libvna.a and the archive built for the other harnesses can be reused
        exe = ctx.build_harness("mem_wb", san=True, wrap=True)
        drv = ctx.ocaml_driver("drv_mem")
    except vplib.BuildError as e:
        ctx.obligation("tie:mem:build", False, str(e)[:300])
        return ["tie:mem:build"]
    quick = ctx.tier != "thorough"
    faults = (prop == "C12")
    nscripts = (25 if quick else 300)
    nsteps = 0
    first = None
    scripts = [("witness/" + k, v) for k, v in sorted(WITNESSES.items())]
    for i in range(nscripts):
        scripts.append(("tie/%d" % i, gen_tie_script(ctx.rng, 40 if quick else 120, faults, ["L", "P", "D", "D1"][i % 4])))
    for i in range(8 if quick else 100):
        scripts.append(("tie/z0/%d" % i, gen_z_script(ctx.rng, 40 if quick else 120, faults)))
    for i, n in enumerate((8, 16, 32) if quick else (8, 16, 32, 64, 8, 16, 32, 64, 128)):
        scripts.append(("tie/listboundary/%d" % i, gen_list_boundary_script(ctx.rng, n, faults)))
    if not faults:
        scripts.append(("tie/add", gen_add_cases(ctx.rng, 120 if quick else 1500)))
    # the two hash tables: bucket-for-bucket comparison
    full_pairs = prop_lib.full_collisions(ctx.rng, pairs=2)
    ctx.extra["crc32c_full_collisions_in_tie"] = [[a.decode(), b.decode()] for a, b in full_pairs]
    nhash = (4 if quick else 24)
    for i in range(nhash):
        scripts.append(("tie/hash/%d" % i, gen_hash_script(ctx.rng, faults, i % 4)))
        scripts.append(("tie/map/%d" % i, gen_map_script(ctx.rng, faults, i % 4, full_pairs)))
    for label, ops in scripts:
        d = compare(ctx, exe, drv, ops)
        nsteps += len(ops)
        ctx.count(("tie", label), len(ops))
        if d is not None and first is None:
            def still(sub):
                return compare(ctx, exe, drv, sub) is not None
            small = mem_gen.ddmin(list(ops), still, budget=60)
            d2 = compare(ctx, exe, drv, small) or d
            first = (label, small, d2)
    ctx.traces_validated += len(scripts)
    ctx.extra["tie_steps_compared"] = nsteps
    if first is None:
        ctx.obligation("tie:mem:model_vs_C(%s)" % prop, True, "%d scripts, %d steps" % (len(scripts), nsteps))
        ctx.sample({"tie_script": scripts[len(WITNESSES)][1][:8]})
        return broken
    label, small, (i, ml, cl, err) = first
    ctx.obligation("tie:mem:model_vs_C(%s)" % prop, False, "%s line %d: model `%s` C `%s`" % (label, i, ml, cl))
    opname = " ".join(small[i].split(" ")[1:3]) if i < len(small) else "?"
    sig = mem_gen.fault_signature(1, err) if ("AddressSanitizer" in err or "runtime error" in err) else None
    if sig is None:
        sig = {"kind": "disagreement", "op": opname, "class": "%s|%s" % (ml.split(" ")[0], cl.split(" ")[0])}
    else:
        sig["op"] = opname
    # the theorems of Properties_%s say the model never faults and frees everything: the property text sides with the model
    ctx.violation(sig, "model and implementation disagree on `%s` (script %s): model says `%s`, C gives `%s`" % (small[i] if i < len(small) else "?", label, ml, cl),
                  {"script": small, "line": i, "model": ml, "implementation": cl, "how": "harness/mem_wb.c vs ocaml/drv_mem", "stderr": err[-2000:]})
    broken.append("tie:mem")
    return broken


# ---------------------------------------------------------------------------------------------------------------
# The vnacal_new_t allocation skeleton (coq/Mem/NewAlloc.v, harness/mem_wb2.c, ocaml/drv_mem2.ml)
# ---------------------------------------------------------------------------------------------------------------
NEW_VFILES = ["Mem/NewAlloc.v", "Mem/NewAllocProofs.v"]
NEW_MODELLED = [
    "vnacal_new.c: vnacal_new_alloc (every ENOMEM exit through vnacal_new_free of the partly built structure), vnacal_new_free, "
    "_vnacal_new_free_measurement; vnacal_new_add_common.c: _vnacal_new_add_common (parameter validation before any request, the measurement with "
    "its m vectors, vnm_s_matrix, _vnacal_new_get_parameter per S cell, connectivity matrix, equations and terms, the `out:` clean-up), add_equation; "
    "vnacal_new_parameter.c: _vnacal_new_check_parameter, _vnacal_new_get_parameter incl. the VNACAL_CORRELATED recursion, hold / release; "
    "vnacal_new_set_m_error.c (allocate once, overwrite, clear, the spline temporaries); vnacal_new_solve.c: _vnacal_new_solve_init / _free, "
    "_vnacal_new_solve_internal (calibration, TRL indices, write-back of the solved vectors into the parameters); vnacal_calibration.c: "
    "_vnacal_calibration_alloc / _free; vnacal_free.c ring walk (coq/Mem/NewAlloc.v: request order, what every exit releases, holds, unknown list)",
]

NEW_TYPES = [(0, "T"), (1, "U"), (2, "T"), (3, "U"), (4, "T"), (5, "U"), (6, "U"), (8, "U")]


def gen_new_cfg(rng, n):
    """user parameters in creation order: s, u<o>, c<o> with o an earlier parameter (chains allowed)"""
    kinds = []
    for i in range(n):
        idx = 3 + i
        y = rng.random()
        if y < 0.35 or idx == 3:
            kinds.append("s")
        else:
            o = rng.choice([rng.randrange(0, idx), idx - 1, rng.randrange(3, idx)])
            kinds.append(("u%d" if y < 0.65 else "c%d") % o)
    return kinds


def _new_std(rng, rows, cols, nprm):
    ports = max(rows, cols)

    def par():
        return rng.choice([0, 1, 2] + list(range(3, nprm)) * 3 + [nprm, -1])
    y = rng.random()
    if ports >= 2 and y < 0.25:
        return "th %d %d" % tuple(rng.sample(range(1, ports + 1), 2))
    if ports >= 2 and y < 0.55:
        p1, p2 = rng.sample(range(1, ports + 1), 2)
        return "dr %d %d %d %d" % (p1, p2, par(), par())
    if y < 0.93:
        return "sr %d %d" % (rng.choice(list(range(1, ports + 1)) + [ports + 1]), par())
    return "bad"


def gen_new_history(rng, nops, faults):
    """one segment: parameters, then calls on up to three vnacal_new_t; handles from live / freed / never made"""
    kinds = gen_new_cfg(rng, rng.randint(2, 6))
    nprm = 3 + len(kinds)
    ops = ["-1 cfg " + " ".join(kinds)]
    dims = []

    def k():
        return rng.randrange(0, 16) if (faults and rng.random() < 0.45) else -1
    for _ in range(nops):
        y = rng.random()
        h = rng.choice(list(range(len(dims))) * 4 + [len(dims), 7]) if dims else 0
        if not dims or (y < 0.08 and len(dims) < 3):
            t, kind = rng.choice(NEW_TYPES)
            r, c = rng.choice([(1, 1), (2, 2), (1, 2), (2, 2)] if kind == "T" else [(1, 1), (2, 2), (2, 1), (2, 2)])
            if rng.random() < 0.1:
                t, r, c = rng.choice([(7, 1, 1), (9, 1, 1), (0, 0, 1), (0, 2, 1), (1, 1, 2)])
            kk = k()
            ops.append("%d N %d %d %d %d" % (kk, t, r, c, rng.choice([1, 2, 2, 3])))
            ok = (t, r, c) not in [(7, 1, 1), (9, 1, 1), (0, 0, 1), (0, 2, 1), (1, 1, 2)]
            if ok and kk >= 0:
                ops.append("-1 " + ops[-1].split(" ", 1)[1])
            if ok:
                dims.append((r, c))
                if rng.random() < 0.9:
                    ops.append("-1 T %d" % (len(dims) - 1))
            continue
        r, c = dims[h] if h < len(dims) else (1, 1)
        if y < 0.55:
            ops.append("%d A %d %s" % (k(), h, _new_std(rng, r, c, nprm)))
        elif y < 0.75:
            ops.append("%d E %d %s" % (k(), h, rng.choice(["set 0", "set 0", "set 1", "set 2", "set 2", "clear", "clear", "clear", "bad", "inv", "close"])))
        elif y < 0.92:
            ops.append("%d S %d" % (k(), h))
        elif y < 0.96:
            ops.append("-1 T %d" % h)
        else:
            ops.append("-1 F %d" % h)
    ops.append("-1 end")
    return ops


# short directed histories; every (op, k) of them is enumerated
NEW_DIRECTED = {
    # one-port T8 with an unknown and two correlated parameters; the correlate of 6 (parameter 4) is not in the hash when 6 is added
    "t8_1x1_correlated": ["-1 cfg s u3 c3 c4 u5", "-1 N 0 1 1 2", "-1 T 0", "-1 A 0 sr 1 2", "-1 A 0 sr 1 6", "-1 A 0 sr 1 5", "-1 A 0 sr 1 7",
                          "-1 E 0 set 2", "-1 S 0", "-1 E 0 clear", "-1 E 0 set 0", "-1 S 0", "-1 E 0 clear", "-1 F 0", "-1 end"],
    # E12 2x2 (two systems), through + reflects, measurement errors by spline, solved twice; a second calibration with another frequency count
    # solves the same unknown (the write-back replaces the frequency vector)
    "e12_2x2_two_news": ["-1 cfg u1 c3", "-1 N 8 2 2 2", "-1 T 0", "-1 A 0 th 1 2", "-1 A 0 dr 1 2 2 1", "-1 A 0 dr 1 2 3 2", "-1 A 0 dr 1 2 0 4",
                         "-1 E 0 set 1", "-1 S 0", "-1 N 1 1 1 3", "-1 T 1", "-1 A 1 sr 1 3", "-1 A 1 sr 1 0", "-1 A 1 sr 1 2", "-1 A 1 sr 1 4", "-1 S 1",
                         "-1 S 0", "-1 end"],
    # a one-port SOL calibration that solves; then a fourth standard with an unknown parameter (DI91: its add failing after
    # _vnacal_new_get_parameter must not make the calibration unsolvable) and measurement errors by spline (DI90)
    "t8_sol_then_unknown": ["-1 cfg s u3", "-1 N 0 1 1 3", "-1 T 0", "-1 A 0 sr 1 2", "-1 A 0 sr 1 1", "-1 A 0 sr 1 0", "-1 S 0", "-1 A 0 sr 1 4",
                            "-1 S 0", "-1 E 0 set 2", "-1 S 0", "-1 A 0 sr 1 3", "-1 E 0 close", "-1 E 0 set 1", "-1 S 0",
                            # a second calibration with too few standards: the kernel gives up (a non-allocation failure exit of the solve)
                            "-1 N 0 1 1 3", "-1 T 1", "-1 A 1 sr 1 2", "-1 S 1", "-1 end"],
    # DI92: two unknowns solved by a 2-frequency calibration, then by a 3-frequency one (the write-back replaces both frequency vectors)
    "t8_two_unknowns_two_news": ["-1 cfg s s u3 u4", "-1 N 0 1 1 2", "-1 T 0", "-1 A 0 sr 1 2", "-1 A 0 sr 1 1", "-1 A 0 sr 1 0", "-1 A 0 sr 1 5", "-1 A 0 sr 1 6",
                                 "-1 S 0", "-1 N 1 1 1 3", "-1 T 1", "-1 A 1 sr 1 2", "-1 A 1 sr 1 1", "-1 A 1 sr 1 0", "-1 A 1 sr 1 5", "-1 A 1 sr 1 6", "-1 S 1", "-1 S 0", "-1 end"],
    # TE10 (leakage terms outside the system), eight distinct parameters: the hash grows from 8 to 16 buckets
    "te10_hash_growth": ["-1 cfg s s s s s u4", "-1 N 2 2 2 1", "-1 T 0", "-1 A 0 dr 1 2 1 2", "-1 A 0 dr 1 2 3 4", "-1 A 0 dr 1 2 5 6", "-1 A 0 dr 1 2 7 8",
                         "-1 A 0 th 1 2", "-1 A 0 dr 1 2 0 0", "-1 S 0", "-1 F 0", "-1 end"],
}


def _pair_lines(script, cl, rc):
    """pair the harness output with the script: model input (op line + I line), C result lines, ops compared"""
    ci = 0
    minput, cres, ops = [], [], []
    for line in script:
        t = line.split()
        if (len(t) >= 2 and t[1] in ("cfg", "end")) or t == ["end"]:
            r = cl[ci] if ci < len(cl) else "<C harness died rc=%d>" % rc
            ci += 1
            minput.append(line)
            cres.append(r)
            ops.append(line)
            continue
        if len(t) >= 2 and t[1] in ("V", "P"):      # C side only (solved terms / a parameter value): one "D" line, not an op of the model
            ci += 1
            continue
        if ci + 1 < len(cl) and cl[ci].startswith("I skip") and cl[ci + 1].startswith("R SKIP"):
            ci += 2                                  # the fault-free call fails for a numeric reason: not an op of the model
            continue
        info = cl[ci] if ci < len(cl) else "I none"
        ci += 1
        r = cl[ci] if ci < len(cl) else "<C harness died rc=%d>" % rc
        ci += 1
        if not info.startswith("I"):
            info, r = "I none", "<C harness out of step: %s>" % info[:60]
        minput += [line, info]
        cres.append(r)
        ops.append(line)
    return minput, cres, ops


def compare_new(ctx, exe, drv, script, variant="NFixed"):
    """None when model and C agree on every op, else (index into ops, op, model line, C line, stderr)"""
    rc, cl, err = run_c(ctx, exe, script)
    minput, cres, ops = _pair_lines(script, cl, rc)
    rm, out, merr = vplib.sh([drv, "variant=" + variant], input="\n".join(minput) + "\n", timeout=300)
    ml = out.split("\n")
    for i in range(len(ops)):
        m = ml[i] if i < len(ml) else "<model driver died>"
        if m != cres[i]:
            return (i, ops[i], m, cres[i], err)
    return None


def new_fault_free_counts(ctx, exe, script):
    """requests made by every op of a fault-free script (None for cfg / end / skipped ops)"""
    rc, cl, err = run_c(ctx, exe, script)
    minput, cres, ops = _pair_lines(script, cl, rc)
    res = {}
    for o, r in zip(ops, cres):
        t = r.split()
        if len(t) > 4 and t[0] == "R" and t[4].isdigit():
            res[o] = max(res.get(o, 0), int(t[4]))
    return res


def enumerate_new(ctx, exe, script, cap=None):
    """for every op j of the fault-free script and every request k it makes: prefix, op j with request k+1 failing, the same op
    again without fault, the rest of the script.  One segment each."""
    rc, cl, err = run_c(ctx, exe, script)
    minput, cres, ops = _pair_lines(script, cl, rc)
    counts = []
    for o, r in zip(ops, cres):
        t = r.split()
        counts.append(int(t[4]) if (len(t) > 4 and t[0] == "R" and t[4].isdigit()) else 0)
    segs = []
    body = [l for l in script if l in ops]          # skipped ops are dropped
    for j, (o, n) in enumerate(zip(ops, counts)):
        t = o.split()
        if t[1] in ("cfg", "end") or n == 0:
            continue
        ks = list(range(n))
        if cap is not None and len(ks) > cap:
            ks = sorted(set(ks[:cap // 2] + ks[-(cap - cap // 2):]))
        for k in ks:
            segs.append(body[:j] + ["%d %s" % (k, o.split(" ", 1)[1]), o] + body[j + 1:])
    return segs


def _probe_lines(script, cl, rc):
    """(result line of the op under test, [(probe op, what it gave)]) for a segment that ends with probes S / V per handle"""
    out = []
    ci = 0
    for line in script:
        t = line.split()
        if (len(t) >= 2 and t[1] in ("cfg", "end")) or t == ["end"]:
            ci += 1
            continue
        if len(t) >= 2 and t[1] in ("V", "P"):
            out.append((line, cl[ci] if ci < len(cl) else "<dead rc=%d>" % rc))
            ci += 1
            continue
        if ci + 1 < len(cl) and cl[ci].startswith("I skip"):
            out.append((line, "solve fails: " + cl[ci][7:]))
            ci += 2
            continue
        r = cl[ci + 1] if ci + 1 < len(cl) else "<dead rc=%d>" % rc
        out.append((line, " ".join(r.split()[:3])))
        ci += 2
    return out


def _same_digest(a, b):
    """D lines: equal up to 1e-7 (the solve may take another numeric route)"""
    ta, tb = a.split(), b.split()
    if len(ta) != len(tb):
        return False
    for x, y in zip(ta, tb):
        if x == y:
            continue
        if "," not in x or "," not in y:
            return False
        try:
            xr, xi = [float(z) for z in x.split(",")]
            yr, yi = [float(z) for z in y.split(",")]
        except ValueError:
            return False
        if not (abs(xr - yr) <= 1e-7 * (1 + abs(yr)) and abs(xi - yi) <= 1e-7 * (1 + abs(yi))):
            return False
    return True


def as_before_check(ctx, exe, name, script):
    """C12, 'no half-built object, all objects remain usable': for every op j of the fault-free script and every request k of it,
    run  prefix, op j with request k+1 failing, NO repeat, then vnacal_new_solve + the solved terms of every handle; and run
    prefix, the same probes.  When op j failed with ENOMEM the probes must give the same as if op j had never been called.
    Returns the list of (sig, text, replay)."""
    rc, cl, err = run_c(ctx, exe, script)
    minput, cres, ops = _pair_lines(script, cl, rc)
    body = [l for l in script if l in ops]
    nh = sum(1 for l in body if l.split()[1] == "N")
    kinds = script[0].split()[2:]
    unknowns = [3 + n for n, kd in enumerate(kinds) if kd[0] in "uc"]
    vprobes = ["-1 V %d" % h for h in range(nh)] + ["-1 P %d 1e9" % u for u in unknowns]
    sprobes = []
    for h in range(nh):
        sprobes += ["-1 S %d" % h, "-1 V %d" % h]
    found = []
    seen = set()
    for j, (o, r) in enumerate(zip(ops, cres)):
        t = o.split()
        rt = r.split()
        n = int(rt[4]) if (len(rt) > 4 and rt[0] == "R" and rt[4].isdigit()) else 0
        if t[1] in ("cfg", "end", "V", "T", "F") or n == 0:
            continue
        # the state left by the failed call is looked at directly (solved terms, parameter values); vnacal_new_solve is a probe too,
        # unless the failed call is itself a solve: then it would be the repeat, which repairs what the failed call left
        probes = vprobes + ([] if t[1] == "S" else sprobes + ["-1 P %d 1e9" % u for u in unknowns])
        base = body[:j] + probes + ["-1 end"]
        rb, clb, errb = run_c(ctx, exe, base)
        pb = _probe_lines(base, clb, rb)[j - 1:]
        batch = []
        for k in range(n):
            batch.append(body[:j] + ["%d %s" % (k, o.split(" ", 1)[1])] + probes + ["-1 end"])
        for k, seg in enumerate(batch):
            rs, cls, errs = run_c(ctx, exe, seg)
            ps = _probe_lines(seg, cls, rs)
            res = ps[j - 1][1] if len(ps) > j - 1 else "<dead>"
            ctx.count(("as-before", name, j, k))
            if not res.startswith("R Err ENOMEM") and "AddressSanitizer" not in errs and "runtime error" not in errs:
                continue
            after = ps[j:]
            diff = None
            for (pa, ra), (pbq, rbq) in zip(after, pb):
                same = _same_digest(ra, rbq) if ra.startswith("D") and rbq.startswith("D") else (ra == rbq)
                if not same:
                    diff = (pa, ra, rbq)
                    break
            if "AddressSanitizer" in errs or "runtime error" in errs:
                diff = diff or ("<sanitizer>", errs[-300:], "")
            if diff is None:
                continue
            effect = ("parameter-differs" if diff[0].split()[1] == "P" else "solve-fails" if (diff[0].split()[1] == "S" and diff[1] != diff[2]) else
                      "solve-differs" if diff[1].startswith("D") else "other")
            opname = " ".join(t[1:2] + (t[3:4] if t[1] in ("A", "E") else []))
            key = (opname, effect)
            if key in seen:
                continue
            seen.add(key)
            found.append(({"kind": "c12-not-as-before", "op": "new " + opname, "effect": effect},
                          "after `%s` failed with ENOMEM (request %d; history %s) the calibration no longer behaves as before the call: `%s` gives `%s`, "
                          "without the failed call it gives `%s`" % (o.split(" ", 1)[1], k + 1, name, diff[0], diff[1][:160], diff[2][:160]),
                          {"script": seg, "without_the_call": base, "probe": diff[0], "after_failed_call": diff[1], "as_before": diff[2],
                           "how": "harness/mem_wb2.c, no repeat of the failed call"}))
    return found


def run_new_tie(ctx, prop):
    """tie of coq/Mem/NewAlloc.v: generated histories (random k for C12) and exhaustive k over the directed histories"""
    try:
        exe = ctx.build_harness("mem_wb2", san=True, wrap=True)
        drv = ctx.ocaml_driver("drv_mem2")
    except vplib.BuildError as e:
        ctx.obligation("tie:new:build", False, str(e)[:300])
        return ["tie:new:build"]
    quick = ctx.tier != "thorough"
    faults = (prop == "C12")
    first = None
    nsteps = 0
    scripts = []
    for name, s in sorted(NEW_DIRECTED.items()):
        scripts.append(("new/directed/" + name, list(s)))
    for i in range(12 if quick else 120):
        scripts.append(("new/gen/%d" % i, gen_new_history(ctx.rng, 30 if quick else 80, faults)))
    # exhaustive k: all requests of every op of the directed histories (both properties: an ENOMEM exit is also an error exit of C03)
    nseg = 0
    for name, s in sorted(NEW_DIRECTED.items()):
        segs = enumerate_new(ctx, exe, list(s), cap=None if (faults or not quick) else 6)
        nseg += len(segs)
        for b in range(0, len(segs), 40):
            flat = [l for seg in segs[b:b + 40] for l in seg]
            scripts.append(("new/enum/%s/%d" % (name, b // 40), flat))
    if not faults or not quick:
        pass
    for label, ops in scripts:
        d = compare_new(ctx, exe, drv, ops)
        nsteps += len(ops)
        ctx.count(("tie", label), len(ops))
        if d is not None and first is None:
            # keep only the segment that disagrees
            i = d[0]
            starts = [n for n, l in enumerate(ops) if l.split()[1:2] == ["cfg"]]
            # index i counts compared ops; map back by replaying segment by segment
            seg = ops
            for a, b in zip(starts, starts[1:] + [len(ops)]):
                cand = ops[a:b]
                if compare_new(ctx, exe, drv, cand) is not None:
                    seg = cand
                    break

            def still(sub):
                return compare_new(ctx, exe, drv, [seg[0]] + sub + ["-1 end"]) is not None
            core = [l for l in seg[1:] if l.split()[1:2] != ["end"]]
            small = [seg[0]] + mem_gen.ddmin(core, still, budget=40) + ["-1 end"]
            d2 = compare_new(ctx, exe, drv, small) or compare_new(ctx, exe, drv, seg)
            first = (label, small if compare_new(ctx, exe, drv, small) is not None else seg, d2)
    # C12: a call that failed with ENOMEM leaves the calibration as it was (observed through vnacal_new_solve and the solved terms)
    if faults:
        nb = 0
        for name in ("t8_sol_then_unknown", "t8_two_unknowns_two_news") if quick else sorted(NEW_DIRECTED):
            for sig, text, replay in as_before_check(ctx, exe, name, list(NEW_DIRECTED[name])):
                ctx.violation(sig, text, replay)
                nb += 1
        ctx.obligation("tie:new:failed_call_leaves_calibration_as_before", nb == 0, "%d deviations" % nb)
    ctx.traces_validated += len(scripts)
    ctx.extra["new_tie_steps_compared"] = nsteps
    ctx.extra["new_tie_fault_segments"] = nseg
    if first is None:
        ctx.obligation("tie:new:model_vs_C(%s)" % prop, True, "%d scripts, %d steps, %d single-fault segments" % (len(scripts), nsteps, nseg))
        ctx.sample({"new_tie_script": NEW_DIRECTED["t8_1x1_correlated"][:8]})
        return []
    label, small, d = first
    i, op, ml, cl, err = d
    ctx.obligation("tie:new:model_vs_C(%s)" % prop, False, "%s op `%s`: model `%s` C `%s`" % (label, op, ml, cl))
    opname = " ".join(op.split(" ")[1:2] + op.split(" ")[3:4]) if op.split()[1:2] == ["A"] or op.split()[1:2] == ["E"] else " ".join(op.split(" ")[1:2])
    sig = mem_gen.fault_signature(1, err) if ("AddressSanitizer" in err or "runtime error" in err) else None
    if sig is None:
        sig = {"kind": "disagreement", "op": "new " + opname, "class": "%s|%s" % (" ".join(ml.split(" ")[1:3]), " ".join(cl.split(" ")[1:3]))}
    else:
        sig["op"] = "new " + opname
    ctx.violation(sig, "vnacal_new_t allocation skeleton: model and implementation disagree on `%s` (script %s): model says `%s`, C gives `%s`" % (op, label, ml, cl),
                  {"script": small, "op": op, "model": ml, "implementation": cl, "how": "harness/mem_wb2.c vs ocaml/drv_mem2 (coq/Mem/NewAlloc.v)", "stderr": err[-2000:]})
    return ["tie:new"]

MODELLED += NEW_MODELLED
MODELLED_C12 += NEW_MODELLED
