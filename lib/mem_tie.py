"""Model / C tie for the memory models (properties C03 and C12).

The same op scripts run on the extracted models (ocaml/drv_mem.ml over coq/Mem/*.v) and on the
white-box C harness harness/mem_wb.c (static list functions of vnaproperty.c, the parameter-slot
allocator, vnacal_new_add_mapped_matrix_m without a port map) under ASan/UBSan with the allocation
interposer.  After every op the outcome class (Done / errno class) and the number of live blocks of
the object are compared.  For C12 every op additionally runs with request number k+1 failing.
"""
import os

import vplib
import mem_gen

C03_VFILES = ["Mem/Alloc.v", "Mem/AllocProofs.v", "Mem/PropList.v", "Mem/Owned.v", "Mem/PropListProofs.v",
              "Mem/ParamSlots.v", "Mem/ParamProofs.v", "Mem/DataAlloc.v", "Mem/DataProofs.v", "Mem/AddArrays.v", "Mem/AddArraysProofs.v",
              "Properties_C03.v"]
C12_VFILES = ["Mem/Alloc.v", "Mem/AllocProofs.v", "Mem/PropList.v", "Mem/Owned.v", "Mem/PropListProofs.v",
              "Mem/ParamSlots.v", "Mem/ParamProofs.v", "Mem/DataAlloc.v", "Mem/DataProofs.v", "Properties_C12.v"]

MODELLED = [
    "vnaproperty.c: list_check_allocation, list_alloc, list_subtree, list_insert, list_append, list_delete, scalar_alloc, "
    "vnaproperty_free (of a list of scalars), tail of vnaproperty_vset (coq/Mem/PropList.v)",
    "vnacal_parameter.c: _vnacal_alloc_parameter, _vnacal_free_parameter (scalar), _vnacal_teardown_parameter_collection; "
    "vnacal_delete_parameter look-up (coq/Mem/ParamSlots.v)",
    "vnadata_alloc.c: vnadata_alloc, _vnadata_extend_p, _vnadata_extend_m, _vnadata_extend_f, the allocation part of vnadata_resize, "
    "vnadata_free, for an object whose z0 mode is fixed (coq/Mem/DataAlloc.v)",
    "vnacal_new_add_common.c: declared lengths of m_cell_map, s_cell_map, port_connected, m_row_given, m_column_given, "
    "s_row_given, s_column_given against the loop bounds, calls without port map (coq/Mem/AddArrays.v)",
]
MODELLED_C12 = MODELLED[:3]

T_TYPES = [0, 2, 4]      # T8, TE10, T16
U_TYPES = [1, 3, 5]      # U8, UE10, U16


def gen_tie_script(rng, n, faults, obj):
    """ops on one list (obj "L") or one parameter table (obj "P"); indices from valid / boundary /
    invalid domains (the two objects are never mixed in one script: the interposer counts live
    blocks globally)"""
    ops = ["-1 %s new%s" % (obj[0], " 1" if obj == "D1" else " 0" if obj == "D" else "")]
    perf = obj == "D1"
    obj = obj[0]
    llen = 0
    pmax = 3
    for _ in range(n):
        k = -1
        if faults and rng.random() < 0.6:
            k = rng.randrange(0, 14) if obj == "D" else rng.choice([0, 0, 1, 1, 2, 3])
        if obj == "L":
            y = rng.random()
            if y < 0.35:
                ops.append("%d L append" % k)
                llen += 1
            elif y < 0.55:
                i = rng.choice([0, llen, llen + 1, max(llen - 1, 0), llen + rng.randint(0, 12), -1, 7, 8, 15, 16])
                ops.append("%d L set %d" % (k, i))
                llen = max(llen, i + 1)
            elif y < 0.7:
                i = rng.choice([0, 1, llen, max(llen - 1, 0), llen + 3, -1])
                ops.append("%d L insert %d" % (k, i))
                llen += 1
            elif y < 0.9:
                i = rng.choice([0, 0, max(llen - 1, 0), llen, llen + 1, -1, 3])
                ops.append("%d L delete %d" % (k, i))
                llen = max(llen - 1, 0)
            else:
                ops.append("%d L get %d" % (k, rng.choice([0, llen - 1, llen, -1, 100])))
        elif obj == "D":
            r, c = rng.choice([(0, 0), (1, 1), (2, 2), (3, 3), (1, 3), (4, 2), (2, 2), (0, 2), (-1, 1), (1, -1), (-1, -1)])
            f = rng.choice([0, 1, 2, 3, 5, 8, -1])
            ops.append("%d D resize %d %d %d" % (k, r, c, f))
        else:
            if rng.random() < 0.6:
                ops.append("%d P alloc" % k)
                pmax += 1
            else:
                ops.append("%d P delete %d" % (k, rng.choice([3, 4, 5, pmax - 1, pmax, pmax + 1, 0, 2, -1, 7, 8, 100])))
    ops.append("-1 %s free" % obj)
    return ops


def gen_add_cases(rng, n):
    out = []
    for _ in range(n):
        if rng.random() < 0.5:
            t = rng.choice(T_TYPES)
            fr, fc = rng.choice([(1, 1), (2, 2), (1, 2), (2, 3), (3, 3), (1, 3)])
        else:
            t = rng.choice(U_TYPES)
            fr, fc = rng.choice([(1, 1), (2, 2), (2, 1), (3, 2), (3, 3), (3, 1)])
        fs = max(fr, fc)
        br = rng.choice([fr, fr, fs, fr + 1, 0, -1, 1])
        bc = rng.choice([fc, fc, fs, fc + 1, 0, -1, 1])
        sr = rng.choice([fs, fs, fs, 0, -1, fs + 1, 1])
        sc = rng.choice([fs, fs, fs, 0, -1, fs + 1, 1])
        out.append("-1 A %d %d %d %d %d %d %d" % (t, fr, fc, br, bc, sr, sc))
    return out


# the refutation witnesses of the development (code as first read), replayed on the C side
WITNESSES = {
    "plist_delete_orig_oob_refuted": ["-1 L new"] + ["-1 L append"] * 8 + ["-1 L delete 0", "-1 L free"],
    "plist_delete_orig_leak_refuted": ["-1 L new", "-1 L append", "-1 L append", "-1 L delete 0", "-1 L free"],
    "pslots_orig_refuted": ["-1 P new"] + ["-1 P alloc"] * 5 + ["-1 P delete 7", "0 P alloc", "-1 P alloc", "-1 P free"],
    "vdata_extend_f_orig_refuted": ["-1 D new 1", "-1 D resize 0 0 2", "-1 D resize 2 2 2", "-1 D free"],
    "add_arrays_d14_refuted": ["-1 A 1 2 1 2 1 2 2"],
    "add_arrays_d50_refuted": ["-1 A 0 2 2 2 2 0 0"],
    "add_arrays_d48_refuted": ["-1 A 0 2 3 3 3 3 3"],
}


def run_c(ctx, exe, ops):
    sp = os.path.join(ctx.tmp, "tie_%d.txt" % abs(hash(tuple(ops))))
    with open(sp, "w") as f:
        f.write("\n".join(ops) + "\n")
    env = ctx.run_env(leak=False)
    rc, out, err = vplib.sh([exe, sp], timeout=60, env=env)
    os.unlink(sp)
    return rc, out.split("\n"), err


def run_model(ctx, drv, ops):
    rc, out, err = vplib.sh([drv], input="\n".join(ops) + "\n", timeout=120)
    return rc, out.split("\n"), err


def compare(ctx, exe, drv, ops):
    """None when model and C agree on every line, else (index, model line, C line, stderr)"""
    rc, c, err = run_c(ctx, exe, ops)
    rm, m, merr = run_model(ctx, drv, ops)
    for i in range(len(ops)):
        cl = c[i] if i < len(c) else "<C harness died rc=%d>" % rc
        ml = m[i] if i < len(m) else "<model driver died>"
        if cl != ml:
            return (i, ml, cl, err)
    return None


def run_tie(ctx, exe_unused, prop):
    broken = []
    try:
        exe = ctx.build_harness("mem_wb", san=True, wrap=True, exclude=("vnaproperty.c",))
        drv = ctx.ocaml_driver("drv_mem")
    except vplib.BuildError as e:
        ctx.obligation("tie:mem:build", False, str(e)[:300])
        return ["tie:mem:build"]
    quick = ctx.tier != "thorough"
    faults = (prop == "C12")
    nscripts = (25 if quick else 300)
    nsteps = 0
    first = None
    scripts = [("witness/" + k, v) for k, v in sorted(WITNESSES.items())]
    for i in range(nscripts):
        scripts.append(("tie/%d" % i, gen_tie_script(ctx.rng, 40 if quick else 120, faults, ["L", "P", "D", "D1"][i % 4])))
    if not faults:
        scripts.append(("tie/add", gen_add_cases(ctx.rng, 120 if quick else 1500)))
    for label, ops in scripts:
        d = compare(ctx, exe, drv, ops)
        nsteps += len(ops)
        ctx.count(("tie", label), len(ops))
        if d is not None and first is None:
            def still(sub):
                return compare(ctx, exe, drv, sub) is not None
            small = mem_gen.ddmin(list(ops), still, budget=60)
            d2 = compare(ctx, exe, drv, small) or d
            first = (label, small, d2)
    ctx.traces_validated += len(scripts)
    ctx.extra["tie_steps_compared"] = nsteps
    if first is None:
        ctx.obligation("tie:mem:model_vs_C(%s)" % prop, True, "%d scripts, %d steps" % (len(scripts), nsteps))
        ctx.sample({"tie_script": scripts[len(WITNESSES)][1][:8]})
        return broken
    label, small, (i, ml, cl, err) = first
    ctx.obligation("tie:mem:model_vs_C(%s)" % prop, False, "%s line %d: model `%s` C `%s`" % (label, i, ml, cl))
    opname = " ".join(small[i].split(" ")[1:3]) if i < len(small) else "?"
    sig = mem_gen.fault_signature(1, err) if ("AddressSanitizer" in err or "runtime error" in err) else None
    if sig is None:
        sig = {"kind": "disagreement", "op": opname, "class": "%s|%s" % (ml.split(" ")[0], cl.split(" ")[0])}
    else:
        sig["op"] = opname
    # the theorems of Properties_%s say the model never faults and frees everything: the property text sides with the model
    ctx.violation(sig, "model and implementation disagree on `%s` (script %s): model says `%s`, C gives `%s`" % (small[i] if i < len(small) else "?", label, ml, cl),
                  {"script": small, "line": i, "model": ml, "implementation": cl, "how": "harness/mem_wb.c vs ocaml/drv_mem", "stderr": err[-2000:]})
    broken.append("tie:mem")
    return broken
