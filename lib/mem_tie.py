"""Model / C tie for the memory models (properties C03 and C12).

The same op scripts run on the extracted models (ocaml/drv_mem.ml over coq/Mem/*.v) and on the
white-box C harness harness/mem_wb.c (static list / map functions of vnaproperty.c, the static hash
functions of vnacal_new_parameter.c, the parameter-slot allocator, vnacal_new_add_mapped_matrix_m
without a port map) under ASan/UBSan with the allocation interposer.  After every op the outcome
class (Done / errno class) and the number of live blocks of the object are compared; for the two
hash tables (coq/Mem/HashTab.v) also allocation, count, the keys of every chain in link order and
the insertion-order list.  For C12 every op additionally runs with request number k+1 failing.
"""
import os

import vplib
import mem_gen
import prop_lib

C03_VFILES = ["Mem/Alloc.v", "Mem/AllocProofs.v", "Mem/PropList.v", "Mem/Owned.v", "Mem/PropListProofs.v",
              "Mem/ParamSlots.v", "Mem/ParamProofs.v", "Mem/DataAlloc.v", "Mem/DataProofs.v", "Mem/DataZ0.v", "Mem/DataZ0Proofs.v", "Mem/AddArrays.v", "Mem/AddArraysProofs.v",
              "Mem/HashTab.v", "Mem/HashTabProofs.v", "Properties_C03.v"]
C12_VFILES = ["Mem/Alloc.v", "Mem/AllocProofs.v", "Mem/PropList.v", "Mem/Owned.v", "Mem/PropListProofs.v",
              "Mem/ParamSlots.v", "Mem/ParamProofs.v", "Mem/DataAlloc.v", "Mem/DataProofs.v", "Mem/DataZ0.v", "Mem/DataZ0Proofs.v",
              "Mem/HashTab.v", "Mem/HashTabProofs.v", "Properties_C12.v"]

MODELLED = [
    "vnaproperty.c: list_check_allocation, list_alloc, list_subtree, list_insert, list_append, list_delete, scalar_alloc, "
    "vnaproperty_free (of a list of scalars), tail of vnaproperty_vset (coq/Mem/PropList.v)",
    "vnacal_parameter.c: _vnacal_alloc_parameter, _vnacal_free_parameter (scalar), _vnacal_teardown_parameter_collection; "
    "vnacal_delete_parameter look-up (coq/Mem/ParamSlots.v)",
    "vnadata_alloc.c: vnadata_alloc, _vnadata_extend_p, _vnadata_extend_m, _vnadata_extend_f, the allocation part of vnadata_resize, "
    "vnadata_free, for an object whose z0 mode is fixed (coq/Mem/DataAlloc.v)",
    "vnadata z0 modes: _vnadata_convert_to_fz0 (row vector and one row for EVERY allocated frequency, unwind of the rows, release of the "
    "simple vector), _vnadata_convert_to_z0, vnadata_set_z0, vnadata_set_fz0, vnadata_set_all_z0, vnadata_set_z0_vector and "
    "vnadata_set_fz0_vector with the caller's vector taken from vnadata_get_z0_vector / vnadata_get_fz0_vector of the same object "
    "(copy before the conversion: D72 / D73), the loops of vnadata_resize that re-initialise vacated z0 cells (coq/Mem/DataZ0.v)",
    "vnacal_new_add_common.c: declared lengths of m_cell_map, s_cell_map, port_connected, m_row_given, m_column_given, "
    "s_row_given, s_column_given against the loop bounds, calls without port map (coq/Mem/AddArrays.v)",
    "vnacal_new_parameter.c: hash_expand, hash_lookup, hash_insert, _vnacal_new_init_parameter_hash, "
    "_vnacal_new_free_parameter_hash, the look-up / malloc / insert sequence of _vnacal_new_get_parameter for a scalar "
    "parameter (coq/Mem/HashTab.v)",
    "vnaproperty.c: map_compare_keys (as the rank of (crc32c, name)), map_find_anchor, map_expand, map_subtree, map_delete, "
    "map_alloc, the calloc/fill of vnaproperty_vkeys, vnaproperty_free of a map (coq/Mem/HashTab.v)",
]
MODELLED_C12 = MODELLED[:4] + MODELLED[5:]

HASH_PARAMS = 150         # scalar parameters created for the parameter-hash scripts (indices 3 .. 152)


def _hash_keys(rng):
    """parameter indices that collide modulo 8, 16, 32 and 64, enough of them (> 32) to grow 8 -> 16 -> 32 -> 64"""
    c, d = rng.sample(range(8), 2)
    keys = [c, c + 8, c + 16, c + 24, c + 32, c + 64, c + 72, c + 96, c + 128, d, d + 16, d + 32, d + 64, d + 128, d + 8]
    pool = [x for x in range(0, HASH_PARAMS + 3) if x not in keys]
    keys += rng.sample(pool, 22)
    absent = [x for x in (c + 40, c + 48, c + 136, d + 24, d + 96) if x not in keys] + rng.sample([x for x in pool if x not in keys], 3)
    return keys, absent


def gen_hash_script(rng, faults, mode):
    """one parameter hash: insert (get) in ascending / descending / shuffled order, look-ups (find) of
    present and absent colliding indices, repeated gets, negative indices.
    faults: mode 0 = every insert first with its malloc failing (k = 0), then with the realloc of a due
    hash_expand failing (k = 1); mode 1 = malloc failing then a clean retry; mode 2 = random k; mode 3 = the
    initial table allocation fails"""
    keys, absent = _hash_keys(rng)
    order = ["asc", "desc", "shuffle"][mode % 3] if not faults else rng.choice(["asc", "desc", "shuffle"])
    ins = sorted(keys) if order == "asc" else sorted(keys, reverse=True) if order == "desc" else rng.sample(keys, len(keys))
    ops = ["%d H new %d" % (0 if (faults and mode == 3) else -1, HASH_PARAMS)]
    done = []
    for i, p in enumerate(ins):
        if faults and mode == 0:
            ops += ["0 H get %d" % p, "1 H get %d" % p]
        elif faults and mode == 1:
            ops += ["0 H get %d" % p, "-1 H get %d" % p]
        elif faults:
            k = rng.choice([-1, -1, 0, 1, 2])
            ops.append("%d H get %d" % (k, p))
            if k == 0:
                ops.append("%d H get %d" % (rng.choice([-1, 1]), p))
        else:
            ops.append("-1 H get %d" % p)
        done.append(p)
        if i % 4 == 3:
            q = rng.choice(done)
            ops.append("%d H find %d" % (rng.choice([-1, 0]) if faults else -1, q))
            ops.append("-1 H find %d" % rng.choice(absent))
            ops.append("%d H get %d" % (rng.choice([-1, 0, 1]) if faults else -1, rng.choice(done)))
    for p in keys + absent:
        ops.append("-1 H find %d" % p)
    ops += ["-1 H find -1", "-1 H get -1", "-1 H get -7", "-1 H free"]
    return ops


def _map_names(rng, full_pairs):
    names = []
    for mod, g, n in ((8, 1, 3), (16, 1, 3), (32, 1, 3), (11, 1, 4), (33, 1, 4), (99, 2, 6)):
        for grp in prop_lib.colliding_keys(rng, mod, groups=g, per_group=n):
            names += grp
    for a, b in full_pairs:
        names += [a, b]
    while len(set(names)) < 72:
        names.append(prop_lib._rand_key(rng, rng.randint(1, 5)))
    names = list(dict.fromkeys(names))
    absent = [k for grp in prop_lib.colliding_keys(rng, 99, groups=1, per_group=4) for k in grp if k not in names]
    return names, absent


def gen_map_script(rng, faults, mode, full_pairs=()):
    """one vnaproperty map driven through map_subtree / map_delete directly: 70+ keys (11 -> 33 -> 99 buckets;
    other sizes when an expansion failed), CRC-32C collisions modulo 8/16/32/11/33/99 and identical 32-bit
    CRCs, ascending / descending / shuffled insertion, delete then reinsert, look-ups of absent keys.
    faults: for set, request 1 is the realloc when an expansion is due, else the element malloc; k in 0..2"""
    names, absent = _map_names(rng, full_pairs)
    every = names + absent
    ranked = sorted(every, key=lambda k: (prop_lib.crc32c(k), k))
    rank = dict((k, i) for i, k in enumerate(ranked))

    def arg(k):
        return "%d %d %s" % (rank[k], prop_lib.crc32c(k), k.hex())
    order = ["asc", "desc", "shuffle"][mode % 3] if not faults else rng.choice(["asc", "desc", "shuffle"])
    ins = [k for k in ranked if k in names]
    ins = ins if order == "asc" else ins[::-1] if order == "desc" else rng.sample(names, len(names))
    ops = ["%d M new" % (0 if (faults and mode == 3) else -1)]
    present = []

    def fk(choices):
        return rng.choice(choices) if faults else -1
    for i, k in enumerate(ins):
        if faults and mode == 0:
            ops += ["0 M set " + arg(k), "1 M set " + arg(k), "2 M set " + arg(k), "-1 M set " + arg(k)]
        elif faults and mode == 1:
            ops += ["%d M set %s" % (rng.choice([0, 1]), arg(k)), "-1 M set " + arg(k)]
        else:
            kk = fk([-1, -1, 0, 1, 2])
            ops.append("%d M set %s" % (kk, arg(k)))
            if kk >= 0:
                ops.append("-1 M set " + arg(k))
        present.append(k)
        if i % 5 == 4:
            ops.append("%d M get %s" % (fk([-1, 0]), arg(rng.choice(present))))
            ops.append("%d M get %s" % (fk([-1, 0]), arg(rng.choice(absent))))
            ops.append("%d M set %s" % (fk([-1, 0, 1]), arg(rng.choice(present))))
        if i % 11 == 10:
            d = rng.choice(present)
            ops.append("%d M del %s" % (fk([-1, 0]), arg(d)))
            present.remove(d)
            ops.append("-1 M del " + arg(d))
            if rng.random() < 0.7:
                ops.append("%d M set %s" % (fk([-1, 0, 1, 2]), arg(d)))
                ops.append("-1 M set " + arg(d))
                present.append(d)
        if i % 17 == 16:
            ops.append("-1 M keys")
    ops.append("-1 M keys")
    for k in every:
        ops.append("-1 M get " + arg(k))
    for d in rng.sample(present, len(present) // 2):
        ops.append("%d M del %s" % (fk([-1, 0]), arg(d)))
    for k in absent:
        ops.append("-1 M del " + arg(k))
    ops.append("-1 M keys")
    for k in every:
        ops.append("-1 M get " + arg(k))
    ops.append("-1 M free")
    return ops

T_TYPES = [0, 2, 4]      # T8, TE10, T16
U_TYPES = [1, 3, 5]      # U8, UE10, U16


def gen_tie_script(rng, n, faults, obj):
    """ops on one list (obj "L") or one parameter table (obj "P"); indices from valid / boundary /
    invalid domains (the two objects are never mixed in one script: the interposer counts live
    blocks globally)"""
    ops = ["-1 %s new%s" % (obj[0], " 1" if obj == "D1" else " 0" if obj == "D" else "")]
    perf = obj == "D1"
    obj = obj[0]
    llen = 0
    pmax = 3
    for _ in range(n):
        k = -1
        if faults and rng.random() < 0.6:
            k = rng.randrange(0, 14) if obj == "D" else rng.choice([0, 0, 1, 1, 2, 3])
        if obj == "L":
            y = rng.random()
            if y < 0.35:
                ops.append("%d L append" % k)
                llen += 1
            elif y < 0.55:
                i = rng.choice([0, llen, llen + 1, max(llen - 1, 0), llen + rng.randint(0, 12), -1, 7, 8, 15, 16])
                ops.append("%d L set %d" % (k, i))
                llen = max(llen, i + 1)
            elif y < 0.7:
                i = rng.choice([0, 1, llen, max(llen - 1, 0), llen + 3, -1])
                ops.append("%d L insert %d" % (k, i))
                llen += 1
            elif y < 0.9:
                i = rng.choice([0, 0, max(llen - 1, 0), llen, llen + 1, -1, 3])
                ops.append("%d L delete %d" % (k, i))
                llen = max(llen - 1, 0)
            else:
                ops.append("%d L get %d" % (k, rng.choice([0, llen - 1, llen, -1, 100])))
        elif obj == "D":
            r, c = rng.choice([(0, 0), (1, 1), (2, 2), (3, 3), (1, 3), (4, 2), (2, 2), (0, 2), (-1, 1), (1, -1), (-1, -1)])
            f = rng.choice([0, 1, 2, 3, 5, 8, -1])
            ops.append("%d D resize %d %d %d" % (k, r, c, f))
        else:
            if rng.random() < 0.6:
                ops.append("%d P alloc" % k)
                pmax += 1
            else:
                ops.append("%d P delete %d" % (k, rng.choice([3, 4, 5, pmax - 1, pmax, pmax + 1, 0, 2, -1, 7, 8, 100])))
    ops.append("-1 %s free" % obj)
    return ops


def gen_z_script(rng, n, faults):
    """one vnadata_t driven through resize (grow, shrink, grow back inside the allocation) and every z0 setter, the vector
    setters with a buffer of the harness, with the object's own z0 vector and with one of its per-frequency rows; indices
    from valid / boundary / invalid domains"""
    ops = ["-1 Z new"]
    r = c = f = 0
    for _ in range(n):
        k = -1
        if faults and rng.random() < 0.6:
            k = rng.randrange(0, 12)
        y = rng.random()
        fi = rng.choice([0, 0, 1, max(f - 1, 0), f, f + 1, -1, 2, 3])
        pi = rng.choice([0, 0, 1, max(max(r, c) - 1, 0), max(r, c), -1])
        if y < 0.34:
            nr, nc = rng.choice([(0, 0), (1, 1), (2, 2), (3, 3), (1, 3), (4, 2), (2, 2), (0, 2), (-1, 1), (4, 4)])
            nf = rng.choice([0, 1, 2, 3, 5, 8, 10, -1])
            ops.append("%d Z resize %d %d %d" % (k, nr, nc, nf))
            if k < 0 and nr >= 0 and nc >= 0 and nf >= 0:
                r, c, f = nr, nc, nf
        elif y < 0.5:
            ops.append("%d Z setfz0 %d %d" % (k, fi, pi))
        elif y < 0.68:
            ops.append("%d Z setfz0v %d %d %d" % (k, fi, rng.choice([0, 1, 1, 2, 2]), rng.choice([0, 1, max(f - 1, 0), f, -1])))
        elif y < 0.78:
            ops.append("%d Z setz0 %d" % (k, pi))
        elif y < 0.93:
            ops.append("%d Z setz0v %d %d" % (k, rng.choice([0, 1, 2, 2, 2]), rng.choice([0, 1, max(f - 1, 0), f, -1])))
        else:
            ops.append("%d Z setallz0" % k)
    ops.append("-1 Z free")
    return ops


def gen_list_boundary_script(rng, n, faults):
    """a list filled to exactly n cells (n = 8, 16, 32: the vector is full), then every op kind at the boundary"""
    def k():
        return rng.choice([-1, 0, 1, 2]) if faults else -1
    ops = ["-1 L new"] + ["-1 L append"] * n
    tail = ["%d L insert 3" % k(), "-1 L insert 3", "%d L append" % k(), "-1 L delete 0", "-1 L delete 0", "%d L insert %d" % (k(), n - 1),
            "-1 L insert %d" % (n - 1), "%d L set %d" % (k(), n + 3), "-1 L get %d" % n, "-1 L delete %d" % (n + 3), "-1 L insert 0", "-1 L free"]
    if rng.random() < 0.5:
        tail = tail[2:4] + tail[0:2] + tail[4:]
    return ops + tail


def gen_add_cases(rng, n):
    out = []
    for _ in range(n):
        if rng.random() < 0.5:
            t = rng.choice(T_TYPES)
            fr, fc = rng.choice([(1, 1), (2, 2), (1, 2), (2, 3), (3, 3), (1, 3)])
        else:
            t = rng.choice(U_TYPES)
            fr, fc = rng.choice([(1, 1), (2, 2), (2, 1), (3, 2), (3, 3), (3, 1)])
        fs = max(fr, fc)
        br = rng.choice([fr, fr, fs, fr + 1, 0, -1, 1])
        bc = rng.choice([fc, fc, fs, fc + 1, 0, -1, 1])
        sr = rng.choice([fs, fs, fs, 0, -1, fs + 1, 1])
        sc = rng.choice([fs, fs, fs, 0, -1, fs + 1, 1])
        out.append("-1 A %d %d %d %d %d %d %d" % (t, fr, fc, br, bc, sr, sc))
    return out


# the refutation witnesses of the development (code as first read), replayed on the C side
WITNESSES = {
    "plist_delete_orig_oob_refuted": ["-1 L new"] + ["-1 L append"] * 8 + ["-1 L delete 0", "-1 L free"],
    "plist_delete_orig_leak_refuted": ["-1 L new", "-1 L append", "-1 L append", "-1 L delete 0", "-1 L free"],
    "pslots_orig_refuted": ["-1 P new"] + ["-1 P alloc"] * 5 + ["-1 P delete 7", "0 P alloc", "-1 P alloc", "-1 P free"],
    "vdata_extend_f_orig_refuted": ["-1 D new 1", "-1 D resize 0 0 2", "-1 D resize 2 2 2", "-1 D free"],
    # D72 / D73 as first read: the object's own vector handed to the setter that changes the z0 mode
    "set_fz0_vector_alias_refuted": ["-1 Z new", "-1 Z resize 2 2 2", "-1 Z setfz0v 1 1 0", "-1 Z free"],
    "set_z0_vector_alias_refuted": ["-1 Z new", "-1 Z resize 2 2 2", "-1 Z setfz0 0 0", "-1 Z setz0v 2 1", "-1 Z free"],
    # the shape of the seeded change C03-4: rows for the frequencies in use only
    "convert_rows_in_use_refuted": ["-1 Z new", "-1 Z resize 2 2 4", "-1 Z resize 2 2 1", "-1 Z setfz0 0 1", "-1 Z resize 2 2 3", "-1 Z setfz0 2 1", "-1 Z free"],
    "add_arrays_d14_refuted": ["-1 A 1 2 1 2 1 2 2"],
    "add_arrays_d50_refuted": ["-1 A 0 2 2 2 2 0 0"],
    "add_arrays_d48_refuted": ["-1 A 0 2 3 3 3 3 3"],
    # hash_insert pushing on the chain head: key 0 would be hidden behind key 8
    "phash_head_insert_refuted": ["-1 H new 20", "-1 H get 0", "-1 H get 8", "-1 H find 0", "-1 H get 0", "-1 H free"],
    # hash_expand pushing rehashed nodes on the chain head: after the growth to 16 buckets key 3 would be hidden behind 19
    "phash_rehash_head_refuted": ["-1 H new 20"] + ["-1 H get %d" % p for p in (3, 19, 4, 5, 6, 7, 9, 10)] + ["-1 H find 3", "-1 H get 3", "-1 H free"],
}


def run_c(ctx, exe, ops):
    sp = os.path.join(ctx.tmp, "tie_%d.txt" % abs(hash(tuple(ops))))
    with open(sp, "w") as f:
        f.write("\n".join(ops) + "\n")
    env = ctx.run_env(leak=False)
    rc, out, err = vplib.sh([exe, sp], timeout=60, env=env)
    os.unlink(sp)
    return rc, out.split("\n"), err


def run_model(ctx, drv, ops):
    rc, out, err = vplib.sh([drv], input="\n".join(ops) + "\n", timeout=120)
    return rc, out.split("\n"), err


def compare(ctx, exe, drv, ops):
    """None when model and C agree on every line, else (index, model line, C line, stderr)"""
    rc, c, err = run_c(ctx, exe, ops)
    rm, m, merr = run_model(ctx, drv, ops)
    for i in range(len(ops)):
        cl = c[i] if i < len(c) else "<C harness died rc=%d>" % rc
        ml = m[i] if i < len(m) else "<model driver died>"
        if cl != ml:
            return (i, ml, cl, err)
    return None


def run_tie(ctx, exe_unused, prop):
    broken = []
    try:
        exe = ctx.build_harness("mem_wb", san=True, wrap=True, exclude=("vnaproperty.c", "vnacal_new_parameter.c"))
        drv = ctx.ocaml_driver("drv_mem")
    except vplib.BuildError as e:
        ctx.obligation("tie:mem:build", False, str(e)[:300])
        return ["tie:mem:build"]
    quick = ctx.tier != "thorough"
    faults = (prop == "C12")
    nscripts = (25 if quick else 300)
    nsteps = 0
    first = None
    scripts = [("witness/" + k, v) for k, v in sorted(WITNESSES.items())]
    for i in range(nscripts):
        scripts.append(("tie/%d" % i, gen_tie_script(ctx.rng, 40 if quick else 120, faults, ["L", "P", "D", "D1"][i % 4])))
    for i in range(8 if quick else 100):
        scripts.append(("tie/z0/%d" % i, gen_z_script(ctx.rng, 40 if quick else 120, faults)))
    for i, n in enumerate((8, 16, 32) if quick else (8, 16, 32, 64, 8, 16, 32, 64, 128)):
        scripts.append(("tie/listboundary/%d" % i, gen_list_boundary_script(ctx.rng, n, faults)))
    if not faults:
        scripts.append(("tie/add", gen_add_cases(ctx.rng, 120 if quick else 1500)))
    # the two hash tables: bucket-for-bucket comparison
    full_pairs = prop_lib.full_collisions(ctx.rng, pairs=2)
    ctx.extra["crc32c_full_collisions_in_tie"] = [[a.decode(), b.decode()] for a, b in full_pairs]
    nhash = (4 if quick else 24)
    for i in range(nhash):
        scripts.append(("tie/hash/%d" % i, gen_hash_script(ctx.rng, faults, i % 4)))
        scripts.append(("tie/map/%d" % i, gen_map_script(ctx.rng, faults, i % 4, full_pairs)))
    for label, ops in scripts:
        d = compare(ctx, exe, drv, ops)
        nsteps += len(ops)
        ctx.count(("tie", label), len(ops))
        if d is not None and first is None:
            def still(sub):
                return compare(ctx, exe, drv, sub) is not None
            small = mem_gen.ddmin(list(ops), still, budget=60)
            d2 = compare(ctx, exe, drv, small) or d
            first = (label, small, d2)
    ctx.traces_validated += len(scripts)
    ctx.extra["tie_steps_compared"] = nsteps
    if first is None:
        ctx.obligation("tie:mem:model_vs_C(%s)" % prop, True, "%d scripts, %d steps" % (len(scripts), nsteps))
        ctx.sample({"tie_script": scripts[len(WITNESSES)][1][:8]})
        return broken
    label, small, (i, ml, cl, err) = first
    ctx.obligation("tie:mem:model_vs_C(%s)" % prop, False, "%s line %d: model `%s` C `%s`" % (label, i, ml, cl))
    opname = " ".join(small[i].split(" ")[1:3]) if i < len(small) else "?"
    sig = mem_gen.fault_signature(1, err) if ("AddressSanitizer" in err or "runtime error" in err) else None
    if sig is None:
        sig = {"kind": "disagreement", "op": opname, "class": "%s|%s" % (ml.split(" ")[0], cl.split(" ")[0])}
    else:
        sig["op"] = opname
    # the theorems of Properties_%s say the model never faults and frees everything: the property text sides with the model
    ctx.violation(sig, "model and implementation disagree on `%s` (script %s): model says `%s`, C gives `%s`" % (small[i] if i < len(small) else "?", label, ml, cl),
                  {"script": small, "line": i, "model": ml, "implementation": cl, "how": "harness/mem_wb.c vs ocaml/drv_mem", "stderr": err[-2000:]})
    broken.append("tie:mem")
    return broken
