"""Fast mirror (fractions.Fraction) of coq/Interp/RfiModel.v, used by checks/C10.py.

Exact evaluation of the extracted Coq model is slow for m = 4, 5 with EPS = 1e-25 (Coq's binary
integers; 90 s for one m = 5 point), so the bulk of the C-vs-model comparison goes through this
mirror.  The mirror is not trusted: on every run it is compared *exactly* (equality of rationals,
new hint, number of recurrence steps) with the extracted model on a set of cases with the real
constants (m <= 3 and a few m = 4) and on a larger set with coarse constants (eps = 1/8, ...)
for all m, where cut-offs and EPS tests trigger often.  Same structure and names as the Coq file.
"""
from fractions import Fraction

F0 = Fraction(0)


class Fault(Exception):
    pass


def rd(l, i):
    if i < 0 or i >= len(l):
        raise Fault("read [%d] of %d" % (i, len(l)))
    return l[i]


def cmul(a, b):
    return (a[0] * b[0] - a[1] * b[1], a[0] * b[1] + a[1] * b[0])


def csub(a, b):
    return (a[0] - b[0], a[1] - b[1])


def cadd(a, b):
    return (a[0] + b[0], a[1] + b[1])


def nrm(a):
    return a[0] * a[0] + a[1] * a[1]


def cdiv(a, b):
    n = nrm(b)
    if n == 0:                      # Coq: x / 0 = 0
        inv = (F0, F0)
    else:
        inv = (b[0] / n, -b[1] / n)
    return cmul(a, inv)


def quot(a, b):
    q = abs(a) // abs(b)
    return q if (a >= 0) == (b >= 0) else -q


def rfi_full(eps, cut, xp, yp, n, m, x, hint):
    """-> (value (re, im), new hint, trace [(den, a, b)]); raises Fault."""
    if n < 1 or n < m or m < 1:
        raise Fault("assert")
    if n < 2:
        return rd(yp, 0), hint, []
    s = 0 if hint < 0 else (n - 2 if hint > n - 2 else hint)
    if x < rd(xp, s):
        while s > 0 and x < rd(xp, s):
            s -= 1
    else:
        while s < n - 2 and x > rd(xp, s + 1):
            s += 1
    dx1 = abs(x - rd(xp, s))
    if dx1 <= eps:
        return rd(yp, s), hint, []
    dx2 = abs(x - rd(xp, s + 1))
    if dx2 <= eps:
        return rd(yp, s + 1), hint, []
    nearest = s if (dx1 <= dx2 or m < 2) else s + 1
    b = nearest - quot(m - 1, 2) if m % 2 == 1 else s - (quot(m, 2) - 1)
    base = 0 if b < 0 else (n - m if n < b + m else b)
    cur = nearest - base
    if not (0 <= base <= n - m and 0 <= cur < m):
        raise Fault("assert base/cur")
    c = [rd(yp, base + i) for i in range(m)]
    d = [((v[0] + eps) if v[0] == 0 else v[0], v[1]) for v in c]      # add_eps
    y = rd(yp, base + cur)
    cur -= 1
    tr = []
    for i in range(m - 1):
        cutoff = False
        for j in range(m - i - 1):
            cj1 = rd(c, j + 1)
            dj = rd(d, j)
            xa = rd(xp, base + j)
            xb = rd(xp, base + i + j + 1)
            c_d = csub(cj1, dj)
            a1 = ((x - xa) * dj[0], (x - xa) * dj[1])
            a2 = ((x - xb) * cj1[0], (x - xb) * cj1[1])
            den = csub(a1, a2)
            tr.append((den, a1, a2))
            if nrm(den) < cut * cut:
                cutoff = True
                break
            c[j] = cdiv(cmul(cmul(c_d, (x - xa, F0)), dj), den)
            d[j] = cdiv(cmul(cmul(c_d, (x - xb, F0)), rd(c, j + 1)), den)
        if cutoff:
            return y, s, tr
        if 2 * (cur + 1) < m - i:
            if not (0 <= cur + 1 < m - i):
                raise Fault("assert cur+1")
            y = cadd(y, rd(c, cur + 1))
        else:
            if not (0 <= cur < m - i):
                raise Fault("assert cur")
            y = cadd(y, rd(d, cur))
            cur -= 1
    return y, s, tr


def cond(tr):
    c = 1.0
    for den, a, b in tr:
        s = nrm(a) + nrm(b)
        if s == 0:
            continue                # exact zeros on both sides: the cut-off triggers in C as well
        c = min(c, float(nrm(den) / s))
    return c


def rfi_run(eps, cut, xp, yp, n, m, hint, qs):
    out = []
    for q in qs:
        try:
            v, hint, tr = rfi_full(eps, cut, xp, yp, n, m, q, hint)
            out.append((v, cond(tr)))
        except Fault:
            out.append(None)
    return out, hint


def window(eps, xp, n, m, x, hint):
    """(base, cur) of the m-point window the model selects for x, or None when the call returns
    early (n < 2 or a knot test); same arithmetic as rfi_full."""
    if n < 1 or n < m or m < 1:
        raise Fault("assert")
    if n < 2:
        return None
    s = 0 if hint < 0 else (n - 2 if hint > n - 2 else hint)
    if x < rd(xp, s):
        while s > 0 and x < rd(xp, s):
            s -= 1
    else:
        while s < n - 2 and x > rd(xp, s + 1):
            s += 1
    dx1 = abs(x - rd(xp, s))
    dx2 = abs(x - rd(xp, s + 1))
    if dx1 <= eps or dx2 <= eps:
        return None
    nearest = s if (dx1 <= dx2 or m < 2) else s + 1
    b = nearest - quot(m - 1, 2) if m % 2 == 1 else s - (quot(m, 2) - 1)
    base = 0 if b < 0 else (n - m if n < b + m else b)
    return base, nearest - base


def amplification(tr):
    """Rough bound on how much the recurrence amplifies rounding errors: product over the recorded
    steps of max(1, sqrt((|a|^2 + |b|^2) / |den|^2)), den = a - b."""
    amp = 1.0
    for den, a, b in tr:
        s = nrm(a) + nrm(b)
        d = nrm(den)
        if s == 0 or d == 0:
            continue
        amp *= max(1.0, float(s / d) ** 0.5)
    return amp


# ----------------------------------------------------------------------------- parameter chains
# Mirror of coq/Interp/FrangeModel.v + FrangeRun.v (same names).  The two regenerated pieces
# (frange_clamp, range_new_parameter_reject_x) are evaluated from the parsed C statements through
# translate/ranges.py (py_clamp, py_decide_x).  Compared exactly with vm_compute of the Coq model on
# every case of every run (checks/C10.py, obligation "tie:mirror==Coq chain model").
# Parameters: ("S",) | ("V", fs) | ("U", other) | ("K", grid or None, other).   INF = "inf".
INF = "inf"


def walk(p):
    while True:
        if p[0] == "S":
            return (F0, INF)
        if p[0] == "V":
            return (p[1][0] if p[1] else F0, p[1][-1] if p[1] else F0)
        p = p[-1]


def chain_end(p):
    while p[0] in ("U", "K"):
        p = p[-1]
    return p


def frange(rg, tr, p):
    lo, hi = walk(p)
    if p[0] == "K" and p[1] is not None:
        g = p[1]
        return rg.py_clamp(tr, g[0] if g else F0, g[-1] if g else F0, lo, hi)
    return (lo, hi)


def mk_correlated(min_dx, other, sfv, n, sigma):
    if n < 1:
        return None
    if n == 1:
        if any(s <= 0 for s in sigma[:1]):
            return None
        return ("K", None, other)
    e = chain_end(other)
    if sfv is None:
        if e[0] != "V" or len(e[1]) != n:
            return None
        g = e[1]
    else:
        g = sfv
        if (g[0] if g else F0) < 0:
            return None
        if any(b <= a for a, b in zip(g, g[1:])):
            return None
        if e[0] == "V":
            fs = e[1]
            if fs[-1] < g[0] or g[-1] < fs[0]:
                return None
    if any(s <= 0 for s in sigma):
        return None
    if any(b - a < min_dx for a, b in zip(g, g[1:])):
        return None
    return ("K", list(g), other)


def build(min_dx, nodes):
    made, prev = [], None
    for nd in nodes:
        if nd[0] == "S":
            p = ("S",)
        elif nd[0] == "V":
            p = ("V", list(nd[1]))
        elif prev is None:
            p = None
        elif nd[0] == "U":
            p = ("U", prev)
        else:
            p = mk_correlated(min_dx, prev, nd[2], nd[1], nd[3])
        if p is None:
            return made, False
        made.append(p)
        prev = p
    return made, True


def single_ok(rg, tr, nl, nh, p):
    lo, hi = frange(rg, tr, p)
    return not rg.py_decide_x(tr, nl, nh, lo, hi)


def hash_members(p):
    out = [p]
    while p[0] == "K":
        p = p[2]
        out.append(p)
    return out


def add_ok(rg, tr, nl, nh, p):
    for q in hash_members(p):          # the parameter, then its correlates, stopping at the first refusal
        if not single_ok(rg, tr, nl, nh, q):
            return False
    return True


def set_ok(rg, tr, nl, nh, members):
    return all(single_ok(rg, tr, nl, nh, q) for q in members)


def consumed(p):
    out = []
    while p[0] == "K":
        if p[1] is not None:
            out.append((p[1][0], p[1][-1]))
        p = p[2]
    out.append(walk(p))
    return out


def chain_report(rg, tr, min_dx, nl, nh, nodes):
    """-> (number made, [(lo, hi)], None | (add_ok, set_ok))"""
    made, ok = build(min_dx, nodes)
    fr = [frange(rg, tr, p) for p in made]
    if ok and made:
        head = made[-1]
        return len(made), fr, (add_ok(rg, tr, nl, nh, head), set_ok(rg, tr, nl, nh, list(reversed(hash_members(head)))))
    return len(made), fr, None
