"""Ties of the byte-level models (coq/Files/TsTok.v, TsParse.v, NpdLoad.v; agent tstone) to the C code.

* token streams: harness/tstone_tok.c (#includes vnadata_load_touchstone.c / vnadata_load_npd.c) dumps what
  next_token(flags) / scan_line return for a byte string; the extracted model (ocaml/drv_tstone.ml) prints the
  same thing; compared token by token (numbers: the model's exact rational, correctly rounded to binary64, must be
  the double strtod produced).
* loads: vnadata_fload through harness/datafiles_harness.c vs load_ts / load_npd: Ok / Error class, type,
  dimensions, file type, format, frequencies, z0 and cells.  Where the C code does no arithmetic on a value
  (RI cells of S data or of a version-2 file, frequencies in Hz) the comparison is exact; otherwise a relative
  tolerance of 1e-12 (frequencies, un-normalised RI cells) or 1e-11 of the matrix scale (MA / DB).
"""
import cmath
import math
import re
from fractions import Fraction

import vplib
import datafiles as D

TOL_EXACT_ARITH = 1e-12
TOL_TRANSC = 1e-11
MAX_PORTS = 40
MAX_FREQS = 5000


class Models(object):
    def __init__(self, ctx):
        self.ctx = ctx
        self.drv = ctx.ocaml_driver("drv_tstone")
        self.tok = ctx.build_harness("tstone_tok", san=True,
                                     extra=[vplib.os.path.join(vplib.VERIF, "harness", "tstone_npd.c")],
                                     exclude=("vnadata_load_touchstone.c", "vnadata_load_npd.c"))
        self.env = ctx.run_env(leak=True)

    def model(self, cmds, timeout=600):
        """cmds: list of command lines -> list of output lines (one per command)."""
        if not cmds:
            return []
        rc, out, err = vplib.sh([self.drv], input="\n".join(cmds) + "\n", timeout=timeout)
        lines = out.split("\n")
        if lines and lines[-1] == "":
            lines.pop()
        if rc != 0 or len(lines) != len(cmds):
            raise vplib.BuildError("extracted model driver failed (rc %s, %d of %d lines): %s" % (rc, len(lines), len(cmds), err[-500:]))
        return lines

    def white(self, cmds, timeout=600):
        """White-box harness; a command on which the process dies gives 'FAULT <stderr tail>'."""
        out_lines = []
        todo = list(cmds)
        while todo:
            rc, out, err = vplib.sh([self.tok], input="\n".join(todo) + "\n", timeout=timeout, env=self.env)
            lines = [l for l in out.split("\n") if l != ""]
            if rc == 0 and len(lines) == len(todo):
                out_lines += lines
                break
            done = [l for l in lines if l.startswith("TOKS") or l.startswith("LINES")]
            # the process died inside command number len(done) (a partial line may have been printed)
            done = done[:len(todo) - 1] if len(done) >= len(todo) else done
            out_lines += done
            out_lines.append("FAULT rc=%s %s" % (rc, err[-1500:].replace("\n", " | ")))
            todo = todo[len(done) + 1:]
        return out_lines


# ------------------------------------------------------------------------------------------------
# numbers
# ------------------------------------------------------------------------------------------------
def xfloat(s):
    """The model's number (num/den, inf, -inf, nan) as the nearest double."""
    if s == "inf":
        return float("inf")
    if s == "-inf":
        return float("-inf")
    if s == "nan":
        return float("nan")
    n, _, d = s.partition("/")
    fr = Fraction(int(n), int(d or "1"))
    try:
        return float(fr)
    except OverflowError:
        return float("inf") if fr > 0 else float("-inf")


def xfrac(s):
    if s in ("inf", "-inf", "nan"):
        return None
    n, _, d = s.partition("/")
    return Fraction(int(n), int(d or "1"))


def same(a, b):
    return a == b or (a != a and b != b)


def close(a, b, tol):
    if same(a, b):
        return True
    if a != a or b != b or math.isinf(a) or math.isinf(b):
        return False
    return abs(a - b) <= tol * max(abs(a), abs(b)) + 1e-320


# ------------------------------------------------------------------------------------------------
# token streams
# ------------------------------------------------------------------------------------------------
def compare_tokens(cline, mline):
    """None or a description of the first difference between a C and a model TOKS / LINES line."""
    if cline.startswith("FAULT"):
        return "the C tokenizer died: " + cline[:300]
    ct, mt = cline.split(), mline.split()
    if ct[0] != mt[0]:
        return "different line kinds %s / %s" % (ct[0], mt[0])
    for i, (a, b) in enumerate(zip(ct[1:], mt[1:])):
        if a == b:
            continue
        if a.startswith("DBL:") and b.startswith("DBL:"):
            try:
                ca = float.fromhex(a[4:]) if a[4:] not in ("inf", "-inf", "nan", "-nan") else float(a[4:].replace("-nan", "nan"))
            except ValueError:
                return "token %d: unreadable C double %s" % (i, a)
            if same(ca, xfloat(b[4:])):
                continue
        return "token %d: C %s, model %s" % (i, a, b)
    if len(ct) != len(mt):
        return "C returns %d tokens, the model %d (first extra: %s)" % (len(ct) - 1, len(mt) - 1,
                                                                          (ct + mt)[min(len(ct), len(mt))])
    return None


def token_tie(M, texts, flagsets=(0, 4, 2, 1)):
    """texts: list of (id, bytes-as-latin1-str).  Returns list of (id, flags, difference)."""
    cmds = []
    keys = []
    for cid, text in texts:
        hx = text.encode("latin-1").hex() or "-"
        for fl in flagsets:
            cmds.append("tok %d %s" % (fl, hx))
            keys.append((cid, fl))
    c = M.white(cmds)
    m = M.model(cmds)
    bad = []
    for k, cl, ml in zip(keys, c, m):
        d = compare_tokens(cl, ml)
        if d is not None:
            bad.append((k[0], k[1], d))
    return bad, len(cmds)


def npd_scan_tie(M, texts):
    cmds = ["npd %s" % (text.encode("latin-1").hex() or "-") for cid, text in texts]
    c = M.white(cmds)
    m = M.model(cmds)
    bad = []
    for (cid, text), cl, ml in zip(texts, c, m):
        if cl.startswith("FAULT"):
            bad.append((cid, "the C scanner died: " + cl[:300]))
        elif cl != ml:
            a, b = cl.split(";"), ml.split(";")
            k = 0
            while k < min(len(a), len(b)) and a[k] == b[k]:
                k += 1
            bad.append((cid, "record %d: C %s, model %s" % (k, (a + ["<none>"])[k][:200], (b + ["<none>"])[k][:200])))
    return bad, len(cmds)


# ------------------------------------------------------------------------------------------------
# loads
# ------------------------------------------------------------------------------------------------
def is_touchstone_name(name):
    suf = name.rsplit(".", 1)[-1] if "." in name else ""
    return suf.lower() == "ts" or re.match(r"^s\d+p$", suf) is not None


def resource_heavy(text):
    import c09_data
    return c09_data.resource_heavy(text)


def parse_model_ts(line):
    if line.startswith("ERR"):
        return ("ERR", line.split()[1])
    head, f, z, d = [x.strip() for x in line.split("|")]
    h = head.split()
    obj = {"version": int(h[1]), "type": h[2], "fmt": h[3], "ports": int(h[4]),
           "freqs": f.split()[1:], "z0": z.split()[1:], "cells": []}
    body = d[1:].strip()
    if body:
        for m in body.split(";"):
            t = m.split()
            obj["cells"].append([(t[i], t[i + 1], t[i + 2]) for i in range(0, len(t), 3)])
    elif obj["freqs"]:
        obj["cells"] = [[] for _ in obj["freqs"]]
    return ("OK", obj)


def cell_value(fmt, a, b, s):
    """(complex value as C would compute it up to rounding, exact?)"""
    fa, fb, fs = xfloat(a), xfloat(b), xfloat(s)
    if fmt == "RI":
        # v0 + I * v1 in C: I * v1 = (0 * v1, v1), so a non-finite imaginary part makes the real part a NaN
        v = complex(fa if math.isfinite(fb) else float("nan"), fb)
    else:
        if fmt == "MA":
            mag = fa
        else:
            try:
                mag = 10.0 ** (fa / 20.0) if not math.isinf(fa) else (float("inf") if fa > 0 else 0.0)
            except OverflowError:
                mag = float("inf")
        if fb != fb or math.isinf(fb) or mag != mag:
            v = complex(float("nan"), float("nan"))
        elif math.isinf(mag):
            v = complex(float("nan"), float("nan"))      # inf * (cos, sin): not compared
        else:
            v = cmath.rect(mag, math.radians(fb))
    if s != "1/1":
        v = complex(v.real * fs, v.imag * fs)
    return v


def finite_c(x):
    return math.isfinite(x.real) and math.isfinite(x.imag)


def compare_ts(mres, load_line, dump_line):
    """Model result vs LOAD/DUMP lines of datafiles_harness.  Returns None, ('skip', why) or ('diff', class, text)."""
    head = load_line.partition(" # ")[0].split()
    rc, en = int(head[1]), head[2]
    kind, val = mres
    if kind == "ERR":
        if val == "EINTERNAL":
            return ("diff", "model_internal", "the model ended in a non-terminal state")
        if rc == 0:
            return ("diff", "outcome", "C loads the file, the model rejects it with %s" % val)
        if en != val:
            return ("diff", "errno", "C fails with %s, the model with %s" % (en, val))
        return None
    if rc != 0:
        return ("diff", "outcome", "C rejects the file (%s: %s), the model loads it" % (en, load_line.partition(" # ")[2][:120]))
    o = D.parse_dump(dump_line)
    m = val
    if o is None:
        return ("diff", "dump", "no dump")
    if o.type != m["type"]:
        return ("diff", "type", "C type %s, model %s" % (o.type, m["type"]))
    if (o.rows, o.cols) != (m["ports"], m["ports"]):
        return ("diff", "dims", "C %dx%d, model %d ports" % (o.rows, o.cols, m["ports"]))
    if len(o.freqs) != len(m["freqs"]):
        return ("diff", "dims", "C %d frequencies, model %d" % (len(o.freqs), len(m["freqs"])))
    if o.meta["filetype"] != (D.FT_TS2 if m["version"] == 2 else D.FT_TS1):
        return ("diff", "filetype", "C file type %d, model version %d" % (o.meta["filetype"], m["version"]))
    want_fmt = (m["type"] + {"RI": "ri", "MA": "ma", "DB": "dB"}[m["fmt"]])
    if o.meta["format"].lower() != want_fmt.lower():
        return ("diff", "format", "C format %s, model %s" % (o.meta["format"], want_fmt))
    for i, (a, b) in enumerate(zip(o.freqs, m["freqs"])):
        fb = xfloat(b)
        if not close(a, fb, TOL_EXACT_ARITH):
            if fb == fb and (0 < abs(fb) < 1e-290 or 1e290 < abs(fb) < float("inf")):
                # multiplier x a subnormal (or nearly overflowing) number: the operand is already rounded coarsely
                return ("skip", "frequency outside the range in which exact and binary64 arithmetic agree")
            return ("diff", "frequency", "frequency %d: C %r, model %s" % (i, a, b))
    if o.fz0 is not None:
        return ("diff", "z0", "per-frequency z0 after a Touchstone load")
    if len(o.z0) != len(m["z0"]):
        return ("diff", "z0", "C has %d z0 entries, model %d" % (len(o.z0), len(m["z0"])))
    for p, (a, b) in enumerate(zip(o.z0, m["z0"])):
        if not (same(a.real, xfloat(b)) and a.imag == 0):
            return ("diff", "z0", "z0 of port %d: C %r, model %s" % (p + 1, a, b))
    for i, (cm, mm) in enumerate(zip(o.data, m["cells"])):
        if len(cm) != len(mm):
            return ("diff", "dims", "frequency %d: C %d cells, model %d" % (i, len(cm), len(mm)))
        mv = [cell_value(m["fmt"], a, b, s) for (a, b, s) in mm]
        exact = m["fmt"] == "RI" and (m["version"] == 2 or m["type"] == "S")
        if exact:
            for k, (x, y) in enumerate(zip(cm, mv)):
                if not (same(x.real, y.real) and same(x.imag, y.imag)):
                    return ("diff", "value", "frequency %d cell %d: C %r, model %r (exact comparison)" % (i, k, x, y))
            continue
        if not all(finite_c(y) for y in mv) or not all(finite_c(x) for x in cm):
            # non-finite values through cexp / complex multiplication: compared for finiteness class only
            for k, (x, y) in enumerate(zip(cm, mv)):
                if finite_c(x) != finite_c(y) and m["fmt"] == "RI":
                    return ("diff", "value", "frequency %d cell %d: C %r, model %r" % (i, k, x, y))
            continue
        big = max([abs(y) for y in mv] + [0.0])
        if big > 1e290 or (big != 0 and big < 1e-290):
            return ("skip", "magnitudes outside the range in which exact and binary64 arithmetic agree")
        tol = TOL_EXACT_ARITH if m["fmt"] == "RI" else TOL_TRANSC
        for k, (x, y) in enumerate(zip(cm, mv)):
            if m["fmt"] == "RI":
                ok = close(x.real, y.real, tol) and close(x.imag, y.imag, tol)
            else:
                ok = abs(x - y) <= tol * big
            if not ok:
                return ("diff", "value", "frequency %d cell %d: C %r, model %r" % (i, k, x, y))
    return None


def parse_model_npd(line):
    if line.startswith("ERR"):
        return ("ERR", line.split()[1])
    head, f, z, p, d = [x.strip() for x in line.split("|")]
    h = head.split()

    def pairs(s):
        t = s.split()
        return [(t[i], t[i + 1]) for i in range(0, len(t), 2)]

    def blocks(s):
        return [pairs(b) for b in s.split(";")] if s.strip() else []
    zb = z[1:].strip()
    pb = p[1:].strip()
    obj = {"type": h[1], "form": h[2], "rows": int(h[3]), "cols": int(h[4]),
           "fprec": None if h[5] == "-" else int(h[5]), "dprec": None if h[6] == "-" else int(h[6]),
           "freqs": f.split()[1:], "z0": None if zb == "-" else ([] if zb == "=" else pairs(zb)),
           "fz0": None if pb == "-" else blocks(pb), "cells": blocks(d[1:].strip())}
    if not obj["cells"] and obj["freqs"]:
        obj["cells"] = [[] for _ in obj["freqs"]]
    if obj["fz0"] is not None and not obj["fz0"] and obj["freqs"]:
        obj["fz0"] = [[] for _ in obj["freqs"]]
    return ("OK", obj)


def npd_cell(form, a, b, f):
    fa, fb = xfloat(a), xfloat(b)
    try:
        if form == "RI":
            return complex(fa if math.isfinite(fb) else float("nan"), fb), True
        if form == "MA":
            return fa * cmath.exp(1j * math.pi / 180.0 * fb), False
        if form == "DB":
            return (10.0 ** (fa / 20.0)) * cmath.exp(1j * math.pi / 180.0 * fb), False
        w = 2.0 * math.pi * f
        if form == "PRC":
            return 1.0 / (1.0 / fa + 1j * w * fb), False
        if form == "PRL":
            return fa / (1.0 - 1j * fa / (w * fb)), False
        if form == "SRC":
            return fa - 1j / (w * fb), False
        if form == "SRL":
            return fa + 1j * w * fb, False
    except (ZeroDivisionError, OverflowError, ValueError):
        return None, False
    return None, False


def z0_same(a, br, bi):
    """C forms a z0 entry as `re + I * im`: I * im = (0 * im, im), so a non-finite imaginary part makes the real part a NaN."""
    re, im = xfloat(br), xfloat(bi)
    if not math.isfinite(im):
        re = float("nan")
    return same(a.real, re) and same(a.imag, im)


def compare_npd(mres, load_line, dump_line):
    head = load_line.partition(" # ")[0].split()
    rc, en = int(head[1]), head[2]
    kind, val = mres
    if kind == "ERR":
        if val == "EINTERNAL":
            return ("diff", "model_internal", "the model ended in a non-terminal state")
        if rc == 0:
            return ("diff", "outcome", "C loads the file, the model rejects it with %s" % val)
        if en != val:
            return ("diff", "errno", "C fails with %s, the model with %s" % (en, val))
        return None
    if rc != 0:
        return ("diff", "outcome", "C rejects the file (%s: %s), the model loads it" % (en, load_line.partition(" # ")[2][:120]))
    o = D.parse_dump(dump_line)
    m = val
    if o is None:
        return ("diff", "dump", "no dump")
    if o.type != m["type"]:
        return ("diff", "type", "C type %s, model %s" % (o.type, m["type"]))
    if (o.rows, o.cols) != (m["rows"], m["cols"]):
        return ("diff", "dims", "C %dx%d, model %dx%d" % (o.rows, o.cols, m["rows"], m["cols"]))
    if len(o.freqs) != len(m["freqs"]):
        return ("diff", "dims", "C %d frequencies, model %d" % (len(o.freqs), len(m["freqs"])))
    if m["fprec"] is not None and o.meta["fprecision"] != m["fprec"]:
        return ("diff", "precision", "C fprecision %d, model %d" % (o.meta["fprecision"], m["fprec"]))
    if m["dprec"] is not None and o.meta["dprecision"] != m["dprec"]:
        return ("diff", "precision", "C dprecision %d, model %d" % (o.meta["dprecision"], m["dprec"]))
    for i, (a, b) in enumerate(zip(o.freqs, m["freqs"])):
        if not same(a, xfloat(b)):
            return ("diff", "frequency", "frequency %d: C %r, model %s" % (i, a, b))
    if (o.fz0 is not None) != (m["fz0"] is not None):
        return ("diff", "z0", "per-frequency z0: C %s, model %s" % (o.fz0 is not None, m["fz0"] is not None))
    if o.fz0 is not None:
        for i, (cz, mz) in enumerate(zip(o.fz0, m["fz0"])):
            # a Zin object of zero ports has one (unused) z0 entry
            for p, (a, (br, bi)) in enumerate(zip(cz, mz)):
                if not z0_same(a, br, bi):
                    return ("diff", "z0", "z0 of port %d at frequency %d: C %r, model %s %s" % (p + 1, i, a, br, bi))
    else:
        want = m["z0"] if m["z0"] is not None else [("50/1", "0/1")] * len(o.z0)
        if len(want) != len(o.z0):
            return ("diff", "z0", "C has %d z0 entries, model %d" % (len(o.z0), len(want)))
        for p, (a, (br, bi)) in enumerate(zip(o.z0, want)):
            if not z0_same(a, br, bi):
                return ("diff", "z0", "z0 of port %d: C %r, model %s %s" % (p + 1, a, br, bi))
    for i, (cm, mm) in enumerate(zip(o.data, m["cells"])):
        if len(cm) != len(mm):
            return ("diff", "dims", "frequency %d: C %d cells, model %d" % (i, len(cm), len(mm)))
        vals = [npd_cell(m["form"], a, b, o.freqs[i]) for (a, b) in mm]
        big = max([abs(v) for v, _ in vals if v is not None and finite_c(v)] + [0.0])
        for k, (x, (v, exact)) in enumerate(zip(cm, vals)):
            if v is None or not finite_c(v) or not finite_c(x):
                if exact and not (same(x.real, v.real) and same(x.imag, v.imag)):
                    return ("diff", "value", "frequency %d cell %d: C %r, model %r" % (i, k, x, v))
                continue
            if exact:
                ok = same(x.real, v.real) and same(x.imag, v.imag)
            else:
                ok = abs(x - v) <= TOL_TRANSC * max(big, 1e-300)
            if not ok:
                return ("diff", "value", "frequency %d cell %d: C %r, model %r" % (i, k, x, v))
    return None


def load_tie(M, H, inputs, timeout=600):
    """inputs: list of (id, filename, text).  vnadata_fload into a fresh object vs the model.
    Returns (diffs, stats): diffs = list of (id, class, text, c_lines, model_line)."""
    cases = []
    cmds = []
    for cid, name, text in inputs:
        hx = text.encode("latin-1").hex() or "-"
        cases.append((cid, ["new 0 -1 0 0 0", "load 0 %s %s" % (name, hx), "dump 0"]))
        cmds.append(("ts %s" if is_touchstone_name(name) else "nl %s") % hx)
    results, faults = H.run(cases, timeout=timeout)
    mlines = M.model(cmds, timeout=timeout)
    diffs = []
    stats = {"compared": 0, "ok_loads": 0, "rejected": 0, "skipped": 0, "c_faults": len(faults)}
    for (cid, name, text), ml in zip(inputs, mlines):
        lines = results.get(cid)
        if lines is None or any(l.startswith("FAULT") for l in lines):
            continue
        ld = [l for l in lines if l.startswith("LOAD")]
        dp = [l for l in lines if l.startswith("DUMP")]
        if not ld or not dp:
            continue
        if is_touchstone_name(name):
            r = compare_ts(parse_model_ts(ml), ld[0], dp[0])
        else:
            r = compare_npd(parse_model_npd(ml), ld[0], dp[0])
        if r is None:
            stats["compared"] += 1
            stats["ok_loads" if ml.startswith("OK") else "rejected"] += 1
        elif r[0] == "skip":
            stats["skipped"] += 1
        else:
            diffs.append((cid, r[1], r[2], lines, ml))
    return diffs, stats, faults
