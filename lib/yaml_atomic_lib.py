"""Failure atomicity and error class of the YAML importers (C09 "no partial object", C11 "changes no getter's
answer; documented errno class", C12 allocation failure, C14) - the tie of coq/PropTree/YamlFault.v
(import_public_x, theorems import_failure_leaves_root_unchanged / import_failure_class of Properties_C14.v) with
vnaproperty_import_yaml_from_string / _from_file and vnacal_load.  Used by checks/C14.py and checks/c09_cal.py.

harness/yaml_atomic.c (linked with allocwrap.c) imports a YAML text into a root that holds nothing / a scalar / a
map / a list, prints the document libyaml alone parses (aliases to an enclosing node as `c`), return value, errno,
callback category and count, the digest of the root through the public getters BEFORE and AFTER, the number of
allocation requests and the library blocks left; with sweep it repeats the call failing every request once.

Required
  model tie     (success, class of the report, digest afterwards) = import_public_x key_err_DO91 on that document
                and old content, evaluated by Coq (vm_compute through ctx.coq_eval, YamlFaultTie.run_case)
  model-free    a failed import leaves the digest unchanged; it reports exactly one error line, a successful one
                none; no library block is left; under an injected allocation failure: failure with ENOMEM in the
                system category (or the document's own EBADMSG when the failed request was the error message's),
                root unchanged - or success with the same tree as without the fault
  export        (C14: export followed by import reproduces the same tree; seeded C14-9) generated trees - maps whose keys need
                quoting, nested maps and lists, hostile scalars - exported with vnaproperty_export_yaml_to_file with EVERY
                allocation request of the export failing once, and the same as global + per-calibration properties through
                vnacal_save: the call fails (-1, ENOMEM, system category, exactly one report) OR it returned 0 and the text
                it wrote re-imports (vnacal_load for the file) to the digest of the original tree; the export leaves no block
  vnacal_load   the same property documents as global / per-calibration `properties:` of a calibration file:
                NULL + EBADMSG + nothing left when the document cannot be imported, else the imported trees.
"""
import re

import vplib
import prop_lib as pl

ENTRY_NAME = {"s": "import_yaml_from_string", "f": "import_yaml_from_file"}
OLD = [("null", []), ("scalar", [b".=old"]), ("map", [b"old.k=v", b"old.l[1]=w"]), ("list", [b"[0]=old", b"[1].k=w"])]

# documents whose import FAILS after something has been imported already, and before
FAILING = [
    b"{a: 1, b: 2, c: &x [3, *x]}",                      # review R1: recursive alias in the third value
    b"{p: 1, 'a[': 2, z: 3}",                            # review R1: key that is no property expression
    b"&r [*r]", b"&r {k: *r}", b"a: &x {b: {c: [1, *x]}}\n", b"- 1\n- &s [2, [3, *s]]\n",
    b"x: &a [1]\ny: *a\nz: &b [*b]\n",                   # a harmless alias, then a recursive one
    b"{p: 1, 7: 2}", b'a: 1\n"[": 2\nb: 3\n', b'- 1\n- {"[": 2}\n- 3\n', b'a: 1\n"a..b": 2\n', b'"l[]": 1\n',
    b'{k: {l: [0, 1, {"]": x}]}}', b'"[-1]": 1\n', b'{"a b c": 1, "x{": 2}', b"{q: 1, '': 2}",
    b'k1: v\nk2: v\nk3: v\nk4: v\nk5: v\nk6: v\nk7: v\nk8: v\nk9: [1, 2, 3, 4, 5, 6, 7, 8, 9]\n"(": 1\n',
    b"{a: 1", b"a: [1\n", b'"unterminated', b"a: b: c\n", b"a: 1\n\tb: 2\n", b"", b"# only a comment\n", b"\n\n", b"---\n...\n",
]
SUCCEEDING = [
    b"~\n", b"x", b'"~"', b"{}", b"[]", b"{a: 1, b: [1, 2, {c: ~}]}", b"a.b: 1\na: {c: 2}\n", b'"l[1]": [~]\n',
    b"a: &x 1\nb: *x\nc: &y [1, 2]\nd: *y\n", b"? [x]\n: 1\nk: v\n", b"a: |\n  l1\n  l2\n", b"a: 1\na: 2\n",
    "é: 中\n".encode(), b"- ~\n- [~, {}]\n- {a: [], b: ~}\n",
]


def hx(b):
    return b.hex() if b else "-"


def gen_doc(rng, depth, anchors):
    """A flow-style YAML document with descriptor keys, a few keys that are no descriptors, anchors and aliases -
    to enclosing nodes (recursive) and to finished ones."""
    r = rng.random()
    if depth <= 0 or r < 0.3:
        if anchors and rng.random() < 0.25:
            return b"*" + rng.choice(anchors)
        return rng.choice([b"~", b"null", b"x", b"true", b"12", b'"~"', b'""', b'"a b"', b'"x: y"', b"'q'"])
    name = b""
    if rng.random() < 0.3:
        name = b"n%d" % rng.randint(0, 99)
        anchors = anchors + [name]          # visible inside: an alias to it from inside is recursive
    pre = (b"&" + name + b" ") if name else b""
    if r < 0.68:
        items = []
        for _ in range(rng.choice([1, 2, 2, 3, 4])):
            k = rng.choice([b"a", b"b", b"a.b", b"a.c", b'"l[1]"', b'"l[+]"', b"k c", b"c", b"d", "é".encode()]
                           if rng.random() < 0.9 else [b'"["', b'"a..b"', b'"l[]"', b'"[-1]"', b"7", b'"x{"', b"''"])
            items.append(k + b": " + gen_doc(rng, depth - 1, anchors))
        return pre + b"{" + b", ".join(items) + b"}"
    return pre + b"[" + b", ".join(gen_doc(rng, depth - 1, anchors) for _ in range(rng.choice([1, 2, 3]))) + b"]"


EXPORT_TREES = [
    [b"a=1"], [b"a.b=1", b"k\\ c.l[1]=x"], [b".=scalar"], [b"[0]=x", b"[1].k=y"], [],
    [pl.py_quote_key(k) + b"=" + k for k in (b"a.b ", b" ", b'k: "', b"[x]", b"- x", b"#", b"~", b"null", "\u00e9 \u4e2d".encode())],
    [b"m.n.o.p=deep", b"m.n.q[2].r=~", b"m.s=v"],
    [b"k%d=v%d" % (i, i) for i in range(25)],
]


def gen_export_tree(rng):
    """vnaproperty_set arguments that build a tree with nested maps / lists; keys from the plain and the hostile alphabet
    (quoted for the descriptor), values with YAML look-alikes and newlines."""
    keys = pl.PLAIN_KEYS + [k for k in pl.HOSTILE_KEYS if b"\n" not in k and b"\x01" not in k]
    sets = []
    for _ in range(rng.randint(1, 6)):
        parts = []
        for d in range(rng.randint(1, 3)):
            parts.append(pl.py_quote_key(rng.choice(keys)) + (b"[%d]" % rng.randint(0, 2) if rng.random() < 0.25 else b""))
        sets.append(b".".join(parts) + b"=" + rng.choice(pl.VALUES))
    return sets


def parse_dump(s):
    """`D` line of the harness -> ("!", kind) | tree of ("s", plain, bytes) / ("m", pairs) / ("q", items) / ("c",)."""
    if s.startswith("!"):
        return ("!", s[1:])
    pos = [0]

    def node():
        c = s[pos[0]]
        if c == "c":
            pos[0] += 1
            return ("c",)
        if c == "s":
            plain = s[pos[0] + 1] == "p"
            m = re.compile(r"[0-9a-f]*").match(s, pos[0] + 2)
            pos[0] = m.end()
            return ("s", plain, bytes.fromhex(m.group(0)))
        if c == "m":
            pos[0] += 2
            pairs = []
            while s[pos[0]] != "}":
                if s[pos[0]] == ";":
                    pos[0] += 1
                k = node()
                assert s[pos[0]] == "="
                pos[0] += 1
                pairs.append((k, node()))
            pos[0] += 1
            return ("m", pairs)
        if c == "q":
            pos[0] += 2
            items = []
            while s[pos[0]] != "]":
                if s[pos[0]] == ";":
                    pos[0] += 1
                items.append(node())
            pos[0] += 1
            return ("q", items)
        raise ValueError("document dump not understood at %d: %r" % (pos[0], s[:80]))
    t = node()
    if pos[0] != len(s):
        raise ValueError("trailing text in document dump: %r" % s[:80])
    return t


def has_cycle(t):
    if t[0] == "c":
        return True
    if t[0] == "m":
        return any(has_cycle(k) or has_cycle(v) for k, v in t[1])
    if t[0] == "q":
        return any(has_cycle(x) for x in t[1])
    return False


def size(t):
    if t[0] == "m":
        return 1 + sum(size(k) + size(v) for k, v in t[1])
    if t[0] == "q":
        return 1 + sum(size(x) for x in t[1])
    return 1 + (len(t[2]) if t[0] == "s" else 0)


def coq_bytes(b):
    return "[" + ";".join(str(x) for x in b) + "]"


def coq_x(t):
    if t[0] == "c":
        return "XCycle"
    if t[0] == "s":
        return "(XScalar %s %s)" % (coq_bytes(t[2]), "YPlain" if t[1] else "YDouble")
    if t[0] == "m":
        return "(XMapping [" + ";".join("(%s,%s)" % (coq_x(k), coq_x(v)) for k, v in t[1]) + "])"
    return "(XSequence [" + ";".join(coq_x(x) for x in t[1]) + "])"


def coq_load(t):
    if t[0] == "!":
        return "XSyntaxError" if t[1] == "syntax" else "XEmptyDocument"
    return "(XDocument %s)" % coq_x(t)


def model_eval(ctx, name, cases):
    """cases: list of (document tree, setups) -> list of (code, digest) from Coq's import_public_x."""
    if not cases:
        return []
    body = ["Require Import List NArith.", "Import ListNotations.",
            "Require Import LV.PropTree.PropModel LV.PropTree.YamlModel LV.PropTree.YamlFault LV.PropTree.YamlFaultTie.",
            "Open Scope N_scope.", "Eval vm_compute in ["]
    body.append(";\n".join("run_case %s [%s]" % (coq_load(t), ";".join(coq_bytes(s) for s in setups)) for t, setups in cases))
    body.append("].")
    rc, out, err = ctx.coq_eval(name, "\n".join(body) + "\n", timeout=900)
    if rc != 0:
        raise RuntimeError("Coq evaluation of import_public_x failed: " + err[-600:])
    flat = re.sub(r"\s+", "", out)
    res = [(int(m.group(1)), bytes(int(x) for x in m.group(2).split(";") if x).decode("ascii"))
           for m in re.finditer(r"\((\d+),\[([\d;]*)\]\)", flat)]
    if len(res) != len(cases):
        raise RuntimeError("Coq evaluation returned %d results for %d cases" % (len(res), len(cases)))
    return res


def lib_code(ret, errno_, cat):
    if ret == 0:
        return 0
    if errno_ == 74 and cat == 3:
        return 1
    if errno_ == 12 and cat == 0:
        return 2
    return 3


CODE_NAME = {0: "success", 1: "EBADMSG/syntax", 2: "ENOMEM/system", 3: "other errno"}

CAL_TEMPLATE = (b"#VNACal 1.0\n%%YAML 1.1\n---\nproperties: %s\ncalibrations:\n- name: c0\n  type: T8\n  rows: 1\n  columns: 1\n"
                b"  frequencies: 0\n  z0: +5.0e+01 +0.0e+00j\n  properties: %s\n  data: []\n")


def run(ctx, tag, extra_texts=(), thorough=False):
    rng = ctx.rng
    exe = ctx.build_harness("yaml_atomic", san=True, wrap=True)
    env = ctx.run_env(leak=True)
    env["PROP_TMP"] = ctx.tmp
    nviol0 = len(ctx.violations)

    # ------------------------------------------------------------------ cases
    texts = [(t, "directed-fail") for t in FAILING] + [(t, "directed-ok") for t in SUCCEEDING]
    for _ in range(120 if not thorough else 2500):
        texts.append((gen_doc(rng, rng.randint(1, 4), []), "generated"))
    base = [b"{a: 1, b: [2, {c: 3}], 'd e': ~}", b"k: &x [1, 2]\nl: *x\nm: {n: o}\n"]
    for b in base:                                      # truncation at every byte, byte flips
        for i in range(len(b)):
            texts.append((b[:i], "truncated"))
        for _ in range(40 if not thorough else 300):
            i = rng.randrange(len(b))
            texts.append((b[:i] + bytes([rng.choice(b"[]{}:,&*'\"~ \n-#!|>%@`x7")]) + b[i + 1:], "mutated"))
    for t in extra_texts:
        if b"\0" not in t and len(t) <= 4000:
            texts.append((t, "stream"))
    cases = []
    for i, (t, fam) in enumerate(texts):
        if fam.startswith("directed"):
            combos = [(e, o) for e in "sf" for o in range(4)]
        else:
            combos = [("sf"[i % 2], (i // 2) % 4)]
        for e, o in combos:
            sweep = 1 if (fam.startswith("directed") and (e == "s" or o == 2)) or (fam != "stream" and i % 3 == 0) else 0
            cases.append({"entry": e, "old": o, "text": t, "fam": fam, "sweep": sweep})
    cmds = "".join("imp %s %d %s %s\n" % (c["entry"], c["sweep"], hx(c["text"]), ",".join(hx(s) for s in OLD[c["old"]][1]) or "-")
                   for c in cases)
    rc, out, err = vplib.sh([exe], input=cmds, timeout=1200 if not thorough else 3000, env=env)
    blocks = out.split("END\n")
    crashed = rc != 0
    if crashed:
        k = len(blocks) - 1
        c = cases[min(k, len(cases) - 1)]
        sig = vplib.asan_signature(err) or {"kind": "fault", "error": "exit %s" % rc, "function": None}
        ctx.violation(sig, "%s of %r over %s content did not return normally (or leaked): %s"
                      % (ENTRY_NAME[c["entry"]], c["text"][:60], OLD[c["old"]][0], err[-300:].replace("\n", " | ")),
                      {"harness": "yaml_atomic", "command": "imp %s %d %s %s" % (c["entry"], c["sweep"], hx(c["text"]),
                                                                               ",".join(hx(s) for s in OLD[c["old"]][1]) or "-"),
                       "stderr": err[-3000:]})
    done = []
    for c, blk in zip(cases, blocks):
        ls = blk.strip().split("\n")
        if len(ls) < 2 or not ls[0].startswith("D ") or not ls[1].startswith("R "):
            continue
        c["doc"] = parse_dump(ls[0][2:])
        f = ls[1].split(" ")
        c["R"] = {"ret": int(f[1]), "errno": int(f[2]), "cat": int(f[3]), "ncb": int(f[4]), "before": f[5], "after": f[6],
                  "req": int(f[7]), "leak": int(f[8])}
        c["K"] = []
        for l in ls[2:]:
            g = l.split(" ")
            if g[0] == "K":
                c["K"].append({"k": int(g[1]), "fired": int(g[2]), "ret": int(g[3]), "errno": int(g[4]), "cat": int(g[5]),
                               "ncb": int(g[6]), "after": g[7], "leak": int(g[8])})
        done.append(c)

    # ------------------------------------------------------------------ model
    mcases = [c for c in done if size(c["doc"]) <= 3000]
    mres = model_eval(ctx, "yaml_atomic_" + tag, [(c["doc"], OLD[c["old"]][1]) for c in mcases])
    for c, (code, dg) in zip(mcases, mres):
        c["model"] = (code, dg)

    def replay(c, **kw):
        d = {"harness": "yaml_atomic (wrap)", "command": "imp %s %d %s %s" % (c["entry"], c["sweep"], hx(c["text"]),
                                                                              ",".join(hx(s) for s in OLD[c["old"]][1]) or "-"),
             "text": c["text"].decode("utf-8", "backslashreplace"), "old_content_sets": [s.decode() for s in OLD[c["old"]][1]]}
        d.update(kw)
        return d

    def kind_of(c):
        d = c["doc"]
        if d[0] == "!":
            return d[1]
        if c["R"]["ret"] == 0:
            return "ok"
        if has_cycle(d):
            return "alias-cycle"
        return "invalid-key"

    stats = {"cases": len(done), "failed_imports": 0, "fault_runs": 0, "model_compared": 0, "disagreements": 0, "atomicity": 0}
    seen = set()
    reported = {}

    def violate(sig, msg, rep):
        key = tuple(sorted(sig.items()))
        reported[key] = reported.get(key, 0) + 1
        if reported[key] <= 1:
            ctx.violation(sig, msg, rep)

    for c in done:
        R, kind, oldk, op = c["R"], kind_of(c), OLD[c["old"]][0], ENTRY_NAME[c["entry"]]
        cls = "%s-over-%s" % (kind, oldk)
        ctx.count(("atomic", c["entry"], kind, oldk, c["text"][:40]))
        seen.add((c["entry"], kind, oldk))
        if R["ret"] != 0:
            stats["failed_imports"] += 1
            if R["after"] != R["before"]:
                stats["atomicity"] += 1
                violate({"kind": "atomicity", "op": op, "class": kind},
                        "%s of %r returns %d (errno %d) and changes the caller's root: before %s, after %s (a failed import must "
                        "leave no partial object behind and change no getter's answer)"
                        % (op, c["text"][:70], R["ret"], R["errno"], R["before"][:70], R["after"][:70]), replay(c, observed=R))
            if R["ncb"] != 1:
                violate({"kind": "callback", "op": op, "class": cls},
                        "%s of %r fails with %d error callbacks (exactly one line expected)" % (op, c["text"][:70], R["ncb"]), replay(c, observed=R))
            if lib_code(R["ret"], R["errno"], R["cat"]) != 1:
                violate({"kind": "errno-class", "op": op, "class": kind},
                        "%s of %r fails with errno %d in category %d: a document that cannot be imported is a syntax error (EBADMSG, "
                        "VNAERR_SYNTAX); no allocation was made to fail" % (op, c["text"][:70], R["errno"], R["cat"]), replay(c, observed=R))
        elif R["ncb"] != 0:
            violate({"kind": "callback", "op": op, "class": cls},
                    "%s of %r succeeds after %d error callbacks" % (op, c["text"][:70], R["ncb"]), replay(c, observed=R))
        if R["leak"] != 0:
            violate({"kind": "leak", "op": op, "class": cls},
                    "%s of %r: %d library block(s) left after the root was freed" % (op, c["text"][:70], R["leak"]), replay(c, observed=R))
        if "model" in c:
            stats["model_compared"] += 1
            mc, mdg = c["model"]
            lc = lib_code(R["ret"], R["errno"], R["cat"])
            if (mc, mdg) != (lc, R["after"]):
                stats["disagreements"] += 1
                violate({"kind": "disagreement", "op": op, "class": kind, "what": "class" if mdg == R["after"] else "root"},
                        "%s of %r over %s: library %s, root %s; import_public_x (YamlFault.v) %s, root %s"
                        % (op, c["text"][:70], R["before"][:60], CODE_NAME[lc], R["after"][:70], CODE_NAME[mc], mdg[:70]),
                        replay(c, observed=R, model={"class": CODE_NAME[mc], "root": mdg}))
        for K in c["K"]:
            stats["fault_runs"] += 1
            seen.add((c["entry"], "alloc", oldk))
            ctx.count(("atomic-fault", c["entry"], kind, oldk, K["k"], c["text"][:30]))
            if K["leak"] != 0:
                violate({"kind": "leak", "op": op, "class": "alloc-" + cls},
                        "%s of %r with allocation request %d failing: %d library block(s) left" % (op, c["text"][:70], K["k"], K["leak"]),
                        replay(c, fault=K["k"], observed=K))
            if K["ret"] == 0:
                if K["after"] != R["after"] or R["ret"] != 0:
                    violate({"kind": "alloc", "op": op, "class": "success-differs-" + cls},
                            "%s of %r succeeds with request %d failing but the tree differs from the one without the fault: %s / %s"
                            % (op, c["text"][:70], K["k"], K["after"][:60], R["after"][:60]), replay(c, fault=K["k"], observed=K))
                continue
            if K["after"] != R["before"]:
                stats["atomicity"] += 1
                violate({"kind": "atomicity", "op": op, "class": "alloc-" + kind},
                        "%s of %r with allocation request %d of %d failing returns %d (errno %d) and changes the caller's root: before %s, "
                        "after %s" % (op, c["text"][:70], K["k"], R["req"], K["ret"], K["errno"], R["before"][:60], K["after"][:60]),
                        replay(c, fault=K["k"], observed=K))
            kc = lib_code(K["ret"], K["errno"], K["cat"])
            if K["fired"] and kc != 2 and not (kc == 1 and R["ret"] != 0):
                violate({"kind": "errno-class", "op": op, "class": "alloc-" + kind},
                        "%s of %r with allocation request %d failing reports errno %d in category %d (ENOMEM / system expected)"
                        % (op, c["text"][:70], K["k"], K["errno"], K["cat"]), replay(c, fault=K["k"], observed=K))
            if K["ncb"] != 1:
                violate({"kind": "callback", "op": op, "class": "alloc-" + cls},
                        "%s of %r with request %d failing: %d error callbacks" % (op, c["text"][:70], K["k"], K["ncb"]),
                        replay(c, fault=K["k"], observed=K))
        ctx.traces_validated += 1 + len(c["K"])

    # ------------------------------------------------------------------ vnacal_load: the same documents as property sub-trees
    flow = [t for t in FAILING + SUCCEEDING if b"\n" not in t and t.strip() and not t.startswith(b"#") and b"unterminated" not in t
            and t not in (b"{a: 1",)]
    flow += [t for t, fam in texts if fam == "generated"][:40 if not thorough else 400]
    by_text = {}
    for c in done:
        if c["entry"] == "s" and c["old"] == 0:
            by_text.setdefault(c["text"], c)
    ccases = []
    for i, t in enumerate(flow):
        if t not in by_text:
            continue
        for where in ("global", "cal"):
            g, p = (t, b"{keep: 1}") if where == "global" else (b"{keep: 1}", t)
            ccases.append({"text": CAL_TEMPLATE % (g, p), "where": where, "doc": t})
    ccmds = "".join("cal %s\n" % hx(c["text"]) for c in ccases)
    rc2, out2, err2 = vplib.sh([exe], input=ccmds, timeout=900, env=env)
    cblocks = out2.split("END\n")
    if rc2 != 0:
        c = ccases[min(len(cblocks) - 1, len(ccases) - 1)] if ccases else None
        sig = vplib.asan_signature(err2) or {"kind": "fault", "error": "exit %s" % rc2, "function": None}
        ctx.violation(sig, "vnacal_load of a file with %s properties %r did not return normally (or leaked): %s"
                      % (c["where"] if c else "?", c["doc"][:60] if c else b"", err2[-300:].replace("\n", " | ")),
                      {"harness": "yaml_atomic", "command": "cal " + (hx(c["text"]) if c else ""), "stderr": err2[-3000:]})
    keep = "M{6b656570=S31}"
    cstats = {"files": 0, "null": 0, "loaded": 0}
    for c, blk in zip(ccases, cblocks):
        ls = blk.strip().split("\n")
        if not ls or not ls[0].startswith("C "):
            continue
        f = ls[0].split(" ")
        okf, e, cat, ncb, leak, dgs = int(f[1]), int(f[2]), int(f[3]), int(f[4]), int(f[5]), f[6]
        ref = by_text[c["doc"]]["R"]
        cstats["files"] += 1
        cstats["null" if not okf else "loaded"] += 1
        cls = "%s-properties-%s" % (c["where"], "ok" if ref["ret"] == 0 else kind_of(by_text[c["doc"]]))
        ctx.count(("atomic-cal", c["where"], c["doc"][:40]))
        rep = {"harness": "yaml_atomic (wrap)", "command": "cal " + hx(c["text"]), "file": c["text"].decode("utf-8", "backslashreplace"),
               "observed": ls[0]}
        if leak != 0:
            violate({"kind": "leak", "op": "vnacal_load", "class": cls},
                    "vnacal_load of a file whose %s properties are %r: %d library block(s) left" % (c["where"], c["doc"][:60], leak), rep)
        if ref["ret"] != 0:
            if okf:
                violate({"kind": "disagreement", "op": "vnacal_load", "class": cls},
                        "vnacal_load accepts %s properties %r which the importer refuses" % (c["where"], c["doc"][:60]), rep)
            elif lib_code(-1, e, cat) != 1 or ncb != 1:
                violate({"kind": "errno-class", "op": "vnacal_load", "class": cls},
                        "vnacal_load of a file whose %s properties are %r fails with errno %d in category %d after %d callbacks "
                        "(EBADMSG / syntax, one line expected)" % (c["where"], c["doc"][:60], e, cat, ncb), rep)
        else:
            want = (ref["after"] + "|" + keep) if c["where"] == "global" else (keep + "|" + ref["after"])
            if not okf or dgs != want:
                violate({"kind": "disagreement", "op": "vnacal_load", "class": cls},
                        "vnacal_load of a file whose %s properties are %r: %s, expected %s"
                        % (c["where"], c["doc"][:60], dgs if okf else "NULL errno %d" % e, want), rep)
        ctx.traces_validated += 1

    # ------------------------------------------------------------------ export / vnacal_save with every allocation request failing once
    etrees = list(EXPORT_TREES) + [gen_export_tree(rng) for _ in range(30 if not thorough else 400)]
    ecases = [("exp", t) for t in etrees] + [("sav", t) for t in etrees[:12 if not thorough else 80]]
    ecmds = "".join("%s %s\n" % (op, ",".join(hx(x) for x in t) or "-") for op, t in ecases)
    rc3, out3, err3 = vplib.sh([exe], input=ecmds, timeout=1200 if not thorough else 3000, env=env)
    eblocks = out3.split("END\n")
    if rc3 != 0:
        op, t = ecases[min(len(eblocks) - 1, len(ecases) - 1)]
        sig = vplib.asan_signature(err3) or {"kind": "fault", "error": "exit %s" % rc3, "function": None}
        ctx.violation(sig, "%s of the tree built by %r with one allocation request failing did not return normally (or leaked): %s"
                      % ({"exp": "vnaproperty_export_yaml_to_file", "sav": "vnacal_save"}[op], [x.decode("utf-8", "backslashreplace") for x in t][:4],
                         err3[-300:].replace("\n", " | ")),
                      {"harness": "yaml_atomic (wrap)", "command": "%s %s" % (op, ",".join(hx(x) for x in t) or "-"), "stderr": err3[-3000:]})
    estats = {"trees": 0, "fault_runs": 0, "failed": 0, "succeeded": 0, "lost": 0}
    for (op, t), blk in zip(ecases, eblocks):
        ls = blk.strip().split("\n")
        if not ls or not ls[0].startswith("O "):
            continue
        f0 = ls[0].split(" ")
        orig, req, ret0, re0 = f0[1], int(f0[2]), int(f0[3]), f0[4]
        name = {"exp": "vnaproperty_export_yaml_to_file", "sav": "vnacal_save"}[op]
        shown = [x.decode("utf-8", "backslashreplace") for x in t][:5]
        rep0 = {"harness": "yaml_atomic (wrap)", "command": "%s %s" % (op, ",".join(hx(x) for x in t) or "-"), "sets": shown}
        estats["trees"] += 1
        ctx.count(("export", op, orig[:60]))
        if ret0 != 0 or re0 != orig:
            violate({"kind": "export", "op": name, "class": "no-fault"},
                    "%s of the tree built by %r: returns %d and the text re-imports to %s, the tree is %s" % (name, shown, ret0, re0[:70], orig[:70]),
                    dict(rep0, observed=ls[0]))
        for l in ls[1:]:
            g = l.split(" ")
            if g[0] != "X":
                continue
            k, fired, ret, e, cat, ncb, re, left = int(g[1]), int(g[2]), int(g[3]), int(g[4]), int(g[5]), int(g[6]), g[7], int(g[8])
            estats["fault_runs"] += 1
            ctx.count(("export-fault", op, orig[:40], k))
            rep = dict(rep0, fault=k, requests=req, observed=l)
            if left != 0:
                violate({"kind": "leak", "op": name, "class": "alloc"},
                        "%s of the tree built by %r with allocation request %d of %d failing: %d library block(s) left by the call"
                        % (name, shown, k, req, left), rep)
            if ret == 0:
                estats["succeeded"] += 1
                if re != orig:
                    estats["lost"] += 1
                    violate({"kind": "export", "op": name, "class": "alloc-success-differs"},
                            "%s of the tree built by %r with allocation request %d of %d failing returns 0, but the text it wrote "
                            "re-imports to %s; the tree is %s (export followed by import must reproduce the tree, or the export must fail)"
                            % (name, shown, k, req, re[:80], orig[:80]), rep)
                if ncb != 0:
                    violate({"kind": "callback", "op": name, "class": "alloc-success"},
                            "%s with request %d failing returns 0 after %d error callbacks" % (name, k, ncb), rep)
                continue
            estats["failed"] += 1
            if not (e == 12 and cat == 0 and ncb == 1):
                violate({"kind": "callback" if (e == 12 and ncb != 1) else "errno-class", "op": name, "class": "alloc"},
                        "%s of the tree built by %r with allocation request %d of %d failing returns %d with errno %d, category %d, "
                        "%d error callbacks (ENOMEM in the system category and exactly one report expected)"
                        % (name, shown, k, req, ret, e, cat, ncb), rep)
        ctx.traces_validated += 1
    ctx.extra["yaml_export_faults_" + tag] = estats

    # ------------------------------------------------------------------ obligations
    want = {(e, k, o) for e in "sf" for k in ("syntax", "empty", "alias-cycle", "invalid-key", "alloc", "ok") for o in ("null", "scalar", "map", "list")}
    # on a tree without DO91 / DO90 the kinds are still determined by the document, so coverage does not depend on the fix
    ctx.obligation("tie:yaml-import-atomic covers importer x failure class x old content", want <= seen and not crashed,
                   "%d of %d combinations%s" % (len(want & seen), len(want), (", missing %s" % sorted(want - seen)[:4]) if want - seen else ""))
    nnew = len(ctx.violations) - nviol0
    ctx.obligation("tie:yaml-import-atomic (a failed import leaves the root's digest unchanged, one EBADMSG / ENOMEM report, no block "
                   "left, for every allocation request of the import; library = import_public_x of YamlFault.v; the same documents "
                   "as properties of a calibration file through vnacal_load; export / vnacal_save with every allocation request "
                   "failing: clean ENOMEM failure or a text that re-imports to the same tree)", nnew == 0,
                   "%d imports (%d failed), %d fault-injected runs, %d compared with the model (%d disagreements), %d atomicity "
                   "failures, %d calibration files (%d refused); export / vnacal_save: %d trees, %d fault-injected runs (%d failed "
                   "cleanly, %d succeeded, %d lost members)"
                   % (stats["cases"], stats["failed_imports"], stats["fault_runs"], stats["model_compared"], stats["disagreements"],
                      stats["atomicity"], cstats["files"], cstats["null"], estats["trees"], estats["fault_runs"], estats["failed"],
                      estats["succeeded"], estats["lost"]))
    ctx.extra["yaml_import_atomic_" + tag] = dict(stats, **{"cal_" + k: v for k, v in cstats.items()})
    return stats
