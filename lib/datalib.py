"""Shared pieces of the C15 / C05 checks: function table for the harness, running a script
through the extracted model and through the implementation, comparing transcripts, shrinking."""
import os
import re

import vplib


def fn_table(repo):
    """name -> kind for every vnaconv conversion function, from the prototypes of vnaconv.h
    (independent of vnadata_convert.c).  kinds as in harness/data_harness.c."""
    src = open(os.path.join(repo, "src", "vnaconv.h")).read()
    src = re.sub(r"/\*.*?\*/", "", src, flags=re.S)
    out = {}
    for m in re.finditer(r"extern\s+void\s+(vnaconv_[a-z]to[a-z]+)\s*\(([^;]*?)\)\s*;", src, flags=re.S):
        name, args = m.group(1), " ".join(m.group(2).split())
        has_z0 = bool(re.search(r"\bz0\b", args))
        has_n = bool(re.search(r"\bint\s+n\b", args))
        vec_out = name.endswith("zi") or name.endswith("zin")
        if has_n:
            kind = 5 if vec_out else (4 if has_z0 else 3)
        else:
            kind = 2 if vec_out else (1 if has_z0 else 0)
        if vec_out and not has_z0:
            raise RuntimeError("vnaconv.h: %s: Zin function without z0" % name)
        out[name] = kind
    if len(out) < 90:
        raise RuntimeError("vnaconv.h: only %d conversion prototypes recognised" % len(out))
    return out


def write_fn_table(ctx):
    tab = fn_table(ctx.repo)
    p = os.path.join(ctx.tmp, "data_fn_table.inc")
    with open(p, "w") as f:
        for n in sorted(tab):
            f.write('    { "%s", %d, (void *)%s },\n' % (n, tab[n], n))
    return tab


class Runner(object):
    def __init__(self, ctx):
        self.ctx = ctx
        self.fn_kinds = write_fn_table(ctx)
        self.exe = ctx.build_harness("data_harness", san=True, extra=["-I" + ctx.tmp])
        self.drv = ctx.ocaml_driver("drv_data")
        self.n = 0
        self.dd2_fixed = self.probe_dd2()

    # Finding DD2: vnadata_convert into a second object loses the per-frequency-z0 mode of a source
    # without frequencies.  ConvertModel has both behaviours (dd2_fixed), the theorems are proved
    # for both, and the correspondence uses the variant the compiled code exhibits on this probe.
    DD2_PROBE = "0 init 1 2 2 1\n0 setfz0v 0 2 60,0 85,0\n0 resize 1 2 2 0\nconv 0 1 4\n1 hasfz0\n"

    def probe_dd2(self):
        try:
            rc, out, err = self.impl(self.DD2_PROBE)
        except Exception:
            return False
        rl = [l.split() for l in out.split("\n") if l.startswith("R ")]
        fixed = rc == 0 and len(rl) == 5 and rl[4][1] == "ok" and rl[4][-2:] == ["b", "1"]
        self.ctx.extra["dd2_repair_in_code"] = bool(fixed)
        return fixed

    def model(self, script, as_found=False):
        # as_found: False = repaired behaviour, True = all quirks, or a string "d4,d6"
        cmd = [self.drv] + (["--as-found"] if as_found is True else ["--quirks", as_found] if as_found else [])
        if self.dd2_fixed:
            cmd.append("--dd2-fixed")
        rc, out, err = vplib.sh(cmd, input=script, timeout=120)
        if rc != 0:
            raise RuntimeError("model driver failed (%d): %s" % (rc, err[-500:]))
        rc, res, err = vplib.sh([self.exe, "resolve"], input=out, timeout=120,
                                env=self.ctx.run_env(leak=False))
        if rc != 0:
            # a vnaconv function crashed / is missing while evaluating the model's claim
            return out, None, err
        return out, res, ""

    def impl(self, script):
        rc, out, err = vplib.sh([self.exe, "run"], input=script, timeout=120, env=self.ctx.run_env(leak=True))
        return rc, out, err

    def compare(self, script, as_found=False):
        """-> None when model and implementation agree on every line, else a dict describing the
        first difference (op index, op text, model line, implementation line, sanitizer report)."""
        self.n += 1
        ops = [l for l in script.split("\n") if l.strip() and not l.startswith("#")]
        raw, res, rerr = self.model(script, as_found)
        rc, out, err = self.impl(script)
        if res is None:
            return {"kind": "resolve", "op_index": -1, "op": "", "detail": rerr[-800:]}
        ml = [l.split() for l in res.strip().split("\n")] if res.strip() else []
        cl = [l.split() for l in out.strip().split("\n")] if out.strip() else []
        for i in range(max(len(ml), len(cl))):
            a = ml[i] if i < len(ml) else None
            b = cl[i] if i < len(cl) else None
            if a != b:
                k = i // 2
                d = {"kind": "disagreement", "op_index": k, "op": ops[k] if k < len(ops) else "",
                     "line": "outcome" if i % 2 == 0 else "digest",
                     "model": " ".join(a) if a else None, "impl": " ".join(b) if b else None}
                if b is None and rc != 0:
                    d["kind"] = "fault"
                    d["san"] = vplib.asan_signature(err)
                    d["stderr"] = err[-1500:]
                    if a is not None and a[0] == "R" and a[1] == "fault":
                        d["model_predicts_fault"] = True
                return d
        if rc != 0:
            return {"kind": "fault", "op_index": len(ops), "op": "(exit)", "san": vplib.asan_signature(err),
                    "stderr": err[-1500:], "model": None, "impl": None}
        return None


def shrink(script_ops, still_fails, budget=400):
    """Delta debugging (ddmin) on a list of op lines; still_fails(list) -> bool."""
    ops = list(script_ops)
    n = 2
    calls = 0
    while len(ops) >= 2 and calls < budget:
        chunk = max(1, len(ops) // n)
        reduced = False
        for start in range(0, len(ops), chunk):
            cand = ops[:start] + ops[start + chunk:]
            calls += 1
            if cand and still_fails(cand):
                ops = cand
                n = max(n - 1, 2)
                reduced = True
                break
            if calls >= budget:
                break
        if not reduced:
            if chunk == 1:
                break
            n = min(len(ops), n * 2)
    return ops
