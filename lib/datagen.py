"""Operation-script generators for the C15 / C05 correspondence (see harness/data_harness.c for
the grammar).  All randomness comes from the random.Random instance passed in."""

TWO_PORT = (2, 3, 6, 7, 8, 9)          # T U H G A B
SQUARE = (1, 4, 5)                     # S Z Y
ZIN = 10


def valid_dims(t, r, c):
    if t == 0:
        return True
    if t in SQUARE:
        return r == c
    if t in TWO_PORT:
        return r == 2 and c == 2
    if t == ZIN:
        return r == 1
    return False


class Shadow(object):
    """Rough prediction of (type, rows, cols, freqs) of one object, used only to aim indices at
    the boundaries; a wrong prediction costs nothing but precision of the aim."""
    def __init__(self):
        self.t, self.r, self.c, self.f = 0, 0, 0, 0

    def ports(self):
        return max(self.r, self.c)


def val(rng):
    return "%d,%d" % (rng.randint(-9, 9), rng.randint(-9, 9))


def zval(rng):
    return "%d,%d" % (rng.choice((1, 2, 5, 10, 50, 75, 99)), rng.randint(-9, 9))


def fval(rng):
    """a frequency for vnadata_set_frequency / vnadata_set_frequency_vector: the container takes ANY
    value through these two (only vnadata_add_frequency refuses negatives): negative, zero,
    positive; sequences of them come out unordered and with repeats"""
    k = rng.random()
    if k < 0.30:
        return rng.randint(-9, -1)
    if k < 0.40:
        return 0
    if k < 0.55:
        return rng.choice((1, 1, 2, 2, 5))          # repeats are likely
    return rng.randint(1, 9)


def fvals(rng, n):
    return "%d %s" % (max(n, 0), " ".join(str(fval(rng)) for _ in range(max(n, 0))))


def idx(rng, n):
    """an index aimed at the case splits: -1, 0, n-1, n, n+1, or anything in range"""
    k = rng.random()
    if k < 0.08:
        return -1
    if k < 0.20:
        return n
    if k < 0.26:
        return n + 1
    if k < 0.45:
        return 0
    if k < 0.65:
        return n - 1 if n > 0 else 0
    return rng.randint(0, max(n - 1, 0))


def vlist(rng, n, gen):
    n = max(n, 0)
    return "%d %s" % (n, " ".join(gen(rng) for _ in range(n)))


def dims_for(rng, maxdim):
    """(type, rows, cols): mostly consistent, sometimes not"""
    t = rng.choice((0, 0, 1, 1, 1, 2, 3, 4, 4, 5, 5, 6, 7, 8, 9, 10, 10))
    k = rng.random()
    if k < 0.04:
        t = rng.choice((-1, 11, 12))
    if k < 0.80:
        if t in SQUARE:
            n = rng.randint(0, maxdim)
            return t, n, n
        if t in TWO_PORT:
            return t, 2, 2
        if t == ZIN:
            return t, 1, rng.randint(0, maxdim)
    r, c = rng.randint(0, maxdim), rng.randint(0, maxdim)
    if k > 0.97:
        r = -1
    elif k > 0.94:
        c = -1
    return t, r, c


NOBJ = 4                               # object slots of harness/data_harness.c


def random_script(rng, length, maxdim=3, maxfreq=3, convert=True, nobj=NOBJ):
    """nobj objects (identifiers of TwoObjModel.kstep): most operations go to object 0, the rest
    to any object; conversions between any two objects, in place half of the time."""
    sh = [Shadow() for _ in range(nobj)]
    ops = []

    def resized(s, t, r, c, f):
        if r >= 0 and c >= 0 and f >= 0 and valid_dims(t, r, c):
            s.t, s.r, s.c, s.f = t, r, c, f

    while len(ops) < length:
        o = rng.randint(0, nobj - 1) if rng.random() < 0.35 else 0
        s = sh[o]
        k = rng.random()
        if k < 0.06:
            t, r, c = dims_for(rng, maxdim)
            f = rng.randint(0, maxfreq) if rng.random() > 0.03 else -1
            if rng.random() < 0.2:
                # vnadata_alloc_and_init: the slot holds a fresh object afterwards, initialised or not
                ops.append("%d allocinit %d %d %d %d" % (o, t, r, c, f))
                s.t, s.r, s.c, s.f = 0, 0, 0, 0
            else:
                ops.append("%d init %d %d %d %d" % (o, t, r, c, f))
            resized(s, t, r, c, f)
        elif k < 0.20:
            t, r, c = dims_for(rng, maxdim)
            if rng.random() < 0.3:
                t = s.t if valid_dims(s.t, r, c) else 0
            f = rng.choice((s.f, s.f, rng.randint(0, maxfreq), max(s.f - 1, 0), s.f + 1))
            if rng.random() < 0.02:
                f = -1
            ops.append("%d resize %d %d %d %d" % (o, t, r, c, f))
            resized(s, t, r, c, f)
        elif k < 0.23:
            t = rng.randint(-1, 11)
            ops.append("%d settype %d" % (o, t))
            if valid_dims(t, s.r, s.c):
                s.t = t
        elif k < 0.27:
            x = rng.randint(-1, 9)
            ops.append("%d addfreq %d" % (o, x))
            if x >= 0:
                s.f += 1
        elif k < 0.30:
            ops.append("%d getfreq %d" % (o, idx(rng, s.f)))
        elif k < 0.33:
            ops.append("%d setfreq %d %d" % (o, idx(rng, s.f), fval(rng)))
        elif k < 0.35:
            ops.append("%d %s" % (o, rng.choice(("fmin", "fmax", "getfv", "dims", "meta", "hasfz0", "setfvself"))))
        elif k < 0.37:
            ops.append("%d setfv %s" % (o, fvals(rng, rng.choice((s.f, s.f, s.f + 1, max(s.f - 1, 0))))))
        elif k < 0.42:
            ops.append("%d getcell %d %d %d" % (o, idx(rng, s.f), idx(rng, s.r), idx(rng, s.c)))
        elif k < 0.52:
            ops.append("%d setcell %d %d %d %s" % (o, idx(rng, s.f), idx(rng, s.r), idx(rng, s.c), val(rng)))
        elif k < 0.54:
            ops.append("%d getmat %d" % (o, idx(rng, s.f)))
        elif k < 0.59:
            ops.append("%d setmat %d %s" % (o, idx(rng, s.f), vlist(rng, s.r * s.c, val)))
        elif k < 0.61:
            ops.append("%d gettovec %d %d" % (o, idx(rng, s.r), idx(rng, s.c)))
        elif k < 0.64:
            ops.append("%d setfromvec %d %d %s" % (o, idx(rng, s.r), idx(rng, s.c), vlist(rng, s.f, val)))
        elif k < 0.67:
            ops.append("%d getz0 %d" % (o, idx(rng, s.ports())))
        elif k < 0.71:
            ops.append("%d setz0 %d %s" % (o, idx(rng, s.ports()), zval(rng)))
        elif k < 0.73:
            ops.append("%d setallz0 %s" % (o, zval(rng)))
        elif k < 0.75:
            ops.append("%d getz0v" % o)
        elif k < 0.78:
            ops.append("%d setz0v %s" % (o, vlist(rng, s.ports(), zval)))
        elif k < 0.81:
            ops.append("%d getfz0 %d %d" % (o, idx(rng, s.f), idx(rng, s.ports())))
        elif k < 0.86:
            ops.append("%d setfz0 %d %d %s" % (o, idx(rng, s.f), idx(rng, s.ports()), zval(rng)))
        elif k < 0.88:
            ops.append("%d getfz0v %d" % (o, idx(rng, s.f)))
        elif k < 0.91:
            ops.append("%d setfz0v %d %s" % (o, idx(rng, s.f), vlist(rng, s.ports(), zval)))
        elif k < 0.93:
            ops.append(rng.choice(("%d setft %d" % (o, rng.randint(-1, 4)),
                                   "%d setfmt %d" % (o, rng.choice((-1, -1, 0, 1, 2, 3, 4, 5))),
                                   "%d setfmtbad %d" % (o, rng.randint(0, 5)),
                                   "%d setfprec %d" % (o, rng.randint(0, 9)),
                                   "%d setdprec %d" % (o, rng.randint(0, 9)))))
        elif convert:
            a = rng.randint(0, nobj - 1)
            b = a if rng.random() < 0.5 else rng.choice([x for x in range(nobj) if x != a])
            src = sh[a]
            if rng.random() < 0.6:
                # make the source convertible and non-trivial first
                t = rng.choice(SQUARE + TWO_PORT)
                n = 2 if (t in TWO_PORT or rng.random() < 0.5) else rng.randint(1, maxdim)
                f = rng.randint(1, maxfreq)
                ops.append("%d %s %d %d %d %d" % (a, rng.choice(("init", "resize")), t, n, n, f))
                resized(src, t, n, n, f)
                for fi in range(f):
                    ops.append("%d setmat %d %s" % (a, fi, vlist(rng, n * n, val)))
                if rng.random() < 0.7:
                    ops.append("%d setfv %s" % (a, fvals(rng, f)))
                if rng.random() < 0.5:
                    ops.append("%d setz0v %s" % (a, vlist(rng, n, zval)))
                if rng.random() < 0.5:
                    ops.append("%d setfz0v %d %s" % (a, rng.randint(0, f - 1), vlist(rng, n, zval)))
            if src.t in SQUARE and src.r != 2:
                nt = rng.choice((1, 4, 5, 10, 10, rng.randint(0, 10)))
            else:
                nt = rng.randint(0, 10)
            if rng.random() < 0.04:
                nt = rng.choice((-1, 11))
            ops.append("conv %d %d %d" % (a, b, nt))
            dst = sh[b]
            ok = (nt == src.t) or (src.t not in (0, ZIN) and 1 <= nt <= 10)
            if ok and (src.r == src.c) and (src.r == 2 or (src.t in SQUARE and nt in SQUARE + (ZIN,))):
                if nt == ZIN:
                    dst.t, dst.r, dst.c, dst.f = nt, 1, src.r, src.f
                else:
                    dst.t, dst.r, dst.c, dst.f = nt, src.r, src.c, src.f
    return ops


def exhaustive_alphabet(maxdim=2):
    """A small alphabet of concrete ops on object 0 (plus conversions into object 1) whose
    sequences are enumerated exhaustively.  Indices sit on the boundaries of the small
    dimensions used."""
    a = []
    for (t, r, c) in ((0, 0, 0), (0, 1, 2), (0, 2, 1), (1, 1, 1), (1, 2, 2), (4, 2, 2), (10, 1, 2), (2, 2, 2)):
        if max(r, c) <= maxdim:
            for f in (0, 1, 2):
                a.append("0 resize %d %d %d %d" % (t, r, c, f))
    a.append("0 init 1 2 2 1")
    a.append("0 addfreq 3")
    a.append("0 setmat 0 4 1,2 3,4 5,6 7,8")
    a.append("0 setmat 1 4 2,1 0,3 1,1 4,0")
    a.append("0 setcell 0 0 1 7,7")
    a.append("0 setfromvec 1 0 2 6,1 6,2")
    a.append("0 setfv 2 3 -4")
    for p in (0, 1, 2):
        a.append("0 setz0 %d 75,1" % p)
        a.append("0 setfz0 0 %d 10,2" % p)
    a.append("0 setfz0 1 0 20,3")
    a.append("0 setz0v 2 5,0 10,0")
    a.append("0 setfz0v 1 2 2,0 99,0")
    a.append("0 setallz0 2,2")
    a.append("0 setfmt 1")
    a.append("0 setfmt -1")
    a.append("0 getz0 2")
    a.append("0 getfz0 0 2")
    a.append("conv 0 0 10")
    a.append("conv 0 0 4")
    a.append("conv 0 1 10")
    a.append("conv 0 1 5")
    a.append("conv 1 0 1")
    return a


def multi_object_script(rng, nobj=NOBJ, maxfreq=2):
    """Conversions among all nobj objects: a convertible source in one slot, then a walk of
    conversions slot to slot (and in place) through types, interleaved with writes to the slots
    walked over, a free + alloc of a slot in between, and reads of every slot at the end."""
    ops = []
    src = rng.randint(0, nobj - 1)
    t = rng.choice(SQUARE + TWO_PORT)
    n = 2 if (t in TWO_PORT or rng.random() < 0.6) else rng.randint(1, 3)
    f = rng.randint(1, maxfreq)
    ops.append("%d init %d %d %d %d" % (src, t, n, n, f))
    for fi in range(f):
        ops.append("%d setmat %d %s" % (src, fi, vlist(rng, n * n, val)))
    if rng.random() < 0.8:
        ops.append("%d setfv %s" % (src, fvals(rng, f)))
    else:
        ops.append("%d setfreq %d %d" % (src, rng.randint(0, f - 1), fval(rng)))
    if rng.random() < 0.5:
        ops.append("%d setz0v %s" % (src, vlist(rng, n, zval)))
    else:
        ops.append("%d setfz0v %d %s" % (src, rng.randint(0, f - 1), vlist(rng, n, zval)))
    if rng.random() < 0.5:
        ops.append("%d setfmt %d" % (src, rng.choice((-1, 0, 1, 2, 3, 4, 5))))
    for o in range(nobj):
        if o != src and rng.random() < 0.6:
            tt, r, c = dims_for(rng, 3)
            ops.append("%d init %d %d %d %d" % (o, tt, r, c, rng.randint(0, 3)))
            ops.append("%d setfz0 0 0 %s" % (o, zval(rng)))
    cur = src
    for _ in range(rng.randint(3, 7)):
        nxt = cur if rng.random() < 0.3 else rng.choice([x for x in range(nobj) if x != cur])
        if n == 2:
            nt = rng.choice((1, 2, 3, 4, 5, 6, 7, 8, 9, 9, 10, rng.randint(-1, 11)))
        else:
            nt = rng.choice((1, 4, 5, 5, 10, rng.randint(-1, 11)))
        ops.append("conv %d %d %d" % (cur, nxt, nt))
        k = rng.random()
        if k < 0.2:
            ops.append("%d setcell 0 0 0 %s" % (cur, val(rng)))
        elif k < 0.3:
            other = rng.choice([x for x in range(nobj) if x != nxt])
            ops.append("%d allocinit 0 0 0 0" % other)
            if other == cur:
                break
        elif k < 0.4:
            ops.append("%d resize 0 3 3 3" % cur)
        cur = nxt
    for o in range(nobj):
        ops += ["%d dims" % o, "%d meta" % o, "%d getfv" % o, "%d getmat 0" % o, "%d hasfz0" % o, "%d getfz0v 0" % o]
    return ops
