"""Independent identifiability oracle for property C20 (Python 3 stdlib only).

Everything here is written from the documented matrix equations of vnacal_new(3) /
vnacal_layout.h, not from the solver:

    T types:  Ts S + Ti = M' Tx S + M' Tm          M' = M - El (off-diagonal leakage, TE10)
    U types:  Um M' + Ui = S Ux M' + S Us          (UE10: same leakage convention)
    UE14/E12: one U system per measurement column k, Ui/Us reduced to their k-th entry

* exact Gaussian rationals (class QI) generate error terms, standards and measurements;
* the linear system each standard contributes is built cell by cell from the matrix equation
  using only what the caller of the library knows (the S cells of the standard, "no path
  between the standard and the unused ports", the measured M cells);
* rank over GF(p^2) (p = 2^61 - 1 = 3 mod 4, so Z_p[i] is a field): full column rank modulo p
  implies full column rank over Q[i]; rank-deficient modulo p asserts nothing;
* exact rank over Q[i] for small systems (cross-check and statistics).
"""
from fractions import Fraction

P61 = (1 << 61) - 1


# ---------------------------------------------------------------------------- exact Q[i]
class QI(object):
    __slots__ = ("re", "im")

    def __init__(self, re=0, im=0):
        self.re = Fraction(re)
        self.im = Fraction(im)

    def __add__(self, o):
        return QI(self.re + o.re, self.im + o.im)

    def __sub__(self, o):
        return QI(self.re - o.re, self.im - o.im)

    def __neg__(self):
        return QI(-self.re, -self.im)

    def __mul__(self, o):
        return QI(self.re * o.re - self.im * o.im, self.re * o.im + self.im * o.re)

    def inv(self):
        d = self.re * self.re + self.im * self.im
        return QI(self.re / d, -self.im / d)

    def __truediv__(self, o):
        return self * o.inv()

    def is_zero(self):
        return self.re == 0 and self.im == 0

    def __eq__(self, o):
        return self.re == o.re and self.im == o.im

    def __hash__(self):
        return hash((self.re, self.im))

    def to_c(self):
        return complex(float(self.re), float(self.im))

    def __repr__(self):
        return "(%s%+si)" % (self.re, self.im)


ZERO = QI(0)
ONE = QI(1)


def mat_mul(a, b):
    n, k, m = len(a), len(b), len(b[0])
    out = []
    for i in range(n):
        row = []
        for j in range(m):
            s = ZERO
            for l in range(k):
                if not (a[i][l].is_zero() or b[l][j].is_zero()):
                    s = s + a[i][l] * b[l][j]
            row.append(s)
        out.append(row)
    return out


def mat_add(a, b):
    return [[x + y for x, y in zip(r, s)] for r, s in zip(a, b)]


def mat_sub(a, b):
    return [[x - y for x, y in zip(r, s)] for r, s in zip(a, b)]


def mat_inv(a):
    """Exact inverse (Gauss-Jordan); None when singular."""
    n = len(a)
    w = [list(a[i]) + [ONE if i == j else ZERO for j in range(n)] for i in range(n)]
    for c in range(n):
        p = None
        for r in range(c, n):
            if not w[r][c].is_zero():
                p = r
                break
        if p is None:
            return None
        w[c], w[p] = w[p], w[c]
        iv = w[c][c].inv()
        w[c] = [x * iv for x in w[c]]
        for r in range(n):
            if r != c and not w[r][c].is_zero():
                f = w[r][c]
                w[r] = [x - f * y for x, y in zip(w[r], w[c])]
    return [row[n:] for row in w]


# ---------------------------------------------------------------------------- GF(p^2)
def to_gf(x, p=P61):
    """Gaussian rational -> pair modulo p; None if a denominator vanishes modulo p."""
    out = []
    for f in (x.re, x.im):
        d = f.denominator % p
        if d == 0:
            return None
        out.append(f.numerator % p * pow(d, p - 2, p) % p)
    return (out[0], out[1])


class RankGF(object):
    """Incremental row echelon basis over GF(p^2)."""

    def __init__(self, ncols, p=P61):
        self.p = p
        self.n = ncols
        self.rows = {}          # pivot column -> normalised row (list of pairs)
        self.poisoned = False   # a value could not be reduced modulo p

    def rank(self):
        return len(self.rows)

    def add(self, row):
        p = self.p
        v = []
        for x in row:
            g = to_gf(x, p)
            if g is None:
                self.poisoned = True
                return
            v.append(g)
        for c in range(self.n):
            a, b = v[c]
            if a == 0 and b == 0:
                continue
            if c in self.rows:
                piv = self.rows[c]
                for j in range(c, self.n):
                    pa, pb = piv[j]
                    if pa == 0 and pb == 0:
                        continue
                    va, vb = v[j]
                    v[j] = ((va - (a * pa - b * pb)) % p, (vb - (a * pb + b * pa)) % p)
            else:
                d = pow((a * a + b * b) % p, p - 2, p)
                ia, ib = a * d % p, (-b) * d % p
                v = [((x * ia - y * ib) % p, (x * ib + y * ia) % p) for x, y in v]
                self.rows[c] = v
                return


class RankQI(object):
    """Incremental row echelon basis over Q[i] (exact)."""

    def __init__(self, ncols):
        self.n = ncols
        self.rows = {}

    def rank(self):
        return len(self.rows)

    def add(self, row):
        v = list(row)
        for c in range(self.n):
            if v[c].is_zero():
                continue
            if c in self.rows:
                f = v[c]
                piv = self.rows[c]
                v = [x - f * y for x, y in zip(v, piv)]
            else:
                iv = v[c].inv()
                self.rows[c] = [x * iv for x in v]
                return


# ---------------------------------------------------------------------------- types and layout (documentation table)
TYPES = ["T8", "U8", "TE10", "UE10", "T16", "U16", "UE14", "E12"]


def is_t(ty):
    return ty in ("T8", "TE10", "T16")


def is_col_sys(ty):
    return ty in ("UE14", "E12")


def has_leak(ty):
    return ty in ("TE10", "UE10", "UE14", "E12")


def dims_ok(ty, r, c):
    return r >= 1 and c >= 1 and (r <= c if is_t(ty) else r >= c)


def doc_error_terms(ty, r, c):
    """Number of error terms, from the table of vnacal_new(3)."""
    return {"T8": 2 * r + 2 * c, "U8": 2 * r + 2 * c, "TE10": r * c + r + 2 * c, "UE10": r * c + 2 * r + c,
            "T16": 2 * r * c + 2 * c * c, "U16": 2 * r * c + 2 * r * r, "UE14": 3 * r * c + c, "E12": 3 * r * c}[ty]


def doc_unknowns_per_system(ty, r, c):
    """Unknowns of one linear system (error terms inside the linear system minus the free one)."""
    if ty in ("T8", "U8", "TE10", "UE10"):
        return 2 * r + 2 * c - 1
    if ty == "T16":
        return 2 * r * c + 2 * c * c - 1
    if ty == "U16":
        return 2 * r * c + 2 * r * r - 1
    return 2 * r + 2 - 1            # UE14 / E12: um(r) ui(1) ux(r) us(1) per column, um_kk = 1


def doc_systems(ty, c):
    return c if is_col_sys(ty) else 1


class Terms(object):
    """True error terms of one simulated VNA (exact)."""

    def __init__(self, ty, r, c, rng, scale=1):
        """scale: common factor of every raw measurement (receiver units): M = scale * (M of the unscaled VNA), obtained by
        scaling the terms that carry the measurement (Ts, Ti / Us, Ui / us, ui, and the leakage El)."""
        self.ty, self.r, self.c = ty, r, c
        self.scale = Fraction(scale)
        P = self.P = max(r, c)

        def small():
            return QI(Fraction(rng.randint(-3, 3), rng.randint(8, 12)), Fraction(rng.randint(-3, 3), rng.randint(8, 12)))

        def near1():
            return ONE + small()

        def diag(n, m, f):
            return [[f() if i == j else ZERO for j in range(m)] for i in range(n)]

        def full(n, m, f, g):
            return [[f() if i == j else g() for j in range(m)] for i in range(n)]
        if ty in ("T8", "TE10"):
            self.A = diag(r, P, near1)      # Ts  r x P
            self.B = diag(r, P, small)      # Ti  r x P
            self.C = diag(c, P, small)      # Tx  c x P  (c = P)
            self.D = diag(c, P, near1)      # Tm
        elif ty == "T16":
            self.A = full(r, P, near1, small)
            self.B = full(r, P, small, small)
            self.C = full(c, P, small, small)
            self.D = full(c, P, near1, small)
        elif ty in ("U8", "UE10"):
            self.A = diag(P, r, near1)      # Um  P x r  (r = P)
            self.B = diag(P, c, small)      # Ui  P x c
            self.C = diag(P, r, small)      # Ux  P x r
            self.D = diag(P, c, near1)      # Us  P x c
        elif ty == "U16":
            self.A = full(P, r, near1, small)
            self.B = full(P, c, small, small)
            self.C = full(P, r, small, small)
            self.D = full(P, c, near1, small)
        else:                               # UE14 / E12: one set per column
            self.cols = []
            for k in range(c):
                self.cols.append({"um": [near1() for _ in range(r)], "ui": small(),
                                  "ux": [small() for _ in range(r)], "us": near1()})
        self.El = [[(small() if (i != j and has_leak(ty)) else ZERO) for j in range(c)] for i in range(r)]
        if self.scale != 1:
            g = QI(self.scale)

            def sm(X):
                return [[x * g for x in row] for row in X]
            if ty in ("T8", "TE10", "T16"):
                self.A, self.B = sm(self.A), sm(self.B)         # M = (Ts S + Ti)(Tx S + Tm)^-1
            elif ty in ("U8", "UE10", "U16"):
                self.B, self.D = sm(self.B), sm(self.D)         # M = (Um - S Ux)^-1 (S Us - Ui)
            else:
                for t in self.cols:
                    t["ui"], t["us"] = t["ui"] * g, t["us"] * g
            self.El = sm(self.El)

    # ------------------------------------------------------------------ physics: M from S
    def measure(self, S):
        """Full r x c measurement matrix of a device with P x P scattering matrix S (exact)."""
        ty, r, c, P = self.ty, self.r, self.c, self.P
        if is_t(ty):
            num = mat_add(mat_mul(self.A, S), self.B)              # r x P
            den = mat_add(mat_mul(self.C, S), self.D)              # P x P
            di = mat_inv(den)
            if di is None:
                return None
            M = mat_mul(num, di)
        elif not is_col_sys(ty):
            lhs = mat_sub(self.A, mat_mul(S, self.C))              # P x P
            li = mat_inv(lhs)
            if li is None:
                return None
            M = mat_mul(li, mat_sub(mat_mul(S, self.D), self.B))   # P x c
        else:
            M = [[ZERO] * c for _ in range(r)]
            for k in range(c):
                t = self.cols[k]
                lhs = [[(t["um"][j] if i == j else ZERO) - S[i][j] * t["ux"][j] for j in range(P)] for i in range(P)]
                li = mat_inv(lhs)
                if li is None:
                    return None
                rhs = [[S[i][k] * t["us"] - (t["ui"] if i == k else ZERO)] for i in range(P)]
                col = mat_mul(li, rhs)
                for i in range(r):
                    M[i][k] = col[i][0]
        return [[M[i][j] + self.El[i][j] for j in range(c)] for i in range(r)]

    # ------------------------------------------------------------------ saved vector (layout of vnacal_layout.h), normalised
    def expected_vector(self):
        """Error terms in the order of the saved calibration, normalised by the unity term."""
        ty, r, c, P = self.ty, self.r, self.c, self.P
        out = []
        if ty in ("T8", "TE10", "U8", "UE10"):
            u = self.D[0][0] if is_t(ty) else self.A[0][0]
            for X in (self.A, self.B, self.C, self.D):
                n = min(len(X), len(X[0]))
                out += [X[i][i] / u for i in range(n)]
        elif ty in ("T16", "U16"):
            u = self.D[0][0] if ty == "T16" else self.A[0][0]
            for X in (self.A, self.B, self.C, self.D):
                for row in X:
                    out += [x / u for x in row]
        elif ty == "UE14":
            for k in range(c):
                t = self.cols[k]
                u = t["um"][k]
                out += [x / u for x in t["um"]] + [t["ui"] / u] + [x / u for x in t["ux"]] + [t["us"] / u]
        else:   # E12: el | er | em per column, from the "From U terms" identities, Et normalised to 1
            for k in range(c):
                t = self.cols[k]
                el = [(-(t["ui"] / t["um"][k]) if i == k else self.El[i][k]) for i in range(r)]
                n = t["us"] - t["ui"] * t["ux"][k] / t["um"][k]
                er = [n / t["um"][i] for i in range(r)]
                em = [t["ux"][i] / t["um"][i] for i in range(r)]
                out += el + er + em
            return out
        if has_leak(ty):
            out += [self.El[i][j] for i in range(r) for j in range(c) if i != j]
        return out


# ---------------------------------------------------------------------------- standards
class Standard(object):
    """A calibration standard as the user describes it.

    ports : 1-based VNA ports the standard is connected to, in the order of its own ports
    S     : n x n matrix of (slot, value) for the standard's own ports; slot 0 = VNACAL_ZERO
    kind  : r1 | r2 | th | ln | mm (which API function adds it)
    abbreviated : give only the rows/columns of M that belong to the standard's ports
    """

    def __init__(self, kind, ports, S, name):
        self.kind, self.ports, self.S, self.name = kind, list(ports), S, name
        self.abbrev_rows = False
        self.abbrev_cols = False
        self.term = None        # reflections seen on the unused ports (set per scenario)

    def key(self):
        return self.name + ("/ar" if self.abbrev_rows else "") + ("/ac" if self.abbrev_cols else "")


def components(n, edges):
    comp = list(range(n))

    def find(x):
        while comp[x] != x:
            x = comp[x]
        return x
    for a, b in edges:
        ra, rb = find(a), find(b)
        if ra != rb:
            comp[max(ra, rb)] = min(ra, rb)
    return [find(x) for x in range(n)]


class Knowledge(object):
    """What the user knows about one measured standard in the frame of the full VNA."""

    def __init__(self, std, P, r, c):
        n = len(std.ports)
        self.P = P
        # known S cells (QI) / None = unknown
        K = [[None] * P for _ in range(P)]
        used = [p - 1 for p in std.ports]
        for a in range(n):
            for b in range(n):
                K[used[a]][used[b]] = std.S[a][b][1]
        for i in range(P):
            for j in range(P):
                if (i in used) != (j in used):
                    K[i][j] = ZERO          # no signal path between the standard and the unused ports
        self.K = K
        # ports joined by a path through the standard (unknown or non-zero off-diagonal cell)
        edges = [(used[a], used[b]) for a in range(n) for b in range(n)
                 if a != b and not std.S[a][b][1].is_zero()]
        # nothing is known about what joins the unused ports among themselves (vnacal_new(3): only
        # "no through signal to or from the ports under test"), so they may be joined
        unused = [i for i in range(P) if i not in used]
        edges += [(a, b) for a in unused for b in unused if a < b]
        self.comp = components(P, edges)
        rows = sorted(used) if std.abbrev_rows else list(range(r))
        cols = sorted(used) if std.abbrev_cols else list(range(c))
        self.rows = [i for i in rows if i < r]
        self.cols = [j for j in cols if j < c]
        self.measured = [[(i in self.rows and j in self.cols) for j in range(c)] for i in range(r)]

    def connected(self, i, j):
        return self.comp[i] == self.comp[j]


def true_S(std, P):
    """The full P x P scattering matrix the VNA really sees (unused ports terminated arbitrarily)."""
    S = [[ZERO] * P for _ in range(P)]
    used = [p - 1 for p in std.ports]
    for a in range(len(used)):
        for b in range(len(used)):
            S[used[a]][used[b]] = std.S[a][b][1]
    for i in range(P):
        if i not in used:
            S[i][i] = std.term[i]
    return S


# ---------------------------------------------------------------------------- the linear system of the documented equation
class UNK(object):
    """Unknown value marker for the symbolic cell-by-cell expansion."""
    pass


UNKNOWN = UNK()


def vmul(a, b):
    """Product of two known-or-unknown scalars: a known zero annihilates an unknown."""
    if a is not UNKNOWN and a.is_zero():
        return ZERO
    if b is not UNKNOWN and b.is_zero():
        return ZERO
    if a is UNKNOWN or b is UNKNOWN:
        return UNKNOWN
    return a * b


def unknown_index(ty, r, c):
    """Names of the unknowns of one system, unity term excluded: list of (block, i, j)."""
    P = max(r, c)
    names = []
    if ty in ("T8", "TE10"):
        names = [("A", i, i) for i in range(r)] + [("B", i, i) for i in range(r)] + \
                [("C", i, i) for i in range(c)] + [("D", i, i) for i in range(c)]
        unity = ("D", 0, 0)
    elif ty == "T16":
        names = [("A", i, j) for i in range(r) for j in range(P)] + [("B", i, j) for i in range(r) for j in range(P)] + \
                [("C", i, j) for i in range(c) for j in range(P)] + [("D", i, j) for i in range(c) for j in range(P)]
        unity = ("D", 0, 0)
    elif ty in ("U8", "UE10"):
        names = [("A", i, i) for i in range(r)] + [("B", i, i) for i in range(c)] + \
                [("C", i, i) for i in range(r)] + [("D", i, i) for i in range(c)]
        unity = ("A", 0, 0)
    elif ty == "U16":
        names = [("A", i, j) for i in range(P) for j in range(r)] + [("B", i, j) for i in range(P) for j in range(c)] + \
                [("C", i, j) for i in range(P) for j in range(r)] + [("D", i, j) for i in range(P) for j in range(c)]
        unity = ("A", 0, 0)
    else:
        raise ValueError(ty)
    return [n for n in names if n != unity], unity


def equations_for(ty, r, c, know, Mp):
    """Rows (coefficient list, rhs) of the documented matrix equation that are fully known.

    Mp[i][j] : measured value minus leakage (QI) or UNKNOWN.  Returns {system: [(coeffs, rhs)]}.
    The expansion is literal: every cell of the matrix equation is written as a sum of
    (known factor) * (error term); a cell whose expansion contains an unknown factor is dropped."""
    P = max(r, c)
    K = [[(know.K[i][j] if know.K[i][j] is not None else UNKNOWN) for j in range(P)] for i in range(P)]
    out = {}
    if not is_col_sys(ty):
        names, unity = unknown_index(ty, r, c)
        pos = {n: k for k, n in enumerate(names)}
        structural = set(names) | {unity}
        rows = []
        if is_t(ty):
            # cell (i,j), i < r, j < P:  -sum_k A[i][k] S[k][j] - B[i][j] + sum_k sum_l M[i][k] C[k][l] S[l][j] + sum_k M[i][k] D[k][j]
            for i in range(r):
                for j in range(P):
                    terms = []
                    for k in range(P):
                        if ("A", i, k) in structural:
                            terms.append((("A", i, k), vmul(K[k][j], QI(-1))))
                    if ("B", i, j) in structural:
                        terms.append((("B", i, j), QI(-1)))
                    for k in range(c):
                        for l in range(P):
                            if ("C", k, l) in structural:
                                terms.append((("C", k, l), vmul(Mp[i][k], K[l][j])))
                    for k in range(c):
                        if ("D", k, j) in structural:
                            terms.append((("D", k, j), Mp[i][k]))
                    rows.append(terms)
        else:
            # cell (i,j), i < P, j < c:  sum_k A[i][k] M[k][j] + B[i][j] - sum_k sum_l S[i][k] C[k][l] M[l][j] - sum_k S[i][k] D[k][j]
            for i in range(P):
                for j in range(c):
                    terms = []
                    for k in range(r):
                        if ("A", i, k) in structural:
                            terms.append((("A", i, k), Mp[k][j]))
                    if ("B", i, j) in structural:
                        terms.append((("B", i, j), ONE))
                    for k in range(P):
                        for l in range(r):
                            if ("C", k, l) in structural:
                                terms.append((("C", k, l), vmul(vmul(K[i][k], Mp[l][j]), QI(-1))))
                    for k in range(P):
                        if ("D", k, j) in structural:
                            terms.append((("D", k, j), vmul(K[i][k], QI(-1))))
                    rows.append(terms)
        good = []
        for terms in rows:
            coeffs = [ZERO] * len(names)
            rhs = ZERO
            ok = True
            for n, v in terms:
                if v is UNKNOWN:
                    ok = False
                    break
                if n == unity:
                    rhs = rhs - v
                else:
                    coeffs[pos[n]] = coeffs[pos[n]] + v
            if ok:
                good.append((coeffs, rhs))
        out[0] = good
        return out
    # UE14 / E12: system k has unknowns um_i (i != k), ui, ux_i, us
    for k in range(c):
        good = []
        for i in range(P):
            # um_i M[i][k] + [i == k] ui - sum_l S[i][l] ux_l M[l][k] - S[i][k] us = 0      (um, ux diagonal; l < r)
            names = [("um", a) for a in range(r) if a != k] + [("ui",)] + [("ux", a) for a in range(r)] + [("us",)]
            pos = {n: q for q, n in enumerate(names)}
            coeffs = [ZERO] * len(names)
            rhs = ZERO
            ok = True
            terms = []
            if i < r:
                terms.append((("um", i), Mp[i][k]))
            if i == k:
                terms.append((("ui",), ONE))
            for l in range(r):
                terms.append((("ux", l), vmul(vmul(K[i][l], Mp[l][k]), QI(-1))))
            terms.append((("us",), vmul(K[i][k], QI(-1))))
            for n, v in terms:
                if v is UNKNOWN:
                    ok = False
                    break
                if n == ("um", k):
                    rhs = rhs - v
                else:
                    coeffs[pos[n]] = coeffs[pos[n]] + v
            if ok:
                good.append((coeffs, rhs))
        out[k] = good
    return out


def is_trivial(coeffs, rhs):
    return rhs.is_zero() and all(x.is_zero() for x in coeffs)


# ---------------------------------------------------------------------------- conditioning (float, Householder-free: modified Gram-Schmidt)
def cond_estimate(rows, ncols):
    """Frobenius-norm condition estimate ||R||_F ||R^-1||_F of the column-scaled coefficient matrix."""
    if not rows:
        return float("inf")
    A = [[x.to_c() for x in row] for row in rows]
    m = len(A)
    cols = [[A[i][j] for i in range(m)] for j in range(ncols)]
    for j in range(ncols):
        nrm = sum(abs(x) ** 2 for x in cols[j]) ** 0.5
        if nrm == 0.0:
            return float("inf")
        cols[j] = [x / nrm for x in cols[j]]
    R = [[0j] * ncols for _ in range(ncols)]
    Q = []
    for j in range(ncols):
        v = list(cols[j])
        for _pass in range(2):
            for q in range(len(Q)):
                d = sum(Q[q][i].conjugate() * v[i] for i in range(m))
                R[q][j] += d
                v = [v[i] - d * Q[q][i] for i in range(m)]
        nrm = sum(abs(x) ** 2 for x in v) ** 0.5
        if nrm < 1e-13:
            return float("inf")
        R[j][j] = nrm
        Q.append([x / nrm for x in v])
    # invert upper triangular R
    n = ncols
    Ri = [[0j] * n for _ in range(n)]
    for j in range(n):
        Ri[j][j] = 1.0 / R[j][j]
        for i in range(j - 1, -1, -1):
            s = sum(R[i][k] * Ri[k][j] for k in range(i + 1, j + 1))
            Ri[i][j] = -s / R[i][i]
    fr = sum(abs(x) ** 2 for row in R for x in row) ** 0.5
    fi = sum(abs(x) ** 2 for row in Ri for x in row) ** 0.5
    return fr * fi
