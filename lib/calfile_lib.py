"""Shared pieces of the calibration-file checks (C07, C09 cal half): an independent description
of the .vnacal document (layout of the error terms per type, writer, reader over the node tree
dumped by harness/yamltree.c), generators, and the driver of harness/calfile_harness.c.

Nothing here is derived from libvna code at run time: the layout tables below were written from
the format description in vnacal(3) / the comments of vnacal_layout.h and are the *oracle* against
which vnacal_save / vnacal_load are compared."""
import os
import re
import struct
from fractions import Fraction

import vplib

TYPES = ["T8", "U8", "TE10", "UE10", "T16", "U16", "UE14", "E12"]
MAXP = 1000          # VNACAL_MAX_PRECISION (checked against the header by translate/savebuf.py)


def is_t(t):
    return t in ("T8", "TE10", "T16")


def dims_ok(t, r, c):
    return r >= 1 and c >= 1 and (r <= c if is_t(t) else r >= c)


# --------------------------------------------------------------------------- layout (oracle)
def file_matrices(t, mr, mc):
    """[(name, kind, rows, cols, cells)] in the order vnacal_save writes them; kind 'v' (vector of
    `rows` entries), 'm' (rows x cols matrix) or 'd' (matrix whose diagonal holds '~');
    cells = error-term index of every written cell, row major."""
    ports = max(mr, mc)
    out = []
    off = [0]

    def take(n):
        r = list(range(off[0], off[0] + n))
        off[0] += n
        return r
    if t in ("T8", "TE10"):
        for nm, n in (("ts", min(mr, ports)), ("ti", min(mr, ports)), ("tx", min(mc, ports)), ("tm", min(mc, ports))):
            out.append((nm, "v", n, 1, take(n)))
        if t == "TE10":
            out.append(("el", "d", mr, mc, take(mr * mc - min(mr, mc))))
    elif t in ("U8", "UE10"):
        for nm, n in (("um", min(ports, mr)), ("ui", min(ports, mc)), ("ux", min(ports, mr)), ("us", min(ports, mc))):
            out.append((nm, "v", n, 1, take(n)))
        if t == "UE10":
            out.append(("el", "d", mr, mc, take(mr * mc - min(mr, mc))))
    elif t == "T16":
        for nm, r, c in (("ts", mr, ports), ("ti", mr, ports), ("tx", mc, ports), ("tm", mc, ports)):
            out.append((nm, "m", r, c, take(r * c)))
    elif t == "U16":
        for nm, r, c in (("um", ports, mr), ("ui", ports, mc), ("ux", ports, mr), ("us", ports, mc)):
            out.append((nm, "m", r, c, take(r * c)))
    elif t == "UE14":
        um, ui, ux, us = min(ports, mr), 1, min(ports, mr), 1
        ut = um + ui + ux + us
        base = {"um": 0, "ui": um, "ux": um + ui, "us": um + ui + ux}
        for nm, n in (("um", um), ("ui", ui), ("ux", ux), ("us", us)):
            out.append((nm, "m", n, mc, [col * ut + base[nm] + term for term in range(n) for col in range(mc)]))
        off[0] = mc * ut
        out.append(("el", "d", mr, mc, take(mr * mc - min(mr, mc))))
    elif t == "E12":
        et = 3 * mr
        for k, nm in enumerate(("el", "er", "em")):
            out.append((nm, "m", mr, mc, [col * et + k * mr + term for term in range(mr) for col in range(mc)]))
        off[0] = mc * et
    else:
        raise ValueError(t)
    return out


def n_terms(t, mr, mc):
    fm = file_matrices(t, mr, mc)
    return 1 + max([max(m[4]) for m in fm if m[4]] + [-1])


# --------------------------------------------------------------------------- numbers
def hexfmt(x, plus=False):
    """glibc's %a / %+a for a binary64 value."""
    import math
    s = "-" if math.copysign(1.0, x) < 0 else ("+" if plus else "")
    x = abs(x)
    if x == 0.0:
        return s + "0x0p+0"
    h = float.hex(x)             # 0x1.xxxxxxxxxxxxxp+e  or 0x0.xxxxxxxxxxxxxp-1022
    m = re.match(r"0x([01])\.([0-9a-f]{13})p([+-]\d+)$", h)
    lead, frac, ex = m.group(1), m.group(2).rstrip("0"), m.group(3)
    return s + "0x" + lead + ("." + frac if frac else "") + "p" + ex


def fmt_f(x, p):
    return hexfmt(x) if p == MAXP else "%.*e" % (p - 1, x)


def fmt_c(z, p):
    if p == MAXP:
        return "%s %sj" % (hexfmt(z.real, True), hexfmt(z.imag, True))
    return "%+.*e %+.*ej" % (p - 1, z.real, p - 1, z.imag)


def parse_real(text):
    text = text.strip()
    try:
        if re.match(r"[+-]?0[xX]", text):
            return float.fromhex(text)
        return float(text)
    except ValueError:
        return None


def parse_cx(text):
    """The 'a bj' spelling written by vnacal_save (and by our writer)."""
    m = re.match(r"^\s*(\S+)\s+(\S+)[jJiI]\s*$", text)
    if not m:
        a = parse_real(text)
        return None if a is None else complex(a, 0.0)
    a, b = parse_real(m.group(1)), parse_real(m.group(2))
    if a is None or b is None:
        return None
    return complex(a, b)


def within(y, x, p):
    """|y - x| <= 10^(1-p) |x| exactly (x, y floats)."""
    if x == y:
        return True
    import math
    if math.isinf(x) or math.isnan(x) or math.isinf(y) or math.isnan(y):
        return False
    fx, fy = Fraction(x), Fraction(y)
    return abs(fy - fx) * Fraction(10) ** (p - 1) <= abs(fx)


def same_bits(a, b):
    """Same binary64 BIT PATTERN: the sign of a zero and of an infinity count; two NaNs are the same whatever
    their sign and payload (the property is about values the C code can tell apart by ==, signbit, isnan).
    (Until fix DJ92 vnacal_load's parse_complex computed 'value1 + value2 * I', which turned a real part -0 into
    +0 and made the real part NaN for an infinite imaginary part; this function then ignored the sign of zero.)"""
    if a != a or b != b:
        return a != a and b != b
    return struct.pack("<d", a) == struct.pack("<d", b)


# --------------------------------------------------------------------------- YAML text (writer)
def yq(s):
    """A YAML double-quoted scalar for an arbitrary python str (no NUL)."""
    out = ['"']
    for ch in s:
        o = ord(ch)
        if ch == '"':
            out.append('\\"')
        elif ch == "\\":
            out.append("\\\\")
        elif ch == "\n":
            out.append("\\n")
        elif ch == "\t":
            out.append("\\t")
        elif o < 0x20 or o == 0x7f:
            out.append("\\x%02x" % o)
        elif o < 0x7f:
            out.append(ch)
        elif o <= 0xffff:
            out.append("\\u%04x" % o)
        else:
            out.append("\\U%08x" % o)
    out.append('"')
    return "".join(out)


def _idchar1(ch):
    return ch.isascii() and (ch.isalpha() or ch == "_") or not ch.isascii()


def _idchar(ch):
    return (ch.isascii() and (ch.isalnum() or ch in " _-")) or not ch.isascii()


def quote_key(key):
    """The spelling of a map key inside a property expression / a saved YAML key (vnaproperty(3)):
    characters that cannot be part of an identifier there, every backslash and trailing spaces are
    escaped with a backslash.  Written from the documented syntax, independent of the library."""
    n = len(key)
    trail = n
    while trail > 1 and key[trail - 1] == " ":
        trail -= 1
    out = []
    for i, ch in enumerate(key):
        special = ch == "\\" or (not _idchar1(ch) if i == 0 else not _idchar(ch)) or (i >= trail and i >= 1)
        out.append("\\" + ch if special else ch)
    return "".join(out)


def unquote_key(text):
    out = []
    i = 0
    while i < len(text):
        if text[i] == "\\" and i + 1 < len(text):
            out.append(text[i + 1])
            i += 2
        else:
            out.append(text[i])
            i += 1
    return "".join(out)


def prop_yaml(v, ind):
    """Property tree (None | str | dict | list) as block YAML lines following 'key:'."""
    pad = " " * ind
    if v is None:
        return " ~\n"
    if isinstance(v, str):
        return " " + yq(v) + "\n"
    if isinstance(v, dict):
        if not v:
            return " {}\n"
        s = "\n"
        for k, x in v.items():
            s += pad + yq(quote_key(k)) + ":" + prop_yaml(x, ind + 2)
        return s
    if isinstance(v, list):
        if not v:
            return " []\n"
        s = "\n"
        for x in v:
            s += pad + "-" + prop_yaml(x, ind + 2)
        return s
    raise TypeError(v)


def num17(x, style):
    if style == "hex":
        return hexfmt(x, True)
    return "%+.17e" % x


def cx_text(z, style):
    return "%s %sj" % (num17(z.real, style), num17(z.imag, style))


def write_vnacal(cals, gprops, style="hex", version="1.0", head=None, omit_gprops=False):
    """Independent writer.  cals: list of dicts {name,type,rows,cols,F,z0,fvec,terms,props}.
    version '1.0' (or '3.x' with the legacy head line), '2.0' = legacy E12 'e' triples."""
    if head is None:
        head = {"1.0": "#VNACal 1.0", "3.0": "#VNACAL 3.0", "2.0": "#VNACAL 2.0"}[version]
    o = [head + "\n", "%YAML 1.1\n", "---\n"]
    if not omit_gprops:
        o.append("properties:" + prop_yaml(gprops, 2))
    key = "sets" if version == "2.0" else "calibrations"
    if not cals:
        o.append(key + ": []\n")
    else:
        o.append(key + ":\n")
    for c in cals:
        o.append("- name: %s\n" % yq(c["name"]))
        if version != "2.0":
            o.append("  type: %s\n" % c["type"])
        o.append("  rows: %d\n  columns: %d\n  frequencies: %d\n" % (c["rows"], c["cols"], c["F"]))
        if c.get("z0") is not None:
            o.append("  z0: %s\n" % cx_text(c["z0"], style))
        if c.get("props", "absent") != "absent":
            o.append("  properties:" + prop_yaml(c["props"], 4))
        if c["F"] == 0:
            o.append("  data: []\n")
            continue
        o.append("  data:\n")
        fm = file_matrices(c["type"], c["rows"], c["cols"])
        for fi in range(c["F"]):
            o.append("  - f: %s\n" % (hexfmt(c["fvec"][fi]) if style == "hex" else "%.17e" % c["fvec"][fi]))
            if version == "2.0":
                mr, mc = c["rows"], c["cols"]
                et = 3 * mr
                o.append("    e:\n")
                for r in range(mr):
                    o.append("    -\n")
                    for col in range(mc):
                        trip = [c["terms"][col * et + k * mr + r][fi] for k in range(3)]
                        o.append("      - [%s]\n" % ", ".join(cx_text(z, style) for z in trip))
                continue
            for nm, kind, r, cc, cells in fm:
                vals = [cx_text(c["terms"][t][fi], style) for t in cells]
                if kind == "v":
                    o.append("    %s: [%s]\n" % (nm, ", ".join(vals)))
                else:
                    o.append("    %s:\n" % nm)
                    k = 0
                    for i in range(r):
                        row = []
                        for j in range(cc):
                            if kind == "d" and i == j:
                                row.append("~")
                            else:
                                row.append(vals[k])
                                k += 1
                        o.append("    - [%s]\n" % ", ".join(row))
                    if r == 0:
                        o[-1] = "    %s: []\n" % nm
    return "".join(o)


# --------------------------------------------------------------------------- node tree (reader)
class Node(object):
    __slots__ = ("kind", "text", "style", "items", "pairs")

    def __init__(self, kind, text=None, style=None, items=None, pairs=None):
        self.kind, self.text, self.style, self.items, self.pairs = kind, text, style, items, pairs

    def get(self, key):
        for k, v in self.pairs:
            if k.kind == "S" and k.text == key:
                return v
        return None


def unhex(h):
    return b"" if h in ("-", "") else bytes.fromhex(h)


def parse_tree_dump(text):
    """yamltree output for several files -> {path: {'first':bytes|None,'error':(line,msg)|None,'root':Node|None,'flags':set}}"""
    res = {}
    cur = None
    lines = text.split("\n")
    i = 0
    n = len(lines)
    while i < n:
        ln = lines[i]
        i += 1
        if ln.startswith("FILE "):
            cur = {"first": None, "error": None, "root": None, "flags": set(), "empty": False}
            res[ln[5:]] = cur
            continue
        if cur is None or not ln:
            continue
        if ln.startswith("FIRST "):
            cur["first"] = None if ln[6:] == "EOF" else unhex(ln[6:])
            if ln[6:] == "EOF":
                cur["flags"].add("nofirst")
        elif ln.startswith("ERROR "):
            p = ln.split(" ")
            cur["error"] = (int(p[1]), unhex(p[2]).decode("utf-8", "replace"))
        elif ln == "EMPTY":
            cur["empty"] = True
        elif ln == "END":
            cur = None
        else:
            # a tree starts here: consume it iteratively
            i -= 1
            root, i = _read_node(lines, i, cur["flags"])
            cur["root"] = root
    return res


def _read_node(lines, i, flags):
    """Iterative preorder reader (deep documents must not overflow the python stack)."""
    root_holder = []
    stack = []          # frames: [node, remaining children, pending key]

    def attach(nd):
        if not stack:
            root_holder.append(nd)
            return
        fr = stack[-1]
        if fr[0].kind == "Q":
            fr[0].items.append(nd)
        else:
            if fr[2] is None:
                fr[2] = nd
                fr[1] -= 1
                return
            fr[0].pairs.append((fr[2], nd))
            fr[2] = None
        fr[1] -= 1
    while True:
        ln = lines[i]
        i += 1
        if ln == "END":
            # truncated tree (TOOBIG): close everything
            i -= 1
            break
        c = ln[0]
        if c == "S":
            p = ln.split(" ")
            nd = Node("S", text=unhex(p[2]).decode("utf-8", "surrogateescape"), style=p[1])
            attach(nd)
        elif c == "Q":
            nd = Node("Q", items=[])
            attach(nd)
            stack.append([nd, int(ln.split(" ")[1]), None])
        elif c == "M":
            nd = Node("M", pairs=[])
            attach(nd)
            stack.append([nd, 2 * int(ln.split(" ")[1]), None])
        elif ln == "CYCLE":
            flags.add("cycle")
            attach(Node("C"))
        elif ln == "TOOBIG":
            flags.add("toobig")
            break
        while stack and stack[-1][1] == 0:
            stack.pop()
        if not stack:
            break
    return (root_holder[0] if root_holder else None), i


def prop_of_node(nd, keytexts=None):
    """What the property importer makes of a YAML node (for files written by vnacal_save): map keys
    are written in their quoted spelling.  keytexts (a list) collects (raw key text, key) pairs."""
    if nd.kind == "S":
        if nd.style == "p" and nd.text in ("~", "null", "Null", "NULL"):
            return None
        return nd.text
    if nd.kind == "Q":
        return [prop_of_node(x, keytexts) for x in nd.items]
    if nd.kind == "M":
        d = {}
        for k, v in nd.pairs:
            key = unquote_key(k.text)
            if keytexts is not None:
                keytexts.append((k.text, key))
            d[key] = prop_of_node(v, keytexts)
        return d
    return None


def read_saved_doc(root, problems):
    """Independent reader of a document written by vnacal_save: returns (gprops, [cal]) with the
    *texts* of all numbers kept (cal['z0_text'], cal['f_text'][i], cal['term_text'][t][i])."""
    cals = []
    if root is None or root.kind != "M":
        problems.append("top level is not a mapping")
        return None, cals
    keys = [k.text for k, v in root.pairs]
    if sorted(keys) != ["calibrations", "properties"]:
        problems.append("top-level keys %r" % keys)
    gp = root.get("properties")
    keytexts = []
    gprops = prop_of_node(gp, keytexts) if gp is not None else None
    cs = root.get("calibrations")
    if cs is None or cs.kind != "Q":
        problems.append("calibrations is not a sequence")
        return gprops, cals
    for ci, cn in enumerate(cs.items):
        if cn.kind != "M":
            problems.append("calibration %d is not a mapping" % ci)
            continue
        ks = sorted(k.text for k, v in cn.pairs)
        if ks != sorted(["name", "type", "rows", "columns", "frequencies", "z0", "properties", "data"]):
            problems.append("calibration %d keys %r" % (ci, ks))
            continue
        c = {"name": cn.get("name").text, "type": cn.get("type").text}
        try:
            c["rows"], c["cols"], c["F"] = (int(cn.get(k).text) for k in ("rows", "columns", "frequencies"))
        except ValueError:
            problems.append("calibration %d: bad integer" % ci)
            continue
        c["z0_text"] = cn.get("z0").text
        c["props"] = prop_of_node(cn.get("properties"), keytexts)
        data = cn.get("data")
        if data.kind != "Q" or len(data.items) != c["F"]:
            problems.append("calibration %d: data has %s entries, frequencies %d" % (ci, len(data.items) if data.kind == "Q" else "?", c["F"]))
            continue
        if c["type"] not in TYPES or not dims_ok(c["type"], c["rows"], c["cols"]):
            problems.append("calibration %d: type/dimensions %s %dx%d" % (ci, c["type"], c["rows"], c["cols"]))
            continue
        fm = file_matrices(c["type"], c["rows"], c["cols"])
        nt = n_terms(c["type"], c["rows"], c["cols"])
        c["f_text"] = []
        c["term_text"] = [[None] * c["F"] for _ in range(nt)]
        ok = True
        for fi, it in enumerate(data.items):
            if it.kind != "M":
                problems.append("calibration %d entry %d not a mapping" % (ci, fi))
                ok = False
                break
            want = ["f"] + [m[0] for m in fm]
            have = [k.text for k, v in it.pairs]
            # the order of the keys is not part of the property (the loader looks them up by name); the
            # order vnacal_save emits is compared by the saver-model tie (checks/c07_savetie.py)
            if sorted(have) != sorted(want):
                problems.append("calibration %d entry %d keys %r, expected %r" % (ci, fi, have, want))
                ok = False
                break
            c["f_text"].append(it.get("f").text)
            for nm, kind, r, cc, cells in fm:
                mn = it.get(nm)
                texts = []
                if mn.kind != "Q":
                    problems.append("calibration %d entry %d %s not a sequence" % (ci, fi, nm))
                    ok = False
                    break
                if kind == "v":
                    if len(mn.items) != r or any(x.kind != "S" for x in mn.items):
                        problems.append("calibration %d entry %d %s: vector shape" % (ci, fi, nm))
                        ok = False
                        break
                    texts = [x.text for x in mn.items]
                else:
                    if len(mn.items) != r or any(x.kind != "Q" or len(x.items) != cc for x in mn.items):
                        problems.append("calibration %d entry %d %s: matrix shape" % (ci, fi, nm))
                        ok = False
                        break
                    for i2, rown in enumerate(mn.items):
                        for j2, x in enumerate(rown.items):
                            if x.kind != "S":
                                problems.append("calibration %d entry %d %s: non-scalar cell" % (ci, fi, nm))
                                ok = False
                                break
                            if kind == "d" and i2 == j2:
                                if x.text != "~":
                                    problems.append("calibration %d entry %d %s: diagonal %r" % (ci, fi, nm, x.text))
                                    ok = False
                            else:
                                texts.append(x.text)
                if not ok:
                    break
                if len(texts) != len(cells):
                    problems.append("calibration %d entry %d %s: %d cells, expected %d" % (ci, fi, nm, len(texts), len(cells)))
                    ok = False
                    break
                for t, tx in zip(cells, texts):
                    c["term_text"][t][fi] = tx
            if not ok:
                break
        if ok:
            cals.append(c)
    for text, key in keytexts:
        if text != quote_key(key):
            problems.append("property key %r is written as %r, expected the quoted spelling %r" % (key, text, quote_key(key)))
            break
    return gprops, cals


# --------------------------------------------------------------------------- harness dump parser
def parse_prop_lines(lines, i):
    ln = lines[i]
    if ln == "N":
        return None, i + 1
    if ln.startswith("V "):
        return unhex(ln[2:]).decode("utf-8", "surrogateescape"), i + 1
    if ln.startswith("M "):
        n = int(ln[2:])
        d = {}
        i += 1
        for _ in range(n):
            k = unhex(lines[i][2:]).decode("utf-8", "surrogateescape")
            v, i = parse_prop_lines(lines, i + 1)
            d[k] = v
        return d, i
    if ln.startswith("L "):
        n = int(ln[2:])
        out = []
        i += 1
        for _ in range(n):
            v, i = parse_prop_lines(lines, i)
            out.append(v)
        return out, i
    raise ValueError("bad property line %r" % ln)


def parse_dump(lines, i):
    """Parse a 'dump' answer starting at lines[i]; returns (state, next index).
    state = None (NOVCP) or {'end':n,'slots':[cal|None],'gprops':...}."""
    if lines[i] == "NOVCP":
        return None, i + 2
    st = {"end": int(lines[i].split("=")[1]), "slots": [], "gprops": None}
    i += 1
    while True:
        ln = lines[i]
        if ln.startswith("HOLE"):
            st["slots"].append(None)
            i += 1
        elif ln.startswith("CAL "):
            m = re.match(r"CAL (\d+) name=(\S+) type=(\S+) rows=(-?\d+) cols=(-?\d+) F=(-?\d+) z0=(\S+),(\S+) terms=(\d+)", ln)
            c = {"name": unhex(m.group(2)).decode("utf-8", "surrogateescape"), "type": m.group(3),
                 "rows": int(m.group(4)), "cols": int(m.group(5)), "F": int(m.group(6)),
                 "z0": complex(float.fromhex(m.group(7)), float.fromhex(m.group(8))), "nterms": int(m.group(9))}
            i += 1
            c["fvec"] = [float.fromhex(x) for x in lines[i].split()[1:]]
            i += 1
            c["terms"] = []
            while lines[i].startswith("T "):
                p = lines[i].split()
                c["terms"].append([complex(float.fromhex(a), float.fromhex(b)) for a, b in (x.split(",") for x in p[2:])])
                i += 1
            assert lines[i] == "PROP", lines[i]
            c["props"], i = parse_prop_lines(lines, i + 1)
            assert lines[i] == "ENDCAL", lines[i]
            i += 1
            st["slots"].append(c)
        elif ln == "GPROP":
            st["gprops"], i = parse_prop_lines(lines, i + 1)
            assert lines[i] == "ENDDUMP", lines[i]
            return st, i + 1
        else:
            raise ValueError("bad dump line %r" % ln)


# --------------------------------------------------------------------------- harness driver
class CaseRun(object):
    """Result of one 'case' of a script: the answer lines, or a crash report."""
    def __init__(self):
        self.lines = []
        self.crash = None       # (rc, stderr, sanitizer signature)
        self.leak_err = None    # stderr text of a recoverable leak report


def crashed_op(script_text, case, answered):
    """The operation of `case` that did not answer, with the precisions set before it."""
    ops = []
    incase = False
    for ln in script_text.split("\n"):
        if ln.startswith("case "):
            incase = int(ln[5:]) == case
        elif incase and ln:
            ops.append(ln)
    k = 0
    i = 0
    while i < len(answered) and k < len(ops):
        if ops[k].split()[0] in ("dump", "import", "importf"):
            while i < len(answered) and answered[i] != "ENDDUMP":
                i += 1
        i += 1
        k += 1
    if k >= len(ops):
        return "end of case"
    fp = dp = "default"
    for o in ops[:k]:
        t = o.split()
        if t[0] == "setfp":
            fp = t[2]
        elif t[0] == "setdp":
            dp = t[2]
    op = ops[k].split()[0]
    return "%s fprecision=%s dprecision=%s" % (op, fp, dp) if op == "save" else op


def run_script(ctx, exe, script_text, ncases, timeout=600, leak=True):
    """Run a script of `ncases` cases; after a sanitizer abort / crash resume behind the dead case.
    Returns {case number: CaseRun}."""
    path = os.path.join(ctx.tmp, "script_%d.txt" % (len(os.listdir(ctx.tmp))))
    with open(path, "w") as f:
        f.write(script_text)
    res = {}
    start = 0
    guard = 0
    while start < ncases and guard < ncases + 2:
        guard += 1
        rc, out, err = vplib.sh([exe, path, str(start)], timeout=timeout, env=ctx.run_env(leak=leak))
        cur = None
        last = None
        done = False
        thisrun = []
        for ln in out.split("\n"):
            if ln.startswith("CASE "):
                last = int(ln[5:])
                cur = res.setdefault(last, CaseRun())
                cur.lines = []
                thisrun.append(cur)
            elif ln == "DONE":
                done = True
            elif cur is not None and ln:
                cur.lines.append(ln)
        for cr in thisrun:
            if any(l == "leak 1" for l in cr.lines):
                cr.leak_err = err
        if done:
            # normal end; rc != 0 = LeakSanitizer found leaks (at exit and/or in a per-case check)
            if rc != 0 and last is not None and not any(c.leak_err for c in thisrun):
                res[last].leak_err = err
            break
        # sanitizer abort, crash or timeout inside case `last` (the exit code is not reliable:
        # LSAN_OPTIONS=exitcode overrides the common flag)
        if last is None:
            last = start
            res.setdefault(last, CaseRun())
        sig = vplib.asan_signature(err) or {"kind": "fault", "error": "timeout" if rc == 124 else "exit %d" % rc, "function": None}
        if sig.get("function") is None:
            # no libvna frame in the report (e.g. the stack was destroyed): name the script operation
            sig["during"] = crashed_op(script_text, last, res[last].lines)
        res[last].crash = (rc, err, sig)
        start = last + 1
    return res


def leak_sig(err):
    """Signature of a LeakSanitizer report.  libyaml has no frame pointers, so the fast unwinder
    loses the libvna frame of leaks allocated inside libyaml: name the allocating libyaml entry."""
    err = err or ""
    i = err.find("ERROR: LeakSanitizer")
    part = err[i:] if i >= 0 else ""
    j = part.find("SUMMARY:")
    if j >= 0:
        part = part[:j]
    func = None
    for m in re.finditer(r"#\d+ 0x[0-9a-f]+ in (\S+) (\S+)", part):
        if "/src/vna" in m.group(2) or "/src/archdep" in m.group(2) or m.group(1).startswith("yaml_"):
            func = m.group(1)
            break
    return {"kind": "fault", "error": "leak", "function": func}
