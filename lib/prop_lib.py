"""Generators, runners and shrinking for the property-tree checks (C13, C14).

A script is a list of ops; an op is a tuple (name, bytes...) e.g. ("set", b"a.b=x").
Both the C harness (harness/prop_harness.c) and the extracted model (ocaml/drv_prop.ml) read
the textual form (strings hex-encoded) and print one outcome line per op; `reset` separates
scripts in one process."""
import os
import vplib


def hx(b):
    return b.hex() if b else "-"


def op_text(op):
    return " ".join([op[0]] + [hx(a) for a in op[1:]])


def script_text(script):
    return "".join(op_text(o) + "\n" for o in script)


def op_show(op):
    return op[0] + "".join(" " + repr(a.decode("utf-8", "backslashreplace")) for a in op[1:])


# ---------------------------------------------------------------------------- running
def run_batch(cmd, scripts, env=None, timeout=600):
    """Run all scripts in one process.  Returns (rc, per-script list of outcome lines, stderr).
    When the process dies the lists of the unfinished scripts are short."""
    text = "".join(script_text(s) + "reset\n" for s in scripts)
    rc, out, err = vplib.sh(cmd, input=text, timeout=timeout, env=env)
    res, cur = [], []
    for line in out.splitlines():
        if line == "RESET":
            res.append(cur)
            cur = []
        else:
            cur.append(line)
    if cur or len(res) < len(scripts):
        res.append(cur)
    while len(res) < len(scripts):
        res.append([])
    return rc, res, err


def run_batch_parallel(cmd, scripts, env=None, timeout=600, nproc=4):
    """run_batch over nproc processes (contiguous chunks).  Returns (worst rc, per-script lines,
    stderr of the first failing chunk)."""
    from concurrent.futures import ThreadPoolExecutor
    if len(scripts) < 2 * nproc:
        return run_batch(cmd, scripts, env=env, timeout=timeout)
    size = (len(scripts) + nproc - 1) // nproc
    chunks = [scripts[i:i + size] for i in range(0, len(scripts), size)]
    with ThreadPoolExecutor(max_workers=nproc) as ex:
        outs = list(ex.map(lambda c: run_batch(cmd, c, env=env, timeout=timeout), chunks))
    rc, res, err = 0, [], ""
    for r, lines, e in outs:
        if r != 0 and rc == 0:
            rc, err = r, e
        res += lines
    return rc, res, err


def compare_results(scripts, cres, mres, nfields=5):
    """First differing / missing line per script: list of Diff (stderr left empty)."""
    out = []
    for s, c, m in zip(scripts, cres, mres):
        for i in range(len(s)):
            if i >= len(c):
                out.append(Diff(s, i, None, m[i] if i < len(m) else None, "", 1))
                break
            if i < len(m) and norm_line(c[i], nfields) != norm_line(m[i], nfields):
                out.append(Diff(s, i, c[i], m[i], "", 0))
                break
    return out


def norm_line(line, nfields=5):
    """The compared part of an outcome line: ret errno payload digest-root digest-aux.
    nfields may also be a function line -> comparable string."""
    if callable(nfields):
        return nfields(line)
    return " ".join(line.split(" ")[:nfields])


def norm_enomem_as_einval(line):
    """For the INT_MAX-index probe: an allocation failure (ENOMEM) and a range error (EINVAL) are
    both acceptable ways of refusing a list that cannot exist."""
    f = line.split(" ")[:5]
    if len(f) > 1 and f[1] == "E12":
        f[1] = "EINVAL"
    return " ".join(f)


class Diff(object):
    def __init__(self, script, index, c_line, m_line, stderr="", rc=0):
        self.script, self.index, self.c_line, self.m_line, self.stderr, self.rc = \
            script, index, c_line, m_line, stderr, rc

    def crashed(self):
        return self.c_line is None


def compare_one(c_cmd, m_cmd, script, env, nfields=5):
    """Run one script on both sides; Diff or None."""
    rc, cres, err = run_batch(c_cmd, [script], env=env, timeout=120)
    _, mres, merr = run_batch(m_cmd, [script], timeout=120)
    c, m = cres[0], mres[0]
    if len(m) < len(script):
        raise RuntimeError("model driver failed: " + merr[-500:])
    for i in range(len(script)):
        if i >= len(c):
            return Diff(script, i, None, m[i], err, rc)
        if norm_line(c[i], nfields) != norm_line(m[i], nfields):
            return Diff(script, i, c[i], m[i], err, rc)
    if rc != 0:
        return Diff(script, len(script) - 1, None, None, err, rc)     # e.g. leak report at exit
    return None


def same_failure(d0, d):
    if d is None:
        return False
    if d0.crashed() != d.crashed():
        return False
    if d0.crashed():
        return vplib.asan_signature(d.stderr) == vplib.asan_signature(d0.stderr) and (d.rc != 0) == (d0.rc != 0)
    return d.script[d.index][0] == d0.script[d0.index][0]


def shrink(c_cmd, m_cmd, d0, env, nfields=5, budget=150):
    """Delta-debug the failing script: drop ops, then shorten the strings."""
    best = d0
    script = list(d0.script[:d0.index + 1])
    runs = [0]

    def test(s):
        if runs[0] >= budget or not s:
            return None
        runs[0] += 1
        d = compare_one(c_cmd, m_cmd, s, env, nfields)
        return d if same_failure(d0, d) else None
    d = test(script)
    if d is not None:
        best = d
    n = 2
    while len(script) >= 2 and runs[0] < budget:
        chunk = max(1, len(script) // n)
        reduced = False
        for start in range(0, len(script), chunk):
            cand = script[:start] + script[start + chunk:]
            d = test(cand)
            if d is not None:
                script, best, reduced = cand, d, True
                n = max(n - 1, 2)
                break
        if not reduced:
            if chunk == 1:
                break
            n = min(len(script), n * 2)
    return best


def find_failures(c_cmd, m_cmd, scripts, env, nfields=5, max_found=6, timeout=900):
    """Compare all scripts (batched).  Returns (number of scripts compared, list of Diff)."""
    found = []
    done = 0
    pos = 0
    _, mres, merr = run_batch(m_cmd, scripts, timeout=timeout)
    if any(len(mres[i]) < len(scripts[i]) for i in range(len(scripts))):
        raise RuntimeError("model driver failed: " + merr[-500:])
    while pos < len(scripts) and len(found) < max_found:
        rc, cres, err = run_batch(c_cmd, scripts[pos:], env=env, timeout=timeout)
        advanced = None
        for j, s in enumerate(scripts[pos:]):
            c, m = cres[j], mres[pos + j]
            bad = None
            for i in range(len(s)):
                if i >= len(c):
                    bad = Diff(s, i, None, m[i], err, rc)
                    break
                if norm_line(c[i], nfields) != norm_line(m[i], nfields):
                    bad = Diff(s, i, c[i], m[i], "", 0)
                    break
            if bad is not None:
                found.append(bad)
                if bad.crashed():
                    advanced = pos + j + 1          # the process died here: restart after it
                    break
                if len(found) >= max_found:
                    break
            done = pos + j + 1
        if advanced is None:
            if rc != 0 and not any(f.crashed() for f in found):
                # died / reported at exit without a short script: leak report or similar
                found.append(Diff(scripts[-1], len(scripts[-1]) - 1, None, None, err, rc))
            break
        pos = advanced
    return done, found


# ---------------------------------------------------------------------------- descriptors
def py_quote_key(k):
    """Independent re-statement of vnaproperty_quote_key (used only to *generate* descriptors)."""
    def alpha(c):
        return 65 <= c <= 90 or 97 <= c <= 122
    out = bytearray()
    n = len(k)
    ts = 0
    i = n
    while i > 1 and k[i - 1] == 32:
        i -= 1
        ts += 1
    for i, c in enumerate(k):
        id1 = alpha(c) or c >= 128 or c == 95
        idc = id1 or 48 <= c <= 57 or c == 32 or c == 45
        sp = (not id1) if i == 0 else (not idc)
        if sp or c == 92 or i >= n - ts:
            out.append(92)
        out.append(c)
    return bytes(out)


PLAIN_KEYS = [b"a", b"b", b"k c", b"x-1", b"_u", "é".encode(), b"Zz9"]
HOSTILE_KEYS = [b"a.b", b"sp ", b" lead", b"[0]", b"{}", b"a=b", b"#", b"\\", b"a\\.b", b"1st", b"-m",
                b"tab\tx", b"nl\nx", b"two  ", "中文".encode(), b"q\"uote'", b"+", b"~", b"null",
                b"a b  c", b"x\\", b" ", b"  ", b"\x01", b"\x7f"]
VALUES = [b"x", b"", b" v ", b"a=b", b"#h", b"l1\nl2", "é中".encode(), b"~", b"null", b"0x1",
          b"v.w[0]{}", b"=", b"\\", b"two\n\nlines\n"]
SUBSCRIPTS = [b"[0]", b"[1]", b"[2]", b"[3]", b"[7]", b"[8]", b"[9]", b"[0+]", b"[1+]", b"[2+]", b"[+]",
              b"[ 1 ]", b"[1 +]", b"[ + ]", b"[16]"]
MALFORMED = [b"", b"[", b"[x]", b"a..b", b"{", b"{}x", b"a[", b"a]", b"=x", b"#", b"a{}b", b"[1+", b"[+1]",
             b"[-1]", b"[99999999999999999999]", b"[4294967296]", b"[4294967297]", b"[2147483648]",
             b"\\", b"a\\", b"$", b"a$b", b"a,b", b"1a", b"a.{", b"a.[", b"..", b"a.b.", b"{}{}", b"[][]",
             b"[].", b"{}.", b"a{}.", b"a[].", b"a.[1]", b".[0]", b".{}", b". a", b"a . b", b"a\n.b",
             b"a\\", b"[1]]", b"a b", b" a ", b"a  =", b"[+][+]", b"[0+][0+]", b"a\\ \\ ", b"\\.\\.a  "]


def gen_parts(rng, keys, maxlen=4):
    """Path components: ("k", quoted key) or ("s", subscript)."""
    parts = []
    for i in range(rng.randint(1, maxlen)):
        if rng.random() < 0.6:
            k = rng.choice(keys)
            q = k if (k in PLAIN_KEYS and rng.random() < 0.9) else py_quote_key(k)
            parts.append(("k", q))
        else:
            parts.append(("s", rng.choice(SUBSCRIPTS)))
    return parts


def join_parts(rng, parts):
    out = bytearray()
    if rng.random() < 0.15:
        out += b"."
        if rng.random() < 0.2:
            return bytes(out)
    prev = None
    for kind, b in parts:
        if kind == "k":
            if prev is not None:
                out += b"."
            if rng.random() < 0.05:
                out += b" "
            out += b
            if rng.random() < 0.05:
                out += b" "
        else:
            if prev is not None and rng.random() < 0.1:
                out += b"."
            out += b
        prev = kind
    r = rng.random()
    if r < 0.08:
        out += b"."
    elif r < 0.14:
        out += b"{}"
    elif r < 0.20:
        out += b"[]"
    return bytes(out)


def gen_descriptor(rng, keys, maxlen=4, used=None, reuse=0.0):
    """A descriptor from the documented grammar.  With probability [reuse] a prefix of a path
    used by an earlier set (insert/append subscripts turned into plain ones)."""
    if used and rng.random() < reuse:
        parts = list(rng.choice(used))
        parts = parts[:rng.randint(1, len(parts))]
        fixed = []
        for kind, b in parts:
            if kind == "s" and b"+" in b:
                digits = bytes(c for c in b if 48 <= c <= 57)
                b = b"[" + (digits or b"0") + b"]"
            fixed.append((kind, b))
        if rng.random() < 0.15:
            fixed += gen_parts(rng, keys, 1)
        return join_parts(rng, fixed)
    parts = gen_parts(rng, keys, maxlen)
    if used is not None:
        used.append(parts)
    return join_parts(rng, parts)


def gen_any_descriptor(rng, keys, used=None, reuse=0.0):
    r = rng.random()
    if r < 0.08:
        return rng.choice(MALFORMED)
    if r < 0.12:
        # random bytes from a punctuation-rich alphabet
        alpha = b"ab.[]{}+=#\\ 019-_\t$"
        return bytes(rng.choice(alpha) for _ in range(rng.randint(1, 8)))
    return gen_descriptor(rng, keys, 4, used, reuse)


def gen_set_arg(rng, keys, used=None):
    d = gen_any_descriptor(rng, keys, used, 0.25)
    r = rng.random()
    if r < 0.72:
        return d + b"=" + rng.choice(VALUES)
    if r < 0.86:
        return d + b"#" + (b"" if rng.random() < 0.7 else b" trailing")
    if r < 0.93:
        return d
    return d + rng.choice([b" x", b"]", b"}", b"+", b"$"])


def gen_query_arg(rng, keys, used=None):
    d = gen_any_descriptor(rng, keys, None if used is None else list(used), 0.7)
    if rng.random() < 0.06:
        d += rng.choice([b"=", b"=x", b"#", b" $", b"]", b"+"])
    return d


COPY_POSITIONS = ("src-inside-dst", "dst-inside-src", "equal", "disjoint", "missing-src", "created-dst")


def _plain_parts(parts):
    """insert / append subscripts turned into plain ones (they are errors in a look-up)"""
    fixed = []
    for kind, b in parts:
        if kind == "s" and b"+" in b:
            digits = bytes(c for c in b if 48 <= c <= 57)
            b = b"[" + (digits or b"0") + b"]"
        fixed.append((kind, b))
    return fixed


def gen_copywithin(rng, keys, used, stats=None, position=None):
    """An aliased copy  p = set_subtree(&root, dst); s = get_subtree(root, src); vnaproperty_copy(p, s)
    with a chosen relative position of source and destination (COPY_POSITIONS); paths are taken from
    the paths set earlier in the script when possible, so that the source usually exists."""
    pos = position or rng.choice(COPY_POSITIONS)
    long_used = [u for u in (used or []) if len(u) >= 2]
    if long_used and rng.random() < 0.8:
        u = _plain_parts(rng.choice(long_used))
        k = rng.randint(1, len(u) - 1)
        outer, inner = u[:k], u[:rng.randint(k + 1, len(u))]
    else:
        outer = _plain_parts(gen_parts(rng, keys, 2))
        inner = outer + _plain_parts(gen_parts(rng, keys, 2))
    if pos == "src-inside-dst":
        dst, src = outer, inner
    elif pos == "dst-inside-src":
        dst, src = inner, outer
    elif pos == "equal":
        dst = src = rng.choice([outer, inner])
    elif pos == "disjoint":
        dst = inner
        other = [u for u in (used or []) if _plain_parts(u)[:1] != outer[:1]]
        src = _plain_parts(rng.choice(other)) if other and rng.random() < 0.7 else _plain_parts(gen_parts(rng, keys, 2))
    elif pos == "missing-src":
        dst = rng.choice([outer, inner])
        src = rng.choice([outer, inner]) + [("k", b"nokey%d" % rng.randint(0, 9))]
    else:                                           # the destination path is created by the call
        dst = rng.choice([outer, inner]) + [rng.choice([("s", b"[+]"), ("s", b"[0+]"), ("s", b"[2+]"), ("s", b"[11]"),
                                                        ("k", b"new%d" % rng.randint(0, 9))])]
        src = rng.choice([outer, inner, [], dst[:-1]])
    if stats is not None:
        stats[pos] = stats.get(pos, 0) + 1
    d = join_parts(rng, dst)
    s2 = join_parts(rng, src) if src else b"."
    return ("copywithin", d, s2)


def gen_script(rng, length, keys=None, with_copy=True, stats=None):
    if keys is None:
        nk = rng.randint(2, 5)
        keys = rng.sample(PLAIN_KEYS, min(nk, len(PLAIN_KEYS))) + rng.sample(HOSTILE_KEYS, rng.randint(0, 3))
    ops = []
    used = []
    for _ in range(length):
        r = rng.random()
        if r < 0.42:
            ops.append(("set", gen_set_arg(rng, keys, used)))
        elif r < 0.54:
            ops.append(("del", gen_query_arg(rng, keys, used)))
        elif r < 0.60:
            ops.append(("get", gen_query_arg(rng, keys, used)))
        elif r < 0.65:
            ops.append(("type", gen_query_arg(rng, keys, used)))
        elif r < 0.70:
            ops.append(("count", gen_query_arg(rng, keys, used)))
        elif r < 0.75:
            ops.append(("keys", gen_query_arg(rng, keys, used)))
        elif r < 0.80:
            ops.append(("getsub", gen_query_arg(rng, keys, used)))
        elif r < 0.85:
            ops.append(("setsub", gen_query_arg(rng, keys, used)))
        elif r < 0.89:
            ops.append(("subset", gen_query_arg(rng, keys, used), gen_set_arg(rng, keys, used)))
        elif r < 0.92:
            ops.append(("subdel", gen_query_arg(rng, keys, used), gen_query_arg(rng, keys, used)))
        elif r < 0.94 and with_copy:
            ops.append(("copyout", gen_query_arg(rng, keys, used)))
        elif r < 0.96 and with_copy:
            ops.append(("copyin", gen_query_arg(rng, keys, used)))
        elif r < 0.985 and with_copy:
            if rng.random() < 0.85:
                ops.append(gen_copywithin(rng, keys, used, stats))
            else:                                   # any two descriptors, malformed ones included
                ops.append(("copywithin", gen_query_arg(rng, keys, used), gen_query_arg(rng, keys, used)))
        else:
            ops.append(("quote", rng.choice(keys + HOSTILE_KEYS)))
    return ops


def gen_bigmap_script(rng, nkeys):
    """More than 22 / 66 keys in one map (map_expand several times), deletes, re-adds, look-ups."""
    keys = []
    for i in range(nkeys):
        r = rng.random()
        if r < 0.7:
            keys.append(("k%d" % rng.randint(0, 10 ** 6)).encode())
        elif r < 0.85:
            keys.append(("k.%d x" % i).encode())
        else:
            keys.append(("é%d " % i).encode())
    keys = list(dict.fromkeys(keys))
    pre = rng.choice([b"", b"m.", b"[1]."])
    ops = []
    for k in keys:
        ops.append(("set", pre + py_quote_key(k) + b"=" + k[:3]))
        if rng.random() < 0.1:
            ops.append(("count", pre + b"{}"))
    ops.append(("keys", pre + b"{}"))
    for k in rng.sample(keys, len(keys) // 3):
        ops.append(("del", pre + py_quote_key(k)))
        if rng.random() < 0.3:
            ops.append(("get", pre + py_quote_key(k)))
    ops.append(("keys", pre + b"{}"))
    for k in rng.sample(keys, len(keys) // 2):
        ops.append(("set", pre + py_quote_key(k) + b"=again"))
    ops.append(("keys", pre + b"{}"))
    for k in rng.sample(keys, min(10, len(keys))):
        ops.append(("get", pre + py_quote_key(k)))
    ops.append(("copyout", b"."))
    return ops


def gen_biglist_script(rng, n):
    """Lists across the allocation boundaries 8, 16, 32 with inserts, appends and deletes."""
    ops = []
    pre = rng.choice([b"", b"l", b"a.l"])
    for i in range(n):
        r = rng.random()
        if r < 0.5:
            ops.append(("set", pre + b"[+]=" + str(i).encode()))
        elif r < 0.7:
            ops.append(("set", pre + ("[%d+]=i%d" % (rng.randint(0, i + 1), i)).encode()))
        elif r < 0.8:
            ops.append(("set", pre + ("[%d]=s%d" % (rng.randint(0, i + 3), i)).encode()))
        else:
            ops.append(("del", pre + ("[%d]" % rng.randint(0, i + 1)).encode()))
    ops.append(("count", pre + b"[]"))
    for i in range(n):
        if rng.random() < 0.6:
            ops.append(("del", pre + ("[%d]" % rng.randint(0, max(0, n - i))).encode()))
    ops.append(("copyout", b"."))
    return ops


# ---------------------------------------------------------------------------- CRC-32C and colliding keys
CRC_POLY = 0x1EDC6F41


def crc32c_table():
    """The 256 entries of crc32c_table[] of vnaproperty.c, computed from the polynomial (MSB first)."""
    t = []
    for i in range(256):
        v = i << 24
        for _ in range(8):
            v = ((v << 1) & 0xFFFFFFFF) ^ (CRC_POLY if v & 0x80000000 else 0)
        t.append(v)
    return t


_CRC_T = crc32c_table()


def crc32c(data, value=0xFFFFFFFF):
    """crc32c(-1, data, len) of src/vnaproperty.c: MSB first, no final inversion."""
    for c in data:
        value = ((value << 8) & 0xFFFFFFFF) ^ _CRC_T[(value >> 24) ^ c]
    return value


def parse_c_crc_table(repo):
    """The entries of crc32c_table[] as written in the C source (raises when the table is not found)."""
    import re
    txt = open(repo + "/src/vnaproperty.c").read()
    m = re.search(r"static\s+uint32_t\s+crc32c_table\[\]\s*=\s*\{(.*?)\};", txt, re.S)
    if m is None:
        raise RuntimeError("crc32c_table[] not found in src/vnaproperty.c")
    vals = [int(x, 16) for x in re.findall(r"0x[0-9a-fA-F]+", m.group(1))]
    if len(vals) != 256:
        raise RuntimeError("crc32c_table[] has %d entries" % len(vals))
    return vals


_KEY_ALPHA = b"abcdefghijklmnopqrstuvwxyzABCDEFGHIJKLMNOPQRSTUVWXYZ0123456789_"


def _rand_key(rng, n):
    return bytes([rng.choice(b"abcdefghijklmnopqrstuvwxyz")] + [rng.choice(_KEY_ALPHA) for _ in range(n - 1)])


def colliding_keys(rng, modulus, groups=2, per_group=4, pool=None, residue=None):
    """`groups` lists of `per_group` distinct identifier-like keys whose CRC-32C agree modulo `modulus`
    (so they share a chain in every table whose size divides `modulus`)."""
    by = {}
    out = []
    tries = 0
    while len(out) < groups and tries < 400000:
        tries += 1
        k = _rand_key(rng, rng.randint(2, 6))
        r = crc32c(k) % modulus
        if residue is not None and r != residue:
            continue
        l = by.setdefault(r, [])
        if k not in l:
            l.append(k)
        if len(l) == per_group:
            out.append(list(l))
            by[r] = []
            if residue is not None:
                by.pop(r, None)
    return out


def full_collisions(rng, pairs=2, budget=260000):
    """Pairs of distinct keys with the SAME 32-bit CRC-32C (map_compare_keys then falls back to strcmp):
    birthday search over random 6-character identifiers."""
    seen = {}
    out = []
    for _ in range(budget):
        k = _rand_key(rng, 6)
        h = crc32c(k)
        o = seen.get(h)
        if o is None:
            seen[h] = k
        elif o != k:
            out.append((o, k))
            if len(out) >= pairs:
                break
    return out


def gen_collision_map_script(rng, full_pairs=()):
    """One map whose keys collide in CRC-32C: groups agreeing modulo 8 / 16 / 32 (the sizes of the
    parameter hash) and modulo 11 / 33 / 99 (the sizes the property map really takes: 11, then
    (count + 1) * 3 / 2), optionally pairs with identical 32-bit CRC; ascending, descending and
    shuffled insertion, delete-then-reinsert, look-ups of present and absent colliding keys."""
    keys = []
    for mod, g, n in ((8, 1, 3), (16, 1, 3), (32, 1, 3), (11, 1, 4), (33, 1, 4), (99, 2, 5)):
        for grp in colliding_keys(rng, mod, groups=g, per_group=n):
            keys += grp
    absent = []
    for grp in colliding_keys(rng, 99, groups=1, per_group=3):
        absent += grp
    for a, b in full_pairs:
        keys += [a, b]
    keys = list(dict.fromkeys(keys))
    absent = [k for k in absent if k not in keys]
    order = rng.choice(["asc", "desc", "shuffle"])
    ranked = sorted(keys, key=lambda k: (crc32c(k), k))
    ins = ranked if order == "asc" else ranked[::-1] if order == "desc" else rng.sample(keys, len(keys))
    pre = rng.choice([b"", b"m."])
    ops = []
    for k in ins:
        ops.append(("set", pre + py_quote_key(k) + b"=" + k[:2]))
    ops.append(("keys", pre + b"{}"))
    for k in keys + absent:
        ops.append(("get", pre + py_quote_key(k)))
    dels = rng.sample(keys, len(keys) // 2)
    for k in dels:
        ops.append(("del", pre + py_quote_key(k)))
    for k in absent:
        ops.append(("del", pre + py_quote_key(k)))
    for k in keys:
        ops.append(("get", pre + py_quote_key(k)))
    ops.append(("keys", pre + b"{}"))
    for k in rng.sample(dels, len(dels)):
        ops.append(("set", pre + py_quote_key(k) + b"=re"))
    for k in keys:
        ops.append(("get", pre + py_quote_key(k)))
    ops.append(("keys", pre + b"{}"))
    ops.append(("copyout", b"."))
    return ops


def gen_root_hash_case(rng, full_pairs=(), nkeys=80):
    """Root-level API ops on one map (C side, each followed by the white-box op hdump) and the table
    operations of HashModel.v they perform (model side):
        set  K=v  -> map_subtree(add)     = hset K
        get  K    -> map_subtree(no add)  = hlook K
        del  K    -> map_subtree(no add), then map_delete when found = hlook K [, hdel K]
    After every op the harness prints the digest of the root, which it takes through get_subtree of every
    key: look-ups, which expand the table when count + 1 >= 2 * size; the model side therefore runs one
    hlook of a present key after each op.
    Returns (c_ops, m_ops, marks): marks[i] = (index of the model line carrying the found flag of C op i,
    index of its last model line)."""
    keys = []
    for mod, g, n in ((11, 1, 4), (33, 1, 4), (99, 2, 5), (8, 1, 3), (32, 1, 3)):
        for grp in colliding_keys(rng, mod, groups=g, per_group=n):
            keys += grp
    for a, b in full_pairs:
        keys += [a, b]
    keys += [k for k in HOSTILE_KEYS + PLAIN_KEYS if k]
    while len(set(keys)) < nkeys:
        keys.append(_rand_key(rng, rng.randint(1, 6)))
    keys = list(dict.fromkeys(keys))
    absent = [k for grp in colliding_keys(rng, 99, groups=1, per_group=3) for k in grp if k not in keys]
    order = rng.choice(["asc", "desc", "shuffle"])
    ranked = sorted(keys, key=lambda k: (crc32c(k), k))
    ins = ranked if order == "asc" else ranked[::-1] if order == "desc" else rng.sample(keys, len(keys))
    c_ops, m_ops, marks = [], [], []
    present = []

    def do(kind, k):
        q = py_quote_key(k)
        if kind == "set":
            c_ops.append(("set", q + b"=v"))
            m_ops.append(("hset", k))
            if k not in present:
                present.append(k)
        elif kind == "get":
            c_ops.append(("get", q))
            m_ops.append(("hlook", k))
        else:
            c_ops.append(("del", q))
            m_ops.append(("hlook", k))
            if k in present:
                m_ops.append(("hdel", k))
                present.remove(k)
        fi = len(m_ops) - 1 if kind != "del" or m_ops[-1][0] == "hlook" else len(m_ops) - 2
        if present:
            m_ops.append(("hlook", present[0]))
        marks.append((fi, len(m_ops) - 1))
    for i, k in enumerate(ins):
        do("set", k)
        r = rng.random()
        if r < 0.25:
            do("get", rng.choice(present))
        elif r < 0.35:
            do("get", rng.choice(absent))
        elif r < 0.5 and len(present) > 2:
            d = rng.choice(present)
            do("del", d)
            if rng.random() < 0.6:
                do("set", d)
        elif r < 0.55:
            do("del", rng.choice(absent))
        elif r < 0.65:
            do("set", rng.choice(present))
    for k in keys + absent:
        do("get", k)
    for d in rng.sample(present, len(present) // 2):
        do("del", d)
    for k in keys:
        do("get", k)
    return c_ops, m_ops, marks


def run_hash_tie(c_cmd, m_cmd, cases, env):
    """Runs the cases of gen_root_hash_case; returns (steps compared, first disagreement or None) where a
    disagreement is (case index, C op index, what, C line, model line, stderr)."""
    ctext = "".join("".join(op_text(o) + "\nhdump\n" for o in c) + "reset\n" for c, m, k in cases)
    mtext = "".join("".join(op_text(o) + "\n" for o in m) + "hreset\n" for c, m, k in cases)
    rc, cout, cerr = vplib.sh(c_cmd, input=ctext, timeout=600, env=env)
    rm, mout, merr = vplib.sh(m_cmd, input=mtext, timeout=600)

    def split(out, sep):
        res, cur = [], []
        for line in out.splitlines():
            if line == sep:
                res.append(cur)
                cur = []
            else:
                cur.append(line)
        res.append(cur)
        return res
    cres, mres = split(cout, "RESET"), split(mout, "HRESET")
    steps = 0
    for ci, (c, m, marks) in enumerate(cases):
        cl = cres[ci] if ci < len(cres) else []
        ml = mres[ci] if ci < len(mres) else []
        for i, op in enumerate(c):
            fi, li = marks[i]
            if 2 * i + 1 >= len(cl) or li >= len(ml):
                return steps, (ci, i, "missing output (C rc=%d, model rc=%d)" % (rc, rm), None, None, cerr[-2000:] + merr[-500:])
            api, dump = cl[2 * i].split(" "), cl[2 * i + 1].split(" ")
            mline = ml[li].split(" ")
            steps += 1
            if "!HT" in cl[2 * i]:
                return steps, (ci, i, "table invariant broken on the C side", cl[2 * i], ml[li], cerr[-2000:])
            if dump[2] != mline[1]:
                return steps, (ci, i, "bucket contents differ", cl[2 * i + 1], ml[li], cerr[-2000:])
            if op[0] in ("get", "del"):
                if (api[0] == "0") != (ml[fi].split(" ")[0] == "1"):
                    return steps, (ci, i, "found / not found differ", cl[2 * i], ml[fi], cerr[-2000:])
    return steps, None


# ---------------------------------------------------------------------------- classification
def classify_descriptor(d):
    cls = []
    if b"\\" in d:
        cls.append("escape")
    if any(c >= 128 for c in d):
        cls.append("utf8")
    if b"+]" in d.replace(b" ", b""):
        cls.append("insert/append")
    if d.endswith(b"."):
        cls.append("trailing-dot")
    if d.endswith(b"{}") or d.endswith(b"[]"):
        cls.append("abstract")
    return ",".join(cls) or "plain"
