"""Shared machinery of the network-data file checks (C06, C08, C09; agent `datafiles`).

* Harness: drives harness/datafiles_harness.c with text scripts, isolates crashing cases.
* Obj: a plain-Python picture of a vnadata_t (what the public getters show).
* Independent readers of NPD / Touchstone 1 / Touchstone 2 written from the format descriptions
  (the NPD reader uses the file's own `#:` header and `# field N:` key; the Touchstone reader follows
  the Touchstone 1.1 / 2.0 documents).  They share no code with the library.
* An oracle for network-parameter conversions that works on the defining port relations of
  vnaconv(3) (a network = an n-dimensional subspace of (v, i) space), not on closed formulas.
* A generator of equivalent spellings of Touchstone / NPD files and structure-aware mutators.
"""
import cmath
import math
import os
import re

import vplib

TYPES = ["UNDEF", "S", "T", "U", "Z", "Y", "H", "G", "A", "B", "ZIN"]
TYPE_ID = dict((n, i) for i, n in enumerate(TYPES))
TWO_PORT_ONLY = ("T", "U", "H", "G", "A", "B")
FT_AUTO, FT_TS1, FT_TS2, FT_NPD = 0, 1, 2, 3
MAXP = 1000


def fhex(x):
    return float(x).hex()


def unhex(s):
    return float.fromhex(s)


# --------------------------------------------------------------------------------------------
# objects
# --------------------------------------------------------------------------------------------
class Obj(object):
    def __init__(self, type_, rows, cols, freqs, data, z0=None, fz0=None):
        self.type = type_            # name
        self.rows = rows
        self.cols = cols
        self.freqs = list(freqs)
        self.data = data             # [findex][row * cols + col] complex
        self.z0 = z0                 # [port] complex or None
        self.fz0 = fz0               # [findex][port] complex or None
        self.meta = {}

    @property
    def ports(self):
        return max(self.rows, self.cols)

    def z0_at(self, findex):
        return self.fz0[findex] if self.fz0 is not None else self.z0

    def cmds(self, slot):
        out = ["new %d %d %d %d %d" % (slot, TYPE_ID[self.type], self.rows, self.cols, len(self.freqs))]
        for i, f in enumerate(self.freqs):
            out.append("freq %d %d %s" % (slot, i, fhex(f)))
        if self.fz0 is not None:
            for i, zv in enumerate(self.fz0):
                for p, z in enumerate(zv):
                    out.append("fz0 %d %d %d %s %s" % (slot, i, p, fhex(z.real), fhex(z.imag)))
        elif self.z0 is not None:
            for p, z in enumerate(self.z0):
                out.append("z0 %d %d %s %s" % (slot, p, fhex(z.real), fhex(z.imag)))
        for i, m in enumerate(self.data):
            if m:
                out.append("mat %d %d %d %s" % (slot, i, len(m),
                                                " ".join("%s %s" % (fhex(x.real), fhex(x.imag)) for x in m)))
        return out


def parse_dump(line):
    """DUMP line of the harness -> Obj (meta holds filetype, precisions, format)."""
    if not line.startswith("DUMP ") or line.startswith("DUMP none"):
        return None
    head, fpart, zpart, dpart = [x.strip() for x in line[5:].split("|")]
    h = head.split()
    t, rows, cols, nf, fz, ft, fp, dp = [int(x) for x in h[:8]]
    fmt = h[8] if len(h) > 8 else "-"
    fv = [unhex(x) for x in fpart.split()[1:]]
    zv = [unhex(x) for x in zpart.split()[1:]]
    dv = [unhex(x) for x in dpart.split()[1:]]
    ports = max(rows, cols)
    zc = [complex(zv[i], zv[i + 1]) for i in range(0, len(zv), 2)]
    dc = [complex(dv[i], dv[i + 1]) for i in range(0, len(dv), 2)]
    cells = rows * cols
    data = [dc[i * cells:(i + 1) * cells] for i in range(nf)]
    if fz:
        o = Obj(TYPES[t], rows, cols, fv, data, fz0=[zc[i * ports:(i + 1) * ports] for i in range(nf)])
    else:
        o = Obj(TYPES[t], rows, cols, fv, data, z0=zc)
    o.meta = {"filetype": ft, "fprecision": fp, "dprecision": dp, "format": fmt,
              "consistent": len(fv) == nf and len(dc) == nf * cells and len(zc) == (nf * ports if fz else ports)}
    return o


def same_float(a, b):
    return a == b or (a != a and b != b)


def same_complex(a, b):
    return same_float(a.real, b.real) and same_float(a.imag, b.imag)


def obj_equal(a, b):
    """Exact equality of what the getters show (type, dims, frequencies, z0, cells)."""
    if (a.type, a.rows, a.cols, len(a.freqs)) != (b.type, b.rows, b.cols, len(b.freqs)):
        return False
    if not all(same_float(x, y) for x, y in zip(a.freqs, b.freqs)):
        return False
    for i in range(len(a.freqs)):
        za, zb = a.z0_at(i), b.z0_at(i)
        if len(za) != len(zb) or not all(same_complex(x, y) for x, y in zip(za, zb)):
            return False
        if len(a.data[i]) != len(b.data[i]) or not all(same_complex(x, y) for x, y in zip(a.data[i], b.data[i])):
            return False
    if len(a.freqs) == 0:
        za, zb = a.z0 or [], b.z0 or []
        if a.fz0 is None and b.fz0 is None and not all(same_complex(x, y) for x, y in zip(za, zb)):
            return False
    return True


def relerr(a, b):
    """|a-b| relative to max(|a|,|b|); 0 when both are equal (including infinities)."""
    if a == b:
        return 0.0
    if a != a or b != b:
        return 0.0 if (a != a and b != b) else float("inf")
    d = abs(a - b)
    m = max(abs(a), abs(b))
    if m == 0:
        return 0.0
    if math.isinf(m):
        return float("inf")
    return d / m


def mat_relerr(a, b):
    """max |a_k - b_k| relative to the largest entry of either matrix."""
    if len(a) != len(b):
        return float("inf")
    m = max([abs(x) for x in a] + [abs(x) for x in b] + [0.0])
    if m == 0:
        return 0.0
    return max([abs(x - y) for x, y in zip(a, b)] + [0.0]) / m


# --------------------------------------------------------------------------------------------
# harness driver
# --------------------------------------------------------------------------------------------
class Harness(object):
    def __init__(self, ctx, san=True, wrap=True):
        self.ctx = ctx
        self.exe = ctx.build_harness("datafiles_harness", san=san, wrap=wrap,
                                     defines=(["USE_ALLOCWRAP"] if wrap else []))
        self.env = ctx.run_env(leak=True)

    def run(self, cases, timeout=600, max_hangs=25):
        """cases: list of (id, [command lines]).  Returns (results, faults):
        results[id] = list of output lines of that case; faults = list of dicts (id, rc, stderr)
        for cases during which the process died (sanitizer report, abort, timeout)."""
        results = {}
        faults = []
        todo = list(cases)
        while todo:
            script = []
            for cid, cmds in todo:
                script.append("case %s" % cid)
                script.extend(cmds)
                script.append("free 0\nfree 1\nfree 2\nfree 3\nlive")
            rc, out, err = vplib.sh([self.exe], input="\n".join(script) + "\n", timeout=timeout, env=self.env)
            cur = None
            for line in out.split("\n"):
                if line.startswith("CASE "):
                    cur = line[5:].strip()
                    results[cur] = []
                elif cur is not None and line:
                    results[cur].append(line)
            if rc == 0:
                break
            ids = [c[0] for c in todo]
            # the process died: the last case started is the culprit (a leak report at exit has no culprit)
            if cur is None:
                faults.append({"id": None, "rc": rc, "stderr": err[-6000:]})
                break
            k = ids.index(cur)
            complete = results[cur] and results[cur][-1].startswith("LIVE")
            if complete and k == len(ids) - 1:
                faults.append({"id": None, "rc": rc, "stderr": err[-6000:], "at_exit": True})
                break
            faults.append({"id": cur, "rc": rc, "stderr": err[-6000:], "hang": rc in (95, 124)})
            results[cur].append("FAULT rc=%d" % rc)
            todo = todo[k + 1:]
            if len([f for f in faults if f.get("hang")]) >= max_hangs:
                faults.append({"id": None, "rc": rc, "stderr": "run abandoned after %d inputs on which the library did not return; "
                               "%d inputs not executed" % (max_hangs, len(todo)), "abandoned": True})
                break
        return results, faults


# --------------------------------------------------------------------------------------------
# small complex linear algebra and the relation-based conversion oracle
# --------------------------------------------------------------------------------------------
def solve(a, b):
    """Solve a x = b (a: n x n, b: n x m) by Gaussian elimination with partial pivoting."""
    n = len(a)
    m = len(b[0])
    w = [list(a[i]) + list(b[i]) for i in range(n)]
    for c in range(n):
        p = max(range(c, n), key=lambda r: abs(w[r][c]))
        if w[p][c] == 0:
            raise ZeroDivisionError("singular")
        w[c], w[p] = w[p], w[c]
        piv = w[c][c]
        for r in range(c + 1, n):
            f = w[r][c] / piv
            if f != 0:
                for k in range(c, n + m):
                    w[r][k] -= f * w[c][k]
    x = [[0j] * m for _ in range(n)]
    for r in range(n - 1, -1, -1):
        for k in range(m):
            s = w[r][n + k]
            for c in range(r + 1, n):
                s -= w[r][c] * x[c][k]
            x[r][k] = s / w[r][r]
    return x


def matmul(a, b):
    return [[sum(a[i][k] * b[k][j] for k in range(len(b))) for j in range(len(b[0]))] for i in range(len(a))]


def functionals(t, n, z0):
    """(D, N): dependent and independent linear functionals of x = (v_1..v_n, i_1..i_n) such that
    the parameter matrix M of type t satisfies D x = M N x  (definitions of vnaconv(3))."""
    def v(i):
        r = [0j] * (2 * n); r[i] = 1; return r

    def cur(i, s=1):
        r = [0j] * (2 * n); r[n + i] = s; return r

    def a(i):
        k = 2 * math.sqrt(abs(z0[i].real))
        r = [0j] * (2 * n); r[i] = 1 / k; r[n + i] = z0[i] / k; return r

    def b(i):
        k = 2 * math.sqrt(abs(z0[i].real))
        r = [0j] * (2 * n); r[i] = 1 / k; r[n + i] = -z0[i].conjugate() / k; return r
    if t == "S":
        return [b(i) for i in range(n)], [a(i) for i in range(n)]
    if t == "Z":
        return [v(i) for i in range(n)], [cur(i) for i in range(n)]
    if t == "Y":
        return [cur(i) for i in range(n)], [v(i) for i in range(n)]
    assert n == 2
    if t == "T":
        return [b(0), a(0)], [a(1), b(1)]
    if t == "U":
        return [a(1), b(1)], [b(0), a(0)]
    if t == "H":
        return [v(0), cur(1)], [cur(0), v(1)]
    if t == "G":
        return [cur(0), v(1)], [v(0), cur(1)]
    if t == "A":
        return [v(0), cur(0)], [v(1), cur(1, -1)]
    if t == "B":
        return [v(1), cur(1, -1)], [v(0), cur(0)]
    raise ValueError(t)


def convert(m, t_from, t_to, z0):
    """Convert the flat row-major parameter matrix m between types through the port relations."""
    n = int(round(math.sqrt(len(m)))) if t_from != "ZIN" else len(m)
    if t_from == t_to:
        return list(m)
    if t_from == "ZIN":
        raise ValueError("Zin is not convertible")
    if t_to == "ZIN":
        s = convert(m, t_from, "S", z0)
        return [(z0[i].conjugate() + z0[i] * s[i * n + i]) / (1 - s[i * n + i]) for i in range(n)]
    M = [[m[i * n + j] for j in range(n)] for i in range(n)]
    D, N = functionals(t_from, n, z0)
    rhs = [[1 if i == j else 0 for j in range(n)] for i in range(n)] + M
    X = solve(N + D, rhs)                       # 2n x n basis of the network's subspace
    D2, N2 = functionals(t_to, n, z0)
    DX, NX = matmul(D2, X), matmul(N2, X)
    # M2 NX = DX  ->  M2 = DX NX^-1  ->  NX^T M2^T = DX^T
    NT = [[NX[j][i] for j in range(n)] for i in range(n)]
    DT = [[DX[j][i] for j in range(n)] for i in range(n)]
    MT = solve(NT, DT)
    return [MT[j][i] for i in range(n) for j in range(n)]


# --------------------------------------------------------------------------------------------
# number grammar of the readers
# --------------------------------------------------------------------------------------------
NUM_RE = re.compile(r"^[+-]?(?:0[xX](?:[0-9a-fA-F]+\.?[0-9a-fA-F]*|\.[0-9a-fA-F]+)(?:[pP][+-]?\d+)?|"
                    r"(?:\d+\.?\d*|\.\d+)(?:[eE][+-]?\d+)?|[iI][nN][fF](?:[iI][nN][iI][tT][yY])?|[nN][aA][nN])$")


def parse_number(tok):
    """Decimal / C99 hexadecimal floating literal, inf, nan -> float; ValueError otherwise."""
    if not NUM_RE.match(tok):
        raise ValueError("not a number: %r" % tok)
    t = tok.lower()
    body = t.lstrip("+-")
    if body.startswith("0x"):
        if "p" not in body:
            t = t + "p0"
        return float.fromhex(t)
    return float(t)


def frac_digits(tok):
    m = re.match(r"^[+-]?\d*\.?(\d*)$", tok)
    return len(m.group(1)) if m else None


# --------------------------------------------------------------------------------------------
# independent NPD reader (from the file's own description)
# --------------------------------------------------------------------------------------------
class FormatError(Exception):
    pass


def read_npd(text):
    """Returns dict: ports, frequencies, parameters (list of names), z0 ('PER-FREQUENCY' or list),
    fprecision, dprecision, key (list of (name, quantity, unit)), rows (list of lists of tokens)."""
    hdr = {}
    key = []
    rows = []
    for ln in text.split("\n"):
        s = ln.strip()
        if not s:
            continue
        if s.startswith("#:"):
            p = s[2:].split()
            hdr[p[0]] = p[1:]
        elif s.startswith("#"):
            m = re.match(r"^#\s*field\s+(\d+):\s+(\S+)(?:\s+(.*?))?\s*(?:\(([^)]*)\))?\s*$", s)
            if m:
                if int(m.group(1)) != len(key) + 1:
                    raise FormatError("field key out of order: %s" % s)
                key.append((m.group(2), (m.group(3) or "").strip(), m.group(4) or ""))
        else:
            rows.append(s.split())
    out = {"version": hdr.get("version", [None])[0],
           "ports": int(hdr["ports"][0]), "frequencies": int(hdr["frequencies"][0]),
           "parameters": ",".join(hdr["parameters"]).split(","),
           "fprecision": int(hdr["fprecision"][0]), "dprecision": int(hdr["dprecision"][0]),
           "key": key, "rows": rows}
    z = hdr.get("z0")
    if z is None:
        out["z0"] = None
    elif len(z) == 1 and z[0].upper() == "PER-FREQUENCY":
        out["z0"] = "PER-FREQUENCY"
    else:
        if len(z) != 2 * out["ports"]:
            raise FormatError("z0 line has %d fields for %d ports" % (len(z), out["ports"]))
        zl = []
        for i in range(0, len(z), 2):
            im = z[i + 1]
            if not im.endswith("j"):
                raise FormatError("imaginary part without j: %s" % im)
            zl.append(complex(parse_number(z[i]), parse_number(im[:-1])))
        out["z0"] = zl
    return out


def npd_denotation(r):
    """From read_npd's result: per frequency a dict  name -> value  where name is the key's
    parameter name (S11, Zin2, IL12, PRC1, VSWR1, Z1 for per-frequency z0, ...); complex for two
    consecutive key entries of the same name, else float.  Values are rebuilt from the printed
    quantities: real/imaginary, magnitude/angle, dB/angle, R/C, R/L."""
    key = r["key"]
    out = []
    tokens_by_f = []
    for row in r["rows"]:
        if len(row) != len(key):
            raise FormatError("data line has %d fields, key has %d" % (len(row), len(key)))
        vals = [parse_number(t) for t in row]
        f = vals[0]
        d = {"frequency": f}
        tk = {"frequency": (row[0],)}
        i = 1
        while i < len(key):
            name, q, unit = key[i]
            # two consecutive key entries of the same name form a pair only when their quantities do (a scalar
            # column listed twice, e.g. "RL,RL", is two scalars of the same name)
            if i + 1 < len(key) and key[i + 1][0] == name and \
                    (q, key[i + 1][1]) in (("real", "imaginary"), ("magnitude", "angle"), ("R", "C"), ("R", "L")):
                q2, unit2 = key[i + 1][1], key[i + 1][2]
                a, b = vals[i], vals[i + 1]
                if q == "real" and q2 == "imaginary":
                    v = complex(a, b)
                elif q == "magnitude" and q2 == "angle":
                    if unit == "dB":
                        v = cmath.rect(10.0 ** (a / 20.0), math.radians(b))
                    else:
                        v = cmath.rect(a, math.radians(b)) if a == a and b == b and not math.isinf(b) else complex(float("nan"), float("nan"))
                elif q == "R" and q2 == "C":
                    w = 2 * math.pi * f
                    if name.startswith("PRC"):
                        v = 1 / (1 / a + 1j * w * b)          # R parallel with C
                    else:
                        v = a + 1 / (1j * w * b)              # R in series with C
                elif q == "R" and q2 == "L":
                    w = 2 * math.pi * f
                    if name.startswith("PRL"):
                        v = 1 / (1 / a + 1 / (1j * w * b))    # R parallel with L
                    else:
                        v = a + 1j * w * b                    # R in series with L
                else:
                    raise FormatError("unknown quantity pair %s/%s" % (q, q2))
                d[name] = v
                d[name + "#raw"] = (a, b, q, unit)
                tk[name] = (row[i], row[i + 1])
                i += 2
            else:
                if name in d and not isinstance(d[name], complex) and row[i] != tk[name][0]:
                    raise FormatError("column %s appears twice with different texts %s / %s" % (name, tk[name][0], row[i]))
                d[name] = vals[i]
                tk[name] = (row[i],)
                i += 1
        out.append(d)
        tokens_by_f.append(tk)
    return out, tokens_by_f


# --------------------------------------------------------------------------------------------
# independent Touchstone reader (Touchstone 1.1 and 2.0 documents)
# --------------------------------------------------------------------------------------------
def _ts_lines(text):
    out = []
    for ln in text.split("\n"):
        k = ln.find("!")
        if k >= 0:
            ln = ln[:k]
        ln = ln.strip()
        if ln:
            out.append(ln)
    return out


def _ts_pair(fmt, a, b):
    if fmt == "RI":
        return complex(a, b)
    if fmt == "MA":
        return cmath.rect(a, math.radians(b))
    if fmt == "DB":
        return cmath.rect(10.0 ** (a / 20.0), math.radians(b))
    raise FormatError("format " + fmt)


def read_touchstone(text):
    """Returns dict: version, type (S/Y/Z/H/G), format (RI/MA/DB), R, unit multiplier, ports,
    reference (list), freqs (Hz), mats (flat row-major, as the file denotes them: version 1
    Z/Y/H/G values are still normalised; 'denorm' holds the un-normalised ones), raw pairs."""
    lines = _ts_lines(text)
    i = 0
    version = 1
    if lines and lines[0].upper().startswith("[VERSION]"):
        version = int(float(lines[0][9:].strip()))
        i = 1
    if i >= len(lines) or not lines[i].startswith("#"):
        raise FormatError("option line expected")
    opt = lines[i][1:].upper().split()
    i += 1
    mult, typ, fmt, R = 1e9, "S", "MA", 50.0
    k = 0
    while k < len(opt):
        o = opt[k]
        if o in ("HZ", "KHZ", "MHZ", "GHZ"):
            mult = {"HZ": 1.0, "KHZ": 1e3, "MHZ": 1e6, "GHZ": 1e9}[o]
        elif o in ("S", "Y", "Z", "H", "G"):
            typ = o
        elif o in ("RI", "MA", "DB"):
            fmt = o
        elif o == "R":
            k += 1
            R = parse_number(opt[k])
        else:
            raise FormatError("option " + o)
        k += 1
    res = {"version": version, "type": typ, "format": fmt, "R": R, "mult": mult, "reference": None}
    if version == 2:
        kw = {}
        nums = []
        order = "12_21"
        mform = "FULL"
        ports = nfreq = None
        section = None
        while i < len(lines):
            ln = lines[i]
            i += 1
            if ln.startswith("["):
                e = ln.index("]")
                name = ln[1:e].strip().upper()
                rest = ln[e + 1:].split()
                section = name
                if name == "NUMBER OF PORTS":
                    ports = int(rest[0])
                elif name == "TWO-PORT ORDER":
                    order = rest[0]
                elif name == "NUMBER OF FREQUENCIES":
                    nfreq = int(rest[0])
                elif name == "NUMBER OF NOISE FREQUENCIES":
                    pass
                elif name == "REFERENCE":
                    res["reference"] = [parse_number(x) for x in rest]
                elif name == "MATRIX FORMAT":
                    mform = rest[0].upper()
                elif name in ("NETWORK DATA", "END", "NOISE DATA", "BEGIN INFORMATION", "END INFORMATION"):
                    pass
                else:
                    raise FormatError("keyword " + name)
            elif section == "REFERENCE":
                res["reference"] += [parse_number(x) for x in ln.split()]
            elif section == "NETWORK DATA":
                nums += ln.split()
        if ports is None or nfreq is None:
            raise FormatError("ports/frequencies missing")
        if res["reference"] is None:
            res["reference"] = [R] * ports
        npairs = ports * ports if mform == "FULL" else ports * (ports + 1) // 2
        if len(nums) != nfreq * (1 + 2 * npairs):
            raise FormatError("expected %d numbers, found %d" % (nfreq * (1 + 2 * npairs), len(nums)))
        freqs, mats, raws = [], [], []
        p = 0
        for _ in range(nfreq):
            freqs.append(parse_number(nums[p]) * mult)
            p += 1
            m = [None] * (ports * ports)
            raw = []
            if mform == "FULL":
                idx = [(r, c) for r in range(ports) for c in range(ports)]
            elif mform == "UPPER":
                idx = [(r, c) for r in range(ports) for c in range(r, ports)]
            else:
                idx = [(r, c) for r in range(ports) for c in range(0, r + 1)]
            for (r, c) in idx:
                ta, tb = nums[p], nums[p + 1]
                a, b = parse_number(ta), parse_number(tb)
                p += 2
                if ports == 2 and order == "21_12" and mform == "FULL":
                    r, c = c, r
                x = _ts_pair(fmt, a, b)
                m[r * ports + c] = x
                if mform != "FULL":
                    m[c * ports + r] = x
                raw.append(((r, c), a, b, ta, tb))
            mats.append(m)
            raws.append(raw)
        res.update(ports=ports, freqs=freqs, mats=mats, denorm=mats, raws=raws, freq_tokens=None)
        return res
    # version 1: data lines; network data of one frequency starts with an odd number of values
    rows = [ln.split() for ln in lines[i:]]
    if not rows:
        raise FormatError("no data")
    n0 = len(rows[0])
    if n0 == 3:
        ports = 1
    elif n0 == 9:
        ports = 4 if (len(rows) > 1 and len(rows[1]) == 8) else 2
    elif n0 == 7:
        ports = 3
    else:
        raise FormatError("first data line has %d values" % n0)
    if typ in ("H", "G"):
        ports = 2
    per_f = 1 + 2 * ports * ports
    flat = []
    for r in rows:
        if len(r) == 5:
            break                    # noise data (no network data line of 1..4 ports has 5 values)
        flat += r
    if len(flat) % per_f != 0:
        raise FormatError("network data are not a whole number of frequencies")
    freqs, mats, raws = [], [], []
    for p in range(0, len(flat), per_f):
        freqs.append(parse_number(flat[p]) * mult)
        m = [None] * (ports * ports)
        raw = []
        for k in range(ports * ports):
            ta, tb = flat[p + 1 + 2 * k], flat[p + 2 + 2 * k]
            a, b = parse_number(ta), parse_number(tb)
            r, c = k // ports, k % ports
            if ports == 2:
                r, c = c, r              # N11 N21 N12 N22
            m[r * ports + c] = _ts_pair(fmt, a, b)
            raw.append(((r, c), a, b, ta, tb))
        mats.append(m)
        raws.append(raw)
    den = []
    for m in mats:
        if typ == "Z":
            den.append([x * R for x in m])
        elif typ == "Y":
            den.append([x / R for x in m])
        elif typ == "H":
            den.append([m[0] * R, m[1], m[2], m[3] / R])
        elif typ == "G":
            den.append([m[0] / R, m[1], m[2], m[3] * R])
        else:
            den.append(list(m))
    res.update(ports=ports, freqs=freqs, mats=mats, denorm=den, raws=raws, reference=[R] * ports)
    return res


# --------------------------------------------------------------------------------------------
# generator of equivalent spellings (C08) -- the inverse of the format descriptions
# --------------------------------------------------------------------------------------------
UNITS = {"HZ": 1.0, "KHZ": 1e3, "MHZ": 1e6, "GHZ": 1e9, "THZ": 1e12}     # THz: accepted by libvna beyond the format documents


def num_text(x, rng, style=None):
    """A decimal spelling of the double x that reads back to x (17 significant digits)."""
    style = style or rng.choice(["repr", "e", "E", "plus"])
    if x != x or math.isinf(x):
        return repr(x)
    if style == "repr":
        s = repr(x)
    elif style == "e":
        s = "%.17e" % x
    elif style == "E":
        s = "%.17E" % x
    else:
        s = ("+" if x >= 0 else "") + repr(x)
    if s.endswith(".0") and rng.random() < 0.5:
        s = s[:-2] if rng.random() < 0.5 else s[:-1]
    return s


def pair_text(x, fmt, rng):
    if fmt == "RI":
        a, b = x.real, x.imag
    elif fmt == "MA":
        a, b = abs(x), math.degrees(cmath.phase(x))
    else:
        a, b = 20 * math.log10(abs(x)), math.degrees(cmath.phase(x))
    return num_text(a, rng), num_text(b, rng)


def rcase(s, rng, mode):
    if mode == "upper":
        return s.upper()
    if mode == "lower":
        return s.lower()
    if mode == "random":
        return "".join(ch.upper() if rng.random() < 0.5 else ch.lower() for ch in s)
    return s


def normalise_v1(typ, m, R):
    if typ == "Z":
        return [x / R for x in m]
    if typ == "Y":
        return [x * R for x in m]
    if typ == "H":
        return [m[0] / R, m[1], m[2], m[3] * R]
    if typ == "G":
        return [m[0] * R, m[1], m[2], m[3] / R]
    return list(m)


def gen_touchstone(truth, sp, rng):
    """truth: dict type, ports, freqs (Hz), R, reference (list or None), mats (actual values).
    sp: dict version (1|2), unit, fmt, mform (FULL|UPPER|LOWER), order (12_21|21_12), case,
    decorate (bool), opt_order (list), omit_defaults (bool), noise (bool), crlf (bool), kw_order."""
    n = truth["ports"]
    typ = truth["type"]
    R = truth["R"]
    case = sp.get("case", "asis")
    deco = sp.get("decorate", False)
    mult = UNITS[sp["unit"]]
    fmt = sp["fmt"]
    lines = []

    def comment():
        return "! " + rng.choice(["comment", "# not an option line", "[Version] 9.9", "1 2 3", "R 75 GHz", ""])

    def ws():
        return rng.choice([" ", "  ", "\t", " \t "]) if deco else " "

    def emit(tokens, can_comment=True):
        s = ws().join(tokens)
        if deco:
            if rng.random() < 0.3:
                s = ws() + s
            if rng.random() < 0.3:
                s = s + ws()
            if can_comment and rng.random() < 0.25:
                s = s + " " + comment()
        lines.append(s)
        if deco and rng.random() < 0.2:
            lines.append(rng.choice(["", "   ", comment(), "\t"]))
    if deco and rng.random() < 0.5:
        lines.append(comment())
    if sp["version"] == 2:
        emit([rcase("[Version]", rng, case), "2.0"])
    # option line
    fields = {"unit": [rcase({"HZ": "Hz", "KHZ": "kHz", "MHZ": "MHz", "GHZ": "GHz", "THZ": "THz"}[sp["unit"]], rng, case)],
              "type": [rcase(typ, rng, case)], "fmt": [rcase(fmt, rng, case)],
              "R": [rcase("R", rng, case), num_text(R, rng, "repr")]}
    opt = ["#"]
    for k in sp.get("opt_order", ["unit", "type", "fmt", "R"]):
        if sp.get("omit_defaults") and ((k == "unit" and sp["unit"] == "GHZ") or (k == "type" and typ == "S") or
                                        (k == "fmt" and fmt == "MA") or (k == "R" and R == 50.0)):
            continue
        opt += fields[k]
    emit(opt)

    def fnum(f):
        # exact when f / mult is exact; otherwise nearest spelling
        return num_text(f / mult, rng)
    if sp["version"] == 1:
        for f, m in zip(truth["freqs"], truth["mats"]):
            mn = normalise_v1(typ, m, R)
            if n == 2:
                order = [0, 2, 1, 3]                       # N11 N21 N12 N22
                toks = [fnum(f)]
                for k in order:
                    toks += pair_text(mn[k], fmt, rng)
                emit(toks)
            else:
                for r in range(n):
                    toks = [fnum(f)] if r == 0 else []
                    for c in range(n):
                        toks += pair_text(mn[r * n + c], fmt, rng)
                    emit(toks)
        if sp.get("noise") and n == 2:
            for k in range(2):
                emit([fnum(truth["freqs"][0] * (1 + k)), "1.5", "0.3", "45", "0.2"])
    else:
        mform = sp.get("mform", "FULL")
        kws = [[rcase("[Number of Ports]", rng, case), str(n)]]
        rest = [[rcase("[Number of Frequencies]", rng, case), str(len(truth["freqs"]))]]
        if n == 2:
            rest.append([rcase("[Two-Port Order]", rng, case), sp.get("order", "12_21")])
        ref = truth.get("reference")
        if ref is not None or sp.get("explicit_reference"):
            rv = ref if ref is not None else [R] * n
            rest.append([rcase("[Reference]", rng, case)] + [num_text(x, rng, "repr") for x in rv])
        if mform != "FULL" or sp.get("explicit_full"):
            rest.append([rcase("[Matrix Format]", rng, case), rcase(mform.capitalize(), rng, case)])
        if sp.get("noise") and n == 2:
            rest.append([rcase("[Number of Noise Frequencies]", rng, case), "2"])
        if sp.get("kw_shuffle"):
            rng.shuffle(rest)
        if sp.get("information"):
            rest.append([rcase("[Begin Information]", rng, case)])
            rest.append([rcase("[End Information]", rng, case)])
        for kw in kws + rest:
            if deco and len(kw) > 3 and rng.random() < 0.5:
                emit(kw[:2])
                emit(kw[2:])
            else:
                emit(kw)
        emit([rcase("[Network Data]", rng, case)])
        for f, m in zip(truth["freqs"], truth["mats"]):
            toks = [fnum(f)]
            if mform == "FULL":
                idx = [(r, c) for r in range(n) for c in range(n)]
                if n == 2 and sp.get("order") == "21_12":
                    idx = [(0, 0), (1, 0), (0, 1), (1, 1)]
            elif mform == "UPPER":
                idx = [(r, c) for r in range(n) for c in range(r, n)]
            else:
                idx = [(r, c) for r in range(n) for c in range(0, r + 1)]
            for (r, c) in idx:
                toks += pair_text(m[r * n + c], fmt, rng)
            if deco:
                # free layout: break the token list anywhere
                while toks:
                    k = rng.randint(1, max(1, min(len(toks), 9)))
                    emit(toks[:k])
                    toks = toks[k:]
            else:
                per = 1 + 2 * min(n, 4)
                emit(toks[:per])
                toks = toks[per:]
                while toks:
                    emit(toks[:8])
                    toks = toks[8:]
        if sp.get("noise") and n == 2:
            emit([rcase("[Noise Data]", rng, case)])
            for k in range(2):
                emit([fnum(truth["freqs"][0] * (1 + k)), "1.5", "0.3", "45", "0.2"])
        if not sp.get("omit_end"):
            emit([rcase("[End]", rng, case)])
    eol = "\r\n" if sp.get("crlf") else "\n"
    text = eol.join(lines) + (eol if not sp.get("no_final_newline") else "")
    return text


def gen_npd(truth, sp, rng):
    """truth: type (S/Z/..ZIN), ports, freqs, z0 (list) or fz0 (per frequency), mats.
    sp: forms (list of RI/MA/DB for the truth's own type, first is what must be loaded or better),
    header order, legacy rows/columns, separators, decoration."""
    n = truth["ports"]
    typ = truth["type"]
    deco = sp.get("decorate", False)
    forms = sp.get("forms", ["RI"])
    names = []
    for f in forms:
        nm = ("Zin" if typ == "ZIN" else typ) + {"RI": "ri", "MA": "ma", "DB": "dB"}[f]
        names.append(rcase(nm, rng, sp.get("case", "asis")))
    extra = sp.get("extra_scalar", [])
    hdr = []
    if sp.get("legacy_dims"):
        dims = [["#:rows", str(n)], ["#:columns", str(n)]]
    else:
        dims = [["#:ports", str(n)]]
    hdr += dims
    others = [["#:version", "1.0"], ["#:frequencies", str(len(truth["freqs"]))]]
    plist = names + extra
    if sp.get("param_sep", ",") == ",":
        others.append(["#:parameters", ",".join(plist)])
    elif sp.get("param_sep") == " ":
        others.append(["#:parameters"] + plist)
    else:
        others.append(["#:parameters", ", ".join(plist)])
    if sp.get("precision_lines", True):
        others += [["#:fprecision", "9"], ["#:dprecision", "12"]]
    z0line = None
    if truth.get("fz0") is not None:
        z0line = ["#:z0", rcase("PER-FREQUENCY", rng, sp.get("case", "asis"))]
    elif truth.get("z0") is not None and not (sp.get("omit_default_z0") and all(z == 50 for z in truth["z0"])):
        z0line = ["#:z0"]
        for z in truth["z0"]:
            z0line += [num_text(z.real, rng), num_text(z.imag, rng, "plus") + ("j" if sp.get("j_suffix", True) else "")]
    if sp.get("shuffle_header"):
        rng.shuffle(others)
        pos = rng.randint(0, len(others))
        allh = others[:pos] + dims + others[pos:]
        if z0line:
            k = max(allh.index(d) for d in dims)
            allh.insert(rng.randint(k + 1, len(allh)), z0line)
    else:
        allh = [others[0]] + dims + others[1:] + ([z0line] if z0line else [])
    lines = []

    def ws():
        return rng.choice([" ", "  ", "\t", " \t "]) if deco else " "

    def comment():
        return rng.choice(["# comment", "#", "# field 1: bogus", "#:", "#: 7", "#!x"])
    if sp.get("magic", True):
        lines.append("#NPD")
    for h in allh:
        s = ws().join(h)
        if deco and rng.random() < 0.3:
            s = ws() + s
        if deco and rng.random() < 0.3 and h[0] != "#:parameters":
            s = s + ws() + comment()
        lines.append(s)
        if deco and rng.random() < 0.3:
            lines.append(rng.choice(["", "  ", comment(), "\t"]))
    for i, (f, m) in enumerate(zip(truth["freqs"], truth["mats"])):
        toks = [num_text(f, rng)]
        if truth.get("fz0") is not None:
            for z in truth["fz0"][i]:
                toks += [num_text(z.real, rng), num_text(z.imag, rng)]
        for form in forms:
            for x in m:
                toks += pair_text(x, form, rng)
        for e in extra:
            cnt = n * (n - 1) if e.upper() == "IL" else n
            toks += [num_text(rng.uniform(0, 30), rng) for _ in range(cnt)]
        s = ws().join(toks)
        if deco and rng.random() < 0.3:
            s = s + ws() + comment()
        lines.append(s)
        if deco and rng.random() < 0.3:
            lines.append(rng.choice(["", comment(), "   "]))
    return "\n".join(lines) + ("\n" if not sp.get("no_final_newline") else "")
