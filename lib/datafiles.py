"""Shared machinery of the network-data file checks (C06, C08, C09; agent `datafiles`).

* Harness: drives harness/datafiles_harness.c with text scripts, isolates crashing cases.
* Obj: a plain-Python picture of a vnadata_t (what the public getters show).
* Independent readers of NPD / Touchstone 1 / Touchstone 2 written from the format descriptions
  (the NPD reader uses the file's own `#:` header and `# field N:` key; the Touchstone reader follows
  the Touchstone 1.1 / 2.0 documents).  They share no code with the library.
* An oracle for network-parameter conversions that works on the defining port relations of
  vnaconv(3) (a network = an n-dimensional subspace of (v, i) space), not on closed formulas.
* A generator of equivalent spellings of Touchstone / NPD files and structure-aware mutators.
"""
import cmath
import math
import os
import re

import vplib

TYPES = ["UNDEF", "S", "T", "U", "Z", "Y", "H", "G", "A", "B", "ZIN"]
TYPE_ID = dict((n, i) for i, n in enumerate(TYPES))
TWO_PORT_ONLY = ("T", "U", "H", "G", "A", "B")
FT_AUTO, FT_TS1, FT_TS2, FT_NPD = 0, 1, 2, 3
MAXP = 1000


def fhex(x):
    return float(x).hex()


def unhex(s):
    return float.fromhex(s)


# --------------------------------------------------------------------------------------------
# objects
# --------------------------------------------------------------------------------------------
class Obj(object):
    def __init__(self, type_, rows, cols, freqs, data, z0=None, fz0=None):
        self.type = type_            # name
        self.rows = rows
        self.cols = cols
        self.freqs = list(freqs)
        self.data = data             # [findex][row * cols + col] complex
        self.z0 = z0                 # [port] complex or None
        self.fz0 = fz0               # [findex][port] complex or None
        self.meta = {}

    @property
    def ports(self):
        return max(self.rows, self.cols)

    def z0_at(self, findex):
        return self.fz0[findex] if self.fz0 is not None else self.z0

    def cmds(self, slot):
        out = ["new %d %d %d %d %d" % (slot, TYPE_ID[self.type], self.rows, self.cols, len(self.freqs))]
        for i, f in enumerate(self.freqs):
            out.append("freq %d %d %s" % (slot, i, fhex(f)))
        if self.fz0 is not None:
            for i, zv in enumerate(self.fz0):
                for p, z in enumerate(zv):
                    out.append("fz0 %d %d %d %s %s" % (slot, i, p, fhex(z.real), fhex(z.imag)))
        elif self.z0 is not None:
            for p, z in enumerate(self.z0):
                out.append("z0 %d %d %s %s" % (slot, p, fhex(z.real), fhex(z.imag)))
        for i, m in enumerate(self.data):
            if m:
                out.append("mat %d %d %d %s" % (slot, i, len(m),
                                                " ".join("%s %s" % (fhex(x.real), fhex(x.imag)) for x in m)))
        return out


def parse_dump(line):
    """DUMP line of the harness -> Obj (meta holds filetype, precisions, format)."""
    if not line.startswith("DUMP ") or line.startswith("DUMP none"):
        return None
    head, fpart, zpart, dpart = [x.strip() for x in line[5:].split("|")]
    h = head.split()
    t, rows, cols, nf, fz, ft, fp, dp = [int(x) for x in h[:8]]
    fmt = h[8] if len(h) > 8 else "-"
    fv = [unhex(x) for x in fpart.split()[1:]]
    zv = [unhex(x) for x in zpart.split()[1:]]
    dv = [unhex(x) for x in dpart.split()[1:]]
    ports = max(rows, cols)
    zc = [complex(zv[i], zv[i + 1]) for i in range(0, len(zv), 2)]
    dc = [complex(dv[i], dv[i + 1]) for i in range(0, len(dv), 2)]
    cells = rows * cols
    data = [dc[i * cells:(i + 1) * cells] for i in range(nf)]
    if fz:
        o = Obj(TYPES[t], rows, cols, fv, data, fz0=[zc[i * ports:(i + 1) * ports] for i in range(nf)])
    else:
        o = Obj(TYPES[t], rows, cols, fv, data, z0=zc)
    o.meta = {"filetype": ft, "fprecision": fp, "dprecision": dp, "format": fmt,
              "consistent": len(fv) == nf and len(dc) == nf * cells and len(zc) == (nf * ports if fz else ports)}
    return o


def same_float(a, b):
    return a == b or (a != a and b != b)


def same_complex(a, b):
    return same_float(a.real, b.real) and same_float(a.imag, b.imag)


def obj_equal(a, b):
    """Exact equality of what the getters show (type, dims, frequencies, z0, cells)."""
    if (a.type, a.rows, a.cols, len(a.freqs)) != (b.type, b.rows, b.cols, len(b.freqs)):
        return False
    if not all(same_float(x, y) for x, y in zip(a.freqs, b.freqs)):
        return False
    for i in range(len(a.freqs)):
        za, zb = a.z0_at(i), b.z0_at(i)
        if len(za) != len(zb) or not all(same_complex(x, y) for x, y in zip(za, zb)):
            return False
        if len(a.data[i]) != len(b.data[i]) or not all(same_complex(x, y) for x, y in zip(a.data[i], b.data[i])):
            return False
    if len(a.freqs) == 0:
        za, zb = a.z0 or [], b.z0 or []
        if a.fz0 is None and b.fz0 is None and not all(same_complex(x, y) for x, y in zip(za, zb)):
            return False
    return True


def relerr(a, b):
    """|a-b| relative to max(|a|,|b|); 0 when both are equal (including infinities)."""
    if a == b:
        return 0.0
    if a != a or b != b:
        return 0.0 if (a != a and b != b) else float("inf")
    d = abs(a - b)
    m = max(abs(a), abs(b))
    if m == 0:
        return 0.0
    if math.isinf(m):
        return float("inf")
    return d / m


def mat_relerr(a, b):
    """max |a_k - b_k| relative to the largest entry of either matrix."""
    if len(a) != len(b):
        return float("inf")
    m = max([abs(x) for x in a] + [abs(x) for x in b] + [0.0])
    if m == 0:
        return 0.0
    return max([abs(x - y) for x, y in zip(a, b)] + [0.0]) / m


# --------------------------------------------------------------------------------------------
# harness driver
# --------------------------------------------------------------------------------------------
class Harness(object):
    def __init__(self, ctx, san=True, wrap=True):
        self.ctx = ctx
        self.exe = ctx.build_harness("datafiles_harness", san=san, wrap=wrap,
                                     defines=(["USE_ALLOCWRAP"] if wrap else []))
        self.env = ctx.run_env(leak=True)

    def run(self, cases, timeout=600):
        """cases: list of (id, [command lines]).  Returns (results, faults):
        results[id] = list of output lines of that case; faults = list of dicts (id, rc, stderr)
        for cases during which the process died (sanitizer report, abort, timeout)."""
        results = {}
        faults = []
        todo = list(cases)
        while todo:
            script = []
            for cid, cmds in todo:
                script.append("case %s" % cid)
                script.extend(cmds)
                script.append("free 0\nfree 1\nfree 2\nfree 3\nlive")
            rc, out, err = vplib.sh([self.exe], input="\n".join(script) + "\n", timeout=timeout, env=self.env)
            cur = None
            for line in out.split("\n"):
                if line.startswith("CASE "):
                    cur = line[5:].strip()
                    results[cur] = []
                elif cur is not None and line:
                    results[cur].append(line)
            if rc == 0:
                break
            ids = [c[0] for c in todo]
            # the process died: the last case started is the culprit (a leak report at exit has no culprit)
            if cur is None:
                faults.append({"id": None, "rc": rc, "stderr": err[-6000:]})
                break
            k = ids.index(cur)
            complete = results[cur] and results[cur][-1].startswith("LIVE")
            if complete and k == len(ids) - 1:
                faults.append({"id": None, "rc": rc, "stderr": err[-6000:], "at_exit": True})
                break
            faults.append({"id": cur, "rc": rc, "stderr": err[-6000:]})
            results[cur].append("FAULT rc=%d" % rc)
            todo = todo[k + 1:]
        return results, faults


# --------------------------------------------------------------------------------------------
# small complex linear algebra and the relation-based conversion oracle
# --------------------------------------------------------------------------------------------
def solve(a, b):
    """Solve a x = b (a: n x n, b: n x m) by Gaussian elimination with partial pivoting."""
    n = len(a)
    m = len(b[0])
    w = [list(a[i]) + list(b[i]) for i in range(n)]
    for c in range(n):
        p = max(range(c, n), key=lambda r: abs(w[r][c]))
        if w[p][c] == 0:
            raise ZeroDivisionError("singular")
        w[c], w[p] = w[p], w[c]
        piv = w[c][c]
        for r in range(c + 1, n):
            f = w[r][c] / piv
            if f != 0:
                for k in range(c, n + m):
                    w[r][k] -= f * w[c][k]
    x = [[0j] * m for _ in range(n)]
    for r in range(n - 1, -1, -1):
        for k in range(m):
            s = w[r][n + k]
            for c in range(r + 1, n):
                s -= w[r][c] * x[c][k]
            x[r][k] = s / w[r][r]
    return x


def matmul(a, b):
    return [[sum(a[i][k] * b[k][j] for k in range(len(b))) for j in range(len(b[0]))] for i in range(len(a))]


def functionals(t, n, z0):
    """(D, N): dependent and independent linear functionals of x = (v_1..v_n, i_1..i_n) such that
    the parameter matrix M of type t satisfies D x = M N x  (definitions of vnaconv(3))."""
    def v(i):
        r = [0j] * (2 * n); r[i] = 1; return r

    def cur(i, s=1):
        r = [0j] * (2 * n); r[n + i] = s; return r

    def a(i):
        k = 2 * math.sqrt(abs(z0[i].real))
        r = [0j] * (2 * n); r[i] = 1 / k; r[n + i] = z0[i] / k; return r

    def b(i):
        k = 2 * math.sqrt(abs(z0[i].real))
        r = [0j] * (2 * n); r[i] = 1 / k; r[n + i] = -z0[i].conjugate() / k; return r
    if t == "S":
        return [b(i) for i in range(n)], [a(i) for i in range(n)]
    if t == "Z":
        return [v(i) for i in range(n)], [cur(i) for i in range(n)]
    if t == "Y":
        return [cur(i) for i in range(n)], [v(i) for i in range(n)]
    assert n == 2
    if t == "T":
        return [b(0), a(0)], [a(1), b(1)]
    if t == "U":
        return [a(1), b(1)], [b(0), a(0)]
    if t == "H":
        return [v(0), cur(1)], [cur(0), v(1)]
    if t == "G":
        return [cur(0), v(1)], [v(0), cur(1)]
    if t == "A":
        return [v(0), cur(0)], [v(1), cur(1, -1)]
    if t == "B":
        return [v(1), cur(1, -1)], [v(0), cur(0)]
    raise ValueError(t)


def convert(m, t_from, t_to, z0):
    """Convert the flat row-major parameter matrix m between types through the port relations."""
    n = int(round(math.sqrt(len(m)))) if t_from != "ZIN" else len(m)
    if t_from == t_to:
        return list(m)
    if t_from == "ZIN":
        raise ValueError("Zin is not convertible")
    if t_to == "ZIN":
        s = convert(m, t_from, "S", z0)
        return [(z0[i].conjugate() + z0[i] * s[i * n + i]) / (1 - s[i * n + i]) for i in range(n)]
    M = [[m[i * n + j] for j in range(n)] for i in range(n)]
    D, N = functionals(t_from, n, z0)
    rhs = [[1 if i == j else 0 for j in range(n)] for i in range(n)] + M
    X = solve(N + D, rhs)                       # 2n x n basis of the network's subspace
    D2, N2 = functionals(t_to, n, z0)
    DX, NX = matmul(D2, X), matmul(N2, X)
    # M2 NX = DX  ->  M2 = DX NX^-1  ->  NX^T M2^T = DX^T
    NT = [[NX[j][i] for j in range(n)] for i in range(n)]
    DT = [[DX[j][i] for j in range(n)] for i in range(n)]
    MT = solve(NT, DT)
    return [MT[j][i] for i in range(n) for j in range(n)]


# --------------------------------------------------------------------------------------------
# number grammar of the readers
# --------------------------------------------------------------------------------------------
NUM_RE = re.compile(r"^[+-]?(?:0[xX](?:[0-9a-fA-F]+\.?[0-9a-fA-F]*|\.[0-9a-fA-F]+)(?:[pP][+-]?\d+)?|"
                    r"(?:\d+\.?\d*|\.\d+)(?:[eE][+-]?\d+)?|[iI][nN][fF](?:[iI][nN][iI][tT][yY])?|[nN][aA][nN])$")


def parse_number(tok):
    """Decimal / C99 hexadecimal floating literal, inf, nan -> float; ValueError otherwise."""
    if not NUM_RE.match(tok):
        raise ValueError("not a number: %r" % tok)
    t = tok.lower()
    body = t.lstrip("+-")
    if body.startswith("0x"):
        if "p" not in body:
            t = t + "p0"
        return float.fromhex(t)
    return float(t)


def frac_digits(tok):
    m = re.match(r"^[+-]?\d*\.?(\d*)$", tok)
    return len(m.group(1)) if m else None


# --------------------------------------------------------------------------------------------
# independent NPD reader (from the file's own description)
# --------------------------------------------------------------------------------------------
class FormatError(Exception):
    pass


def read_npd(text):
    """Returns dict: ports, frequencies, parameters (list of names), z0 ('PER-FREQUENCY' or list),
    fprecision, dprecision, key (list of (name, quantity, unit)), rows (list of lists of tokens)."""
    hdr = {}
    key = []
    rows = []
    for ln in text.split("\n"):
        s = ln.strip()
        if not s:
            continue
        if s.startswith("#:"):
            p = s[2:].split()
            hdr[p[0]] = p[1:]
        elif s.startswith("#"):
            m = re.match(r"^#\s*field\s+(\d+):\s+(\S+)(?:\s+(.*?))?\s*(?:\(([^)]*)\))?\s*$", s)
            if m:
                if int(m.group(1)) != len(key) + 1:
                    raise FormatError("field key out of order: %s" % s)
                key.append((m.group(2), (m.group(3) or "").strip(), m.group(4) or ""))
        else:
            rows.append(s.split())
    out = {"version": hdr.get("version", [None])[0],
           "ports": int(hdr["ports"][0]), "frequencies": int(hdr["frequencies"][0]),
           "parameters": ",".join(hdr["parameters"]).split(","),
           "fprecision": int(hdr["fprecision"][0]), "dprecision": int(hdr["dprecision"][0]),
           "key": key, "rows": rows}
    z = hdr.get("z0")
    if z is None:
        out["z0"] = None
    elif len(z) == 1 and z[0].upper() == "PER-FREQUENCY":
        out["z0"] = "PER-FREQUENCY"
    else:
        if len(z) != 2 * out["ports"]:
            raise FormatError("z0 line has %d fields for %d ports" % (len(z), out["ports"]))
        zl = []
        for i in range(0, len(z), 2):
            im = z[i + 1]
            if not im.endswith("j"):
                raise FormatError("imaginary part without j: %s" % im)
            zl.append(complex(parse_number(z[i]), parse_number(im[:-1])))
        out["z0"] = zl
    return out


def npd_denotation(r):
    """From read_npd's result: per frequency a dict  name -> value  where name is the key's
    parameter name (S11, Zin2, IL12, PRC1, VSWR1, Z1 for per-frequency z0, ...); complex for two
    consecutive key entries of the same name, else float.  Values are rebuilt from the printed
    quantities: real/imaginary, magnitude/angle, dB/angle, R/C, R/L."""
    key = r["key"]
    out = []
    tokens_by_f = []
    for row in r["rows"]:
        if len(row) != len(key):
            raise FormatError("data line has %d fields, key has %d" % (len(row), len(key)))
        vals = [parse_number(t) for t in row]
        f = vals[0]
        d = {"frequency": f}
        tk = {"frequency": (row[0],)}
        i = 1
        while i < len(key):
            name, q, unit = key[i]
            if i + 1 < len(key) and key[i + 1][0] == name:
                q2, unit2 = key[i + 1][1], key[i + 1][2]
                a, b = vals[i], vals[i + 1]
                if q == "real" and q2 == "imaginary":
                    v = complex(a, b)
                elif q == "magnitude" and q2 == "angle":
                    if unit == "dB":
                        v = cmath.rect(10.0 ** (a / 20.0), math.radians(b))
                    else:
                        v = cmath.rect(a, math.radians(b)) if a == a and b == b and not math.isinf(b) else complex(float("nan"), float("nan"))
                elif q == "R" and q2 == "C":
                    w = 2 * math.pi * f
                    if name.startswith("PRC"):
                        v = 1 / (1 / a + 1j * w * b)          # R parallel with C
                    else:
                        v = a + 1 / (1j * w * b)              # R in series with C
                elif q == "R" and q2 == "L":
                    w = 2 * math.pi * f
                    if name.startswith("PRL"):
                        v = 1 / (1 / a + 1 / (1j * w * b))    # R parallel with L
                    else:
                        v = a + 1j * w * b                    # R in series with L
                else:
                    raise FormatError("unknown quantity pair %s/%s" % (q, q2))
                d[name] = v
                d[name + "#raw"] = (a, b, q, unit)
                tk[name] = (row[i], row[i + 1])
                i += 2
            else:
                d[name] = vals[i]
                tk[name] = (row[i],)
                i += 1
        out.append(d)
        tokens_by_f.append(tk)
    return out, tokens_by_f


# --------------------------------------------------------------------------------------------
# independent Touchstone reader (Touchstone 1.1 and 2.0 documents)
# --------------------------------------------------------------------------------------------
def _ts_lines(text):
    out = []
    for ln in text.split("\n"):
        k = ln.find("!")
        if k >= 0:
            ln = ln[:k]
        ln = ln.strip()
        if ln:
            out.append(ln)
    return out


def _ts_pair(fmt, a, b):
    if fmt == "RI":
        return complex(a, b)
    if fmt == "MA":
        return cmath.rect(a, math.radians(b))
    if fmt == "DB":
        return cmath.rect(10.0 ** (a / 20.0), math.radians(b))
    raise FormatError("format " + fmt)


def read_touchstone(text):
    """Returns dict: version, type (S/Y/Z/H/G), format (RI/MA/DB), R, unit multiplier, ports,
    reference (list), freqs (Hz), mats (flat row-major, as the file denotes them: version 1
    Z/Y/H/G values are still normalised; 'denorm' holds the un-normalised ones), raw pairs."""
    lines = _ts_lines(text)
    i = 0
    version = 1
    if lines and lines[0].upper().startswith("[VERSION]"):
        version = int(float(lines[0][9:].strip()))
        i = 1
    if i >= len(lines) or not lines[i].startswith("#"):
        raise FormatError("option line expected")
    opt = lines[i][1:].upper().split()
    i += 1
    mult, typ, fmt, R = 1e9, "S", "MA", 50.0
    k = 0
    while k < len(opt):
        o = opt[k]
        if o in ("HZ", "KHZ", "MHZ", "GHZ"):
            mult = {"HZ": 1.0, "KHZ": 1e3, "MHZ": 1e6, "GHZ": 1e9}[o]
        elif o in ("S", "Y", "Z", "H", "G"):
            typ = o
        elif o in ("RI", "MA", "DB"):
            fmt = o
        elif o == "R":
            k += 1
            R = parse_number(opt[k])
        else:
            raise FormatError("option " + o)
        k += 1
    res = {"version": version, "type": typ, "format": fmt, "R": R, "mult": mult, "reference": None}
    if version == 2:
        kw = {}
        nums = []
        order = "12_21"
        mform = "FULL"
        ports = nfreq = None
        section = None
        while i < len(lines):
            ln = lines[i]
            i += 1
            if ln.startswith("["):
                e = ln.index("]")
                name = ln[1:e].strip().upper()
                rest = ln[e + 1:].split()
                section = name
                if name == "NUMBER OF PORTS":
                    ports = int(rest[0])
                elif name == "TWO-PORT ORDER":
                    order = rest[0]
                elif name == "NUMBER OF FREQUENCIES":
                    nfreq = int(rest[0])
                elif name == "NUMBER OF NOISE FREQUENCIES":
                    pass
                elif name == "REFERENCE":
                    res["reference"] = [parse_number(x) for x in rest]
                elif name == "MATRIX FORMAT":
                    mform = rest[0].upper()
                elif name in ("NETWORK DATA", "END", "NOISE DATA", "BEGIN INFORMATION", "END INFORMATION"):
                    pass
                else:
                    raise FormatError("keyword " + name)
            elif section == "REFERENCE":
                res["reference"] += [parse_number(x) for x in ln.split()]
            elif section == "NETWORK DATA":
                nums += ln.split()
        if ports is None or nfreq is None:
            raise FormatError("ports/frequencies missing")
        if res["reference"] is None:
            res["reference"] = [R] * ports
        npairs = ports * ports if mform == "FULL" else ports * (ports + 1) // 2
        if len(nums) != nfreq * (1 + 2 * npairs):
            raise FormatError("expected %d numbers, found %d" % (nfreq * (1 + 2 * npairs), len(nums)))
        freqs, mats, raws = [], [], []
        p = 0
        for _ in range(nfreq):
            freqs.append(parse_number(nums[p]) * mult)
            p += 1
            m = [None] * (ports * ports)
            raw = []
            if mform == "FULL":
                idx = [(r, c) for r in range(ports) for c in range(ports)]
            elif mform == "UPPER":
                idx = [(r, c) for r in range(ports) for c in range(r, ports)]
            else:
                idx = [(r, c) for r in range(ports) for c in range(0, r + 1)]
            for (r, c) in idx:
                ta, tb = nums[p], nums[p + 1]
                a, b = parse_number(ta), parse_number(tb)
                p += 2
                if ports == 2 and order == "21_12" and mform == "FULL":
                    r, c = c, r
                x = _ts_pair(fmt, a, b)
                m[r * ports + c] = x
                if mform != "FULL":
                    m[c * ports + r] = x
                raw.append(((r, c), a, b, ta, tb))
            mats.append(m)
            raws.append(raw)
        res.update(ports=ports, freqs=freqs, mats=mats, denorm=mats, raws=raws, freq_tokens=None)
        return res
    # version 1: data lines; network data of one frequency starts with an odd number of values
    rows = [ln.split() for ln in lines[i:]]
    if not rows:
        raise FormatError("no data")
    n0 = len(rows[0])
    if n0 == 3:
        ports = 1
    elif n0 == 9:
        ports = 4 if (len(rows) > 1 and len(rows[1]) == 8) else 2
    elif n0 == 7:
        ports = 3
    else:
        raise FormatError("first data line has %d values" % n0)
    if typ in ("H", "G"):
        ports = 2
    per_f = 1 + 2 * ports * ports
    flat = []
    for r in rows:
        if len(r) == 5:
            break                    # noise data (no network data line of 1..4 ports has 5 values)
        flat += r
    if len(flat) % per_f != 0:
        raise FormatError("network data are not a whole number of frequencies")
    freqs, mats, raws = [], [], []
    for p in range(0, len(flat), per_f):
        freqs.append(parse_number(flat[p]) * mult)
        m = [None] * (ports * ports)
        raw = []
        for k in range(ports * ports):
            ta, tb = flat[p + 1 + 2 * k], flat[p + 2 + 2 * k]
            a, b = parse_number(ta), parse_number(tb)
            r, c = k // ports, k % ports
            if ports == 2:
                r, c = c, r              # N11 N21 N12 N22
            m[r * ports + c] = _ts_pair(fmt, a, b)
            raw.append(((r, c), a, b, ta, tb))
        mats.append(m)
        raws.append(raw)
    den = []
    for m in mats:
        if typ == "Z":
            den.append([x * R for x in m])
        elif typ == "Y":
            den.append([x / R for x in m])
        elif typ == "H":
            den.append([m[0] * R, m[1], m[2], m[3] / R])
        elif typ == "G":
            den.append([m[0] / R, m[1], m[2], m[3] * R])
        else:
            den.append(list(m))
    res.update(ports=ports, freqs=freqs, mats=mats, denorm=den, raws=raws, reference=[R] * ports)
    return res
