"""Shared machinery for the libvna verification checks (see DESIGN.md section 2).

A check is a python module checks/<ID>.py with a function run(ctx).  The context
builds the implementation from the working tree of the repository, (re)builds the
Coq development, runs harnesses, records obligations / correspondence results /
violations and finally writes evidence and prints the VIOLATION / KNOWN-FINDING
lines required by the interface.
"""
import atexit
import fcntl
import glob
import hashlib
import json
import os
import random
import re
import shutil
import subprocess
import sys
import tempfile
import time

VERIF = os.path.dirname(os.path.dirname(os.path.abspath(__file__)))
REPO = os.environ.get("VERIF_REPO", "/repo")
COQDIR = os.path.join(VERIF, "coq")
GUARD = "LIBVNA_VERIF"
NPROC = os.cpu_count() or 4

SAN_FLAGS = ["-g", "-O1", "-fsanitize=address,undefined", "-fno-sanitize-recover=all",
             "-fno-omit-frame-pointer", "-ffp-contract=off"]
FAST_FLAGS = ["-g", "-O2", "-ffp-contract=off"]

WRAP_FUNCS = ["malloc", "calloc", "realloc", "free", "strdup", "vasprintf"]


def sh(cmd, timeout=None, cwd=None, env=None, input=None, check=False):
    """Run a command, return (rc, stdout, stderr).  rc = 124 on timeout."""
    try:
        p = subprocess.run(cmd, cwd=cwd, env=env, input=input, timeout=timeout,
                           stdout=subprocess.PIPE, stderr=subprocess.PIPE,
                           universal_newlines=True, errors="replace")
        rc, out, err = p.returncode, p.stdout, p.stderr
    except subprocess.TimeoutExpired as e:
        def _s(x):
            if x is None:
                return ""
            return x if isinstance(x, str) else x.decode("utf-8", "replace")
        rc, out, err = 124, _s(e.stdout), _s(e.stderr) + "\n[timeout]"
    if check and rc != 0:
        raise RuntimeError("command failed (%d): %s\n%s\n%s" % (rc, cmd, out[-4000:], err[-4000:]))
    return rc, out, err


class Violation(object):
    def __init__(self, sig, what, replay):
        self.sig = sig          # dict identifying the failing input / call site / history
        self.what = what        # one line
        self.replay = replay    # dict written to the replay file


class Ctx(object):
    def __init__(self, prop, tier, replay=None):
        self.prop = prop
        self.tier = tier
        self.replay_in = replay
        self.seed = int(os.environ.get("VERIF_SEED", "20260929"))
        self.rng = random.Random(self.seed)
        self.t0 = time.time()
        self.tmp = tempfile.mkdtemp(prefix="lvverif_%s_" % prop)
        atexit.register(lambda: shutil.rmtree(self.tmp, ignore_errors=True))
        self.repo = REPO
        self.level = "proof"
        self.obligations = []       # (name, ok:bool, detail)
        self.violations = []
        self.evaluations = 0
        self.nontrivial = set()
        self.samples = []
        self.rule = ""
        self.trusted_base = []
        self.assumptions = []
        self.checker_cmds = []
        self.extra = {}
        self.traces_validated = 0
        self.programs = 0
        self.notes = []
        self._libs = {}

    # ------------------------------------------------------------------ logging
    def log(self, *a):
        print("[%s %6.1fs]" % (self.prop, time.time() - self.t0), *a, flush=True)

    # ------------------------------------------------------------------ implementation build
    def lib_sources(self):
        src = os.path.join(self.repo, "src")
        out = [os.path.join(src, "archdep.c")]
        for f in sorted(glob.glob(os.path.join(src, "vna*.c"))):
            if "-" in os.path.basename(f):
                continue
            out.append(f)
        return out

    def cflags(self, san=True):
        return (SAN_FLAGS if san else FAST_FLAGS) + [
            "-std=gnu11", "-w", "-DHAVE_CONFIG_H", "-D" + GUARD,
            "-I" + os.path.join(VERIF, "harness", "cfg"),
            "-I" + os.path.join(self.repo, "src"),
            "-I" + os.path.join(VERIF, "harness")]

    def build_lib(self, san=True, exclude=()):
        """Compile every library source of the working tree into a static archive."""
        key = (san, tuple(sorted(exclude)))
        if key in self._libs:
            return self._libs[key]
        d = os.path.join(self.tmp, "lib_%s_%d" % ("san" if san else "fast", len(self._libs)))
        os.makedirs(d)
        srcs = [s for s in self.lib_sources() if os.path.basename(s) not in exclude]
        flags = self.cflags(san)
        procs = []
        failed = []

        def reap(block):
            for p, s in list(procs):
                if block:
                    p.wait()
                if p.poll() is not None:
                    procs.remove((p, s))
                    if p.returncode != 0:
                        failed.append((s, p.stderr.read().decode("utf-8", "replace")))
        for s in srcs:
            o = os.path.join(d, os.path.basename(s)[:-2] + ".o")
            while len(procs) >= NPROC:
                reap(False)
                if len(procs) >= NPROC:
                    time.sleep(0.005)
            procs.append((subprocess.Popen(["gcc"] + flags + ["-c", s, "-o", o],
                                           stdout=subprocess.DEVNULL, stderr=subprocess.PIPE), s))
        while procs:
            reap(True)
        if failed:
            raise BuildError("library does not compile: %s\n%s" % (failed[0][0], failed[0][1][-3000:]))
        lib = os.path.join(d, "libvna.a")
        sh(["ar", "rcs", lib] + sorted(glob.glob(os.path.join(d, "*.o"))), check=True)
        self._libs[key] = lib
        return lib

    def build_harness(self, name, san=True, wrap=False, extra=(), exclude=(), defines=()):
        """Compile harness/<name>.c against the freshly built library."""
        lib = self.build_lib(san, exclude)
        src = os.path.join(VERIF, "harness", name + ".c")
        out = os.path.join(self.tmp, name + ("_san" if san else "_fast") + ("_w" if wrap else ""))
        cmd = ["gcc"] + self.cflags(san) + ["-D" + x for x in defines] + [src]
        if wrap:
            cmd += [os.path.join(VERIF, "harness", "allocwrap.c")]
            cmd += ["-Wl," + ",".join("--wrap=" + f for f in WRAP_FUNCS)]
        cmd += list(extra) + [lib, "-lyaml", "-lm", "-o", out]
        rc, o, e = sh(cmd, timeout=300)
        if rc != 0:
            raise BuildError("harness %s does not compile:\n%s" % (name, e[-4000:]))
        return out

    def run_env(self, leak=True):
        env = dict(os.environ)
        env["ASAN_OPTIONS"] = "detect_leaks=%d:abort_on_error=0:exitcode=99:allocator_may_return_null=1:detect_stack_use_after_return=0" % (1 if leak else 0)
        env["UBSAN_OPTIONS"] = "print_stacktrace=1:halt_on_error=1:exitcode=98"
        env["LSAN_OPTIONS"] = "exitcode=97"
        return env

    # ------------------------------------------------------------------ Coq
    def coq_make(self, targets, timeout=1500):
        """Build .vo targets (paths relative to coq/) under a lock; returns {target: ok}."""
        lock = open(os.path.join(COQDIR, ".lock"), "w")
        fcntl.flock(lock, fcntl.LOCK_EX)
        try:
            ensure_coq_makefile()
            cmd = ["make", "-k", "-j%d" % NPROC] + list(targets)
            self.checker_cmds.append("cd coq && " + " ".join(cmd))
            rc, out, err = sh(cmd, cwd=COQDIR, timeout=timeout)
            res = {}
            bad = set(re.findall(r"\*\*\* \[[^\]]*?:\s*([^\s\]]+\.vo)\] Error", err))
            bad |= set(re.findall(r"Target '([^']+)' not remade", err))
            for t in targets:
                res[t] = (rc == 0 or t not in bad) and _vo_fresh(t) and rc != 124
            self._last_coq_log = out[-6000:] + "\n" + err[-6000:]
            return res
        finally:
            fcntl.flock(lock, fcntl.LOCK_UN)
            lock.close()

    def coq_theorems(self, vfile):
        """Names of Theorem/Lemma/Corollary/Example statements in a .v file under coq/."""
        txt = open(os.path.join(COQDIR, vfile)).read()
        txt = re.sub(r"\(\*.*?\*\)", "", txt, flags=re.S)
        return re.findall(r"(?m)^\s*(?:Theorem|Lemma|Corollary|Example)\s+([A-Za-z0-9_']+)", txt)

    def audit(self):
        """No Axiom/Parameter/Admitted/..., no Variable/Hypothesis outside a Section, anywhere."""
        if getattr(self, "_audited", False):
            return
        self._audited = True
        rc1, o1, e1 = sh([os.path.join(VERIF, "bin", "audit")], timeout=120)
        rc2, o2, e2 = sh([os.path.join(VERIF, "bin", "audit_sections")], timeout=120)
        ok = rc1 == 0 and rc2 == 0
        self.obligation("audit:no Axiom/Parameter/Admitted/admit/unchecked options in coq/ and ocaml/", ok,
                        (o1 + o2)[-500:] if not ok else "")

    def coq_obligations(self, vfiles, label=None):
        """Build the given .v files; every theorem in them is one obligation."""
        self.audit()
        targets = [v + "o" for v in vfiles]
        res = self.coq_make(targets)
        allok = True
        for v in vfiles:
            ok = res[v + "o"]
            names = self.coq_theorems(v)
            for n in names:
                self.obligations.append(("%s:%s" % (v, n), ok, "" if ok else "file does not compile"))
            if not ok:
                allok = False
        return allok, res

    def write_if_changed(self, path, content):
        old = None
        if os.path.exists(path):
            old = open(path).read()
        if old != content:
            tmp = path + ".tmp%d" % os.getpid()
            with open(tmp, "w") as f:
                f.write(content)
            os.rename(tmp, path)
            return True
        return False

    def coq_eval(self, name, body, timeout=600):
        """Compile a throw-away .v (in tmp, with -Q coq LV) and return coqc's stdout."""
        p = os.path.join(self.tmp, name + ".v")
        with open(p, "w") as f:
            f.write(body)
        rc, out, err = sh(["coqc", "-Q", COQDIR, "LV", p], timeout=timeout, cwd=self.tmp)
        return rc, out, err

    # ------------------------------------------------------------------ OCaml (extracted models)
    def ocaml_driver(self, name):
        """Path of an extracted-model driver (ocaml/_build/<name>), rebuilt when stale.
        Stale = the driver source, the glue, its Extract_<mod>.v, or any .v file in the coq/
        directories named by that file's NEEDS line (plus Base, Lin) is newer than the binary."""
        exe = os.path.join(VERIF, "ocaml", "_build", name)
        drv = os.path.join(VERIF, "ocaml", name + ".ml")
        mod = None
        if os.path.exists(drv):
            m = re.search(r"\(\* MODELS: (\S+) \*\)", open(drv).read())
            mod = m.group(1) if m else None
        stale = not os.path.exists(exe)
        if not stale and mod:
            t = os.path.getmtime(exe)
            ext = os.path.join(VERIF, "ocaml", "Extract_%s.v" % mod)
            src = [drv, os.path.join(VERIF, "ocaml", "glue.ml.inc"), ext]
            dirs = {"Base", "Lin"}
            if os.path.exists(ext):
                m = re.search(r"\(\* NEEDS: (.*?) \*\)", open(ext).read())
                for vo in (m.group(1).split() if m else []):
                    if "/" in vo:
                        dirs.add(vo.split("/")[0])
            for d in dirs:
                src += glob.glob(os.path.join(COQDIR, d, "*.v"))
            stale = any(os.path.getmtime(p) > t for p in src if os.path.exists(p))
        if stale:
            lock = open(os.path.join(VERIF, "ocaml", ".lock"), "w")
            fcntl.flock(lock, fcntl.LOCK_EX)
            try:
                sh(["bash", os.path.join(VERIF, "bin", "setup"), "--ocaml-only"] + ([mod] if mod else []), timeout=2400)
            finally:
                fcntl.flock(lock, fcntl.LOCK_UN)
                lock.close()
        if not os.path.exists(exe):
            raise BuildError("extracted driver %s is not built" % name)
        return exe

    # ------------------------------------------------------------------ recording
    def obligation(self, name, ok, detail=""):
        self.obligations.append((name, bool(ok), detail))

    def sample(self, s, limit=8):
        if len(self.samples) < limit:
            self.samples.append(s)

    def count(self, key=None, n=1):
        self.evaluations += n
        if key is not None:
            self.nontrivial.add(key)

    def violation(self, sig, what, replay):
        self.violations.append(Violation(sig, what, replay))

    # ------------------------------------------------------------------ finish
    def finish(self):
        # safety net: a failed obligation that no check code turned into a violation is still a
        # violation (the property is no longer shown to hold)
        failed = [o for o in self.obligations if not o[1]]
        if failed and not self.violations:
            names = ", ".join(o[0] for o in failed[:5])
            self.unproved(names, failed[0][2] or "obligation failed", "no search was run by the check for this obligation")
        known = load_known()
        new = []
        hit = []
        for v in self.violations:
            k = match_known(self.prop, v.sig, known)
            if k is not None:
                hit.append((k, v))
            else:
                new.append(v)
        seen = set()
        for k, v in hit:
            if k["id"] in seen:
                continue
            seen.add(k["id"])
            print("KNOWN-FINDING: property=%s %s" % (self.prop, k["what"]))
        nobl = len(self.obligations)
        ndis = len([o for o in self.obligations if o[1]])
        failed_obl = [o for o in self.obligations if not o[1]]
        rc = 0
        replay_paths = []
        if new:
            os.makedirs(os.path.join(VERIF, "replays"), exist_ok=True)
            for i, v in enumerate(new[:5]):
                p = os.path.join(VERIF, "replays", "%s_%s_%d.json" % (self.prop, self.tier, i))
                with open(p, "w") as f:
                    json.dump({"property": self.prop, "signature": v.sig, "what": v.what,
                               "seed": self.seed, "replay": v.replay}, f, indent=1, default=str)
                suffix = " no-failing-input-found" if v.sig.get("kind") == "unproved" else ""
                print("VIOLATION property=%s replay=%s%s" % (self.prop, p, suffix))
                print("  " + v.what)
                replay_paths.append(p)
            rc = 1
        known_failing = []
        if rc == 0 and failed_obl:
            # the run raised no new violation: every failed obligation was turned into a violation that a
            # recorded known finding matches.  They are reported under their own key and not counted among
            # the obligations of this run (obligations == discharged then says: everything that is expected
            # to hold on this tree holds).
            known_failing = [o[0] + ": " + o[2] for o in failed_obl][:40]
            nobl = ndis
            failed_obl = []
        cov = {
            "obligations": nobl, "discharged": ndis,
            "obligations_failing_on_known_findings": known_failing,
            "checker_cmd": " ; ".join(self.checker_cmds) or "none",
            "trusted_base": self.trusted_base,
            "evaluations": self.evaluations,
            "distinct_nontrivial": len(self.nontrivial),
            "rule": self.rule,
            "samples": self.samples if self.samples else ["(none)"],
            "traces_validated_against_impl": self.traces_validated,
            "failed_obligations": [o[0] + ": " + o[2] for o in failed_obl][:40],
            "known_findings_hit": sorted(seen),
            "notes": self.notes,
        }
        cov.update(self.extra)
        ev = {"property_id": self.prop, "tier": self.tier, "seed": self.seed, "level": self.level,
              "coverage": cov, "assumptions": self.assumptions,
              "wall_s": round(time.time() - self.t0, 2), "violations": len(new)}
        evdir = os.environ.get("VERIF_EVIDENCE_DIR", os.path.join(VERIF, "evidence"))
        os.makedirs(evdir, exist_ok=True)
        with open(os.path.join(evdir, self.prop + ".json"), "w") as f:
            json.dump(ev, f, indent=1, default=str)
        self.log("obligations %d/%d, evaluations %d (distinct non-trivial %d), violations %d, known findings %d"
                 % (ndis, nobl, self.evaluations, len(self.nontrivial), len(new), len(seen)))
        return rc

    def unproved(self, name, detail, searched):
        """A proof obligation / tie broke and no failing input was found."""
        self.violation({"kind": "unproved", "theorem": name},
                       "obligation %s no longer checks (%s); search found no failing input" % (name, detail),
                       {"theorem_or_correspondence": name, "detail": detail, "searched": searched})


class BuildError(Exception):
    pass


def _vo_fresh(t):
    vo = os.path.join(COQDIR, t)
    return os.path.exists(vo) and os.path.getmtime(vo) >= os.path.getmtime(vo[:-1])


def ensure_coq_makefile():
    """(Re)generate _CoqProject and Makefile when the set of .v files changed."""
    vs = sorted(os.path.relpath(p, COQDIR) for p in
                glob.glob(os.path.join(COQDIR, "**", "*.v"), recursive=True))
    content = "-Q . LV\n-arg -w -arg -all\n" + "\n".join(vs) + "\n"
    proj = os.path.join(COQDIR, "_CoqProject")
    old = open(proj).read() if os.path.exists(proj) else None
    if old != content or not os.path.exists(os.path.join(COQDIR, "Makefile")):
        with open(proj, "w") as f:
            f.write(content)
        sh(["coq_makefile", "-f", "_CoqProject", "-o", "Makefile"], cwd=COQDIR, check=True)


def load_known():
    """known_findings.json plus known_findings.d/*.json (same format), merged."""
    out = []
    paths = [os.path.join(VERIF, "known_findings.json")]
    paths += sorted(glob.glob(os.path.join(VERIF, "known_findings.d", "*.json")))
    for p in paths:
        if os.path.exists(p):
            out += json.load(open(p))["findings"]
    return out


def match_known(prop, sig, known):
    for k in known:
        if k.get("status") != "known":
            continue
        if prop not in k.get("properties", [k.get("property")]):
            continue
        m = k["match"]
        if all(sig.get(a) == b for a, b in m.items()):
            return k
    return None


def asan_signature(stderr):
    """Normalise a sanitizer report to (error kind, top libvna frame)."""
    kind = None
    m = re.search(r"ERROR: AddressSanitizer: ([a-zA-Z0-9-]+)", stderr)
    if m:
        kind = m.group(1)
    elif "runtime error:" in stderr:
        m = re.search(r"runtime error: (.*)", stderr)
        kind = "ub:" + re.sub(r"0x[0-9a-f]+|\d+", "N", m.group(1))[:60]
    elif "LeakSanitizer" in stderr:
        kind = "leak"
    if kind is None:
        return None
    func = None
    for m in re.finditer(r"#\d+ 0x[0-9a-f]+ in (\S+) (\S+)", stderr):
        f, loc = m.group(1), m.group(2)
        if "/src/vna" in loc or "/src/archdep" in loc:
            func = f
            break
    return {"kind": "fault", "error": kind, "function": func}


def main(argv):
    import argparse
    import importlib
    ap = argparse.ArgumentParser()
    ap.add_argument("prop")
    ap.add_argument("--tier", default=os.environ.get("VERIF_TIER", "quick"))
    ap.add_argument("--replay", default=None)
    a = ap.parse_args(argv)
    sys.path.insert(0, os.path.join(VERIF, "checks"))
    sys.path.insert(0, os.path.join(VERIF, "lib"))
    sys.path.insert(0, os.path.join(VERIF, "translate"))
    ctx = Ctx(a.prop, a.tier, a.replay)
    mod = importlib.import_module(a.prop)
    try:
        mod.run(ctx)
    except Exception as e:
        if not isinstance(e, BuildError):
            import traceback
            tb = traceback.format_exc()
            ctx.log("INTERNAL ERROR in check module:\n" + tb)
            ctx.violation({"kind": "unproved", "theorem": "check-internal-error"},
                          "the check itself failed (%s: %s); the property is not shown to hold on this tree"
                          % (type(e).__name__, str(e)[:200]),
                          {"theorem_or_correspondence": "check module raised an exception", "traceback": tb[-3000:]})
            rc = ctx.finish()
            sys.exit(rc)
        ctx.log("BUILD ERROR:", e)
        ctx.violation({"kind": "unproved", "theorem": "build"},
                      "the working tree or a harness does not build: %s" % str(e)[:300],
                      {"theorem_or_correspondence": "build of implementation/harness", "detail": str(e)})
    rc = ctx.finish()
    sys.exit(rc)
