"""C18 package G: scenarios, white-box parsing and model queries for the V-matrix machinery of
_vnacal_new_solve_simple (coq/SelfCal/VMatrixModel.v, harness/selfcal_wb_vmat.c, ocaml/drv_vmatrix.ml)
and the independent spline evaluation of the noise vectors (coq/Interp/SplineModel.v)."""
import math
import os
import random
from fractions import Fraction

import vplib
import selfcal_gen as G

TYPE_CODE = {"T8": 0, "TE10": 0, "U8": 1, "UE10": 1, "T16": 2, "U16": 3, "UE14": 4, "E12": 4}
# vnacal_type_t values as printed by the harness (vnacal.h): resolved from the scenario, not from the number


def build_wbv(ctx):
    h = os.path.join(vplib.VERIF, "harness")
    return ctx.build_harness("selfcal_wb_vmat", san=True,
                             extra=[os.path.join(h, "selfcal_wb_vmat_simple.c"), os.path.join(h, "selfcal_wb_auto.c"),
                                    os.path.join(h, "selfcal_wb_pvalue.c"), os.path.join(h, "selfcal_wb_trl.c")],
                             exclude=("vnacal_new_solve_simple.c", "vnacal_new_solve_auto.c",
                                      "vnacal_new_solve_pvalue.c", "vnacal_new_solve_trl.c"))


# ----------------------------------------------------------------------------- scenarios
def merror_line(freqs, snf, strk, vary=True):
    """noise model on the calibration grid, both vectors varying with the frequency index"""
    n = len(freqs)
    nfv = [snf * (1 + 0.5 * i if vary else 1) for i in range(n)]
    trv = [strk * (1 + 0.25 * i if vary else 1) for i in range(n)]
    if n == 1:
        return "merror 1 - %s %s" % (G.fnum(nfv[0]), G.fnum(trv[0]))
    return "merror %d - %s %s" % (n, " ".join(G.fnum(x) for x in nfv), " ".join(G.fnum(x) for x in trv))


def scen_square(rng, sid, typ, n, nf, snf, strk, noisy):
    noise = (snf, strk, random.Random(rng.getrandbits(32))) if noisy else None
    sc = G.build_general(rng, sid, typ, n, nf, 0, 0, excess=rng.choice([2, 4]), noise=noise)
    sc.cmd(merror_line(sc.freqs, snf, strk))
    sc.cmd("pvalue 1e-12")
    sc.solve()
    sc.meta.update({"family": "vmat_square", "noisy": noisy, "sigma_nf": snf, "sigma_tr": strk})
    return sc


def scen_rect(rng, sid, typ, mr, mc, nf, snf, strk, noisy=True):
    """rectangular calibration (mr x mc measurement matrix) of fully known np-port standards:
    random full S matrices and diagonal (reflect) ones; the measurements are those of a square
    network of the base type cut to mr x mc, with cells of clearly different magnitude."""
    np_ = max(mr, mc)
    base = "T8" if typ in ("T8", "TE10") else ("T16" if typ == "T16" else ("U16" if typ == "U16" else
                                                                        ("UE14" if typ in ("UE14", "E12") else "U8")))
    em = G.ErrorModel(rng, base if base in ("T8", "U8", "UE14") else base, np_, nf)
    sc = G.Scenario(sid, typ, np_, G.default_freqs(nf))
    sc.lines[1] = "cal %s %d %d %d %s" % (typ, mr, mc, nf, " ".join(G.fnum(f) for f in sc.freqs))
    sc.em = em
    nrng = random.Random(rng.getrandbits(32))

    def cut(m):
        return [[m[i][j] for j in range(mc)] for i in range(mr)]
    nfull = 6 if typ in ("T16", "U16") else 4
    nrefl = 3
    for k in range(nfull + nrefl):
        if k < nfull:
            sf = [G.rand_full_s(rng, np_) for _ in range(nf)]
        else:
            sf = [[[G.rand_reflect(rng, k + i) if i == j else 0j for j in range(np_)] for i in range(np_)]
                  for _ in range(nf)]
        names = [[("zero" if (k >= nfull and i != j) else sc.known([sf[f][i][j] for f in range(nf)]))
                  for j in range(np_)] for i in range(np_)]
        ms = [cut(em.measure(sf[f], f)) for f in range(nf)]
        if noisy:
            ms = [[[z + G.cgauss(nrng, math.sqrt(snf * snf + strk * strk * abs(z) ** 2)) for z in row] for row in m]
                  for m in ms]
        sc.add_mapped(names, ms)
    sc.cmd(merror_line(sc.freqs, snf, strk))
    sc.cmd("pvalue 1e-12")
    sc.solve()
    sc.meta.update({"family": "vmat_rect", "type": typ, "mr": mr, "mc": mc, "noisy": noisy,
                    "sigma_nf": snf, "sigma_tr": strk})
    return sc


# ----------------------------------------------------------------------------- parsing
def _fr(s):
    return None if s == "n" else Fraction(float(s))


def _cxs(tok, i, n):
    out = []
    for k in range(n):
        out.append((_fr(tok[i + 2 * k]), _fr(tok[i + 2 * k + 1])))
    return out, i + 2 * n


def _state_entry(tok, i):
    """( - | V nsys { N | P n cells }* ) starting at tok[i]"""
    if tok[i] == "-":
        return None, i + 1
    nsys = int(tok[i + 1])
    i += 2
    vs = []
    for _ in range(nsys):
        if tok[i] == "N":
            vs.append(None)
            i += 1
        else:
            n = int(tok[i + 1])
            cells, i = _cxs(tok, i + 2, n)
            vs.append(cells)
    return vs, i


def parse_wbv(out):
    """-> list of per-frequency records of the solves with the model on"""
    recs = []
    cur = None
    for line in out.splitlines():
        if not line.startswith("wbv "):
            continue
        t = line.split()
        k = t[1]
        if k == "prob":
            d = dict(x.split("=", 1) for x in t[2:])
            cur = {"findex": int(d["findex"]), "ctype": int(d["type"]), "rows": int(d["rows"]), "cols": int(d["cols"]),
                   "unknowns": int(d["unknowns"]), "nstd": int(d["nstd"]), "nsys": int(d["nsys"]),
                   "nf": Fraction(float(d["nf"])), "tr": Fraction(float(d["tr"])), "tol": Fraction(float(d["tol"])),
                   "limit": int(d["limit"]), "stds": [], "conn": {}, "szero": {}, "eqs": {}, "nov": {}, "xinit": None, "vinit": {},
                   "w": None, "events": []}
            recs.append(cur)
        elif cur is None:
            continue
        elif k == "std":
            nm = int(t[4])
            m, i = _cxs(t, 5, nm)
            assert t[i] == "s"
            ns = int(t[i + 1])
            i += 2
            s = []
            for _ in range(ns):
                kn = int(t[i])
                v, i = _cxs(t, i + 1, 1)
                s.append((kn, v[0]))
            cur["stds"].append((m, s))
        elif k in ("conn", "szero"):
            cur[k][int(t[2])] = [int(x) for x in t[4:4 + int(t[3])]]
        elif k == "eq":
            s, std, row, col, n = (int(x) for x in t[2:7])
            terms = [tuple(int(x) for x in t[7 + 5 * j: 12 + 5 * j]) for j in range(n)]
            cur["eqs"].setdefault(s, []).append((std, row, col, terms))
        elif k == "nov":
            s, kq, n = int(t[2]), int(t[3]), int(t[4])
            cur["nov"].setdefault(s, []).append([tuple(int(x) for x in t[5 + 4 * j: 9 + 4 * j]) for j in range(n)])
        elif k == "xinit":
            cur["xinit"], _ = _cxs(t, 3, int(t[2]))
        elif k == "vst":
            entry, _ = _state_entry(t, 4)
            if t[2] == "init":
                cur["vinit"][int(t[3])] = entry
            else:
                cur["events"][-1]["state"][int(t[3])] = entry
        elif k == "w":
            cur["w"] = [Fraction(float(x)) for x in t[3:3 + int(t[2])]]
        elif k == "solve":
            cur["events"].append({"kind": "solve", "how": t[2], "m": int(t[3]), "n": int(t[4])})
        elif k in ("A", "b"):
            cells, _ = _cxs(t, 4, int(t[2]) * int(t[3]))
            cur["events"][-1][k] = cells
        elif k == "x":
            n = int(t[2])
            cur["events"][-1]["x"], i = _cxs(t, 3, n)
            cur["events"][-1]["tail"] = t[i]
        elif k == "upd":
            d = dict(x.split("=", 1) for x in t[2:])
            cur["events"].append({"kind": "upd", "sindex": int(d["sindex"]), "rc": int(d["rc"]), "state": {}})
    return recs


# ----------------------------------------------------------------------------- model text
def qs(x):
    if x is None:
        return "0"
    x = Fraction(x)
    return "%d/%d" % (x.numerator, x.denominator) if x.denominator != 1 else "%d" % x.numerator


def cx(z):
    return "%s %s" % (qs(z[0]), qs(z[1]))


def prob_text(rec, tcode, with_noise=True, only=None):
    """only = {sindex: [equation numbers]}: the systems reduced to these equations (in this order)"""
    p = ["%d %d %d %d" % (tcode, rec["rows"], rec["cols"], rec["unknowns"])]
    p.append("%s %s" % (qs(rec["nf"]), qs(rec["tr"])) if with_noise else "-")
    p.append(str(len(rec["stds"])))
    for m, s in rec["stds"]:
        p.append("%d %s" % (len(m), " ".join(cx(z) for z in m)))
        p.append("%d %s" % (len(s), " ".join("%d %s" % (kn, cx(v)) for kn, v in s)))
    p.append(str(rec["nsys"]))
    for s in range(rec["nsys"]):
        eqs = rec["eqs"].get(s, [])
        if only is not None:
            eqs = [eqs[i] for i in only.get(s, [])]
        p.append(str(len(eqs)))
        for std, row, col, terms in eqs:
            p.append("%d %d %d %d %s" % (std, row, col, len(terms),
                                         " ".join("%d %d %d %d %d" % tm for tm in terms)))
    return " ".join(p)


def round_state(st):
    """every cell rounded to binary64 (keeps the exact rationals of the model short)"""
    return [None if vv is None else [None if m is None else [(Fraction(float(a)), Fraction(float(b))) for a, b in m]
                                    for m in vv] for vv in st]


def state_text(st):
    p = [str(len(st))]
    for vv in st:
        if vv is None:
            p.append("-")
            continue
        p.append("V %d" % len(vv))
        for m in vv:
            if m is None:
                p.append("N")
            else:
                p.append("P %d %s" % (len(m), " ".join(cx(z) for z in m)))
    return " ".join(p)


def parse_state(tok, i=0):
    n = int(tok[i])
    i += 1
    st = []
    for _ in range(n):
        e, i = _state_entry_q(tok, i)
        st.append(e)
    return st


def _q(s):
    return Fraction(s)


def _state_entry_q(tok, i):
    if tok[i] == "-":
        return None, i + 1
    nsys = int(tok[i + 1])
    i += 2
    vs = []
    for _ in range(nsys):
        if tok[i] == "N":
            vs.append(None)
            i += 1
        else:
            n = int(tok[i + 1])
            i += 2
            cells = [(_q(tok[i + 2 * k]), _q(tok[i + 2 * k + 1])) for k in range(n)]
            i += 2 * n
            vs.append(cells)
    return vs, i


def rsqrt_table(rec):
    """radicand nf^2 + tr^2 |m|^2 of EVERY measured cell of every standard, as the model computes it
    (N m * (tr * tr) + nf * nf), with 1 / sqrt answered in binary64"""
    tab = {}
    for m, _ in rec["stds"]:
        for re_, im_ in m:
            if re_ is None or im_ is None:
                continue
            rad = (re_ * re_ + im_ * im_) * (rec["tr"] * rec["tr"]) + rec["nf"] * rec["nf"]
            if rad > 0:
                tab[rad] = Fraction(1.0 / math.sqrt(float(rad)))
    return "%d %s" % (len(tab), " ".join("%s %s" % (qs(a), qs(b)) for a, b in tab.items()))


def cabs(z):
    return math.hypot(float(z[0]), float(z[1]))


def cdiff(a, b):
    return math.hypot(float(a[0] - b[0]), float(a[1] - b[1]))


def state_close(a, b, tol):
    """same shape, every existing matrix within tol * (1 + max |cell|); returns (ok, worst)"""
    worst = 0.0
    if len(a) != len(b):
        return False, float("inf")
    for va, vb in zip(a, b):
        if (va is None) != (vb is None):
            return False, float("inf")
        if va is None:
            continue
        if len(va) != len(vb):
            return False, float("inf")
        for ma, mb in zip(va, vb):
            if (ma is None) != (mb is None):
                return False, float("inf")
            if ma is None:
                continue
            if len(ma) != len(mb) or any(z[0] is None or z[1] is None for z in ma):
                return False, float("inf")
            scale = 1.0 + max(cabs(z) for z in mb)
            worst = max(worst, max(cdiff(x, y) for x, y in zip(ma, mb)) / scale)
    return worst <= tol, worst


# ----------------------------------------------------------------------------- spline oracle text
def spline_query(min_dx, xs, ys, qsv):
    f = lambda v: qs(Fraction(v))
    return "vspline %s %d %s %s %d %s" % (f(min_dx), len(xs), " ".join(f(v) for v in xs), " ".join(f(v) for v in ys),
                                          len(qsv), " ".join(f(v) for v in qsv))


# ----------------------------------------------------------------------------- exact complex inverse (table for vupdt)
def _cmul(a, b):
    return (a[0] * b[0] - a[1] * b[1], a[0] * b[1] + a[1] * b[0])


def _csub(a, b):
    return (a[0] - b[0], a[1] - b[1])


def _cdiv(a, b):
    n = b[0] * b[0] + b[1] * b[1]
    return ((a[0] * b[0] + a[1] * b[1]) / n, (a[1] * b[0] - a[0] * b[1]) / n)


def cinverse(cells, n):
    """exact inverse of an n x n matrix of complex rationals (flat list); None when singular"""
    one, zero = (Fraction(1), Fraction(0)), (Fraction(0), Fraction(0))
    a = [[cells[i * n + j] for j in range(n)] + [one if i == j else zero for j in range(n)] for i in range(n)]
    for c in range(n):
        p = next((i for i in range(c, n) if a[i][c] != zero), None)
        if p is None:
            return None
        a[c], a[p] = a[p], a[c]
        pv = a[c][c]
        a[c] = [_cdiv(z, pv) for z in a[c]]
        for i in range(n):
            if i != c and a[i][c] != zero:
                f = a[i][c]
                a[i] = [_csub(z, _cmul(f, w)) for z, w in zip(a[i], a[c])]
    return [a[i][n + j] for i in range(n) for j in range(n)]


def parse_vvi(line):
    t = line.split()
    n = int(t[1])
    i = 2
    out = []
    for _ in range(n):
        k = int(t[i])
        i += 1
        out.append([(Fraction(t[i + 2 * j]), Fraction(t[i + 2 * j + 1])) for j in range(k)])
        i += 2 * k
    return out


# ----------------------------------------------------------------------------- C17: the solve state between frequencies
def v_reinit_failures(ctx, rng, ncases=4):
    """Scenarios with the noise model on, over-determined, three frequencies, standards that couple
    the ports, noisy data: the V matrices at the start of EVERY frequency must be those of
    VMatrixModel.init_v_matrices (identity), i.e. a frequency is solved as if it were alone.
    Returns (number of frequency starts compared, list of (scenario, detail))."""
    wbv = build_wbv(ctx)
    drv = ctx.ocaml_driver("drv_vmatrix")
    fails = []
    n = 0
    kinds = [("T8", 2), ("U8", 2), ("UE14", 2), ("TE10", 2), ("E12", 2), ("UE10", 2)]
    for k in range(ncases):
        typ, np_ = kinds[k % len(kinds)]
        sc = scen_square(rng, "g17_%d_%s" % (k, typ), typ, np_, 3, 1e-3, 5e-2, True)
        rc, out, err = vplib.sh([wbv], input=sc.text(), timeout=120, env=G.run_env(ctx, True))
        recs = parse_wbv(out)
        if not recs:
            fails.append((sc, "no white-box record (rc %d): %s" % (rc, err[-300:])))
            continue
        for fr in recs:
            P = prob_text(fr, TYPE_CODE[typ])
            rc2, o, e2 = vplib.sh([drv], input="vinit " + P + "\n", timeout=120)
            st = parse_state(o.split()[1:])
            vc = [fr["vinit"].get(i) for i in range(fr["nstd"])]
            ok, worst = state_close(vc, st, 0.0)
            n += 1
            if not ok:
                fails.append((sc, "%s: at the start of frequency index %d the V matrices of the solve state are not the "
                                  "identity matrices a single-frequency solve starts from (largest cell difference %.3g): the "
                                  "result at this frequency depends on the frequencies solved before it"
                              % (sc.sid, fr["findex"], worst)))
                break
    return n, fails


# ----------------------------------------------------------------------------- column systems that are not equally determined
def scen_unequal(rng, sid, typ, n, ks, nf, snf, strk, noisy):
    """UE14 / E12 with n columns: a through between every pair of ports and ks[p] single reflects on port
    p + 1.  A reflect on port p adds one equation to the system of column p only, so the column systems
    have DIFFERENT equation counts: with 2 n + 1 unknowns per column, a column is exactly determined
    or over-determined depending on its own ks[p] -- in any orientation (which columns are the
    over-determined ones is the caller's choice).  With the noise model on, _vnacal_new_solve_init
    allocates a V matrix for the over-determined columns only."""
    em = G.ErrorModel(rng, typ, n, nf)
    sc = G.Scenario(sid, typ, n, G.default_freqs(nf))
    sc.em = em
    nrng = random.Random(rng.getrandbits(32))

    def meas(full):
        ms = [em.measure(full, f) for f in range(nf)]
        if noisy:
            ms = [[[z + G.cgauss(nrng, math.sqrt(snf * snf + strk * strk * abs(z) ** 2)) for z in row] for row in m]
                  for m in ms]
        return ms
    for p in range(1, n + 1):
        for q in range(p + 1, n + 1):
            sc.add_through(p, q, meas(G._embed(n, (p, q), [[0, 1], [1, 0]], rng)))
    for p in range(1, n + 1):
        for k in range(ks[p - 1]):
            g = G.rand_reflect(rng, k)
            sc.add_single(sc.known([g] * nf), p, meas(G._embed(n, (p,), [[g]], rng)))
    sc.cmd(merror_line(sc.freqs, snf, strk))
    sc.cmd("pvalue 1e-12")
    sc.solve()
    sc.meta.update({"family": "vmat_unequal", "type": typ, "n": n, "ks": list(ks), "noisy": noisy,
                    "sigma_nf": snf, "sigma_tr": strk})
    return sc
