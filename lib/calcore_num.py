"""Exact ties of the numeric calibration models (coq/Cal/ApplyModel.v, SolveSimple.v at the Gaussian
rationals, extracted to ocaml/drv_calcore2) with the library: inputs are small dyadic rationals for
which every intermediate value of the C code is exact in binary64, so the matrices are compared as
exact rationals; only results of the LU / QR solvers are compared with a tolerance."""
import os
import random
from fractions import Fraction

import vplib
import calcore
from calcore import TYPE_CODE, TYPES, is_t, is_col, dims_allowed


def fs(x):
    x = Fraction(x)
    return "%d/%d" % (x.numerator, x.denominator) if x.denominator != 1 else str(x.numerator)


def dy(rng, k=16, den=8):
    return Fraction(rng.randint(-k, k), den)


def cdy(rng, k=16, den=8):
    return (dy(rng, k, den), dy(rng, k, den))


def hexc(c):
    return "%s %s" % (float(c[0]).hex(), float(c[1]).hex())


def ratc(c):
    return "%s %s" % (fs(c[0]), fs(c[1]))


def parse_hex_complex(tokens):
    v = [Fraction(float.fromhex(t)) for t in tokens]
    return [(v[i], v[i + 1]) for i in range(0, len(v), 2)]


def parse_hex_complex_opt(tokens):
    """None when a value is not finite (the solvers return NaN / inf for an exactly singular system)"""
    import math
    f = [float.fromhex(t) for t in tokens]
    if not all(math.isfinite(x) for x in f):
        return None
    v = [Fraction(x) for x in f]
    return [(v[i], v[i + 1]) for i in range(0, len(v), 2)]


def parse_rat_complex(tokens):
    v = [Fraction(t) for t in tokens]
    return [(v[i], v[i + 1]) for i in range(0, len(v), 2)]


def n_terms(typ, r, c):
    if typ == "E12":
        return 3 * r * c
    offs, sizes, nt, nel = calcore.layout(typ, r, c)
    return (c * nt if typ == "UE14" else nt) + nel


UNITS = [(1, 0), (-1, 0), (0, 1), (0, -1)]


def gen_apply_case(rng, typ, r, c):
    """error terms near the ideal VNA (so that the final divide is well conditioned), all dyadic"""
    p = max(r, c)
    ne = n_terms(typ, r, c)
    e = [cdy(rng, 3, 8) for _ in range(ne)]

    def near_one():
        return (1 + dy(rng, 2, 8), dy(rng, 2, 8))
    if typ == "E12":
        for col in range(c):
            for i in range(r):
                u = rng.choice(UNITS)
                s = Fraction(rng.choice([1, 2, 1]), rng.choice([1, 2]))
                e[col * 3 * r + r + i] = (u[0] * s, u[1] * s)          # er: unit times a power of two
    else:
        offs, sizes, nt, nel = calcore.layout(typ, r, c)
        full = typ in ("T16", "U16")
        # the blocks that are the identity for the ideal VNA: Ts, Tm / Um, Us
        ident_blocks = [0, 3]
        for col in range(c if typ == "UE14" else 1):
            base = col * nt
            for bi in ident_blocks:
                n = sizes[bi]
                if full:
                    rows = r if (bi == 0 and is_t(typ)) else (c if is_t(typ) else p)
                    cols = n // rows
                    for i in range(rows):
                        for j in range(cols):
                            if i == j:
                                e[base + offs[bi] + i * cols + j] = near_one()
                else:
                    for i in range(n):
                        e[base + offs[bi] + i] = near_one()
    m = [cdy(rng, 6, 8) for _ in range(p * p)]
    return e, m


def apply_tie(ctx, ncases):
    import concurrent.futures
    drv = calcore.model_driver(ctx, "drv_calcore2")
    exe = ctx.build_harness("calcore_apply", san=True, exclude=("vnacal_apply.c",))
    rng = random.Random(ctx.rng.getrandbits(64))
    cases = []
    shapes = {}
    for typ in TYPES:
        shapes[typ] = [(n, n) for n in range(1, 5)] + ([(1, 2)] if is_t(typ) else [(2, 1)])
        others = [(r, c) for r in range(1, 5) for c in range(1, 5) if dims_allowed(typ, r, c) and (r, c) not in shapes[typ]]
        for k in range(ncases):
            for (r, c) in shapes[typ]:
                cases.append((typ, r, c) + gen_apply_case(rng, typ, r, c))
        for (r, c) in others:
            cases.append((typ, r, c) + gen_apply_case(rng, typ, r, c))
    cin = "\n".join("%d %d %d %d %s %d %s" % (TYPE_CODE[t], r, c, len(e), " ".join(hexc(x) for x in e), len(m),
                                              " ".join(hexc(x) for x in m)) for t, r, c, e, m in cases) + "\n"
    min_ = "\n".join("apply %d %d %d %d %s %d %s" % (TYPE_CODE[t], r, c, len(e), " ".join(ratc(x) for x in e), len(m),
                                                     " ".join(ratc(x) for x in m)) for t, r, c, e, m in cases) + "\n"
    rc, cout, cerr = vplib.sh([exe], input=cin, timeout=300, env=ctx.run_env())
    if rc != 0:
        sig = vplib.asan_signature(cerr) or {"kind": "fault", "error": "exit %d" % rc, "function": None}
        ctx.violation(sig, "apply harness stopped: " + (cerr.strip().split("\n") or [""])[0][:200], {"stderr": cerr[-3000:]})
        ctx.obligation("tie:ApplyModel vs fill_* / vnacal_apply_m (exact A, B)", False, "harness stopped")
        return
    rc, mout, merr = vplib.sh([drv], input=min_, timeout=600)
    if rc != 0:
        raise vplib.BuildError("drv_calcore2 failed: " + merr[-300:])
    cl = cout.strip().split("\n")
    ml = mout.strip().split("\n")
    bad = None
    exact = solved = refused = 0
    worst = 0.0
    for k, (t, r, c, e, m) in enumerate(cases):
        ctx.count()
        fline, aline, mline = cl[2 * k].split(), cl[2 * k + 1].split(), ml[k].split()
        p = max(r, c)
        where = "%s %dx%d" % (t, r, c)
        if mline[1] == "refused":
            if fline[1] != "refused" or "rc=-1" not in aline or "errno=EINVAL" not in aline:
                bad = bad or (where, "model refuses the shape, library: %s / %s" % (" ".join(fline[:2]), " ".join(aline[:3])), k)
            refused += 1
            continue
        if mline[1] == "assert" or fline[1] == "refused":
            bad = bad or (where, "model %s, library %s" % (mline[1], fline[1]), k)
            continue
        n2 = 2 * p * p
        ca = parse_hex_complex(fline[2:2 + n2])
        cb = parse_hex_complex(fline[3 + n2:3 + 2 * n2])
        ia = mline.index("a")
        ma = parse_rat_complex(mline[ia + 1:ia + 1 + n2])
        mb = parse_rat_complex(mline[ia + 2 + n2:ia + 2 + 2 * n2])
        if ca != ma or cb != mb:
            idx = [i for i in range(p * p) if ca[i] != ma[i]] or [i for i in range(p * p) if cb[i] != mb[i]]
            which = "A" if ca != ma else "B"
            i = idx[0]
            cv, mv = (ca[i], ma[i]) if which == "A" else (cb[i], mb[i])
            bad = bad or (where, "%s[%d][%d]: library %s, model %s" % (which, i // p, i % p, [str(x) for x in cv], [str(x) for x in mv]), k)
            continue
        exact += 1
        if mline[1] == "ok":
            ms = [complex(float(x), float(y)) for x, y in parse_rat_complex(mline[mline.index("s") + 1:])]
            scale = max([abs(x) for x in ms] + [1.0])
            if scale > 1e4:
                continue        # ill-conditioned draw: the divide is not compared
            if "rc=0" not in aline:
                bad = bad or (where, "model solves (|S| <= %.3g), library: %s" % (scale, " ".join(aline[:3])), k)
                continue
            cs = [complex(float(x), float(y)) for x, y in parse_hex_complex(aline[aline.index("s") + 1:])]
            d = max(abs(x - y) for x, y in zip(ms, cs)) / scale
            worst = max(worst, d)
            if not d <= 1e-9:
                bad = bad or (where, "S differs from the model's LU solution by %.3g" % d, k)
                continue
            solved += 1
        ctx.nontrivial.add(("apply", k))
    ctx.traces_validated += exact
    ctx.extra["apply_tie_cases"] = len(cases)
    ctx.extra["apply_tie_exact_AB"] = exact
    ctx.extra["apply_tie_S_compared"] = solved
    ctx.extra["apply_tie_refused_shapes"] = refused
    ctx.extra["apply_tie_worst_S_rel_diff"] = worst
    ctx.obligation("tie:ApplyModel vs fill_* / vnacal_apply_m (exact A, B; S vs LuModel)", bad is None,
                   "" if bad is None else "%s: %s" % (bad[0], bad[1]))
    if bad is not None:
        t, r, c, e, m = cases[bad[2]]
        ctx.violation({"kind": "apply-tie", "type": t, "rows": r, "cols": c},
                      "fill/apply of %s: %s" % (bad[0], bad[1]),
                      {"type": t, "rows": r, "cols": c, "error_terms": [[fs(x), fs(y)] for x, y in e],
                       "m": [[fs(x), fs(y)] for x, y in m], "c_input_line": cin.split("\n")[bad[2]],
                       "how": "harness/calcore_apply.c (includes vnacal_apply.c) < line; ocaml/_build/drv_calcore2 < 'apply ...'"})


# ----------------------------------------------------------------------------- SolveSimple tie
def std_model_line(sc, st, script, handle_of):
    """the _vnacal_new_add_common arguments of a standard, in the format of ocaml/drv_calcore*.ml"""
    F = sc.F

    def tok(a, b):
        return script.param([st.S[f][a][b] for f in range(F)], sc.freqs)
    if st.fn == "sr":
        sr, scn, diag, toks = 1, 1, 1, [tok(0, 0)]
    elif st.fn == "dr":
        sr, scn, diag, toks = 2, 2, 1, [tok(0, 0), tok(1, 1)]
    elif st.fn == "th":
        sr, scn, diag, toks = 2, 2, 0, ["Z", "O", "O", "Z"]
    elif st.fn == "ln":
        sr, scn, diag, toks = 2, 2, 0, [tok(0, 0), tok(0, 1), tok(1, 0), tok(1, 1)]
    else:
        sr, scn, diag = st.srows, st.scols, 0
        toks = [tok(a, b) for a in range(sr) for b in range(scn)]
    mp = st.ports[:max(sr, scn)] if st.mapflag else []
    hs = [handle_of[t] for t in toks]
    return "add 0 0 0 %d %d %d %d %d %d %d %s %d %s" % (
        st.brows, st.bcols, sr, scn, diag, 1 if st.mapflag else 0, len(mp), " ".join(str(x) for x in mp),
        len(hs), " ".join(str(x) for x in hs))


def solve_tie(ctx, ncases):
    import concurrent.futures
    drv = calcore.model_driver(ctx, "drv_calcore2")
    exe = ctx.build_harness("calcore_solve", san=True, wrap=True, defines=["CALCORE_WRAP"],
                            exclude=("vnacal_new_solve_simple.c",))
    cases = []
    for k in range(ncases):
        rng = random.Random(ctx.rng.getrandbits(64))
        typ = TYPES[k % len(TYPES)]
        lim = 2 if typ in ("T16", "U16") else 3
        while True:
            r, c = rng.randint(1, lim), rng.randint(1, lim)
            if dims_allowed(typ, r, c):
                break
        sc = calcore.gen_scenario(rng, typ, r, c, 1, form="m", vector_prob=0.0, extras=False)
        for st in sc.stds:
            kk = len(st.S[0])
            new = [[st.S[0][a][b] if st.S[0][a][b] in (0, 1, -1) else complex(float(dy(rng)), float(dy(rng)))
                    for b in range(kk)] for a in range(kk)]
            st.S = [new]
            calcore.finish_std(rng, sc, st, sc.fill)
            st.Mfull = [[[complex(float(dy(rng)), float(dy(rng))) for _ in range(c)] for _ in range(r)]]
        cases.append(sc)

    def run_c(sc):
        s = calcore.Script()
        calcore.scenario_script(sc, script=s, do_apply=False)
        text = s.text()
        return (s, text) + calcore.run_script(ctx, exe, text)
    with concurrent.futures.ThreadPoolExecutor(max_workers=min(8, vplib.NPROC)) as ex:
        cres = list(ex.map(run_c, cases))
    # model input
    mlines = []
    meta = []
    for sc, (s, text, rc, out, err) in zip(cases, cres):
        if rc != 0:
            meta.append(None)
            continue
        handle_of = {"Z": 0, "O": 1, "S": 2}
        for ln in out.split("\n"):
            if ln.startswith("scalar "):
                p_ = ln.split()
                handle_of["p" + p_[1]] = int(p_[2].split("=")[1])
        vals = {0: (Fraction(0), Fraction(0)), 1: (Fraction(1), Fraction(0)), 2: (Fraction(-1), Fraction(0))}
        for ln in s.lines:
            if ln.startswith("scalar "):
                p_ = ln.split()
                vals[handle_of["p" + p_[1]]] = (Fraction(float.fromhex(p_[2])), Fraction(float.fromhex(p_[3])))
        code = 7 if sc.typ == "E12" else TYPE_CODE[sc.typ]
        mlines.append("cfg %d %d %d %d" % (code, sc.r, sc.c, max(handle_of.values()) + 1))
        for h, v in sorted(vals.items()):
            mlines.append("pval %d %s" % (h, ratc(v)))
        s2 = calcore.Script()
        s2.cache = dict(s.cache)
        s2.npar = s.npar
        for st in sc.stds:
            mv = " ".join(ratc((Fraction(st.Mfull[0][i][j].real), Fraction(st.Mfull[0][i][j].imag)))
                          for i in range(sc.r) for j in range(sc.c))
            mlines.append(std_model_line(sc, st, s2, handle_of) + " %d %s" % (sc.r * sc.c, mv))
        mlines.append("system")
        meta.append(True)
    rc, mout, merr = vplib.sh([drv], input="\n".join(mlines) + "\n", timeout=1200)
    if rc != 0:
        raise vplib.BuildError("drv_calcore2 failed: " + merr[-300:])
    blocks = mout.split("endsystem\n")
    bad = None
    bi = 0
    nexact = ntol = nx = ne = nill = 0
    worst_x = worst_e = 0.0
    for ci, (sc, (s, text, rc, out, err)) in enumerate(zip(cases, cres)):
        ctx.count()
        where = "%s %dx%d" % (sc.typ, sc.r, sc.c)
        if meta[ci] is None:
            sig = vplib.asan_signature(err) or {"kind": "fault", "error": "exit %d" % rc, "function": None}
            ctx.violation(sig, "solve harness stopped on %s: %s" % (where, (err.strip().split("\n") or [""])[0][:200]),
                          {"script": text[:100000], "stderr": err[-3000:]})
            bad = bad or (where, "harness stopped", ci)
            continue
        blk = blocks[bi].split("\n")
        bi += 1
        if any(l.startswith("add ") and l != "add rc=0" for l in blk):
            bad = bad or (where, "model refuses a standard the library accepts: %s" % [l for l in blk if l.startswith("add ") and l != "add rc=0"][0], ci)
            continue
        # model systems
        msys = []
        cur = None
        mE = None
        for l in blk:
            p_ = l.split()
            if not p_:
                continue
            if p_[0] == "SYS":
                cur = {"status": p_[2], "rows": [], "x": None}
                msys.append(cur)
            elif p_[0] == "R":
                bar = p_.index("|")
                cur["rows"].append((parse_rat_complex(p_[1:bar]), parse_rat_complex(p_[bar + 1:])[0]))
            elif p_[0] == "X":
                cur["x"] = parse_rat_complex(p_[1:])
            elif p_[0] == "E" and p_[1] != "none":
                mE = parse_rat_complex(p_[1:])
        csys = []
        cE = None
        for l in out.split("\n"):
            p_ = l.split()
            if not p_:
                continue
            if p_[0] == "SYS":
                m_, n_ = int(p_[2]), int(p_[3])
                a = parse_hex_complex(p_[5:5 + 2 * m_ * n_])
                b = parse_hex_complex(p_[6 + 2 * m_ * n_:6 + 2 * m_ * n_ + 2 * m_])
                csys.append({"m": m_, "n": n_, "a": a, "b": b, "x": None})
            elif p_[0] == "X" and csys:
                csys[-1]["x"] = parse_hex_complex_opt(p_[2:])
            elif p_[0] == "E" and len(p_) > 2:
                cE = parse_hex_complex_opt(p_[2:])
        exact_type = not calcore.has_leak(sc.typ)
        problem = None
        illc = False
        for k, cs in enumerate(csys):
            if k >= len(msys):
                problem = "library assembled more systems than the model"
                break
            ms_ = msys[k]
            if len(ms_["rows"]) != cs["m"]:
                problem = "system %d: library has %d equations, model %d" % (k, cs["m"], len(ms_["rows"]))
                break
            for i, (ra, rb) in enumerate(ms_["rows"]):
                crow = cs["a"][i * cs["n"]:(i + 1) * cs["n"]]
                pairs = list(zip(crow, ra)) + [(cs["b"][i], rb)]
                for j, (cv, mv_) in enumerate(pairs):
                    if cv == mv_:
                        continue
                    d = abs(complex(float(cv[0] - mv_[0]), float(cv[1] - mv_[1])))
                    if exact_type or d > 1e-12:
                        problem = "system %d, equation %d, %s: library %s, model %s" % (
                            k, i, ("column %d" % j) if j < cs["n"] else "right-hand side",
                            [str(x) for x in cv], [str(x) for x in mv_])
                        break
                if problem:
                    break
            if problem:
                break
            if exact_type:
                nexact += 1
            else:
                ntol += 1
            if ms_["x"] is not None and cs["x"] is not None:
                mx = [complex(float(a_), float(b_)) for a_, b_ in ms_["x"]]
                cx_ = [complex(float(a_), float(b_)) for a_, b_ in cs["x"]]
                scale = max([abs(v) for v in mx] + [1.0])
                if scale < 1e3 and len(mx) == len(cx_):
                    d = max(abs(u - v) for u, v in zip(mx, cx_)) / scale
                    if d > 1e-7:
                        # ill-conditioned draw?  LU with pivoting / QR are backward stable: the library's x
                        # must satisfy the normal equations A^H (A x - b) = 0 of the exact system to rounding
                        ra = [[complex(float(a_), float(b_)) for a_, b_ in row[0]] for row in ms_["rows"]]
                        rb = [complex(float(row[1][0]), float(row[1][1])) for row in ms_["rows"]]
                        res = [sum(a_ * x_ for a_, x_ in zip(r_, cx_)) - b_ for r_, b_ in zip(ra, rb)]
                        grad = [sum(r_[j].conjugate() * e_ for r_, e_ in zip(ra, res)) for j in range(len(cx_))]
                        na = sum(abs(a_) ** 2 for r_ in ra for a_ in r_) ** 0.5
                        den = na * na * max(abs(v) for v in cx_) + na * max([abs(b_) for b_ in rb] + [0.0]) + 1e-300
                        if max(abs(g_) for g_ in grad) / den <= 1e-10:
                            nill += 1
                            illc = True
                            continue
                        problem = "system %d: solution differs from the model's exact LU / least-squares solution by %.3g" % (k, d)
                        break
                    worst_x = max(worst_x, d)
                    nx += 1
        if problem is None and len(csys) < len([m_ for m_ in msys]) and all(m_["status"] in ("ok", "rows") for m_ in msys):
            problem = "library assembled %d systems, model %d" % (len(csys), len(msys))
        if problem is None and mE is not None and cE is not None and not illc:
            me = [complex(float(a_), float(b_)) for a_, b_ in mE]
            ce = [complex(float(a_), float(b_)) for a_, b_ in cE]
            scale = max([abs(v) for v in me] + [1.0])
            if len(me) != len(ce):
                problem = "saved error-term vector has %d entries, model %d" % (len(ce), len(me))
            elif scale < 1e3:
                d = max(abs(u - v) for u, v in zip(me, ce)) / scale
                worst_e = max(worst_e, d)
                if d > 1e-7:
                    problem = "saved error terms differ from the model's (unity / leakage / E12 conversion) by %.3g" % d
                else:
                    ne += 1
        if problem:
            bad = bad or (where, problem, ci)
        else:
            ctx.nontrivial.add(("solve", ci))
    ctx.traces_validated += nexact + ntol
    ctx.extra["solve_tie_cases"] = len(cases)
    ctx.extra["solve_tie_systems_exact"] = nexact
    ctx.extra["solve_tie_systems_1e-12 (leakage mean divided)"] = ntol
    ctx.extra["solve_tie_solutions_compared"] = nx
    ctx.extra["solve_tie_solutions_ill_conditioned_skipped"] = nill
    ctx.extra["solve_tie_error_term_vectors_compared"] = ne
    ctx.extra["solve_tie_worst_x_rel_diff"] = worst_x
    ctx.extra["solve_tie_worst_e_rel_diff"] = worst_e
    ok = bad is None and (nexact + ntol) > 0
    ctx.obligation("tie:SolveSimple vs a_matrix/b_vector of _vnacal_new_solve_simple (exact) and saved terms", ok,
                   "" if bad is None else "%s: %s" % (bad[0], bad[1]))
    if bad is not None and not any(v.what.startswith("solve harness") for v in ctx.violations):
        sc = cases[bad[2]]
        ctx.violation({"kind": "solve-tie", "type": sc.typ, "rows": sc.r, "cols": sc.c},
                      "assembly/solve of %s: %s" % (bad[0], bad[1]),
                      {"scenario": calcore.describe(sc), "script": cres[bad[2]][1][:100000],
                       "how": "harness/calcore_solve.c < script; ocaml/_build/drv_calcore2 < cfg/pval/add/system lines"})
