"""Exact ties of the numeric calibration models (coq/Cal/ApplyModel.v, SolveSimple.v at the Gaussian
rationals, extracted to ocaml/drv_calcore2) with the library: inputs are small dyadic rationals for
which every intermediate value of the C code is exact in binary64, so the matrices are compared as
exact rationals; only results of the LU / QR solvers are compared with a tolerance."""
import os
import random
from fractions import Fraction

import vplib
import calcore
from calcore import TYPE_CODE, TYPES, is_t, is_col, dims_allowed


def fs(x):
    x = Fraction(x)
    return "%d/%d" % (x.numerator, x.denominator) if x.denominator != 1 else str(x.numerator)


def dy(rng, k=16, den=8):
    return Fraction(rng.randint(-k, k), den)


def cdy(rng, k=16, den=8):
    return (dy(rng, k, den), dy(rng, k, den))


def hexc(c):
    return "%s %s" % (float(c[0]).hex(), float(c[1]).hex())


def ratc(c):
    return "%s %s" % (fs(c[0]), fs(c[1]))


def parse_hex_complex(tokens):
    v = [Fraction(float.fromhex(t)) for t in tokens]
    return [(v[i], v[i + 1]) for i in range(0, len(v), 2)]


def parse_hex_complex_opt(tokens):
    """None when a value is not finite (the solvers return NaN / inf for an exactly singular system)"""
    import math
    f = [float.fromhex(t) for t in tokens]
    if not all(math.isfinite(x) for x in f):
        return None
    v = [Fraction(x) for x in f]
    return [(v[i], v[i + 1]) for i in range(0, len(v), 2)]


def parse_rat_complex(tokens):
    v = [Fraction(t) for t in tokens]
    return [(v[i], v[i + 1]) for i in range(0, len(v), 2)]


def n_terms(typ, r, c):
    if typ == "E12":
        return 3 * r * c
    offs, sizes, nt, nel = calcore.layout(typ, r, c)
    return (c * nt if typ == "UE14" else nt) + nel


UNITS = [(1, 0), (-1, 0), (0, 1), (0, -1)]


def gen_apply_case(rng, typ, r, c):
    """error terms near the ideal VNA (so that the final divide is well conditioned), all dyadic"""
    p = max(r, c)
    ne = n_terms(typ, r, c)
    e = [cdy(rng, 3, 8) for _ in range(ne)]

    def near_one():
        return (1 + dy(rng, 2, 8), dy(rng, 2, 8))
    if typ == "E12":
        for col in range(c):
            for i in range(r):
                u = rng.choice(UNITS)
                s = Fraction(rng.choice([1, 2, 1]), rng.choice([1, 2]))
                e[col * 3 * r + r + i] = (u[0] * s, u[1] * s)          # er: unit times a power of two
    else:
        offs, sizes, nt, nel = calcore.layout(typ, r, c)
        full = typ in ("T16", "U16")
        # the blocks that are the identity for the ideal VNA: Ts, Tm / Um, Us
        ident_blocks = [0, 3]
        for col in range(c if typ == "UE14" else 1):
            base = col * nt
            for bi in ident_blocks:
                n = sizes[bi]
                if full:
                    rows = r if (bi == 0 and is_t(typ)) else (c if is_t(typ) else p)
                    cols = n // rows
                    for i in range(rows):
                        for j in range(cols):
                            if i == j:
                                e[base + offs[bi] + i * cols + j] = near_one()
                else:
                    for i in range(n):
                        e[base + offs[bi] + i] = near_one()
    m = [cdy(rng, 6, 8) for _ in range(p * p)]
    return e, m


def apply_tie(ctx, ncases):
    import concurrent.futures
    drv = calcore.model_driver(ctx, "drv_calcore2")
    exe = ctx.build_harness("calcore_apply", san=True, exclude=("vnacal_apply.c",))
    rng = random.Random(ctx.rng.getrandbits(64))
    cases = []
    shapes = {}
    for typ in TYPES:
        shapes[typ] = [(n, n) for n in range(1, 5)] + ([(1, 2)] if is_t(typ) else [(2, 1)])
        others = [(r, c) for r in range(1, 5) for c in range(1, 5) if dims_allowed(typ, r, c) and (r, c) not in shapes[typ]]
        for k in range(ncases):
            for (r, c) in shapes[typ]:
                cases.append((typ, r, c) + gen_apply_case(rng, typ, r, c))
        for (r, c) in others:
            cases.append((typ, r, c) + gen_apply_case(rng, typ, r, c))
    cin = "\n".join("%d %d %d %d %s %d %s" % (TYPE_CODE[t], r, c, len(e), " ".join(hexc(x) for x in e), len(m),
                                              " ".join(hexc(x) for x in m)) for t, r, c, e, m in cases) + "\n"
    min_ = "\n".join("apply %d %d %d %d %s %d %s" % (TYPE_CODE[t], r, c, len(e), " ".join(ratc(x) for x in e), len(m),
                                                     " ".join(ratc(x) for x in m)) for t, r, c, e, m in cases) + "\n"
    rc, cout, cerr = vplib.sh([exe], input=cin, timeout=300, env=ctx.run_env())
    if rc != 0:
        sig = vplib.asan_signature(cerr) or {"kind": "fault", "error": "exit %d" % rc, "function": None}
        ctx.violation(sig, "apply harness stopped: " + (cerr.strip().split("\n") or [""])[0][:200], {"stderr": cerr[-3000:]})
        ctx.obligation("tie:ApplyModel vs fill_* / vnacal_apply_m (exact A, B)", False, "harness stopped")
        return
    rc, mout, merr = vplib.sh([drv], input=min_, timeout=600)
    if rc != 0:
        raise vplib.BuildError("drv_calcore2 failed: " + merr[-300:])
    cl = cout.strip().split("\n")
    ml = mout.strip().split("\n")
    bad = None
    exact = solved = refused = 0
    worst = 0.0
    for k, (t, r, c, e, m) in enumerate(cases):
        ctx.count()
        fline, aline, mline = cl[2 * k].split(), cl[2 * k + 1].split(), ml[k].split()
        p = max(r, c)
        where = "%s %dx%d" % (t, r, c)
        if mline[1] == "refused":
            if fline[1] != "refused" or "rc=-1" not in aline or "errno=EINVAL" not in aline:
                bad = bad or (where, "model refuses the shape, library: %s / %s" % (" ".join(fline[:2]), " ".join(aline[:3])), k)
            refused += 1
            continue
        if mline[1] == "assert" or fline[1] == "refused":
            bad = bad or (where, "model %s, library %s" % (mline[1], fline[1]), k)
            continue
        n2 = 2 * p * p
        ca = parse_hex_complex(fline[2:2 + n2])
        cb = parse_hex_complex(fline[3 + n2:3 + 2 * n2])
        ia = mline.index("a")
        ma = parse_rat_complex(mline[ia + 1:ia + 1 + n2])
        mb = parse_rat_complex(mline[ia + 2 + n2:ia + 2 + 2 * n2])
        if ca != ma or cb != mb:
            idx = [i for i in range(p * p) if ca[i] != ma[i]] or [i for i in range(p * p) if cb[i] != mb[i]]
            which = "A" if ca != ma else "B"
            i = idx[0]
            cv, mv = (ca[i], ma[i]) if which == "A" else (cb[i], mb[i])
            bad = bad or (where, "%s[%d][%d]: library %s, model %s" % (which, i // p, i % p, [str(x) for x in cv], [str(x) for x in mv]), k)
            continue
        exact += 1
        if mline[1] == "ok":
            ms = [complex(float(x), float(y)) for x, y in parse_rat_complex(mline[mline.index("s") + 1:])]
            scale = max([abs(x) for x in ms] + [1.0])
            if scale > 1e4:
                continue        # ill-conditioned draw: the divide is not compared
            if "rc=0" not in aline:
                bad = bad or (where, "model solves (|S| <= %.3g), library: %s" % (scale, " ".join(aline[:3])), k)
                continue
            cs = [complex(float(x), float(y)) for x, y in parse_hex_complex(aline[aline.index("s") + 1:])]
            d = max(abs(x - y) for x, y in zip(ms, cs)) / scale
            worst = max(worst, d)
            if not d <= 1e-9:
                bad = bad or (where, "S differs from the model's LU solution by %.3g" % d, k)
                continue
            solved += 1
        ctx.nontrivial.add(("apply", k))
    ctx.traces_validated += exact
    ctx.extra["apply_tie_cases"] = len(cases)
    ctx.extra["apply_tie_exact_AB"] = exact
    ctx.extra["apply_tie_S_compared"] = solved
    ctx.extra["apply_tie_refused_shapes"] = refused
    ctx.extra["apply_tie_worst_S_rel_diff"] = worst
    ctx.obligation("tie:ApplyModel vs fill_* / vnacal_apply_m (exact A, B; S vs LuModel)", bad is None,
                   "" if bad is None else "%s: %s" % (bad[0], bad[1]))
    if bad is not None:
        t, r, c, e, m = cases[bad[2]]
        ctx.violation({"kind": "apply-tie", "type": t, "rows": r, "cols": c},
                      "fill/apply of %s: %s" % (bad[0], bad[1]),
                      {"type": t, "rows": r, "cols": c, "error_terms": [[fs(x), fs(y)] for x, y in e],
                       "m": [[fs(x), fs(y)] for x, y in m], "c_input_line": cin.split("\n")[bad[2]],
                       "how": "harness/calcore_apply.c (includes vnacal_apply.c) < line; ocaml/_build/drv_calcore2 < 'apply ...'"})


# ----------------------------------------------------------------------------- SolveSimple tie
def std_model_line(sc, st, script, handle_of):
    """the _vnacal_new_add_common arguments of a standard, in the format of ocaml/drv_calcore*.ml"""
    F = sc.F

    def tok(a, b):
        return script.param([st.S[f][a][b] for f in range(F)], sc.freqs)
    if st.fn == "sr":
        sr, scn, diag, toks = 1, 1, 1, [tok(0, 0)]
    elif st.fn == "dr":
        sr, scn, diag, toks = 2, 2, 1, [tok(0, 0), tok(1, 1)]
    elif st.fn == "th":
        sr, scn, diag, toks = 2, 2, 0, ["Z", "O", "O", "Z"]
    elif st.fn == "ln":
        sr, scn, diag, toks = 2, 2, 0, [tok(0, 0), tok(0, 1), tok(1, 0), tok(1, 1)]
    else:
        sr, scn, diag = st.srows, st.scols, 0
        toks = [tok(a, b) for a in range(sr) for b in range(scn)]
    mp = st.ports[:max(sr, scn)] if st.mapflag else []
    hs = [handle_of[t] for t in toks]
    return "add 0 0 0 %d %d %d %d %d %d %d %s %d %s" % (
        st.brows, st.bcols, sr, scn, diag, 1 if st.mapflag else 0, len(mp), " ".join(str(x) for x in mp),
        len(hs), " ".join(str(x) for x in hs))


def solve_tie(ctx, ncases):
    import concurrent.futures
    drv = calcore.model_driver(ctx, "drv_calcore2")
    exe = ctx.build_harness("calcore_solve", san=True, wrap=True, defines=["CALCORE_WRAP"],
                            exclude=("vnacal_new_solve_simple.c",))
    cases = []
    for k in range(ncases):
        rng = random.Random(ctx.rng.getrandbits(64))
        typ = TYPES[k % len(TYPES)]
        lim = 2 if typ in ("T16", "U16") else 3
        while True:
            r, c = rng.randint(1, lim), rng.randint(1, lim)
            if dims_allowed(typ, r, c):
                break
        sc = calcore.gen_scenario(rng, typ, r, c, 1, form="m", vector_prob=0.0, extras=False)
        for st in sc.stds:
            kk = len(st.S[0])
            new = [[st.S[0][a][b] if st.S[0][a][b] in (0, 1, -1) else complex(float(dy(rng)), float(dy(rng)))
                    for b in range(kk)] for a in range(kk)]
            st.S = [new]
            calcore.finish_std(rng, sc, st, sc.fill)
            st.Mfull = [[[complex(float(dy(rng)), float(dy(rng))) for _ in range(c)] for _ in range(r)]]
        cases.append(sc)

    def run_c(sc):
        s = calcore.Script()
        calcore.scenario_script(sc, script=s, do_apply=False)
        text = s.text()
        return (s, text) + calcore.run_script(ctx, exe, text)
    with concurrent.futures.ThreadPoolExecutor(max_workers=min(8, vplib.NPROC)) as ex:
        cres = list(ex.map(run_c, cases))
    # model input
    mlines = []
    meta = []
    for sc, (s, text, rc, out, err) in zip(cases, cres):
        if rc != 0:
            meta.append(None)
            continue
        handle_of = {"Z": 0, "O": 1, "S": 2}
        for ln in out.split("\n"):
            if ln.startswith("scalar "):
                p_ = ln.split()
                handle_of["p" + p_[1]] = int(p_[2].split("=")[1])
        vals = {0: (Fraction(0), Fraction(0)), 1: (Fraction(1), Fraction(0)), 2: (Fraction(-1), Fraction(0))}
        for ln in s.lines:
            if ln.startswith("scalar "):
                p_ = ln.split()
                vals[handle_of["p" + p_[1]]] = (Fraction(float.fromhex(p_[2])), Fraction(float.fromhex(p_[3])))
        code = 7 if sc.typ == "E12" else TYPE_CODE[sc.typ]
        mlines.append("cfg %d %d %d %d" % (code, sc.r, sc.c, max(handle_of.values()) + 1))
        for h, v in sorted(vals.items()):
            mlines.append("pval %d %s" % (h, ratc(v)))
        s2 = calcore.Script()
        s2.cache = dict(s.cache)
        s2.npar = s.npar
        for st in sc.stds:
            mv = " ".join(ratc((Fraction(st.Mfull[0][i][j].real), Fraction(st.Mfull[0][i][j].imag)))
                          for i in range(sc.r) for j in range(sc.c))
            mlines.append(std_model_line(sc, st, s2, handle_of) + " %d %s" % (sc.r * sc.c, mv))
        mlines.append("system")
        meta.append(True)
    rc, mout, merr = vplib.sh([drv], input="\n".join(mlines) + "\n", timeout=1200)
    if rc != 0:
        raise vplib.BuildError("drv_calcore2 failed: " + merr[-300:])
    blocks = mout.split("endsystem\n")
    bad = None
    bi = 0
    nexact = ntol = nx = ne = nill = 0
    worst_x = worst_e = 0.0
    for ci, (sc, (s, text, rc, out, err)) in enumerate(zip(cases, cres)):
        ctx.count()
        where = "%s %dx%d" % (sc.typ, sc.r, sc.c)
        if meta[ci] is None:
            sig = vplib.asan_signature(err) or {"kind": "fault", "error": "exit %d" % rc, "function": None}
            ctx.violation(sig, "solve harness stopped on %s: %s" % (where, (err.strip().split("\n") or [""])[0][:200]),
                          {"script": text[:100000], "stderr": err[-3000:]})
            bad = bad or (where, "harness stopped", ci)
            continue
        blk = blocks[bi].split("\n")
        bi += 1
        if any(l.startswith("add ") and l != "add rc=0" for l in blk):
            bad = bad or (where, "model refuses a standard the library accepts: %s" % [l for l in blk if l.startswith("add ") and l != "add rc=0"][0], ci)
            continue
        # model systems
        msys = []
        cur = None
        mE = None
        for l in blk:
            p_ = l.split()
            if not p_:
                continue
            if p_[0] == "SYS":
                cur = {"status": p_[2], "rows": [], "x": None}
                msys.append(cur)
            elif p_[0] == "R":
                bar = p_.index("|")
                cur["rows"].append((parse_rat_complex(p_[1:bar]), parse_rat_complex(p_[bar + 1:])[0]))
            elif p_[0] == "X":
                cur["x"] = parse_rat_complex(p_[1:])
            elif p_[0] == "E" and p_[1] != "none":
                mE = parse_rat_complex(p_[1:])
        csys = []
        cE = None
        for l in out.split("\n"):
            p_ = l.split()
            if not p_:
                continue
            if p_[0] == "SYS":
                m_, n_ = int(p_[2]), int(p_[3])
                a = parse_hex_complex(p_[5:5 + 2 * m_ * n_])
                b = parse_hex_complex(p_[6 + 2 * m_ * n_:6 + 2 * m_ * n_ + 2 * m_])
                csys.append({"m": m_, "n": n_, "a": a, "b": b, "x": None})
            elif p_[0] == "X" and csys:
                csys[-1]["x"] = parse_hex_complex_opt(p_[2:])
            elif p_[0] == "E" and len(p_) > 2:
                cE = parse_hex_complex_opt(p_[2:])
        exact_type = not calcore.has_leak(sc.typ)
        problem = None
        illc = False
        for k, cs in enumerate(csys):
            if k >= len(msys):
                problem = "library assembled more systems than the model"
                break
            ms_ = msys[k]
            if len(ms_["rows"]) != cs["m"]:
                problem = "system %d: library has %d equations, model %d" % (k, cs["m"], len(ms_["rows"]))
                break
            for i, (ra, rb) in enumerate(ms_["rows"]):
                crow = cs["a"][i * cs["n"]:(i + 1) * cs["n"]]
                pairs = list(zip(crow, ra)) + [(cs["b"][i], rb)]
                for j, (cv, mv_) in enumerate(pairs):
                    if cv == mv_:
                        continue
                    d = abs(complex(float(cv[0] - mv_[0]), float(cv[1] - mv_[1])))
                    if exact_type or d > 1e-12:
                        problem = "system %d, equation %d, %s: library %s, model %s" % (
                            k, i, ("column %d" % j) if j < cs["n"] else "right-hand side",
                            [str(x) for x in cv], [str(x) for x in mv_])
                        break
                if problem:
                    break
            if problem:
                break
            if exact_type:
                nexact += 1
            else:
                ntol += 1
            if ms_["x"] is not None and cs["x"] is not None:
                mx = [complex(float(a_), float(b_)) for a_, b_ in ms_["x"]]
                cx_ = [complex(float(a_), float(b_)) for a_, b_ in cs["x"]]
                scale = max([abs(v) for v in mx] + [1.0])
                if scale < 1e3 and len(mx) == len(cx_):
                    d = max(abs(u - v) for u, v in zip(mx, cx_)) / scale
                    if d > 1e-7:
                        # ill-conditioned draw?  LU with pivoting / QR are backward stable: the library's x
                        # must satisfy the normal equations A^H (A x - b) = 0 of the exact system to rounding
                        ra = [[complex(float(a_), float(b_)) for a_, b_ in row[0]] for row in ms_["rows"]]
                        rb = [complex(float(row[1][0]), float(row[1][1])) for row in ms_["rows"]]
                        res = [sum(a_ * x_ for a_, x_ in zip(r_, cx_)) - b_ for r_, b_ in zip(ra, rb)]
                        grad = [sum(r_[j].conjugate() * e_ for r_, e_ in zip(ra, res)) for j in range(len(cx_))]
                        na = sum(abs(a_) ** 2 for r_ in ra for a_ in r_) ** 0.5
                        den = na * na * max(abs(v) for v in cx_) + na * max([abs(b_) for b_ in rb] + [0.0]) + 1e-300
                        if max(abs(g_) for g_ in grad) / den <= 1e-10:
                            nill += 1
                            illc = True
                            continue
                        problem = "system %d: solution differs from the model's exact LU / least-squares solution by %.3g" % (k, d)
                        break
                    worst_x = max(worst_x, d)
                    nx += 1
        if problem is None and len(csys) < len([m_ for m_ in msys]) and all(m_["status"] in ("ok", "rows") for m_ in msys):
            problem = "library assembled %d systems, model %d" % (len(csys), len(msys))
        if problem is None and mE is not None and cE is not None and not illc:
            me = [complex(float(a_), float(b_)) for a_, b_ in mE]
            ce = [complex(float(a_), float(b_)) for a_, b_ in cE]
            scale = max([abs(v) for v in me] + [1.0])
            if len(me) != len(ce):
                problem = "saved error-term vector has %d entries, model %d" % (len(ce), len(me))
            elif scale < 1e3:
                d = max(abs(u - v) for u, v in zip(me, ce)) / scale
                worst_e = max(worst_e, d)
                if d > 1e-7:
                    problem = "saved error terms differ from the model's (unity / leakage / E12 conversion) by %.3g" % d
                else:
                    ne += 1
        if problem:
            bad = bad or (where, problem, ci)
        else:
            ctx.nontrivial.add(("solve", ci))
    ctx.traces_validated += nexact + ntol
    ctx.extra["solve_tie_cases"] = len(cases)
    ctx.extra["solve_tie_systems_exact"] = nexact
    ctx.extra["solve_tie_systems_1e-12 (leakage mean divided)"] = ntol
    ctx.extra["solve_tie_solutions_compared"] = nx
    ctx.extra["solve_tie_solutions_ill_conditioned_skipped"] = nill
    ctx.extra["solve_tie_error_term_vectors_compared"] = ne
    ctx.extra["solve_tie_worst_x_rel_diff"] = worst_x
    ctx.extra["solve_tie_worst_e_rel_diff"] = worst_e
    ok = bad is None and (nexact + ntol) > 0
    ctx.obligation("tie:SolveSimple vs a_matrix/b_vector of _vnacal_new_solve_simple (exact) and saved terms", ok,
                   "" if bad is None else "%s: %s" % (bad[0], bad[1]))
    if bad is not None and not any(v.what.startswith("solve harness") for v in ctx.violations):
        sc = cases[bad[2]]
        ctx.violation({"kind": "solve-tie", "type": sc.typ, "rows": sc.r, "cols": sc.c},
                      "assembly/solve of %s: %s" % (bad[0], bad[1]),
                      {"scenario": calcore.describe(sc), "script": cres[bad[2]][1][:100000],
                       "how": "harness/calcore_solve.c < script; ocaml/_build/drv_calcore2 < cfg/pval/add/system lines"})


# ----------------------------------------------------------------------------- leakage tie
LEAK_TYPES = ["TE10", "UE10", "UE14", "E12"]


def plant_partial(rng, sc):
    """Standards whose ports are only PARTIALLY connected (explicit VNACAL_ZERO cells in a mapped matrix /
    line): a connected pair beside an isolated port, chains that are connected only transitively, one-way
    (non-reciprocal) couplings, all-zero off-diagonals; random (permuted) port maps; full or abbreviated
    measurement matrices.  S is constant over frequency (scalar parameters)."""
    p = sc.p
    out = []

    def coupling():
        return (0.75 + rng.randint(0, 8) / 32.0) * rng.choice([1, -1, 1j, -1j])

    def mk(ports, nz, fn):
        k = len(ports)
        pat = [[(calcore.small(rng, 1.6) if a == b else (coupling() if (a, b) in nz else 0j)) for b in range(k)]
               for a in range(k)]
        flag = 1
        if fn == "mm" and k == p and rng.random() < 0.3:
            ports, flag = list(range(1, p + 1)), 0            # NULL port map: identity
        st = calcore.Std(fn, ports, calcore.const_over_f(sc.F, pat), mapflag=flag, scalar=True)
        st.first_of = []
        st.pattern = sorted(nz)
        rows, cols = calcore.m_shape_options(sc.typ, sc.r, sc.c, st)
        st.brows, st.bcols = rng.choice(rows), rng.choice(cols)
        st.form = "m"
        out.append(st)
    two = [{(0, 1)}, {(1, 0)}, set(), {(0, 1), (1, 0)}]
    for _ in range(rng.randint(1, 3)):
        mk(rng.sample(range(1, p + 1), 2), rng.choice(two), rng.choice(["ln", "mm"]))
    if p >= 3:
        three = [{(0, 1), (1, 0)},                          # pair connected, third port isolated
                 {(0, 1), (1, 0), (1, 2), (2, 1)},          # chain: 0-2 connected only through 1
                 {(0, 1), (2, 1)}, {(1, 0), (1, 2)},        # the same with one-way links
                 {(0, 1)}, {(2, 0)},                        # one non-reciprocal coupling
                 {(0, 1), (1, 2), (2, 0)},                  # directed cycle
                 set()]
        for _ in range(rng.randint(2, 4)):
            ports = rng.sample(range(1, p + 1), 3)
            if rng.random() < 0.25:
                nz, _d = calcore.forest_pattern(rng, p, ports, 3)
            else:
                nz = rng.choice(three)
            mk(ports, set(nz), "mm")
    return out


def gen_leak_scenario(rng, typ, r, c, F):
    """leakage-type calibration of calcore.gen_scenario (reflects, throughs, lines, mapped and sparse multi-port
    standards, abbreviated matrices, permuted maps) plus plant_partial; dyadic S and measured values"""
    sc = calcore.gen_scenario(rng, typ, r, c, F, form="m", vector_prob=0.0, extras=True)
    extra = plant_partial(rng, sc)
    for st in extra:
        sc.stds.insert(rng.randint(0, len(sc.stds)), st)
    for st in sc.stds:
        kk = len(st.S[0])
        new = [[st.S[0][a][b] if st.S[0][a][b] in (0, 1, -1) else complex(float(dy(rng)), float(dy(rng)))
                for b in range(kk)] for a in range(kk)]
        st.S = calcore.const_over_f(F, new)
        st.form = "m"
        st.Sfull = None
        st.Mfull = [[[complex(float(dy(rng)), float(dy(rng))) for _ in range(c)] for _ in range(r)] for _ in range(F)]
    sc.starved = None
    if rng.random() < 0.3:
        # a cell with few or no samples (count 0: no mean is subtracted and the saved term is 0): the standards
        # that sample it are given as abbreviated matrices where that is allowed, the others are left out
        # (the solve may then stop with "insufficient number of standards" -- after the leakage pass)
        cell = rng.choice([(i, j) for i in range(r) for j in range(c) if i != j])
        keep = rng.choice([0, 0, 1, 2])
        stds = []
        for st in sc.stds:
            if cell in oracle_samples(sc, st):
                if keep > 0:
                    keep -= 1
                else:
                    rows, cols = calcore.m_shape_options(typ, r, c, st)
                    st.brows, st.bcols = rows[-1], cols[-1]
                    if cell in oracle_samples(sc, st):
                        continue
            stds.append(st)
        sc.stds = stds
        sc.starved = cell
    return sc


def oracle_samples(sc, st):
    """independent of model and library: the cells of the r x c measurement matrix for which standard st is a
    leakage sample = cell given, off-diagonal, and the two VNA ports in different classes of the equivalence
    generated by the off-diagonal S cells not known to be zero (cells the caller did not specify -- between
    two ports the standard is not connected to -- count as unknown; cells between a port of the standard and
    an unconnected port are known zeros)"""
    p = sc.p
    k = max(st.srows, st.scols)
    ports = [q - 1 for q in st.ports[:k]]
    comp = list(range(p))

    def find(i):
        while comp[i] != i:
            i = comp[i]
        return i
    for i in range(p):
        for j in range(p):
            if i == j:
                continue
            if i in ports and j in ports:
                a, b = ports.index(i), ports.index(j)
                if st.fn in ("sr", "dr"):
                    edge = False
                elif a < st.srows and b < st.scols:
                    edge = st.S[0][a][b] != 0
                else:
                    edge = True
            elif i in ports or j in ports:
                edge = False
            else:
                edge = True
            if edge:
                comp[find(i)] = find(j)
    sp = sorted(ports)
    rows = list(range(sc.r)) if st.brows == sc.r else sp
    cols = list(range(sc.c)) if st.bcols == sc.c else sp
    return set((i, j) for i in rows for j in cols if i != j and find(i) != find(j))


def leak_positions(typ, r, c):
    """index in the saved error-term vector of the leakage term of every off-diagonal cell (row-major)"""
    cells = [(i, j) for i in range(r) for j in range(c) if i != j]
    if typ == "E12":
        return {(i, j): j * 3 * r + i for (i, j) in cells}
    offs, sizes, nt, nel = calcore.layout(typ, r, c)
    base = c * nt if typ == "UE14" else nt
    return {cell: base + k for k, cell in enumerate(cells)}


def leak_tie(ctx, ncases):
    """vnlt_sum / vnlt_count of _vnacal_new_solve_start_frequency, the set of (standard, cell) samples, the adjusted
    measurements vnmm_m_matrix and the saved leakage terms against SolveSimple.leak_acc / leak_mean / m_adjusted /
    leak_terms (extracted, ocaml/drv_calcore3) and an independent Python account of the samples."""
    import concurrent.futures
    drv = calcore.model_driver(ctx, "drv_calcore3")
    exe = ctx.build_harness("calcore_solve", san=True, wrap=True, defines=["CALCORE_WRAP"],
                            exclude=("vnacal_new_solve_simple.c",))
    shapes = {t: [(r, c) for r in range(1, 4) for c in range(1, 4) if dims_allowed(t, r, c) and max(r, c) >= 2]
              for t in LEAK_TYPES}
    cases = []
    for k in range(ncases):
        rng = random.Random(ctx.rng.getrandbits(64))
        typ = LEAK_TYPES[k % 4]
        sh = shapes[typ]
        r, c = sh[(k // 4) % len(sh)] if k < 4 * len(sh) else rng.choice(sh)
        cases.append(gen_leak_scenario(rng, typ, r, c, 2 if k % 3 == 2 else 1))

    def run_c(sc):
        s = calcore.Script()
        calcore.scenario_script(sc, script=s, do_apply=False)
        text = s.text()
        return (s, text) + calcore.run_script(ctx, exe, text)
    with concurrent.futures.ThreadPoolExecutor(max_workers=min(8, vplib.NPROC)) as ex:
        cres = list(ex.map(run_c, cases))
    mlines = []
    for sc, (s, text, rc, out, err) in zip(cases, cres):
        if rc != 0:
            continue
        handle_of = {"Z": 0, "O": 1, "S": 2}
        for ln in out.split("\n"):
            if ln.startswith("scalar "):
                p_ = ln.split()
                handle_of["p" + p_[1]] = int(p_[2].split("=")[1])
        code = 7 if sc.typ == "E12" else TYPE_CODE[sc.typ]
        s2 = calcore.Script()
        s2.cache = dict(s.cache)
        s2.npar = s.npar
        for f in range(sc.F):
            mlines.append("cfg %d %d %d %d" % (code, sc.r, sc.c, max(handle_of.values()) + 1))
            for st in sc.stds:
                mv = " ".join(ratc((Fraction(st.Mfull[f][i][j].real), Fraction(st.Mfull[f][i][j].imag)))
                              for i in range(sc.r) for j in range(sc.c))
                mlines.append(std_model_line(sc, st, s2, handle_of) + " %d %s" % (sc.r * sc.c, mv))
            mlines.append("leak")
    rc, mout, merr = vplib.sh([drv], input="\n".join(mlines) + "\n", timeout=1200)
    if rc != 0:
        raise vplib.BuildError("drv_calcore3 failed: " + merr[-300:])
    blocks = mout.split("endleak\n")
    bi = 0
    bad = None
    ncells = nsampled = nzero = nstopped = nstd = nmean_exact = nmean_tol = nadj = nterms = 0
    maxcount = 0
    patterns = set()

    def pow2(n):
        return n > 0 and (n & (n - 1)) == 0

    def close(cv, mv_, exact):
        if cv == mv_:
            return True
        if exact:
            return False
        d = abs(complex(float(cv[0] - mv_[0]), float(cv[1] - mv_[1])))
        return d <= 1e-12 * max(1.0, abs(complex(float(mv_[0]), float(mv_[1]))))
    for ci, (sc, (s, text, rc, out, err)) in enumerate(zip(cases, cres)):
        where = "%s %dx%d" % (sc.typ, sc.r, sc.c)
        if rc != 0:
            ctx.count()
            sig = vplib.asan_signature(err) or {"kind": "fault", "error": "exit %d" % rc, "function": None}
            ctx.violation(sig, "solve harness stopped on %s (leakage tie): %s" % (where, (err.strip().split("\n") or [""])[0][:200]),
                          {"scenario": calcore.describe(sc), "script": text[:100000], "stderr": err[-3000:]})
            bad = bad or (where, "harness stopped", ci)
            continue
        # library: per frequency
        clk, cls_, cla, cflag = {}, {}, {}, {}
        cE = {}
        for l in out.split("\n"):
            p_ = l.split()
            if not p_:
                continue
            if p_[0] == "LEAK":
                f = int(p_[1])
                cflag[f] = p_[2]
                clk[f], cls_[f], cla[f] = {}, set(), {}
            elif p_[0] == "LK":
                f = int(p_[1])
                clk[f][(int(p_[2]), int(p_[3]))] = None if p_[4] == "null" else (int(p_[4]), parse_hex_complex(p_[5:7])[0])
            elif p_[0] == "LS":
                cls_[int(p_[1])].add((int(p_[2]), int(p_[3]), int(p_[4])))
            elif p_[0] == "LA":
                v = parse_hex_complex_opt(p_[4:6])
                cla[int(p_[1])][(int(p_[2]), int(p_[3]))] = v[0] if v else None
            elif p_[0] == "E" and len(p_) > 2 and p_[1].isdigit():
                cE[int(p_[1])] = parse_hex_complex_opt(p_[2:])
        lpos = leak_positions(sc.typ, sc.r, sc.c)
        offd = sorted(lpos)
        osamp = set()
        for i, st in enumerate(sc.stds):
            for (a, b) in oracle_samples(sc, st):
                osamp.add((i, a, b))
        for f in range(sc.F):
            ctx.count()
            blk = blocks[bi].split("\n")
            bi += 1
            problem = None
            mlk, mlm, mls, mla, mlt, mflag = {}, {}, set(), {}, None, None
            for l in blk:
                p_ = l.split()
                if not p_:
                    continue
                if p_[0] == "add" and l != "add rc=0":
                    problem = problem or "model refuses a standard the library accepts: %s" % l
                elif p_[0] == "LEAK":
                    mflag = p_[1]
                elif p_[0] == "LK":
                    mlk[(int(p_[1]), int(p_[2]))] = (int(p_[3]), parse_rat_complex(p_[4:6])[0])
                elif p_[0] == "LM":
                    mlm[(int(p_[1]), int(p_[2]))] = None if p_[3] == "none" else parse_rat_complex(p_[3:5])[0]
                elif p_[0] == "LS":
                    mls.add((int(p_[1]), int(p_[2]), int(p_[3])))
                elif p_[0] == "LA":
                    mla[(int(p_[1]), int(p_[2]))] = parse_rat_complex(p_[3:5])[0]
                elif p_[0] == "LT":
                    mlt = parse_rat_complex(p_[2:])
            if problem is None and f not in clk:
                sv = [l for l in out.split("\n") if l.startswith("solve ")]
                if f > 0 and (f - 1) in clk and sv and "rc=-1" in sv[0]:
                    # vnacal_new_solve stopped at an earlier frequency (after its leakage pass, which was compared):
                    # singular system of the random dyadic measurements -- the business of the SolveSimple tie
                    nstopped += 1
                    continue
                problem = "the library did not reach _vnacal_new_solve_simple at frequency %d (%s)" % (f, sv[0] if sv else "no solve line")
            if problem is None and (cflag[f] != "outside=1" or mflag != "outside=1"):
                problem = "leakage outside the linear system: library %s, model %s" % (cflag[f], mflag)
            if problem is None and (sorted(clk[f]) != offd or sorted(mlk) != offd):
                problem = "leakage cells: library %s, model %s, off-diagonal cells %s" % (sorted(clk[f]), sorted(mlk), offd)
            if problem is None and cls_[f] != mls:
                d = sorted(cls_[f] ^ mls)[0]
                st = sc.stds[d[0]]
                problem = ("frequency %d: standard %d (%s ports=%s, non-zero off-diagonal S cells %s) %s a leakage sample of "
                           "cell (%d,%d) in the library and %s in the model" % (
                               f, d[0], st.fn, st.ports, getattr(st, "pattern", "?"),
                               "is" if d in cls_[f] else "is not", d[1], d[2], "is" if d in mls else "is not"))
            if problem is None and mls != osamp:
                d = sorted(mls ^ osamp)[0]
                st = sc.stds[d[0]]
                problem = ("standard %d (%s ports=%s S=%dx%d M=%dx%d): model and library %s cell (%d,%d), the independent "
                           "account of connected port classes %s" % (
                               d[0], st.fn, st.ports, st.srows, st.scols, st.brows, st.bcols,
                               "sample" if d in mls else "do not sample", d[1], d[2], "does" if d in osamp else "does not"))
            if problem is None:
                for cell in offd:
                    cc, cs = clk[f][cell] if clk[f][cell] else (None, None)
                    mcnt, msum = mlk[cell]
                    # the sum and count as the definition says, from the scenario itself
                    who = [i for (i, a, b) in osamp if (a, b) == cell]
                    osum = (sum(Fraction(sc.stds[i].Mfull[f][cell[0]][cell[1]].real) for i in who),
                            sum(Fraction(sc.stds[i].Mfull[f][cell[0]][cell[1]].imag) for i in who))
                    if cc != mcnt:
                        problem = "frequency %d, cell (%d,%d): vnlt_count %s, leak_acc count %d" % (f, cell[0], cell[1], cc, mcnt)
                    elif cs != msum:
                        problem = "frequency %d, cell (%d,%d): vnlt_sum %s, leak_acc sum %s (count %d)" % (
                            f, cell[0], cell[1], [str(x) for x in cs], [str(x) for x in msum], mcnt)
                    elif (mcnt, msum) != (len(who), osum):
                        problem = "frequency %d, cell (%d,%d): count/sum %d %s, sum of the sampled measured values %d %s" % (
                            f, cell[0], cell[1], mcnt, [str(x) for x in msum], len(who), [str(x) for x in osum])
                    elif (mlm[cell] is None) != (mcnt == 0) or (mcnt and mlm[cell] != (msum[0] / mcnt, msum[1] / mcnt)):
                        problem = "cell (%d,%d): leak_mean %s is not sum / count" % (cell[0], cell[1], mlm[cell])
                    if problem:
                        break
                    ncells += 1
                    nsampled += 1 if mcnt else 0
                    nzero += 0 if mcnt else 1
                    maxcount = max(maxcount, mcnt)
            if problem is None:
                # vnmm_m_matrix (measured minus mean): exact when the count is a power of two (the mean is dyadic)
                if sorted(cla[f]) != sorted(mla):
                    d = sorted(set(cla[f]) ^ set(mla))[0]
                    problem = "standard %d cell %d is %s in the library and %s in the model" % (
                        d[0], d[1], "given" if d in cla[f] else "absent", "given" if d in mla else "absent")
                for key in sorted(mla):
                    if problem:
                        break
                    cell = (key[1] // sc.c, key[1] % sc.c)
                    cnt = mlk[cell][0] if cell in mlk else 0
                    exact = cnt == 0 or pow2(cnt)
                    if cla[f][key] is None or not close(cla[f][key], mla[key], exact):
                        problem = "frequency %d, standard %d, cell (%d,%d): vnmm_m_matrix %s, m_adjusted %s (count %d)" % (
                            f, key[0], cell[0], cell[1], [str(x) for x in (cla[f][key] or ())], [str(x) for x in mla[key]], cnt)
                    else:
                        nadj += 1
            if problem is None and cE.get(f) is not None and mlt is not None:
                # the saved leakage terms (after convert_ue14_to_e12 for E12)
                for k_, cell in enumerate(offd):
                    cnt = mlk[cell][0]
                    exact = cnt == 0 or pow2(cnt)
                    cv = cE[f][lpos[cell]] if lpos[cell] < len(cE[f]) else None
                    if cv is None or not close(cv, mlt[k_], exact):
                        problem = "frequency %d: saved leakage term of cell (%d,%d) %s, leak_terms %s (count %d)" % (
                            f, cell[0], cell[1], [str(x) for x in (cv or ())], [str(x) for x in mlt[k_]], cnt)
                        break
                    if cnt:
                        if exact:
                            nmean_exact += 1
                        else:
                            nmean_tol += 1
                if problem is None:
                    nterms += 1
            if problem:
                bad = bad or (where, problem, ci)
            else:
                ctx.nontrivial.add(("leak", ci, f))
                ctx.traces_validated += 1
                nstd += len(sc.stds)
                for st in sc.stds:
                    if getattr(st, "pattern", None) is not None:
                        patterns.add((len(st.ports), tuple(st.pattern)))
    ctx.extra["leak_tie_calibrations"] = len(cases)
    ctx.extra["leak_tie_frequencies_not_reached (solve stopped earlier)"] = nstopped
    ctx.extra["leak_tie_cells_compared"] = ncells
    ctx.extra["leak_tie_cells_with_samples"] = nsampled
    ctx.extra["leak_tie_cells_without_sample"] = nzero
    ctx.extra["leak_tie_max_count"] = maxcount
    ctx.extra["leak_tie_standards"] = nstd
    ctx.extra["leak_tie_partial_patterns"] = len(patterns)
    ctx.extra["leak_tie_adjusted_values_compared"] = nadj
    ctx.extra["leak_tie_saved_term_vectors_compared"] = nterms
    ctx.extra["leak_tie_means_exact / 1e-12"] = [nmean_exact, nmean_tol]
    ok = bad is None and ncells > 0 and nsampled > 0
    ctx.obligation("tie:leakage samples/sums/counts/means of _vnacal_new_solve_start_frequency vs SolveSimple.leak_acc (exact)",
                   ok, "" if bad is None else "%s: %s" % (bad[0], bad[1]))
    if bad is not None and not any(v.what.startswith("solve harness stopped") and "leakage tie" in v.what for v in ctx.violations):
        sc = cases[bad[2]]
        d = calcore.describe(sc)
        d["cell_with_few_samples"] = sc.starved
        d["partial_patterns"] = [[i, st.ports, [list(x) for x in st.pattern]] for i, st in enumerate(sc.stds)
                                 if getattr(st, "pattern", None) is not None]
        ctx.violation({"kind": "leak-tie", "type": sc.typ, "rows": sc.r, "cols": sc.c},
                      "leakage of %s: %s" % (bad[0], bad[1]),
                      {"scenario": d, "script": cres[bad[2]][1][:100000],
                       "how": "harness/calcore_solve.c < script (LEAK/LK/LS/LA lines); ocaml/_build/drv_calcore3 < cfg/add/leak lines"})


# ----------------------------------------------------------------------------- convert_ue14_to_e12 (failure exit) tie
def _cmul(a, b):
    return (a[0] * b[0] - a[1] * b[1], a[0] * b[1] + a[1] * b[0])


def _cdiv(a, b):
    n = b[0] * b[0] + b[1] * b[1]
    return ((a[0] * b[0] + a[1] * b[1]) / n, (a[1] * b[0] - a[0] * b[1]) / n)


def _csub(a, b):
    return (a[0] - b[0], a[1] - b[1])


def e12conv_reference(mr, mc, e):
    """The documented conversion of the E12_UE14 vector (per column: um[mr], ui, ux[mr], us; then the off-diagonal
    leakage terms, row-major) to the E12 layout (per column: el[mr], er[mr], em[mr]) in exact rationals, written
    independently of the Coq model.  None when some um is zero."""
    ut = 2 * mr + 2
    zero = (Fraction(0), Fraction(0))
    lmap, k = {}, 0
    for r in range(mr):
        for c in range(mc):
            if r != c:
                lmap[(r, c)] = mc * ut + k
                k += 1
    if any(e[c * ut + r] == zero for c in range(mc) for r in range(mr)):
        return None
    out = []
    for c in range(mc):
        um = e[c * ut:c * ut + mr]
        ui = e[c * ut + mr]
        ux = e[c * ut + mr + 1:c * ut + 2 * mr + 1]
        us = e[c * ut + 2 * mr + 1]
        n = _csub(us, _cdiv(_cmul(ui, ux[c]), um[c]))
        out += [_cdiv(_csub(zero, ui), um[c]) if r == c else e[lmap[(r, c)]] for r in range(mr)]
        out += [_cdiv(n, um[r]) for r in range(mr)]
        out += [_cdiv(ux[r], um[r]) for r in range(mr)]
    return out


def gen_e12conv_case(rng, mr, mc, nzero):
    """(e, zeros, zero_text): e = E12_UE14 vector of dyadic values k/8; um terms are units times powers of two (every
    quotient exact in binary64) or, one time in four, general non-zero dyadic values; nzero of them replaced by 0.
    zero_text: how each planted zero is written for the C side (+0 / -0 in either part: all compare == 0.0)."""
    ut = 2 * mr + 2
    n = mc * ut + mr * mc - min(mr, mc)
    e = [cdy(rng, 12, 8) for _ in range(n)]
    general = rng.random() < 0.25
    for c in range(mc):
        for r in range(mr):
            if general:
                v = (Fraction(0), Fraction(0))
                while v == (0, 0):
                    v = cdy(rng, 12, 8)
            else:
                m = Fraction(rng.choice([1, 2, 4, 8]), rng.choice([1, 1, 2, 4])) * rng.choice([1, -1])
                v = (m, Fraction(0)) if rng.random() < 0.7 else (Fraction(0), m)     # pure imaginary: re == 0 alone is no exit
            e[c * ut + r] = v
    cells = [(c, r) for c in range(mc) for r in range(mr)]
    zeros = []
    if nzero:
        first = rng.choice(["diag", "offdiag", "firstcol", "lastcol", "any"])
        pool = {"diag": [x for x in cells if x[0] == x[1]], "offdiag": [x for x in cells if x[0] != x[1]],
                "firstcol": [x for x in cells if x[0] == 0], "lastcol": [x for x in cells if x[0] == mc - 1],
                "any": cells}[first] or cells
        zeros.append(rng.choice(pool))
        while len(zeros) < min(nzero, len(cells)):
            x = rng.choice(cells)
            if x not in zeros:
                zeros.append(x)
    ztext = {}
    for (c, r) in zeros:
        e[c * ut + r] = (Fraction(0), Fraction(0))
        ztext[c * ut + r] = rng.choice(["0x0p+0 0x0p+0", "0x0p+0 0x0p+0", "-0x0p+0 0x0p+0", "0x0p+0 -0x0p+0", "-0x0p+0 -0x0p+0"])
    return e, zeros, ztext


def e12conv_tie(ctx, ncases):
    """convert_ue14_to_e12 of vnacal_new_solve.c (static; harness/calcore_e12conv.c includes the file) against
    EndToEndE12Check.q_convert_checked (Eval vm_compute at the Gaussian rationals, one coq_eval for all cases) and an
    independent exact Python account of the documented conversion.  Required: library rc=-1 / errno=EDOM  <=>  model
    None  <=>  some um term is zero; otherwise library output == model output (1e-12 relative; counted when exact)."""
    import re
    name = "tie:convert_ue14_to_e12 failure exit (um == 0 -> EDOM) and success path vs EndToEndE12Check.q_convert_checked"
    exe = ctx.build_harness("calcore_e12conv", san=True, exclude=("vnacal_new_solve.c",))
    res = ctx.coq_make(["Cal/EndToEndE12Check.vo"])
    if not all(res.values()):
        raise vplib.BuildError("coq/Cal/EndToEndE12Check.vo does not build")
    rng = random.Random(ctx.rng.getrandbits(64))
    shapes = [(1, 1), (2, 2), (3, 3), (2, 1), (3, 1), (3, 2)]      # E12: rows >= columns
    cases = []
    for k in range(ncases):
        j = k // 2                                                          # every shape draw once without, once with zeros
        mr, mc = shapes[j % 6] if (j // 6) % 2 else shapes[(j % 6) % 3]      # square shapes more often
        nzero = 0 if k % 2 == 0 else (2 if j % 4 == 3 else 1)
        cases.append((mr, mc) + gen_e12conv_case(rng, mr, mc, nzero))
    clines = []
    for mr, mc, e, zeros, ztext in cases:
        clines.append("conv %d %d %d %s" % (mr, mc, len(e), " ".join(ztext.get(i, hexc(x)) for i, x in enumerate(e))))

    def cq(x):
        def z(v):
            return str(v) if v >= 0 else "(%d)" % v
        return "mkqi %s %d %s %d" % (z(x[0].numerator), x[0].denominator, z(x[1].numerator), x[1].denominator)
    src = ["Require Import List ZArith QArith Qcanon.",
           "Require Import LV.Base.QcI LV.Cal.CalQI LV.Cal.EndToEndE12Check.",
           "Import ListNotations.", "Open Scope Z_scope.",
           "Definition enc (q : qi) : list Z := [Qnum (this (qre q)); Zpos (Qden (this (qre q))); Qnum (this (qim q)); Zpos (Qden (this (qim q)))].",
           "Definition cases : list (nat * nat * list qi) := ["]
    src.append(";\n".join("  (%d%%nat, %d%%nat, [%s])" % (mr, mc, "; ".join(cq(x) for x in e)) for mr, mc, e, _, _ in cases))
    src.append("].")
    src.append("Eval vm_compute in (map (fun c => match q_convert_checked (fst (fst c)) (snd (fst c)) (snd c) with "
               "None => (false, []) | Some l => (true, flat_map enc l) end) cases).")
    rc, mout, merr = ctx.coq_eval("e12conv_cases", "\n".join(src) + "\n", timeout=600)
    if rc != 0:
        raise vplib.BuildError("coq_eval e12conv_cases failed: " + (merr or mout)[-600:])
    model = []
    for mres in re.finditer(r"\(\s*(true|false)\s*,\s*\[([^\]]*)\]\s*\)", mout):
        if mres.group(1) == "false":
            model.append(None)
        else:
            z = [int(t) for t in re.findall(r"-?\d+", mres.group(2))]
            model.append([(Fraction(z[i], z[i + 1]), Fraction(z[i + 2], z[i + 3])) for i in range(0, len(z), 4)])
    if len(model) != len(cases):
        raise vplib.BuildError("coq_eval e12conv_cases: %d results for %d cases" % (len(model), len(cases)))

    rc, cout, cerr = vplib.sh([exe], input="\n".join(clines) + "\n", timeout=300, env=ctx.run_env())
    cl = cout.strip().split("\n")
    if rc != 0 or len(cl) != len(cases) + 1 or not cl[0].startswith("edom="):
        k = max(0, min(len(cl) - 1, len(cases) - 1))
        sig = vplib.asan_signature(cerr) or {"kind": "fault", "error": "exit %d" % rc, "function": None}
        ctx.violation(sig, "e12conv harness stopped at case %d: %s" % (k, (cerr.strip().split("\n") or [""])[0][:200]),
                      {"c_input_line": clines[k], "stderr": cerr[-3000:],
                       "how": "harness/calcore_e12conv.c (includes vnacal_new_solve.c) < line"})
        ctx.obligation(name, False, "harness stopped")
        return
    edom = int(cl[0].split("=")[1])
    bad = None
    nexit = nok = nexact = nexit_diag = nexit_off = nexit_two = 0
    worst = 0.0
    for k, (mr, mc, e, zeros, ztext) in enumerate(cases):
        where = "%dx%d case %d (um zero at column/row %s)" % (mr, mc, k, zeros)
        ctx.count()
        line = cl[k + 1].split()
        ref = e12conv_reference(mr, mc, e)
        mod = model[k]
        has_zero = len(zeros) > 0
        if (mod is None) != has_zero or (ref is None) != has_zero:
            bad = bad or (where, "model %s, Python reference %s, planted zeros %d"
                          % ("None" if mod is None else "Some", "None" if ref is None else "Some", len(zeros)), k)
            continue
        if mod is not None and mod != ref:
            i = [j for j in range(len(ref)) if j >= len(mod) or mod[j] != ref[j]][0] if len(mod) == len(ref) else -1
            bad = bad or (where, "model output differs from the Python reference (term %d, lengths %d / %d)" % (i, len(mod), len(ref)), k)
            continue
        if line[0] == "refused":
            bad = bad or (where, "harness refused the case (term count)", k)
            continue
        if mod is None:
            if line[0] != "rc=-1" or line[1] != "errno=%d" % edom:
                bad = bad or (where, "model None (EDOM exit), library: %s" % " ".join(line[:2])[:80], k)
                continue
            nexit += 1
            nexit_two += len(zeros) > 1
            nexit_diag += zeros[0][0] == zeros[0][1]
            nexit_off += zeros[0][0] != zeros[0][1]
        else:
            if line[0] != "rc=0":
                bad = bad or (where, "model Some (no um is zero), library: %s" % " ".join(line[:2])[:80], k)
                continue
            lib = parse_hex_complex_opt(line[2:])
            if lib is None or len(lib) != len(mod):
                bad = bad or (where, "library output not finite or of length %s, model %d terms"
                              % ("?" if lib is None else len(lib), len(mod)), k)
                continue
            if lib == mod:
                nexact += 1
            else:
                d = max(abs(complex(float(a[0] - b[0]), float(a[1] - b[1]))) / max(1.0, abs(complex(float(b[0]), float(b[1]))))
                        for a, b in zip(lib, mod))
                worst = max(worst, d)
                if not d <= 1e-12:
                    i = [j for j in range(len(mod)) if lib[j] != mod[j]][0]
                    bad = bad or (where, "out[%d]: library %s, model %s (rel. diff %.3g)"
                                  % (i, [str(x) for x in lib[i]], [str(x) for x in mod[i]], d), k)
                    continue
            nok += 1
        ctx.nontrivial.add(("e12conv", k))
        ctx.traces_validated += 1
    ctx.extra["e12conv_tie_cases"] = len(cases)
    ctx.extra["e12conv_tie_exit_taken (EDOM)"] = nexit
    ctx.extra["e12conv_tie_exit first zero on diagonal / off diagonal / two zeros"] = [nexit_diag, nexit_off, nexit_two]
    ctx.extra["e12conv_tie_success_compared / exact"] = [nok, nexact]
    ctx.extra["e12conv_tie_worst_rel_diff"] = worst
    ok = bad is None and nexit > 0 and nok > 0
    ctx.obligation(name, ok, "%s: %s" % (bad[0], bad[1]) if bad is not None
                   else ("" if ok else "no case reached the exit / the success path"))
    if bad is not None:
        mr, mc, e, zeros, ztext = cases[bad[2]]
        ctx.violation({"kind": "e12conv-tie", "rows": mr, "cols": mc, "um_zeros": len(zeros)},
                      "convert_ue14_to_e12 of %s: %s" % (bad[0], bad[1]),
                      {"rows": mr, "cols": mc, "um_zero_at_column_row": [list(x) for x in zeros],
                       "e12_ue14_terms": [[fs(x), fs(y)] for x, y in e], "c_input_line": clines[bad[2]],
                       "how": "harness/calcore_e12conv.c (includes vnacal_new_solve.c) < line; "
                              "Eval vm_compute in (q_convert_checked rows cols terms) with coq/Cal/EndToEndE12Check.v"})
