"""Python transcriptions of coq/PropTree/YamlText.v (text class, model scalar emitter) and the glue
that evaluates the Coq definitions (ctx.coq_eval) and the real library (harness/yaml_text.c) on
the same byte strings.  Used by checks/C14.py only.  Byte strings are lists of ints here so that
elements >= 256 (not bytes) can be given to the Coq predicate and its transcription as well."""
import re

# ------------------------------------------------------------------ valid_utf8_no_nul (the automaton of YamlText.v)
U0, UC1, UC2, UC3, UE0, UED, UF0, UF4 = range(8)


def _rng(lo, hi, c):
    return lo <= c <= hi


def utf8_step(s, c):
    if s == U0:
        if _rng(1, 127, c): return U0
        if _rng(194, 223, c): return UC1
        if c == 224: return UE0
        if _rng(225, 236, c): return UC2
        if c == 237: return UED
        if _rng(238, 239, c): return UC2
        if c == 240: return UF0
        if _rng(241, 243, c): return UC3
        if c == 244: return UF4
        return None
    if s == UC1: return U0 if _rng(128, 191, c) else None
    if s == UC2: return UC1 if _rng(128, 191, c) else None
    if s == UC3: return UC2 if _rng(128, 191, c) else None
    if s == UE0: return UC1 if _rng(160, 191, c) else None
    if s == UED: return UC1 if _rng(128, 159, c) else None
    if s == UF0: return UC2 if _rng(144, 191, c) else None
    if s == UF4: return UC2 if _rng(128, 143, c) else None
    raise ValueError(s)


def valid_utf8_no_nul(l):
    s = U0
    for c in l:
        s = utf8_step(s, c)
        if s is None:
            return False
    return s == U0


def codec_valid(l):
    """The independent oracle: Python's strict UTF-8 decoder (RFC 3629), no NUL, bytes only."""
    if any(c > 255 for c in l) or 0 in l:
        return False
    try:
        bytes(l).decode("utf-8", "strict")
        return True
    except UnicodeDecodeError:
        return False


# ------------------------------------------------------------------ model emitter (YamlText.v)
def hexdigit(n):
    return 48 + n if n < 10 else 55 + n


def esc_x(b):
    return [92, 120, hexdigit(b // 16), hexdigit(b % 16)]


def special_prefix(s):
    if not s:
        return None
    c, r = s[0], s[1:]
    if c == 92: return [92, 92], r
    if c == 34: return [92, 34], r
    if c == 10: return [92, 110], r
    if c == 9: return [92, 116], r
    if c < 32 or c == 127: return esc_x(c), r
    if c == 194:
        if r and 128 <= r[0] <= 159:
            return esc_x(r[0]), r[1:]
        return None
    if c == 226:
        if len(r) >= 2:
            if r[0] == 128 and r[1] == 168: return [92, 76], r[2:]
            if r[0] == 128 and r[1] == 169: return [92, 80], r[2:]
        return None
    if c == 239:
        if len(r) >= 2:
            if r[0] == 187 and r[1] == 191: return [92, 117, 70, 69, 70, 70], r[2:]
            if r[0] == 191 and r[1] == 190: return [92, 117, 70, 70, 70, 69], r[2:]
            if r[0] == 191 and r[1] == 191: return [92, 117, 70, 70, 70, 70], r[2:]
        return None
    return None


def escape(s):
    out = []
    s = list(s)
    while s:
        sp = special_prefix(s)
        if sp is not None:
            out += sp[0]
            s = sp[1]
        else:
            out.append(s[0])
            s = s[1:]
    return out


def has_special(s):
    return any(special_prefix(s[i:]) is not None for i in range(len(s)))


INDICATORS = [45, 63, 58, 44, 91, 93, 123, 125, 35, 38, 42, 33, 124, 62, 39, 34, 37, 64, 96]
FLOW = [44, 91, 93, 123, 125]


def no_bad_pair(s):
    for i, c in enumerate(s):
        if i + 1 == len(s):
            if c == 58 or c == 32:
                return False
        else:
            d = s[i + 1]
            if (c == 58 and d == 32) or (c == 32 and d == 35):
                return False
    return True


def plain_safe(s):
    if not s:
        return False
    c = s[0]
    return (c not in INDICATORS and c != 46 and c != 32 and all(b >= 32 and b not in FLOW for b in s)
            and not has_special(s) and no_bad_pair(s))


NULLS = [[126], [110, 117, 108, 108], [78, 117, 108, 108], [78, 85, 76, 76]]


def scalar_style(v):
    """_vnaproperty_yaml_export's style request: 'l' literal, 'd' double-quoted, 'a' any."""
    if 10 in v:
        return "l"
    if v in NULLS:
        return "d"
    return "a"


def emit_scalar(v, st):
    if st in ("p", "a") and plain_safe(v):
        return list(v), "p"
    return [34] + escape(v) + [34], "d"


# ------------------------------------------------------------------ Coq evaluation
def coq_list(l):
    return "[" + "; ".join(str(c) for c in l) + "]"


COQ_HEAD = ("Require Import List NArith Bool.\nImport ListNotations.\n"
            "Require Import LV.PropTree.PropModel LV.PropTree.YamlModel LV.PropTree.YamlText.\nOpen Scope N_scope.\n")


def coq_text_cases(ctx, strings):
    """For every string: (valid_utf8_no_nul, plain_safe, emitted text for the style
    _vnaproperty_yaml_export requests, parsed style plain?, parse_scalar (emit) gives the string back?)
    computed by the Coq definitions.  One vm_compute per chunk of strings; the results are flattened to numbers."""
    body = COQ_HEAD + (
        "Definition b2n (b : bool) : N := if b then 1 else 0.\n"
        "Definition one (v : bytes) : list N :=\n"
        "  let st := scalar_style v in let t := emit_scalar v st in\n"
        "  [b2n (valid_utf8_no_nul v); b2n (plain_safe v);\n"
        "   match parse_scalar t with Some (v', YPlain) => b2n (bytes_eqb v v') | Some (v', _) => 2 * b2n (bytes_eqb v v') | None => 9 end;\n"
        "   N.of_nat (length t)] ++ t.\n")
    CH = 300                                              # one Eval per chunk: a huge list literal overflows coqc's stack
    for k in range(0, len(strings), CH):
        body += "Eval vm_compute in (flat_map one [%s]).\n" % ";\n".join(coq_list(s) for s in strings[k:k + CH])
    rc, out, err = ctx.coq_eval("c14_text_cases", body, timeout=900)
    if rc != 0:
        raise RuntimeError("coq_eval c14_text_cases failed: " + (err or out)[-800:])
    parts = re.findall(r"=\s*\[(.*?)\]\s*:\s*list N", out, re.S)
    if len(parts) != (len(strings) + CH - 1) // CH:
        raise RuntimeError("coq_eval c14_text_cases: unexpected output " + out[-300:])
    nums = [int(x) for p_ in parts for x in re.findall(r"\d+", p_)]
    res, i = [], 0
    for _ in strings:
        valid, safe, back, n = nums[i:i + 4]
        text = nums[i + 4:i + 4 + n]
        i += 4 + n
        res.append({"valid": bool(valid), "plain_safe": bool(safe), "back": back, "text": text})
    if i != len(nums):
        raise RuntimeError("coq_eval c14_text_cases: %d numbers left over" % (len(nums) - i))
    return res


def hexs(l):
    return "".join("%02x" % c for c in l) or "-"


# ------------------------------------------------------------------ the whole-file model on edited files
def _sc(text, st="YPlain"):
    return "(YScalar %s %s)" % (coq_list(list(text)), st)


def _map(pairs):
    return "(YMapping [%s])" % "; ".join("(%s, %s)" % p for p in pairs)


CAL_OTHER = [(b"type", "T8"), (b"rows", "1"), (b"columns", "1"), (b"frequencies", "1"), (b"z0", "50")]


def cal_doc(kind):
    """(vline, pre_ok bit, Coq ynode) of the file harness/yaml_text.c builds for `cal KIND`:
    global properties {g: G}, one calibration "cal" with properties {c: C}, edited as KIND says.
    The bits of the steps that are not the properties import are set from KIND."""
    gprops = _map([(_sc(b"g"), _sc(b"G"))])
    cprops = _map([(_sc(b"c"), _sc(b"C"))])
    bad = lambda v: _map([(_sc(b"[", "YDouble"), _sc(v))])
    vline, pre = "VMajor1", "true"
    top_props = [("properties", gprops)]
    cal_props = [("properties", cprops)]
    extra_top, data_key = [], b"data"
    ncal = 1
    if kind == "version":
        vline = "VBad"
    elif kind == "field" or kind == "nodata":
        pre = "false"
        if kind == "nodata":
            data_key = b"dada"
    elif kind == "propkey":
        top_props = [("properties", bad(b"G"))]
    elif kind == "calpropkey":
        cal_props = [("properties", bad(b"C"))]
    elif kind == "extrakey":
        extra_top = [(_sc(b"future"), "(YSequence [%s; %s])" % (_sc(b"1"), _sc(b"2")))]
    elif kind == "dupglobal":
        extra_top = [(_sc(b"properties"), _map([(_sc(b"h"), _sc(b"H"))]))]
    elif kind == "dupcal":
        cal_props = cal_props + [("properties", _map([(_sc(b"d"), _sc(b"D"))]))]
    elif kind == "dupname":
        ncal = 2
    elif kind not in ("none", "oldversion"):
        raise ValueError(kind)
    cal = _map([(_sc(b"name"), _sc(b"cal"))] + [(_sc(k), _sc(v.encode())) for k, v in CAL_OTHER]
               + [(_sc(k.encode()), v) for k, v in cal_props] + [(_sc(data_key), "(YSequence [])")])
    doc = _map([(_sc(k.encode()), v) for k, v in top_props] + extra_top
               + [(_sc(b"calibrations"), "(YSequence [%s])" % "; ".join([cal] * ncal))])
    return vline, pre, doc


CAL_KINDS = ["none", "version", "oldversion", "field", "nodata", "propkey", "calpropkey", "extrakey",
             "dupglobal", "dupcal", "dupname"]

DIGEST_COQ = (
    "Definition hx (n : N) : N := if n <? 10 then 48 + n else 87 + n.\n"
    "Definition hexb (v : bytes) : bytes := flat_map (fun c => [hx (c / 16); hx (c mod 16)]) v.\n"
    "Fixpoint join (l : list bytes) : bytes := match l with [] => [] | [x] => x | x :: r => x ++ 59 :: join r end.\n"
    "Fixpoint dg (n : node) : bytes :=\n"
    "  match n with\n"
    "  | NNull => [78]\n"
    "  | NScalar v => 83 :: hexb v\n"
    "  | NMap kv => [77; 123] ++ join (map (fun p : bytes * node => let '(k, v) := p in hexb k ++ 61 :: dg v) kv) ++ [125]\n"
    "  | NList vec _ => [76; 91] ++ join (map dg vec) ++ [93]\n"
    "  end.\n"
    "Definition show (r : option (node * list node)) : bytes :=\n"
    "  match r with None => [78; 85; 76; 76] | Some (g, cs) => dg g ++ 124 :: join (map dg cs) end.\n")


def coq_cal_cases(ctx, kinds):
    """load_file of YamlModel.v on the document of every kind -> the harness' output format."""
    body = COQ_HEAD + DIGEST_COQ
    for k in kinds:
        vline, pre, doc = cal_doc(k)
        body += "Eval vm_compute in (show (load_file %s (fun _ _ => %s) (fun _ _ => true) %s)).\n" % (vline, pre, doc)
    rc, out, err = ctx.coq_eval("c14_cal_cases", body, timeout=600)
    if rc != 0:
        raise RuntimeError("coq_eval c14_cal_cases failed: " + (err or out)[-800:])
    vals = re.findall(r"=\s*\[(.*?)\]\s*:\s*bytes", out, re.S)
    if len(vals) != len(kinds):
        raise RuntimeError("coq_eval c14_cal_cases: %d results for %d cases" % (len(vals), len(kinds)))
    return ["".join(chr(int(x)) for x in re.findall(r"\d+", v)) for v in vals]
