"""Scenario generator and independent oracle for the calibration core (properties C01, C17).

The oracle never uses the library's T/U algebra to *produce* data: measurements come from a
physical E-term error network
        M = El + Er (I - S Em)^-1 S Et            (all p = max(rows, columns) VNA ports)
restricted to the rows that detect and the columns that drive (per driven column its own Er, Em,
Et, El for UE14 / E12).  The documented T/U/E equations of vnacal_layout.h are used only to
*check* the error terms the library saved.  Python stdlib only; plain complex doubles.
"""
import cmath
import math

TYPES = ["T8", "U8", "TE10", "UE10", "T16", "U16", "UE14", "E12"]
TYPE_CODE = {"T8": 0, "U8": 1, "TE10": 2, "UE10": 3, "T16": 4, "U16": 5, "UE14": 6, "E12": 8}
CODE_TYPE = {v: k for k, v in TYPE_CODE.items()}


def is_t(t):
    return t in ("T8", "TE10", "T16")


def is_col(t):
    return t in ("UE14", "E12")


def is_16(t):
    return t in ("T16", "U16")


def has_leak(t):
    return t in ("TE10", "UE10", "UE14", "E12")


def dims_allowed(t, r, c):
    return r <= c if is_t(t) else r >= c


# ----------------------------------------------------------------------------- complex matrices
def zeros(r, c):
    return [[0j] * c for _ in range(r)]


def ident(n):
    m = zeros(n, n)
    for i in range(n):
        m[i][i] = 1 + 0j
    return m


def mmul(a, b):
    n, k, m = len(a), len(b), len(b[0]) if b else 0
    out = zeros(n, m)
    for i in range(n):
        ai = a[i]
        oi = out[i]
        for l in range(k):
            x = ai[l]
            if x != 0:
                bl = b[l]
                for j in range(m):
                    oi[j] += x * bl[j]
    return out


def madd(a, b):
    return [[x + y for x, y in zip(ra, rb)] for ra, rb in zip(a, b)]


def msub(a, b):
    return [[x - y for x, y in zip(ra, rb)] for ra, rb in zip(a, b)]


def mscale(a, s):
    return [[x * s for x in r] for r in a]


def diag(v, r=None, c=None):
    r = len(v) if r is None else r
    c = len(v) if c is None else c
    m = zeros(r, c)
    for i in range(min(r, c, len(v))):
        m[i][i] = v[i]
    return m


class Singular(Exception):
    pass


def minv(a):
    """Gauss-Jordan with partial pivoting."""
    n = len(a)
    w = [list(a[i]) + [1 + 0j if i == j else 0j for j in range(n)] for i in range(n)]
    for col in range(n):
        piv = max(range(col, n), key=lambda i: abs(w[i][col]))
        if abs(w[piv][col]) < 1e-300:
            raise Singular()
        w[col], w[piv] = w[piv], w[col]
        d = w[col][col]
        w[col] = [x / d for x in w[col]]
        for i in range(n):
            if i != col and w[i][col] != 0:
                f = w[i][col]
                wi, wc = w[i], w[col]
                w[i] = [x - f * y for x, y in zip(wi, wc)]
    return [row[n:] for row in w]


def mnorm(a):
    return max([abs(x) for r in a for x in r] + [0.0])


def cond_est(a):
    try:
        return mnorm(a) * mnorm(minv(a)) * len(a)
    except Singular:
        return float("inf")


# ----------------------------------------------------------------------------- random values
def small(rng, s):
    return complex(rng.randint(-16, 16), rng.randint(-16, 16)) / 64.0 * s


def unit(rng):
    return rng.choice([1, -1, 1j, -1j, (1 + 1j) / 2 ** 0.5, (1 - 1j) / 2 ** 0.5, (-1 + 1j) / 2 ** 0.5])


# ----------------------------------------------------------------------------- E-term network
def gen_enet(rng, typ, p, cols):
    """Physical error network on p VNA ports (one per frequency)."""
    def box(off):
        er = diag([1 + small(rng, 1.0) for _ in range(p)])
        et = diag([1 + small(rng, 1.0) for _ in range(p)])
        em = diag([small(rng, 1.2) for _ in range(p)])
        el = diag([small(rng, 1.0) for _ in range(p)])
        return er, et, em, el
    if is_col(typ):
        out = []
        for c in range(cols):
            er = [(1 + small(rng, 1.0)) * unit(rng) for _ in range(p)]
            em = [small(rng, 1.2) for _ in range(p)]
            et = (1 + small(rng, 1.0))
            el = [small(rng, 1.0) for _ in range(p)]
            out.append({"er": er, "em": em, "et": et, "el": el})
        return {"kind": "col", "cols": out}
    er, et, em, el = box(False)
    if has_leak(typ) or is_16(typ):
        for i in range(p):
            for j in range(p):
                if i != j:
                    el[i][j] = small(rng, 0.6)
    if is_16(typ):
        for i in range(p):
            for j in range(p):
                if i != j:
                    er[i][j] = small(rng, 0.4)
                    et[i][j] = small(rng, 0.4)
                    em[i][j] = small(rng, 0.4)
    return {"kind": "common", "er": er, "et": et, "em": em, "el": el}


def measure(enet, s, r, c):
    """r x c measurement matrix the VNA reports for a device with p x p S matrix s."""
    p = len(s)
    if enet["kind"] == "common":
        x = minv(msub(ident(p), mmul(s, enet["em"])))
        mfull = madd(enet["el"], mmul(mmul(enet["er"], mmul(x, s)), enet["et"]))
        return [row[:c] for row in mfull[:r]]
    m = zeros(r, c)
    for col in range(c):
        e = enet["cols"][col]
        x = minv(msub(ident(p), mmul(s, diag(e["em"]))))
        v = mmul(x, [[s[i][col]] for i in range(p)])
        for i in range(r):
            m[i][col] = e["el"][i] + e["er"][i] * v[i][0] * e["et"]
    return m


# ----------------------------------------------------------------------------- layout (vnacal_new(3) table)
def layout(typ, r, c):
    p = max(r, c)
    d = min(r, c)
    if typ in ("T8", "TE10"):
        sizes = [r, r, c, c]
        el = r * c - d if typ == "TE10" else 0
    elif typ in ("U8", "UE10"):
        sizes = [r, c, r, c]
        el = r * c - d if typ == "UE10" else 0
    elif typ == "T16":
        sizes = [r * p, r * p, c * p, c * p]
        el = 0
    elif typ == "U16":
        sizes = [p * r, p * c, p * r, p * c]
        el = 0
    elif typ == "UE14":
        sizes = [r, 1, r, 1]
        el = r * c - d
    else:
        raise ValueError(typ)
    offs = [0, sizes[0], sizes[0] + sizes[1], sizes[0] + sizes[1] + sizes[2]]
    return offs, sizes, sum(sizes), el


def pmax(a, b):
    """out[i][j] = max_k |a[i][k]| |b[k][j]|: the largest term of cell (i, j) of the product a b"""
    n, k, m = len(a), len(b), len(b[0]) if b else 0
    out = [[0.0] * m for _ in range(n)]
    for i in range(n):
        for l in range(k):
            x = abs(a[i][l])
            if x != 0:
                bl = b[l]
                oi = out[i]
                for j in range(m):
                    y = x * abs(bl[j])
                    if y > oi[j]:
                        oi[j] = y
    return out


TERMS_FLOOR = 1e-3


def terms_equations(typ, r, c, e, s, m):
    """The scalar equations of the documented matrix equation for one standard at one frequency, with the saved
    error terms e (s: p x p S of the standard on all ports; m: r x c measured).  Returns a list of
    (row, |residual|, scale): scale = the largest term magnitude of THAT equation (products coefficient x saved
    term; the measured value and the leakage term subtracted from it counted separately), row = row of the
    matrix equation (the receiver row for the T types, UE14 and E12)."""
    p = max(r, c)
    if typ == "E12":
        eqs = []
        nt = 3 * r
        for col in range(c):
            el = e[col * nt: col * nt + r]
            er = e[col * nt + r: col * nt + 2 * r]
            em = e[col * nt + 2 * r: col * nt + 3 * r]
            x = minv(msub(ident(p), mmul(diag(em), s)))
            v = mmul(mmul(diag(er), s), mmul(x, [[1 + 0j if i == col else 0j] for i in range(p)]))
            for i in range(r):
                pred = el[i] + v[i][0]
                eqs.append((i, abs(pred - m[i][col]), max(abs(el[i]), abs(v[i][0]), abs(m[i][col]))))
        return eqs
    offs, sizes, nt, nel = layout(typ, r, c)
    if typ == "UE14":
        elv = e[c * nt: c * nt + nel]
    else:
        elv = e[nt: nt + nel]
    mp = [list(row) for row in m]
    mabs = [[abs(x) for x in row] for row in m]          # |m| + |el|: magnitude of the terms behind m - el
    if nel:
        k = 0
        for i in range(r):
            for j in range(c):
                if i != j:
                    mp[i][j] -= elv[k]
                    mabs[i][j] += abs(elv[k])
                    k += 1
    if typ == "UE14":
        eqs = []
        for col in range(c):
            b = col * nt
            um = e[b: b + r]
            ui = e[b + r]
            ux = e[b + r + 1: b + 2 * r + 1]
            us = e[b + 2 * r + 1]
            lhs = [um[i] * mp[i][col] + (ui if i == col else 0) for i in range(p)]
            y = [[ux[i] * mp[i][col] + (us if i == col else 0)] for i in range(p)]
            ya = [abs(ux[i]) * mabs[i][col] + (abs(us) if i == col else 0.0) for i in range(p)]
            rhs = mmul(s, y)
            for i in range(p):
                scale = max([abs(um[i]) * mabs[i][col], abs(ui) if i == col else 0.0] +
                            [abs(s[i][k]) * ya[k] for k in range(p)])
                eqs.append((i, abs(lhs[i] - rhs[i][0]), scale))
        return eqs
    blk = [e[offs[i]: offs[i] + sizes[i]] for i in range(4)]

    def tomat(v, rows, cols, full):
        if full:
            return [[v[i * cols + j] for j in range(cols)] for i in range(rows)]
        return diag(v, rows, cols)

    def cells(res, scales):
        return [(i, abs(res[i][j]), max(sm[i][j] for sm in scales))
                for i in range(len(res)) for j in range(len(res[0]))]
    full = is_16(typ)
    if is_t(typ):
        # Ts S + Ti = M Tx S + M Tm      (r x p)
        ts, ti = tomat(blk[0], r, p, full), tomat(blk[1], r, p, full)
        tx, tm = tomat(blk[2], c, p, full), tomat(blk[3], c, p, full)
        xs = mmul(tx, s)
        t1, t2 = mmul(ts, s), ti
        t3, t4 = mmul(mp, xs), mmul(mp, tm)
        res = msub(madd(t1, t2), madd(t3, t4))
        return cells(res, [pmax(ts, s), pmax(ti, ident(p)), pmax(mabs, xs), pmax(mabs, tm)])
    # Um M + Ui = S (Ux M + Us)      (p x c)
    um, ui = tomat(blk[0], p, r, full), tomat(blk[1], p, c, full)
    ux, us = tomat(blk[2], p, r, full), tomat(blk[3], p, c, full)
    t1, t2 = mmul(um, mp), ui
    t3, t4 = mmul(s, mmul(ux, mp)), mmul(s, us)
    res = msub(madd(t1, t2), madd(t3, t4))
    ya = pmax(ux, mabs)
    return cells(res, [pmax(um, mabs), pmax(ui, ident(c)), pmax(s, ya), pmax(s, us)])


def worst_relative(eq_lists, floor=TERMS_FLOOR):
    """Worst relative residual over the equations of several standards at one frequency (eq_lists: one list of
    terms_equations per standard).  Every residual is divided by the largest term magnitude of its own equation,
    but by no less than floor x the largest term magnitude met in the same row over all the standards: an equation
    all of whose terms vanish (a match seen through a receiver without directivity error: 0 = el + er 0) carries
    the rounding error of the solved terms, which is relative to the level of that row, not to zero.
    Returns (worst, index of the standard)."""
    rowmax = {}
    for eqs in eq_lists:
        for row, res, scale in eqs:
            if scale > rowmax.get(row, 0.0):
                rowmax[row] = scale
    worst, at = 0.0, None
    for k, eqs in enumerate(eq_lists):
        for row, res, scale in eqs:
            d = res / max(scale, floor * rowmax.get(row, 0.0), 1e-300)
            if not d <= worst:
                worst, at = d, k
    return worst, at


def check_terms(typ, r, c, e, s, m):
    """worst relative residual of the documented equation for one standard at one frequency (see worst_relative)"""
    return worst_relative([terms_equations(typ, r, c, e, s, m)])[0]


# ----------------------------------------------------------------------------- standards
class Std(object):
    """One measured standard.  ports: VNA ports (1-based) in the order of the standard's own
    ports; S[f]: k x k matrix of the standard; srows/scols: part of S given to the library."""
    def __init__(self, fn, ports, S, srows=None, scols=None, mapflag=1, scalar=False):
        self.fn = fn
        self.ports = list(ports)
        self.S = S
        k = len(ports)
        self.srows = k if srows is None else srows
        self.scols = k if scols is None else scols
        self.mapflag = mapflag
        self.scalar = scalar
        self.brows = self.bcols = None
        self.form = "m"
        self.Sfull = None
        self.Mfull = None
        self.A = None
        self.tokens = None

    def clone(self):
        o = Std(self.fn, self.ports, self.S, self.srows, self.scols, self.mapflag, self.scalar)
        o.__dict__.update(self.__dict__)
        o.ports = list(self.ports)
        return o


def const_over_f(F, mat):
    return [mat for _ in range(F)]


def rand_gammas(rng):
    """three well separated reflection coefficients"""
    u = unit(rng)
    base = [-1 + 0j, 1 + 0j, 0j]
    rng.shuffle(base)
    exact = rng.random() < 0.35
    if exact:
        return [b for b in base]
    return [b * u + small(rng, 0.6) for b in base]


def rand_line(rng):
    kind = rng.randrange(3)
    if kind == 0:
        return [[0j, 1 + 0j], [1 + 0j, 0j]]
    t = (0.75 + rng.randint(0, 8) / 32.0) * unit(rng)
    t2 = t if rng.random() < 0.6 else (0.75 + rng.randint(0, 8) / 32.0) * unit(rng)
    return [[small(rng, 1.2), t], [t2, small(rng, 1.2)]]


def rand_full_s(rng, k, mag=2.0):
    return [[small(rng, mag) for _ in range(k)] for _ in range(k)]


class Scenario(object):
    def __init__(self, typ, r, c, F):
        self.typ, self.r, self.c, self.F = typ, r, c, F
        self.p = max(r, c)
        self.freqs = [1e9 * (i + 1) for i in range(F)]
        self.enets = None
        self.stds = []
        self.dut = None
        self.apply_form = "m"
        self.name = "cal"


def full_s(rng, p, std, f, fill):
    """p x p S matrix seen by the VNA: the standard on its ports, fill[f] elsewhere (the unused
    ports keep their terminations; no path between used and unused ports)."""
    s = [list(row) for row in fill[f]]
    used = [q - 1 for q in std.ports]
    for i in range(p):
        for j in range(p):
            if (i in used) != (j in used):
                s[i][j] = 0j
    for a, pa in enumerate(used):
        for b, pb in enumerate(used):
            s[pa][pb] = std.S[f][a][b]
    return s


def m_shape_options(typ, r, c, std):
    k = len(std.ports)
    if typ == "T16":
        minr, minc = std.srows, c
    elif typ == "U16":
        minr, minc = r, std.scols
    else:
        minr, minc = k, k
    rows = [r]
    cols = [c]
    if minr < r and all(q <= r for q in std.ports) and (typ != "T16" or std.srows == k):
        rows.append(minr)
    if minc < c and all(q <= c for q in std.ports) and (typ != "U16" or std.scols == k):
        cols.append(minc)
    return rows, cols


def gen_scenario(rng, typ, r, c, F, form=None, rich=True, vector_prob=0.4, extras=True):
    sc = Scenario(typ, r, c, F)
    p, q = sc.p, min(r, c)
    sc.enets = [gen_enet(rng, typ, p, c) for _ in range(F)]
    stds = []

    def mk_S(mat_fn):
        """scalar (constant over frequency) or vector standard"""
        if F == 1 or rng.random() > vector_prob:
            m = mat_fn()
            return const_over_f(F, m), True
        return [mat_fn() for _ in range(F)], False

    # 1. three reflects per core port; some grouped into double reflects
    gam = {i: None for i in range(1, p + 1)}
    per_port = {}
    for i in range(1, p + 1):
        S3 = []
        for t in range(3):
            S3.append(None)
        per_port[i] = S3
    vec_port = {i: (F > 1 and rng.random() < vector_prob) for i in range(1, p + 1)}
    for i in range(1, p + 1):
        if vec_port[i]:
            gs = [rand_gammas(rng) for _ in range(F)]
            # keep the same base order over frequency so that the three stay separated
            per_port[i] = [[gs[f][t] for f in range(F)] for t in range(3)]
        else:
            g = rand_gammas(rng)
            per_port[i] = [[g[t]] * F for t in range(3)]
    for t in range(3):
        todo = list(range(1, q + 1))
        rng.shuffle(todo)
        while todo:
            i = todo.pop()
            choice = rng.random()
            if choice < 0.35 and p >= 2:
                # double reflect with another port (core port still to do, or any other port)
                if todo and rng.random() < 0.7:
                    j = todo.pop()
                else:
                    j = rng.choice([x for x in range(1, p + 1) if x != i])
                gi, gj = per_port[i][t], per_port[j][t]
                S = [[[gi[f], 0j], [0j, gj[f]]] for f in range(F)]
                fn = "dr" if rng.random() < 0.7 else "mm"
                st = Std(fn, [i, j], S, scalar=not (vec_port[i] or vec_port[j]))
                st.first_of = [x for x in (i, j) if t == 0 and x <= q]
            else:
                g = per_port[i][t]
                S = [[[g[f]]] for f in range(F)]
                fn = "sr" if rng.random() < 0.75 else "mm"
                st = Std(fn, [i], S, scalar=not vec_port[i])
                st.first_of = [i] if t == 0 else []
            stds.append(st)
    # 2. a two-port connection for every pair of ports
    for i in range(1, p + 1):
        for j in range(i + 1, p + 1):
            a, b = (i, j) if rng.random() < 0.5 else (j, i)
            kind = rng.random()
            if kind < 0.3:
                S, scal = const_over_f(F, [[0j, 1 + 0j], [1 + 0j, 0j]]), True
                fn = "th"
            else:
                S, scal = mk_S(lambda: rand_line(rng))
                fn = "ln" if kind < 0.7 else "mm"
            st = Std(fn, [a, b], S, scalar=scal)
            st.first_of = []
            stds.append(st)
    # 3. 16-term: full p-port random standards
    if is_16(typ) and p >= 2:
        unknowns = 2 * r * c + 2 * p * p - 1
        per = (r if is_t(typ) else c) * p
        n = -(-unknowns // per) + 2
        for _ in range(n):
            S, scal = mk_S(lambda: rand_full_s(rng, p))
            ports = list(range(1, p + 1))
            flag = 1
            mode = rng.random()
            if mode < 0.35:
                flag = 0
            elif mode < 0.7:
                rng.shuffle(ports)
            st = Std("mm", ports, S, mapflag=flag, scalar=scal)
            st.first_of = []
            stds.append(st)
    # 4. extras: multi-port standards on a subset, rectangular S for the 16-term types
    if extras and p >= 3 and rng.random() < 0.7:
        k = rng.randint(2, p)
        ports = rng.sample(range(1, p + 1), k)
        S, scal = mk_S(lambda: rand_full_s(rng, k, 1.6))
        st = Std("mm", ports, S, scalar=scal)
        st.first_of = []
        if is_16(typ) and k >= 2 and rng.random() < 0.5:
            if is_t(typ):
                st.scols = rng.randint(1, k)
            else:
                st.srows = rng.randint(1, k)
        stds.append(st)
    elif extras and is_16(typ) and p >= 2 and rng.random() < 0.5:
        ports = list(range(1, p + 1))
        rng.shuffle(ports)
        S, scal = mk_S(lambda: rand_full_s(rng, p, 1.6))
        st = Std("mm", ports, S, scalar=scal)
        st.first_of = []
        if is_t(typ):
            st.scols = rng.randint(1, p)
        else:
            st.srows = rng.randint(1, p)
        stds.append(st)
    # sparse, non-reciprocal multi-port standard with explicit zeros (random directed graph)
    if extras and p >= 3 and rng.random() < 0.8:
        k = rng.randint(3, p)
        ports = rng.sample(range(1, p + 1), k)

        def sparse():
            m = [[0j] * k for _ in range(k)]
            for a in range(k):
                for b in range(k):
                    if a == b:
                        m[a][b] = small(rng, 1.6)
                    elif rng.random() < 0.3:
                        m[a][b] = (0.75 + rng.randint(0, 8) / 32.0) * unit(rng)
            return m
        pat = sparse()
        if F > 1 and rng.random() < vector_prob:
            # same zero pattern at every frequency
            S = [[[pat[a][b] * (1 + 0.125 * f) for b in range(k)] for a in range(k)] for f in range(F)]
            scal = False
        else:
            S, scal = const_over_f(F, pat), True
        st = Std("mm", ports, S, scalar=scal)
        st.first_of = []
        stds.append(st)
    # leakage determined only through a standard whose off-diagonal cells are explicit VNACAL_ZEROs
    leak_by_zeros = has_leak(typ) and p >= 2 and rng.random() < 0.35
    last = None
    if leak_by_zeros:
        g = [small(rng, 2.0) for _ in range(p)]
        S = const_over_f(F, [[g[a] if a == b else 0j for b in range(p)] for a in range(p)])
        last = Std("mm", list(range(1, p + 1)), S, mapflag=rng.choice([0, 1]), scalar=True)
        last.first_of = []
        last.force_full = True
    # full NULL-map mapped matrix for the non-16 types too (identity map implied)
    if extras and not is_16(typ) and rng.random() < 0.4:
        S, scal = mk_S(lambda: rand_full_s(rng, p, 1.6))
        st = Std("mm", list(range(1, p + 1)), S, mapflag=0, scalar=scal)
        st.first_of = []
        stds.append(st)

    # shapes, forms, physical measurements
    fill = [diag([small(rng, 2.0) for _ in range(p)]) for _ in range(F)]
    if p >= 3 and rng.random() < 0.5:
        for f in range(F):
            for i in range(p):
                for j in range(p):
                    if i != j:
                        fill[f][i][j] = small(rng, 1.0)
    scen_form = form if form is not None else rng.choice(["m", "ab", "mixed"])
    for st in stds:
        rows, cols = m_shape_options(typ, r, c, st)
        if st.first_of and has_leak(typ) and not leak_by_zeros:
            st.brows, st.bcols = r, c
        elif leak_by_zeros and len(st.ports) <= 2 and st.fn in ("sr", "dr", "mm") and len(rows) > 1 and len(cols) > 1:
            st.brows, st.bcols = rows[-1], cols[-1]       # abbreviated: no leakage samples from the reflects
        else:
            st.brows, st.bcols = rng.choice(rows), rng.choice(cols)
        st.form = scen_form if scen_form != "mixed" else rng.choice(["m", "ab"])
        finish_std(rng, sc, st, fill)
    rng.shuffle(stds)
    if last is not None:
        last.brows, last.bcols = r, c
        last.form = scen_form if scen_form != "mixed" else rng.choice(["m", "ab"])
        finish_std(rng, sc, last, fill)
        stds.append(last)
    sc.stds = stds
    sc.fill = fill
    sc.dut = [rand_full_s(rng, p, 2.4) for _ in range(F)]
    sc.apply_form = rng.choice(["m", "ab"])
    sc.apply_A = [rand_a(rng, typ, p) for _ in range(F)]
    return sc


def rand_a(rng, typ, n):
    """reference ('a') matrix: n x n well conditioned, or 1 x n for the column types"""
    if is_col(typ):
        return [[(1 + small(rng, 1.5)) * unit(rng) for _ in range(n)]]
    a = [[small(rng, 0.8) for _ in range(n)] for _ in range(n)]
    for i in range(n):
        a[i][i] = (1 + small(rng, 1.0)) * unit(rng)
    return a


def finish_std(rng, sc, st, fill):
    """physical S of all ports, measurements, reference matrices"""
    p = sc.p
    st.Sfull = [full_s(rng, p, st, f, fill) for f in range(sc.F)]
    st.Mfull = [measure(sc.enets[f], st.Sfull[f], sc.r, sc.c) for f in range(sc.F)]
    if st.form == "ab":
        st.A = [rand_a(rng, sc.typ, st.bcols) for _ in range(sc.F)]


def sub_m(sc, st, f):
    """the (possibly abbreviated) measurement matrix handed to the library"""
    sp = sorted(st.ports)
    rows = list(range(sc.r)) if st.brows == sc.r else [q - 1 for q in sp]
    cols = list(range(sc.c)) if st.bcols == sc.c else [q - 1 for q in sp]
    return [[st.Mfull[f][i][j] for j in cols] for i in rows]


def ab_of(typ, m, a):
    """b matrix for reference matrix a such that the library's b a^-1 (or b/a) equals m"""
    if is_col(typ):
        return [[m[i][j] * a[0][j] for j in range(len(m[0]))] for i in range(len(m))]
    return mmul(m, a)


# ----------------------------------------------------------------------------- frequency grids
# The grid of gen_scenario is 1, 2, .. GHz.  draw_grid replaces it (the error boxes, standards and DUT are per
# frequency INDEX, so nothing else changes): grids of every density must not matter to calibrate-then-apply at the
# grid points, whatever tolerance an interpolation routine uses to recognise a grid point.
GRID_KINDS = ["ordinary", "wide", "dense", "ulp"]


def draw_grid(rng, sc, kind=None):
    """Replace sc.freqs; all draws from rng.  Records sc.grid = {"kind", ...} (shown by describe)."""
    import math
    F = sc.F
    if kind is None:
        kind = rng.choice(GRID_KINDS)
    info = {"kind": kind}
    if kind == "wide":
        lo = 10.0 ** rng.uniform(2, 5)
        hi = 10.0 ** rng.uniform(9, 11.5)
        fr = [lo] if F == 1 else [lo * (hi / lo) ** (i / (F - 1.0)) for i in range(F)]
    elif kind == "dense":
        f0 = rng.choice([1e9, 2.4e9, 10e9, 26.5e9, 77e9]) * (1 + rng.random() * 1e-3)
        f0 = float(int(f0))
        df = rng.choice([1.0, 1.0, 2.0, 10.0, 100.0, 1e3, 1e4])
        fr = [f0 + i * df for i in range(F)]
        info.update({"f0": f0, "df": df, "relative_spacing": df / f0})
    elif kind == "ulp":
        f0 = 10.0 ** rng.uniform(6, 10.5)
        step = rng.choice([2, 2, 3, 5, 16])
        fr = [f0]
        for _ in range(F - 1):
            x = fr[-1]
            for _ in range(step):
                x = math.nextafter(x, math.inf)
            fr.append(x)
        info.update({"f0": f0, "ulps": step})
    else:
        fr = [1e9 * (i + 1) for i in range(F)]
    sc.freqs = fr
    sc.grid = info
    return info


def constant_network(rng, sc):
    """Make the error boxes the same at every frequency (the standards and the device still vary) and draw
    frequencies strictly between the calibration points at which the device is measured as well: the terms between
    the grid points are then the same terms, whatever interpolation is used.  Call before draw_scale."""
    if sc.F < 2:
        return
    sc.enets = [sc.enets[0]] * sc.F
    for st in sc.stds:
        st.Mfull = [measure(sc.enets[f], st.Sfull[f], sc.r, sc.c) for f in range(sc.F)]
    bt = []
    for i in range(sc.F - 1):
        lo, hi = sc.freqs[i], sc.freqs[i + 1]
        x = lo + (hi - lo) * rng.choice([0.5, 0.25, 0.9, 1e-3])
        if lo < x < hi:
            bt.append(x)
    # the device measured at bt[i] is the device of frequency index i (same box: same measurement)
    sc.between = bt


# ----------------------------------------------------------------------------- magnitude scaling
# The networks of gen_enet have entries of order 1, hence measured values of order 1: an ABSOLUTE threshold
# inside the solver / apply / LU / QR (cabs(x) < 1e-10, == 0 after rounding, an absolute convergence test)
# would go unnoticed.  draw_scale turns a scenario into one of the same calibration problem seen through
# receivers / a source / reference channels of another level.  The S of the standards and of the DUT is never
# scaled: the calibration has to absorb the levels and return the same S.
#   "rx"   receiver gain: Er and El times g (every measured value, standards and DUT, is multiplied by g)
#   "src"  source level: Et times g (El, i.e. directivity and leakage, stays of order 1: tracking terms and
#          directivity now differ by the factor g)
#   "rows" per-receiver gains: row i of Er and of El times g_i, independent exponents (a diagonal / full Er stays
#          diagonal / full, a diagonal El stays diagonal: every type represents the scaled network)
#   "ab"   a/b form only: the reference (a) and the measured (b) matrices of every standard given in a/b form,
#          and of the DUT when it is applied in a/b form, both times g (own exponent per matrix pair); M = b a^-1
#          is unchanged
# Exponent ranges.  "rx" and "ab" are absorbed exactly (errors stay at 1e-15 at +-6, +-9 and +-12 decades for every
# type, 8 seeds per point), so +-12 decades: an absolute threshold of 1e-9 on a pivot or a measured value is within
# reach (with +-6 it is not: pivots stay above 1e-7).  Two of the modes change the conditioning of the calibration problem itself, smoothly (no
# threshold; measured on the library, 12-16 seeds per point):
#  * "src": tracking terms 10^k times the directivity / leakage terms.  k < 0: the DUT's S comes from m - el, a
#    cancellation of 10^-k (apply error 2e-12 at k = -4, 2e-10 at k = -6; the perturbation test moves by 5e-9 at -4,
#    5e-7 at -6); k > 0: directivity is known to eps 10^k relative to itself, the equations of a match (terms of
#    order 1 among terms of order 10^k) show a relative residual of 1e-10 at k = 4, 8e-9 at k = 6.  Range +-4.
#  * "rows" on the T types (T8, TE10, T16): every T equation of row i carries the factor g_i (Ts, Ti row i), so
#    the linear system is row-scaled by the receiver gains and the error of the solution grows like
#    eps max(g) / min(g): 1e-11 at 4 decades of spread, 1e-9 at 6, 1e-7 at 8, 1e-4 at 12 (terms residual and
#    applied S alike; the perturbation test moves the same way).  The U types and UE14 / E12 turn receiver gains
#    into column scalings of the unknowns (Um G^-1), which LU and QR absorb: errors stay at 1e-15 for +-6
#    decades per row.  T types: a common exponent in +-4 and per-row deviations in +-2 (spread <= 4 decades);
#    other types: independent exponents in +-6.
SCALE_MODES = ["rx", "src", "rows", "ab"]
SCALE_KMAX = {"rx": 12.0, "src": 4.0, "rows": 6.0, "ab": 12.0}
ROWS_T_COMMON, ROWS_T_DEV = 4.0, 2.0


def scaled_enet(enet, row_g, et_g):
    """the network with receiver gains row_g[i] (row i of Er and El) and source level et_g (Et)"""
    p = len(row_g)
    if enet["kind"] == "col":
        cols = []
        for e in enet["cols"]:
            cols.append({"er": [e["er"][i] * row_g[i] for i in range(p)], "em": list(e["em"]),
                         "et": e["et"] * et_g, "el": [e["el"][i] * row_g[i] for i in range(p)]})
        return {"kind": "col", "cols": cols}
    return {"kind": "common",
            "er": [[x * row_g[i] for x in enet["er"][i]] for i in range(p)],
            "el": [[x * row_g[i] for x in enet["el"][i]] for i in range(p)],
            "et": mscale(enet["et"], et_g),
            "em": [list(r) for r in enet["em"]]}


def has_ab(sc):
    return ((getattr(sc, "apply_both", False) or sc.apply_form == "ab") and apply_accepts(sc.r, sc.c)
            or any(st.form == "ab" for st in sc.stds))


def draw_scale(rng, sc, mode=None, exponents=None):
    """Scale the raw measurements of scenario sc (made by gen_scenario, not scaled yet) in one of SCALE_MODES;
    all draws from rng.  Records sc.scale = {"mode", "exponents"} (shown by describe) and returns it.
    exponents (replay / bisection): the exponents to use instead of drawn ones, in the order they would be drawn."""
    assert getattr(sc, "scale", None) is None
    modes = [m for m in SCALE_MODES if m != "ab" or has_ab(sc)]
    if mode is None or mode not in modes:
        mode = rng.choice(modes)
    kmax = SCALE_KMAX[mode]

    given = list(exponents) if isinstance(exponents, (list, tuple)) else ([exponents] * 64 if exponents is not None else None)

    def expo():
        if given is not None:
            return given.pop(0)
        return round(rng.uniform(-kmax, kmax), 3)
    p = sc.p
    if mode == "ab":
        ks = []
        for st in sc.stds:
            if st.form == "ab":
                k = expo()
                st.A = [mscale(a, 10.0 ** k) for a in st.A]
                ks.append(k)
            else:
                ks.append(None)
        ka = None
        if (getattr(sc, "apply_both", False) or sc.apply_form == "ab") and apply_accepts(sc.r, sc.c):
            # the device is applied through vnacal_apply (a/b) (in every C01 scenario): its a and b get a level too
            ka = expo()
            sc.apply_A = [mscale(a, 10.0 ** ka) for a in sc.apply_A]
        sc.scale = {"mode": mode, "exponents": {"standards": ks, "apply": ka}}
        return sc.scale
    if mode == "rx":
        k = expo()
        row_g, et_g, ex = [10.0 ** k] * p, 1.0, k
    elif mode == "src":
        k = expo()
        row_g, et_g, ex = [1.0] * p, 10.0 ** k, k
    elif is_t(sc.typ) and given is None:
        k0 = rng.uniform(-ROWS_T_COMMON, ROWS_T_COMMON)
        ex = [round(k0 + rng.uniform(-ROWS_T_DEV, ROWS_T_DEV), 3) for _ in range(p)]
        row_g, et_g = [10.0 ** k for k in ex], 1.0
    else:
        ex = [expo() for _ in range(p)]
        row_g, et_g = [10.0 ** k for k in ex], 1.0
    sc.enets = [scaled_enet(e, row_g, et_g) for e in sc.enets]
    for st in sc.stds:
        st.Mfull = [measure(sc.enets[f], st.Sfull[f], sc.r, sc.c) for f in range(sc.F)]
    sc.scale = {"mode": mode, "exponents": ex}
    return sc.scale


# ----------------------------------------------------------------------------- script
def hx(x):
    return float(x).hex()


def cx(z):
    z = complex(z)
    return "%s %s" % (hx(z.real), hx(z.imag))


class Script(object):
    def __init__(self, noise=None, pool=None, extend=None):
        self.lines = []
        self.npar = 0
        self.cache = {}
        self.noise = noise      # optional random.Random: measured values get a 1e-12 relative perturbation
        self.pool = pool        # optional random.Random: parameters are created up front, in shuffled order,
                                # among unused ones, such that the first one referenced has index 16
        self.extend = extend    # optional random.Random: vector parameters get extra knots above the
                                # calibration band and are evaluated there before the solve
        self.vector_queries = []

    def param(self, values, freqs, allow_predef=True):
        """token for a parameter with the given per-frequency values"""
        const = all(v == values[0] for v in values)
        if const:
            v = complex(values[0])
            if allow_predef:
                if v == 0:
                    return "Z"
                if v == 1:
                    return "O"
                if v == -1:
                    return "S"
            key = ("s", v)
            if key in self.cache:
                return self.cache[key]
            pid = self.npar
            self.npar += 1
            self.lines.append("scalar %d %s" % (pid, cx(v)))
            self.cache[key] = "p%d" % pid
            return "p%d" % pid
        pid = self.npar
        self.npar += 1
        freqs = list(freqs)
        values = list(values)
        if self.extend is not None:
            top = freqs[-1]
            extra = [top * (1.25 + 0.5 * i) for i in range(6)]
            freqs += extra
            values += [small(self.extend, 3.0) for _ in extra]
            # an off-grid frequency several knots above the calibration band
            self.vector_queries.append((pid, extra[-2] + 0.37 * (extra[-1] - extra[-2])))
        self.lines.append("vector %d %d %s %s" % (pid, len(freqs), " ".join(hx(f) for f in freqs),
                                                  " ".join(cx(v) for v in values)))
        return "p%d" % pid

    def query_vectors(self):
        """vnacal_get_parameter_value of every vector parameter made so far, above the band"""
        for pid, f in self.vector_queries:
            self.lines.append("pvalue %d %s" % (pid, hx(f)))

    def new(self, slot, sc):
        self.lines.append("new %d %d %d %d %d %s" % (slot, TYPE_CODE[sc.typ], sc.r, sc.c, sc.F,
                                                    " ".join(hx(f) for f in sc.freqs)))

    def cells(self, mats, measured=False):
        """mats[f][i][j] -> cell-major, frequency-minor stream"""
        F = len(mats)
        rows, cols = len(mats[0]), len(mats[0][0])
        out = []
        for i in range(rows):
            for j in range(cols):
                vals = [mats[f][i][j] for f in range(F)]
                if measured and self.noise is not None:
                    vals = [v * (1 + 1e-12 * complex(self.noise.uniform(-1, 1), self.noise.uniform(-1, 1))) for v in vals]
                out.append(" ".join(cx(v) for v in vals))
        return " ".join(out)

    def add(self, slot, sc, st):
        F = sc.F
        ms = [sub_m(sc, st, f) for f in range(F)]
        if st.form == "ab":
            bs = [ab_of(sc.typ, ms[f], st.A[f]) for f in range(F)]
            ar, ac = len(st.A[0]), len(st.A[0][0])
            head = "add %d %s ab %d %d %d %d %s %s" % (slot, st.fn, ar, ac, st.brows, st.bcols,
                                                     self.cells(st.A), self.cells(bs, True))
        else:
            head = "add %d %s m 0 0 %d %d %s" % (slot, st.fn, st.brows, st.bcols, self.cells(ms, True))
        k = len(st.ports)

        def tok(a, b):
            return self.param([st.S[f][a][b] for f in range(F)], sc.freqs)
        if st.fn == "sr":
            tail = "%s %d" % (tok(0, 0), st.ports[0])
        elif st.fn == "dr":
            tail = "%s %s %d %d" % (tok(0, 0), tok(1, 1), st.ports[0], st.ports[1])
        elif st.fn == "th":
            tail = "%d %d" % (st.ports[0], st.ports[1])
        elif st.fn == "ln":
            tail = "%s %s %s %s %d %d" % (tok(0, 0), tok(0, 1), tok(1, 0), tok(1, 1), st.ports[0], st.ports[1])
        elif st.fn == "mm":
            toks = [tok(a, b) for a in range(st.srows) for b in range(st.scols)]
            tail = "%d %d %s %d" % (st.srows, st.scols, " ".join(toks), st.mapflag)
            if st.mapflag:
                tail += " " + " ".join(str(q) for q in st.ports[:max(st.srows, st.scols)])
        else:
            raise ValueError(st.fn)
        self.lines.append(head + " " + tail)

    def apply(self, sc, name, form, mats, amats, ref=None, freqs=None):
        """ref: apply through a calibration index ('rK' = value returned by the K-th addcal of the script)
        instead of the index vnacal_find_calibration gives for the name; freqs: the frequencies of the device
        measurement when they are not the calibration frequencies"""
        fr = sc.freqs if freqs is None else freqs
        F = len(fr)
        n = len(mats[0])
        cmd = "apply %s" % name if ref is None else "applyi %s" % ref
        if form == "ab":
            bs = [ab_of(sc.typ, mats[f], amats[f]) for f in range(F)]
            self.lines.append("%s ab %d %s %d %d %d %d %s %s" % (
                cmd, F, " ".join(hx(f) for f in fr), len(amats[0]), n, n, n,
                self.cells(amats), self.cells(bs, True)))
        else:
            self.lines.append("%s m %d %s 0 0 %d %d %s" % (
                cmd, F, " ".join(hx(f) for f in fr), n, n, self.cells(mats, True)))

    def text(self):
        if self.pool is None:
            return "\n".join(self.lines) + "\n"
        rng = self.pool
        par = [l for l in self.lines if l.startswith("scalar ") or l.startswith("vector ")]
        rest = [l for l in self.lines if not (l.startswith("scalar ") or l.startswith("vector "))]
        first = None
        for l in rest:
            if l.startswith("add "):
                toks = [t for t in l.split() if len(t) > 1 and t[0] == "p" and t[1:].isdigit()]
                if toks:
                    first = int(toks[0][1:])
                break
        nd = [self.npar]

        def dummy():
            nd[0] += 1
            return "scalar %d %s %s" % (nd[0] - 1, hx(2.0 + rng.random()), hx(rng.random()))
        head = []
        body = list(par)
        if first is not None:
            fl = [l for l in par if int(l.split()[1]) == first]
            body = [l for l in par if int(l.split()[1]) != first]
            head = [dummy() for _ in range(13)] + fl       # user handles start at 3: this one is 16
        rng.shuffle(body)
        out = []
        for l in body:
            out.append(l)
            if rng.random() < 0.3:
                out.append(dummy())
        return "\n".join(head + out + rest) + "\n"


def apply_accepts(r, c):
    return r == c or max(r, c) == 2


def dut_measurement(sc, f):
    """the p x p matrix handed to vnacal_apply for the DUT (for 1x2 / 2x1 calibrations the second
    row / column is the measurement of the DUT connected the other way round)"""
    s = sc.dut[f]
    m = measure(sc.enets[f], s, sc.r, sc.c)
    if sc.r == sc.c:
        return m
    flip = [[s[1][1], s[1][0]], [s[0][1], s[0][0]]]
    mf = measure(sc.enets[f], flip, sc.r, sc.c)
    if sc.r == 1:       # 1 x 2
        return [[m[0][0], m[0][1]], [mf[0][1], mf[0][0]]]
    return [[m[0][0], mf[1][0]], [m[1][0], mf[0][0]]]   # 2 x 1


def scenario_script(sc, slot=0, script=None, do_apply=True, dump=False, perturb=None):
    s = script or Script()
    s.new(slot, sc)
    if getattr(sc, "merror", None):
        s.lines.append("merror %d %s %s" % (slot, hx(sc.merror[0]), hx(sc.merror[1])))
    for st in sc.stds:
        s.add(slot, sc, st)
    if dump:
        s.lines.append("dump %d" % slot)
    s.query_vectors()
    s.lines.append("solve %d" % slot)
    s.lines.append("addcal %d %s" % (slot, sc.name))
    s.lines.append("terms %s" % sc.name)
    if do_apply and apply_accepts(sc.r, sc.c):
        mats = [dut_measurement(sc, f) for f in range(sc.F)]
        # the device through BOTH entry points, vnacal_apply_m and vnacal_apply (a/b), in the drawn order
        # (opt-in through sc.apply_both, set by the C01 end-to-end scenarios: other users of this script -- C17 --
        # compare the single apply of differently built scripts)
        forms = [sc.apply_form] + (["ab" if sc.apply_form == "m" else "m"] if getattr(sc, "apply_both", False) else [])
        for form in forms:
            s.apply(sc, sc.name, form, mats, sc.apply_A)
        if getattr(sc, "between", None):
            # error boxes constant over frequency: the terms between the grid points are the same terms, so the
            # device measured at frequencies BETWEEN the calibration points must be corrected exactly as well
            s.apply(sc, sc.name, sc.apply_form, mats[:len(sc.between)], sc.apply_A[:len(sc.between)], freqs=sc.between)
    elif do_apply:
        # must be refused with EINVAL: feed a p x p matrix of ones
        mats = [[[1 + 0j] * sc.p for _ in range(sc.p)] for _ in range(sc.F)]
        s.apply(sc, sc.name, "m", mats, None)
    return s


# ----------------------------------------------------------------------------- output parsing
def parse_floats(tokens):
    v = [float.fromhex(t) for t in tokens]
    return [complex(v[i], v[i + 1]) for i in range(0, len(v), 2)]


def parse_output(out):
    """list of records: (kind, dict)"""
    recs = []
    lines = out.split("\n")
    i = 0
    while i < len(lines):
        ln = lines[i]
        i += 1
        if not ln:
            continue
        p = ln.split()
        kind = p[0]
        kv = dict(x.split("=", 1) for x in p[1:] if "=" in x)
        rec = {"line": ln}
        rec.update(kv)
        if kind in ("apply", "applyi") and kv.get("rc") == "0":
            F = int(kv["F"])
            rec["S"] = []
            for _ in range(F):
                q = lines[i].split()
                i += 1
                rec["S"].append(parse_floats(q[2:]))
        elif kind == "terms" and "n" in kv:
            F = int(kv["F"])
            rec["E"] = []
            for _ in range(F):
                q = lines[i].split()
                i += 1
                rec["E"].append(parse_floats(q[2:]))
        elif kind == "dump":
            body = []
            while i < len(lines) and lines[i] != "enddump":
                body.append(lines[i])
                i += 1
            i += 1
            rec["body"] = body
        recs.append((kind, rec))
    return recs


def describe(sc):
    d = {"type": sc.typ, "rows": sc.r, "cols": sc.c, "F": sc.F,
         "standards": ["%s%s ports=%s S=%dx%d M=%dx%d %s%s" % (
             st.fn, "" if st.mapflag else "(NULL map)", st.ports, st.srows, st.scols, st.brows, st.bcols,
             st.form, " scalar" if st.scalar else " vector") for st in sc.stds],
         "apply_form": sc.apply_form}
    if getattr(sc, "scale", None) is not None:
        # magnitude scaling of the raw measurements (draw_scale): mode and decimal exponents
        d["scale"] = sc.scale
    if getattr(sc, "grid", None) is not None:
        d["grid"] = sc.grid
        d["freqs"] = [float(f).hex() for f in sc.freqs]
    if getattr(sc, "between", None):
        d["between"] = [float(f).hex() for f in sc.between]
    return d


# ----------------------------------------------------------------------------- running and judging
def run_script(ctx, exe, text, leak=True, timeout=120):
    import vplib
    return vplib.sh([exe], input=text, timeout=timeout, env=ctx.run_env(leak=leak))


TOL = 1e-8


def judge(sc, recs):
    """Compare the harness output of scenario_script(sc) with the oracle.
    Returns (problems, stats); a problem is (class, detail)."""
    problems = []
    stats = {"terms": 0.0, "apply": None}
    adds = [x for k, x in recs if k == "add"]
    if len(adds) != len(sc.stds):
        problems.append(("harness", "expected %d add results, got %d" % (len(sc.stds), len(adds))))
        return problems, stats
    for st, a in zip(sc.stds, adds):
        if a.get("rc") != "0":
            problems.append(("add-rejected", "%s ports=%s S=%dx%d M=%dx%d form=%s map=%d: %s" % (
                st.fn, st.ports, st.srows, st.scols, st.brows, st.bcols, st.form, st.mapflag, a["line"])))
    new = [x for k, x in recs if k == "new"]
    if not new or new[0].get("rc") != "0":
        problems.append(("new-failed", new[0]["line"] if new else "no output"))
        return problems, stats
    if problems:
        return problems, stats
    solve = [x for k, x in recs if k == "solve"]
    if not solve or solve[0].get("rc") != "0":
        problems.append(("solve-failed", solve[0]["line"] if solve else "no solve output"))
        return problems, stats
    tm = [x for k, x in recs if k == "terms"]
    if not tm or "E" not in tm[0]:
        problems.append(("no-terms", tm[0]["line"] if tm else "no terms output"))
        return problems, stats
    tm = tm[0]
    if int(tm["type"]) != TYPE_CODE[sc.typ] or int(tm["rows"]) != sc.r or int(tm["cols"]) != sc.c:
        problems.append(("terms-header", tm["line"]))
    worst = 0.0
    worst_at = None
    for f in range(sc.F):
        try:
            lists = [terms_equations(sc.typ, sc.r, sc.c, tm["E"][f], st.Sfull[f], st.Mfull[f]) for st in sc.stds]
            res, si = worst_relative(lists)
        except (Singular, IndexError, ZeroDivisionError) as e:
            res, si = float("inf"), 0
        if not res <= worst:
            worst, worst_at = res, (si, f)
    stats["terms"] = worst
    if not worst <= TOL:
        st = sc.stds[worst_at[0]]
        problems.append(("terms-residual", "saved error terms violate the documented equation for standard %d "
                         "(%s ports=%s) at frequency %d: relative residual %.3g" % (
                             worst_at[0], st.fn, st.ports, worst_at[1], worst)))
    ap = [x for k, x in recs if k == "apply"]
    if not ap:
        problems.append(("no-apply", "no apply output"))
        return problems, stats
    if apply_accepts(sc.r, sc.c):
        forms = [sc.apply_form] + (["ab" if sc.apply_form == "m" else "m"] if getattr(sc, "apply_both", False) else [])
        labels = ["vnacal_apply%s at the calibration frequencies" % ("_m" if fm == "m" else " (a/b)") for fm in forms]
        if getattr(sc, "between", None):
            labels.append("vnacal_apply%s between the calibration frequencies" % ("_m" if sc.apply_form == "m" else " (a/b)"))
        if len(ap) != len(labels):
            problems.append(("no-apply", "%d apply outputs for %d apply commands" % (len(ap), len(labels))))
            return problems, stats
        wall = 0.0
        for rec, label in zip(ap, labels):
            if "S" not in rec:
                problems.append(("apply-failed", "%s: %s" % (label, rec["line"])))
                continue
            w = 0.0
            wf = None
            for f in range(len(rec["S"])):
                flat = [x for row in sc.dut[f] for x in row]
                got = rec["S"][f]
                if len(got) != len(flat):
                    w, wf = float("inf"), f
                    break
                d = max(abs(a - b) for a, b in zip(flat, got)) / max(1.0, max(abs(x) for x in flat))
                if not d <= w:
                    w, wf = d, f
            if not w <= wall:
                wall = w
            if not w <= TOL:
                problems.append(("apply-mismatch", "%s: applied S differs from the DUT's S: relative error %.3g "
                                 "(worst at frequency index %s)" % (label, w, wf)))
        stats["apply"] = wall
    else:
        ap = ap[0]
        if ap.get("rc") != "-1" or ap.get("errno") != "EINVAL":
            problems.append(("apply-not-refused", ap["line"]))
    return problems, stats


def outputs_differ(recs1, recs2, tol=1e-9):
    """sensitivity test: relative difference of terms / applied S between two runs"""
    worst = 0.0
    for (k1, r1), (k2, r2) in zip(recs1, recs2):
        for key in ("E", "S"):
            if key in r1 and key in r2:
                for a, b in zip(r1[key], r2[key]):
                    sc = max([abs(x) for x in a] + [1.0])
                    if len(a) != len(b):
                        return float("inf")
                    for x, y in zip(a, b):
                        d = abs(x - y) / sc
                        if not d <= worst:
                            worst = d
            elif (key in r1) != (key in r2):
                return float("inf")
    return worst


# ----------------------------------------------------------------------------- calibration-table histories
class History(object):
    """A history of the calibration table of one vnacal_t: calibrations are solved and stored with
    vnacal_add_calibration under names, some are deleted (vnacal_delete_calibration leaves a hole in the table),
    some setups are calibrated again with ANOTHER error network and stored under the same name (documented:
    the calibration of that name is replaced) or under a new name.  At the end every live name is applied
    through every index the application was given for it since it was last absent (the first add and every
    replacement): each must correct measurements taken with the CURRENT network of that name."""
    def __init__(self):
        self.ops = []          # ("add", name, scenario, k) | ("del", name, ref)
        self.final = []        # (name, scenario, ref)
        self.noise = None


def gen_history(rng):
    h = History()
    pool = ["a", "b", "c", "d", "e", "f", "g", "h"]
    live = {}                  # name -> (scenario, [refs])
    nadd = [0]

    def scen(like=None):
        if like is None:
            typ = rng.choice(TYPES)
            n = rng.randint(1, 2)
            F = rng.randint(1, 2)
        else:
            typ, n, F = like.typ, like.r, like.F
        return gen_scenario(rng, typ, n, n, F, form=rng.choice(["m", "ab", "mixed"]), extras=False)

    def add(name, like=None):
        sc = scen(like)
        sc.name = name
        k = nadd[0]
        nadd[0] += 1
        refs = (live[name][1] if name in live else []) + ["r%d" % k]
        live[name] = (sc, refs)
        h.ops.append(("add", name, sc, k))

    dead = []

    def delete(name):
        sc, refs = live.pop(name)
        dead.append((name, sc))
        h.ops.append(("del", name, rng.choice(refs)))

    def add_absent():
        # a name that is not in the table: one that was deleted earlier, or a new one
        nonlocal_nxt = nxt[0]
        gone = [(nm, sc) for nm, sc in dead if nm not in live]
        if gone and (rng.random() < 0.5 or nonlocal_nxt >= len(pool)):
            nm, sc = rng.choice(gone)
            add(nm, like=sc if rng.random() < 0.7 else None)
        elif nonlocal_nxt < len(pool):
            add(pool[nonlocal_nxt], like=live[rng.choice(sorted(live))][0] if rng.random() < 0.5 else None)
            nxt[0] += 1
    n0 = rng.randint(2, 4)
    for i in range(n0):
        add(pool[i])
    nxt = [n0]
    for step in range(rng.randint(1, 4)):
        x = rng.random()
        names = sorted(live)
        if x < 0.5 and len(names) >= 2:
            delete(rng.choice(names))
        elif x < 0.85:
            nm = rng.choice(names)
            add(nm, like=live[nm][0])                 # the same setup calibrated again, another error network
        else:
            add_absent()
    # the history ends with a calibration being stored: again under a live name, or under an absent one
    if rng.random() < 0.75:
        nm = rng.choice(sorted(live))
        add(nm, like=live[nm][0])
    else:
        add_absent()
    for nm in sorted(live):
        sc, refs = live[nm]
        for ref in refs:
            h.final.append((nm, sc, ref))
    return h


def history_script(h, noise=None):
    s = Script(noise)
    for op in h.ops:
        if op[0] == "add":
            _, name, sc, k = op
            s.new(k, sc)
            for st in sc.stds:
                s.add(k, sc, st)
            s.lines.append("solve %d" % k)
            s.lines.append("addcal %d %s" % (k, name))
        else:
            s.lines.append("delcal %s" % op[2])
    for name, sc, ref in h.final:
        mats = [dut_measurement(sc, f) for f in range(sc.F)]
        s.apply(sc, name, sc.apply_form, mats, sc.apply_A, ref=ref)
    for op in h.ops:
        if op[0] == "add":
            s.lines.append("free %d" % op[3])
    return s


def describe_history(h):
    out = []
    for op in h.ops:
        if op[0] == "add":
            out.append("r%d = add %s (%s %dx%d F=%d)" % (op[3], op[1], op[2].typ, op[2].r, op[2].c, op[2].F))
        else:
            out.append("delete %s (index %s)" % (op[1], op[2]))
    out += ["apply %s through index %s" % (nm, ref) for nm, sc, ref in h.final]
    return out


def judge_history(h, recs):
    """problems [(class, detail)], worst relative error of the applied S"""
    problems = []
    for kind in ("new", "add", "solve", "delcal"):
        for x in [x for k, x in recs if k == kind]:
            if x.get("rc") != "0":
                problems.append((kind + "-failed", x["line"]))
    adds = [x for k, x in recs if k == "addcal"]
    nadd = len([op for op in h.ops if op[0] == "add"])
    if len(adds) != nadd or any(int(x.get("rc", "-1")) < 0 for x in adds):
        problems.append(("addcal-failed", "%d of %d: %s" % (len(adds), nadd, [x["line"] for x in adds])))
    if problems:
        return problems, 0.0
    ap = [x for k, x in recs if k == "applyi"]
    if len(ap) != len(h.final):
        return [("harness", "expected %d apply results, got %d" % (len(h.final), len(ap)))], 0.0
    worst = 0.0
    index_of = {"r%d" % k: x.get("rc") for k, x in enumerate(adds)}
    for (name, sc, ref), a in zip(h.final, ap):
        what = "calibration '%s' applied through index %s (= %s, returned by addcal #%s; latest index of that name %s)" % (
            name, ref, index_of.get(ref), ref[1:], a_latest(h, name, index_of))
        if "S" not in a:
            problems.append(("apply-failed", "%s: %s" % (what, a["line"])))
            continue
        w = 0.0
        for f in range(sc.F):
            flat = [x for row in sc.dut[f] for x in row]
            got = a["S"][f]
            if len(got) != len(flat):
                w = float("inf")
                break
            d = max(abs(u - v) for u, v in zip(flat, got)) / max(1.0, max(abs(x) for x in flat))
            if not d <= w:
                w = d
        worst = max(worst, w)
        if not w <= TOL:
            problems.append(("apply-mismatch", "%s does not return the DUT's S for measurements taken with the network it was "
                             "last calibrated with: relative error %.3g" % (what, w)))
    return problems, worst


def a_latest(h, name, index_of):
    ks = [op[3] for op in h.ops if op[0] == "add" and op[1] == name]
    return index_of.get("r%d" % ks[-1]) if ks else None


# ----------------------------------------------------------------------------- structural correspondence
def uf_forest(p, nz):
    """the array set[] that the scan of build_connectivity_matrix leaves for the off-diagonal non-zero cells nz
    (0-based VNA ports) of a p x p S matrix: row-major scan, the smaller leader leads, find() as coded
    redirects the element it was called with (and nothing else on the path) to its leader"""
    s = list(range(p))

    def find(i):
        l = i
        while s[l] != l:
            l = s[l]
        s[i] = l
        return l
    for r in range(p):
        for c in range(p):
            if r != c and (r, c) in nz:
                i, j = find(r), find(c)
                if i < j:
                    s[j] = i
                elif i > j:
                    s[i] = j
    return s


def uf_depth(p, nz):
    """depth of that forest: 1 = every element points at its leader, >= 2 = a chain is left, i.e. the second
    pass of build_connectivity_matrix needs find() and comparing set[i] with set[j] is not enough"""
    s = uf_forest(p, nz)
    d = 0
    for i in range(p):
        n, l = 0, i
        while s[l] != l:
            l = s[l]
            n += 1
        d = max(d, n)
    return d


def forest_pattern(rng, p, ports, k, tries=40):
    """off-diagonal non-zero cells (indices of the standard) of a k-port standard on the VNA ports `ports`:
    sparse, directed (non-reciprocal) or chain-like; of `tries` random candidates the one whose union-find
    scan leaves the deepest forest.  Returns (cells, depth)."""
    cells = [(a, b) for a in range(k) for b in range(k) if a != b]
    best, bestd = set(), 0
    for _ in range(tries):
        nz = set()
        x = rng.random()
        if x < 0.4:
            # a path through all ports in random order, every link in one random direction (or both)
            order = list(range(k))
            rng.shuffle(order)
            for a, b in zip(order, order[1:]):
                y = rng.random()
                if y < 0.4:
                    nz.add((a, b))
                elif y < 0.8:
                    nz.add((b, a))
                else:
                    nz.add((a, b))
                    nz.add((b, a))
            if rng.random() < 0.3 and k >= 4:
                nz.discard(rng.choice(sorted(nz)))             # two components
        elif x < 0.8:
            for cell in rng.sample(cells, min(len(cells), rng.randint(max(2, k - 2), k + 1))):
                nz.add(cell)
        else:
            # reciprocal sparse pattern
            for a, b in rng.sample(cells, min(len(cells), rng.randint(2, k))):
                nz.add((a, b))
                nz.add((b, a))
        full = set((ports[a] - 1, ports[b] - 1) for a, b in nz)
        d = uf_depth(p, full)
        if d > bestd or not best:
            best, bestd = nz, d
        if bestd >= 2 and rng.random() < 0.7:
            break
    return best, bestd


def gen_struct_case(rng, typ, r, c, nadds, npar=None, allow_bad=True, forest_prob=0.4):
    """Random sequence of vnacal_new_add_* calls (valid and invalid) for the structural tie.
    Many distinct parameters (10..40, so that the per-calibration parameter hash is resized and indices
    collide modulo 16 / 32), sparse non-reciprocal S patterns with explicit zeros, permuted port maps.
    Returns the list of calls and the token -> handle map."""
    p = max(r, c)
    if npar is None:
        npar = rng.randint(10, 40)
    user = ["p%d" % i for i in range(npar)]
    handle = {"Z": 0, "O": 1, "S": 2}
    for i in range(npar):
        handle["p%d" % i] = 3 + i
    # parameters whose index is a multiple of 16 share a hash bucket with VNACAL_ZERO after a resize
    hot = [t for t in user if handle[t] % 16 == 0]
    sixteen = is_16(typ)
    sparse_case = rng.random() < 0.5

    def token(offdiag=False):
        x = rng.random()
        if offdiag and sparse_case and x < 0.55:
            return "Z"
        if x < 0.12:
            return "Z"
        if x < 0.2:
            return rng.choice(["O", "S"])
        if hot and x < 0.3:
            return rng.choice(hot)
        return rng.choice(user)
    adds = []
    forest_depth = 0
    for n_ in range(nadds):
        fn = rng.choice(["sr", "dr", "th", "ln", "mm", "mm", "mm"])
        bad = allow_bad and rng.random() < 0.2
        if fn == "sr":
            k, sr, sc, diag = 1, 1, 1, 1
        elif fn == "dr":
            k, sr, sc, diag = 2, 2, 2, 1
        elif fn in ("th", "ln"):
            k, sr, sc, diag = 2, 2, 2, 0
        else:
            k = rng.randint(1, p)
            if p >= 3 and rng.random() < 0.5:
                k = rng.randint(3, p)
            sr = sc = k
            diag = 0
            if rng.random() < (0.4 if sixteen else 0.08):
                if is_t(typ):
                    sc = rng.randint(1, k)
                else:
                    sr = rng.randint(1, k)
            if bad and rng.random() < 0.3:
                sr = rng.randint(0, p + 1)
                sc = rng.randint(0, p + 1)
                k = max(sr, sc)
        ports = rng.sample(range(1, p + 1), min(k, p))
        while len(ports) < k:
            ports.append(rng.randint(1, p))          # duplicates -> refused
        if bad and rng.random() < 0.4 and k > 0:
            ports[rng.randrange(k)] = rng.choice([0, -1, p + 1, ports[0]])
        mapflag = 1
        if fn == "mm" and rng.random() < 0.25:
            mapflag = 0
            if sr == p and sc == p:
                ports = list(range(1, p + 1))
        if typ == "T16":
            minr, minc = sr, c
        elif typ == "U16":
            minr, minc = r, sc
        else:
            minr, minc = max(sr, sc), max(sr, sc)
        br = rng.choice([r, minr, minr])
        bc = rng.choice([c, minc, minc])
        if bad and rng.random() < 0.3:
            br = rng.randint(0, p + 1)
        if bad and rng.random() < 0.3:
            bc = rng.randint(0, p + 1)
        ab = rng.random() < 0.35
        ar = 1 if is_col(typ) else bc
        ac = bc
        if ab and bad and rng.random() < 0.3:
            ar = rng.randint(0, p + 1)
        if fn == "th":
            toks = ["Z", "O", "O", "Z"]
        elif fn in ("sr", "dr"):
            toks = [token() for _ in range(k)]
        elif fn == "ln":
            toks = [token(), token(True), token(True), token()]
        elif (sr == sc and k >= 3 and k <= p and not bad and mapflag and len(set(ports)) == k
              and rng.random() < forest_prob):
            # mapped matrix with explicit zero cells: a sparse directed / chain-like pattern chosen such that the
            # union-find scan of build_connectivity_matrix leaves a forest with two (or more) levels
            nzc, depth = forest_pattern(rng, p, ports, k)
            toks = [token() if a_ == b_ else (rng.choice(user) if (a_, b_) in nzc else "Z")
                    for a_ in range(k) for b_ in range(k)]
            forest_depth = max(forest_depth, depth)
        else:
            toks = [token(a_ != b_) for a_ in range(max(sr, 0)) for b_ in range(max(sc, 0))]
        if n_ == 0 and hot and rng.random() < 0.6 and toks and fn != "th":
            toks[0] = hot[0]                 # referenced before the first resize of the hash
        adds.append({"fn": fn, "sr": sr, "sc": sc, "diag": diag, "ports": ports, "mapflag": mapflag,
                     "br": br, "bc": bc, "ab": ab, "ar": ar, "ac": ac, "toks": toks})
    if adds:
        adds[0]["forest_depth"] = forest_depth      # deepest union-find forest planted in this case (statistics)
    return adds, handle, npar


def struct_c_line(typ, a, F=1):
    def mcells(rows, cols, ident_):
        out = []
        for i in range(max(rows, 0)):
            for j in range(max(cols, 0)):
                # cells of the B (M) matrix carry the tags 1, 2, .. by rows (a = identity / ones): the dump of
                # harness/calcore_e2e.c then shows the B cell -> M cell map of _vnacal_new_add_common
                v = (1.0 if (i == j or is_col(typ)) else 0.0) if ident_ else float(1 + i * max(cols, 0) + j)
                out.append(" ".join("%s %s" % (hx(v), hx(0.0)) for _ in range(F)))
        return " ".join(out)
    if a["ab"]:
        head = "add 0 %s ab %d %d %d %d %s %s" % (a["fn"], a["ar"], a["ac"], a["br"], a["bc"],
                                                 mcells(a["ar"], a["ac"], True), mcells(a["br"], a["bc"], False))
    else:
        head = "add 0 %s m 0 0 %d %d %s" % (a["fn"], a["br"], a["bc"], mcells(a["br"], a["bc"], False))
    fn = a["fn"]
    if fn == "sr":
        tail = "%s %d" % (a["toks"][0], a["ports"][0])
    elif fn == "dr":
        tail = "%s %s %d %d" % (a["toks"][0], a["toks"][1], a["ports"][0], a["ports"][1])
    elif fn == "th":
        tail = "%d %d" % (a["ports"][0], a["ports"][1])
    elif fn == "ln":
        tail = "%s %d %d" % (" ".join(a["toks"]), a["ports"][0], a["ports"][1])
    else:
        np_ = max(a["sr"], a["sc"])
        tail = "%d %d %s %d" % (a["sr"], a["sc"], " ".join(a["toks"]), a["mapflag"])
        if a["mapflag"]:
            tail += " " + " ".join(str(q) for q in a["ports"][:max(np_, 0)])
    return (head + " " + tail).replace("  ", " ")


def struct_model_line(a, handle):
    mp = a["ports"][:max(a["sr"], a["sc"], 0)] if a["mapflag"] else []
    s = [handle[t] for t in a["toks"]]
    return "add %d %d %d %d %d %d %d %d %d %d %s %d %s" % (
        1 if a["ab"] else 0, a["ar"] if a["ab"] else 0, a["ac"] if a["ab"] else 0, a["br"], a["bc"],
        a["sr"], a["sc"], a["diag"], a["mapflag"], len(mp), " ".join(str(x) for x in mp),
        len(s), " ".join(str(x) for x in s))


def model_driver(ctx, name="drv_calcore"):
    """Extracted-model driver.  vplib's staleness rule (any .v file under coq/ newer than the binary)
    rebuilds every driver; these models depend only on the files below, so the driver is rebuilt
    (bin/setup --ocaml-only <name>) only when one of them is newer than the binary."""
    import glob
    import os
    import fcntl
    import vplib
    mod = name[len("drv_"):]
    exe = os.path.join(vplib.VERIF, "ocaml", "_build", name)
    deps = [os.path.join(vplib.VERIF, "ocaml", name + ".ml"),
            os.path.join(vplib.VERIF, "ocaml", "Extract_%s.v" % mod),
            os.path.join(vplib.VERIF, "ocaml", "glue.ml.inc"),
            os.path.join(vplib.COQDIR, "Gen", "LayoutGen.v")]
    if mod != "calcore":
        # the files Cal/CalQI.v depends on (models only: editing a proof file does not rebuild the driver)
        deps += [os.path.join(vplib.COQDIR, "Cal", f) for f in
                 ("Sym.v", "ApplyModel.v", "SolveSimple.v", "CalQI.v", "TermsModel.v", "AddModel.v")]
        deps += [os.path.join(vplib.COQDIR, "Lin", f) for f in
                 ("MatL.v", "LuModel.v", "LuQI.v", "LuQI2.v", "LsSpec.v")]
        deps += glob.glob(os.path.join(vplib.COQDIR, "Base", "*.v"))
    else:
        deps = [d for d in deps if not d.endswith("glue.ml.inc")]
        deps += [os.path.join(vplib.COQDIR, "Cal", f) for f in ("TermsModel.v", "AddModel.v")]

    def fresh():
        return os.path.exists(exe) and all(os.path.getmtime(d) <= os.path.getmtime(exe) for d in deps if os.path.exists(d))
    if fresh():
        return exe
    lock = open(os.path.join(vplib.VERIF, "ocaml", ".lock"), "w")
    fcntl.flock(lock, fcntl.LOCK_EX)
    try:
        if not fresh():
            vplib.sh(["bash", os.path.join(vplib.VERIF, "bin", "setup"), "--ocaml-only", mod], timeout=1800)
    finally:
        fcntl.flock(lock, fcntl.LOCK_UN)
        lock.close()
    if not os.path.exists(exe):
        raise vplib.BuildError("extracted driver %s is not built" % name)
    return exe
