"""Script generation, running, shrinking for harness/mem_harness.c (properties C03 and C12).

A script is a list of op lines (see harness/mem_harness.c for the op language).  The generator
follows a grammar that mostly produces valid sequences (it keeps an approximate picture of which
handles are alive and of their dimensions) and draws index arguments from valid, boundary
(-1, 0, n, n+1) and invalid domains.  A second stream mutates tokens of valid scripts.
"""
import os
import re
import shutil
import tempfile

import vplib

NP, ND, NC, NN, NT = 4, 4, 2, 4, 4

T8, U8, TE10, UE10, T16, U16, UE14, E12 = 0, 1, 2, 3, 4, 5, 6, 8


# ---------------------------------------------------------------------------------------------------------------
# the format language of vnadata_set_format / the "#:parameters" line of NPD files / vnadata_save: a comma separated list of
# [parameter]form entries, parameter in S T U Z Y H G A B Zin or absent (completed from the type of the object), form in
# ri ma dB, and the fixed names PRC PRL SRC SRL IL RL VSWR; case insensitive, white space allowed around the entries
FMT_PARAMETERS = ["S", "T", "U", "Z", "Y", "H", "G", "A", "B", "Zin", ""]
FMT_FORMS = ["ri", "ma", "dB"]
FMT_FIXED = ["PRC", "PRL", "SRC", "SRL", "IL", "RL", "VSWR"]
FMT_REFUSED = ["ZindB"]                      # the one combination the parser refuses ("no ZindB"); a bare "Zin" is accepted
FMT_NAMES = [p + f for p in FMT_PARAMETERS for f in FMT_FORMS if p + f not in FMT_REFUSED] + ["Zin"] + FMT_FIXED
FMT_LONGEST = [n for n in FMT_NAMES if len(n) == max(len(x) for x in FMT_NAMES)]


def rnd_format(r, p_bad=0.08, untyped=0.15):
    """a format list drawn from the whole grammar: 1..6 entries, every name x form, runs of the longest names, repeated and untyped
    entries, mixed case and white space; with probability p_bad a malformed one (unknown name, empty entry, trailing comma)"""
    n = r.choice([1, 1, 2, 2, 3, 3, 4, 5, 6, 6])
    y = r.random()
    if y < 0.30:
        ent = [r.choice(FMT_LONGEST) for _ in range(n)]                      # only the longest names: the tightest fit of the string buffer
    elif y < 0.45:
        ent = [r.choice(FMT_LONGEST + FMT_LONGEST + FMT_NAMES) for _ in range(n)]
    elif y < 0.45 + untyped:
        ent = [r.choice(FMT_FORMS) for _ in range(n)]                        # untyped: completed from the object's type when saved
    else:
        ent = [r.choice(FMT_NAMES) for _ in range(n)]

    def case(e):
        c = r.random()
        return e if c < 0.6 else e.lower() if c < 0.75 else e.upper() if c < 0.9 else "".join(ch.upper() if r.random() < 0.5 else ch.lower() for ch in e)
    ent = [case(e) for e in ent]
    if r.random() < p_bad:
        b = r.random()
        if b < 0.3:
            ent[r.randrange(len(ent))] = r.choice(FMT_REFUSED + ["bogus", "Zinx", "Sr", "ZinriX", "Q", "ridB"])
        elif b < 0.5:
            ent.insert(r.randrange(len(ent) + 1), "")
        elif b < 0.7:
            return ",".join(ent) + ","
        elif b < 0.85:
            return ""
        else:
            return None
    sep = r.choice([",", ",", ",", ", ", " ,", " , ", ",\t"])
    lead = r.choice(["", "", "", " ", "\t"])
    return lead + sep.join(ent) + r.choice(["", "", " "])


def npd_text(r, fmt, ports=None, freqs=None):
    """an NPD file whose '#:parameters' line is fmt; the data columns follow the entries as far as their widths are known"""
    ports = ports if ports is not None else r.choice([1, 1, 2, 2, 3])
    freqs = freqs if freqs is not None else r.choice([1, 2, 3])
    cols = 0
    for e in (fmt or "").split(","):
        e = e.strip().lower()
        if e in ("il",):
            cols += ports * ports - ports
        elif e in ("rl", "vswr"):
            cols += ports
        elif e in ("prc", "prl", "src", "srl") or e.startswith("zin"):
            cols += 2 * ports
        else:
            cols += 2 * ports * ports
    if r.random() < 0.1:
        cols += r.choice([-1, 1])
    z0 = " ".join("50 +0j" for _ in range(ports)) if r.random() < 0.85 else "PER-FREQUENCY"
    head = "#NPD\n#:version 1.0\n#:ports %d\n#:frequencies %d\n#:parameters %s\n#:z0 %s\n#:fprecision 7\n#:dprecision 6\n#\n" % (ports, freqs, fmt or "", z0)
    rows = []
    for i in range(freqs):
        pre = ("%de9" % (i + 1)) + (" " + " ".join("50 0" for _ in range(ports)) if z0 == "PER-FREQUENCY" else "")
        rows.append(pre + "".join(" %.3g" % (0.1 * ((i + j) % 7) + 0.05) for j in range(max(cols, 0))))
    return head + "\n".join(rows) + "\n"


def enc(s):
    if s is None:
        return "-"
    out = []
    for ch in s.encode("utf-8"):
        c = chr(ch)
        if c.isalnum() or c in "_.[]{}+=#-\\/:,":
            out.append(c)
        else:
            out.append("%%%02X" % ch)
    r = "".join(out)
    if r == "":
        return "%00"          # decodes to the empty string
    if r == "-":
        return "%2D"
    return r


# ---------------------------------------------------------------------------------------------
# property expressions
GOOD_SET = ["a=1", "a.b=hello", "a.c=world", "m.k1=v1", "m.k2=v2", "l[0]=x", "l[+]=y", "l[1+]=z", "l[3]=w",
            "l[+]=p", "l[+]=q", "l[+]=r", "l[+]=s", "l[+]=t", "l[+]=u", "l[+]=v", "l[0+]=first",
            "deep.x.y.z=1", "deep.l[0].k=2", "deep.l[1][0]=3", "m.k3#", "a#", ".=scalar", "[0]=rootlist", "[+]=more",
            "key\\ with\\ space=1", "m.k1=changed", "a.b.c=nested", "n.e.w=1", "l[2]#", "q{}#"]
GOOD_SUB = ["a", "a.b", "m", "m.k1", "l", "l[0]", "l[1]", "deep.l[0]", "deep", ".", "m{}", "l[]", "[0]", "deep.x.y", "n.e"]
GOOD_DEL = ["a.b", "m.k1", "m.k2", "l[0]", "l[1]", "l[7]", "deep.l[0]", "deep", "a", "l", "m", ".", "[0]", "nokey", "l[99]"]
BAD_EXPR = ["a=", "[", "a..b", "[-1]", "a[", "]", "{", "{}x", "a b c", "=", "#", "[+", "[1+", "a.[", "l[0]x", "%", "a\\",
            "[1][", "a={", "l[99999]", ".a", "a.", "..", "[]x", "{}[0]", "a#b", "@", "l[0][0][0]", " "]


# self-aliasing family (harness ops "pa..", "da..", "ca..", "na.."): the result of a getter handed to a mutator of the same object
ALIAS_RICH = ["a.b=hello", "a.c=world", "m.k1=v1", "m.k2=v2", "m.k3=v3", "l[0]=x", "l[1]=y", "deep.x.y.z=1", "deep.l[0].k=2", "k=v", "n.e.w=1",
              "y={a: [1, 2], b: c}"]
ALIAS_LEAVES = ["a.b", "a.c", "m.k1", "m.k2", "l[0]", "l[1]", "deep.x.y.z", "deep.l[0].k", "k", "k", "n.e.w"]
ALIAS_NESTED = [("a", "a.b"), ("a.b", "a"), ("deep", "deep.x.y"), ("deep.x.y", "deep"), ("m", "m"), (".", "a"), ("a", "."),
                ("l[0]", "l"), ("l", "l[0]"), ("deep.l[0]", "deep"), ("deep", "deep.l[0]"), (".", "."), ("n.e", "m"), ("m.k1", "m"),
                ("m", "deep.x"), ("deep.x.q", "deep")]
ALIAS_MAPS = [".", "m", "a", "deep", "deep.x", "deep.x.y", "n.e", "n", "m"]
ALIAS_SUFFIX = ["", "", "_x", "_" + "long" * 12]
# self-aliasing ops that checks/C12.py never takes as the op under test (they still run in the histories, before and after the faulted op):
#  - ops that make more than one mutating library call;
#  - ops whose mutator is vnaproperty_vset / _copy / _import_yaml: not atomic under allocation failure (known finding DM55, reported
#    under the plain ops pset / pcopy / pimports / cpset); a failed call may also have removed the very node the getter read;
#  - casave: a failed vnacal_save leaves the vnacal_t without file name (as after vnacal_create), so the getter of the repeat has
#    nothing to return; the same code path under allocation failure is csave to the current name.
ALIAS_COMPOSITE = {"pacopysub", "padelvia", "paimportvia", "pakeys", "capsetvia", "capcopy", "capimport", "capkeys",
                   "paset", "pacopy", "paimports", "capset", "capexport",
                   "casave"}
P_ALIAS = {"p": 0.10, "d": 0.12, "c": 0.10, "n": 0.05}


def rnd_index(rng, n, p_bad=0.2):
    """an index for a domain of size n: mostly valid, sometimes a boundary / invalid value"""
    if n > 0 and rng.random() > p_bad:
        return rng.randrange(n)
    return rng.choice([-1, 0, n, n + 1, n - 1, 1000, -2147483647])


def type_dims(rng, t):
    """valid (rows, cols) for a vnadata parameter type"""
    if t in (1, 4, 5):
        n = rng.choice([1, 2, 2, 3])
        return n, n
    if t in (2, 3, 6, 7, 8, 9):
        return 2, 2
    if t == 10:
        return 1, rng.choice([1, 2, 3])
    return rng.choice([0, 1, 2, 3]), rng.choice([0, 1, 2, 3])


class Gen(object):
    def __init__(self, rng, modules=("p", "d", "c", "n"), p_bad=0.15, p_alias=None):
        self.rng = rng
        self.modules = modules
        self.p_bad = p_bad
        self.p_alias = dict(P_ALIAS) if p_alias is None else {m: p_alias for m in P_ALIAS}
        self.ops = []
        self.P = [False] * NP
        self.Prich = [False] * NP       # the keys of ALIAS_RICH have been set in this tree
        self.D = [None] * ND            # dict(rows, cols, freqs, type) or None
        self.C = [None] * NC            # dict(params=[...], cals=[names], saved=set())
        self.N = [None] * NN            # dict(c, type, rows, cols, freqs, fv, solved, adds)
        self.Ttxt = [None] * NT         # "yaml" | "data:<name>" | None
        self.saved = set()

    def emit(self, *toks):
        self.ops.append(" ".join(str(t) for t in toks))

    def bad(self):
        return self.rng.random() < self.p_bad

    # ------------------------------------------------------------------ vnaproperty
    def prop_op(self):
        r = self.rng
        if r.random() < self.p_alias["p"]:
            self.prop_alias_op()
            return
        p = r.randrange(NP)
        x = r.random()
        if x < 0.40:
            e = r.choice(BAD_EXPR) if self.bad() else r.choice(GOOD_SET)
            self.emit("pset", p, enc(e))
            self.P[p] = True
        elif x < 0.50:
            e = r.choice(BAD_EXPR) if self.bad() else r.choice(GOOD_SUB)
            self.emit(r.choice(["pget", "ptype", "pcount", "pkeys", "pgetsub"]), p, enc(e))
        elif x < 0.60:
            e = r.choice(BAD_EXPR) if self.bad() else r.choice(GOOD_DEL)
            self.emit("pdel", p, enc(e))
        elif x < 0.66:
            e = r.choice(BAD_EXPR) if self.bad() else r.choice(GOOD_SUB)
            self.emit("psetsub", p, enc(e), r.choice(["-", "v", "w"]))
        elif x < 0.72:
            q = r.randrange(NP)
            if r.random() < 0.5:
                self.emit("pcopy", p, q)
            else:
                self.emit("pcopysub", p, q, enc(r.choice(GOOD_SUB)))
        elif x < 0.76:
            self.emit("pquote", p, enc(r.choice(["plain", "with space", "tr ", "a.b", "x=y", "[0]", "\\", "#", "a\\b", " lead", "é", "{}", None])))
        elif x < 0.84:
            t = r.randrange(NT)
            self.emit("pexport", p, t, r.randrange(2))
            self.Ttxt[t] = "yaml"
        elif x < 0.92:
            ts = [i for i in range(NT) if self.Ttxt[i] == "yaml"]
            if ts and not self.bad():
                self.emit(r.choice(["pimport", "pimportf"]), p, r.choice(ts), r.randrange(2))
            else:
                self.emit("pimports", p, enc(r.choice(["a: 1\nb: [1, 2, {c: d}]\n", "- x\n- y\n", "~\n", "a: [\n", "{a: b, c: ~, ? [1]: 2}\n",
                                                       "&x a: *x\n", "plain\n", "a: 'q'\n---\nb: 2\n", "\"a\\x\"", "a:\n  - b:\n      c: [[], {}]\n"])), r.randrange(2))
        else:
            self.emit("pdig", p)

    def prop_rich(self, q):
        """make sure tree q holds the keys the self-aliasing ops refer to (later ops may remove some again)"""
        if not self.Prich[q]:
            for e in ALIAS_RICH:
                self.emit("pset", q, enc(e))
            self.Prich[q] = True
            self.P[q] = True

    def prop_alias_op(self):
        """a getter result of tree q handed to a mutator of tree p (mostly q == p)"""
        r = self.rng
        p = r.randrange(NP)
        q = p if r.random() < 0.65 else r.randrange(NP)
        if r.random() < 0.85:
            self.prop_rich(q)
        x = r.random()
        if x < 0.30:
            src = r.choice(ALIAS_LEAVES) if not self.bad() else r.choice([".", "a", "nokey", "l[9]"])
            dst = src if r.random() < 0.5 else r.choice(ALIAS_LEAVES + [".", "a", "new.key", "l[+]", "l[0+]"])
            self.emit("paset", p, q, enc(src), enc(dst), enc(r.choice(ALIAS_SUFFIX)))
        elif x < 0.45:
            self.emit("pacopy", p, q, enc(r.choice(GOOD_SUB)))
            self.Prich[p] = False
        elif x < 0.62:
            dst, src = r.choice(ALIAS_NESTED) if r.random() < 0.7 else (r.choice(GOOD_SUB), r.choice(GOOD_SUB))
            self.emit("pacopysub", p, enc(dst), q, enc(src))
            self.Prich[p] = False
        elif x < 0.70:
            self.emit("paimports", p, q, enc(r.choice(["y", "y", "y", "k", "a.b"])), r.randrange(2))
            self.Prich[p] = False
        elif x < 0.78:
            if r.random() < 0.5:
                self.emit("padelvia", p, enc(r.choice(GOOD_SUB)))
            else:
                self.emit("paimportvia", p, enc(r.choice(GOOD_SUB)), enc(r.choice(["c: d\n", "[1, [2, 3]]\n", "~\n", "x: [\n"])))
            self.Prich[p] = False
        else:
            mode = r.randrange(5)
            self.emit("pakeys", p, enc(r.choice(ALIAS_MAPS)), mode)
            if mode in (1, 3, 4):
                self.Prich[p] = False
        self.P[p] = True

    def list_boundary_scenario(self):
        """a property list filled to exactly n elements, n a growth boundary of the list vector (8, 16, 32) or next to one,
        then an insert strictly inside it, an append, deletes / inserts around the boundary"""
        r = self.rng
        p = r.randrange(NP)
        n = r.choice([8, 8, 16, 32, 7, 9, 16, 17])
        name = r.choice(["bl", "deep.bl", "bl"])
        if n > 8 or r.random() < 0.4:
            self.emit("pimports", p, enc("%s: [%s]\n" % ("bl", ", ".join(str(i) for i in range(n)))), 0)
            name = "bl"
        else:
            for i in range(n):
                self.emit("pset", p, enc("%s[+]=%d" % (name, i)))
        self.P[p] = True
        self.emit("pset", p, enc("%s[%d+]=x" % (name, r.randrange(1, n - 1))))
        self.emit("pset", p, enc("%s[+]=y" % name))
        for _ in range(r.choice([0, 1, 2, 3])):
            k = r.randrange(4)
            if k == 0:
                self.emit("pdel", p, enc("%s[%d]" % (name, r.randrange(0, n))))
            elif k == 1:
                self.emit("pset", p, enc("%s[%d+]=z" % (name, r.choice([0, 1, n - 1, n, n + 1, n + 2]))))
            elif k == 2:
                self.emit("pset", p, enc("%s[%d]=w" % (name, r.choice([n, n + 1, n + 2, 2 * n - 1, 2 * n]))))
            else:
                self.emit("pcount", p, enc(name))
        self.emit("pdig", p)

    # ------------------------------------------------------------------ vnadata
    def data_alias_op(self, d, st):
        """a pointer returned by a getter of vnadata object o handed to a mutator of object d (mostly o == d)"""
        r = self.rng
        if st["freqs"] <= 0 or st["rows"] <= 0 or st["cols"] <= 0:
            t, rows, cols, f = r.choice([(1, 2, 2, 3), (1, 3, 3, 2), (4, 2, 2, 4), (1, 1, 1, 3), (10, 1, 2, 3)])
            self.emit("dinit", d, t, rows, cols, f)
            st.update(rows=rows, cols=cols, freqs=f, type=t)
        others = [i for i in range(ND) if self.D[i] is not None and i != d]
        o = d if (r.random() < 0.65 or not others) else r.choice(others)
        nf, rows, cols = st["freqs"], st["rows"], st["cols"]
        nfo = self.D[o]["freqs"]
        pb = self.p_bad

        def fi():
            return rnd_index(r, nf, pb)

        def fo():
            return rnd_index(r, nfo, pb)
        x = r.random()
        if x < 0.30 and r.random() < 0.8:
            self.emit("dsetfmt", o, enc(r.choice(["Sri", "SdB,Zma", "Sma,Zri", "zin", "IL,RL,VSWR", "Tri,Uma,Hri"]) if r.random() < 0.3 else rnd_format(r, p_bad=0.0)))
        if x < 0.10:
            self.emit("dasetfmt", d, o)
        elif x < 0.20:
            t = r.randrange(NT)
            if r.random() < 0.7:
                self.emit("dsetft", d, r.choice([1, 2, 3, 3]))
            self.emit("dasavefmt", d, o, t)
            self.Ttxt[t] = "data:fmt"
        elif x < 0.27:
            ts = [i for i in range(NT) if self.Ttxt[i] and self.Ttxt[i].startswith("data:")]
            if ts and others:
                self.emit("daloadfmt", d, r.choice(others), r.choice(ts))   # (the same object is not a legal call, see the harness)
            else:
                self.emit("dasetfmt", d, o)
        elif x < 0.30:
            self.emit("dacksavefmt", d, o)
        elif x < 0.38:
            self.emit("dasetfv", d, o)
        elif x < 0.54:
            self.emit("dasetz0v", d, o, r.randrange(2), fo())
        elif x < 0.74:
            self.emit("dasetfz0v", d, fi(), o, r.randrange(2), fo())
        elif x < 0.88:
            self.emit("dasetm", d, fi(), o, fo())
        else:
            self.emit(r.choice(["dasetv", "dagetv"]), d, rnd_index(r, rows, pb), rnd_index(r, cols, pb), o, fo())

    def data_shrink_scenario(self):
        """shrink after use: an object initialised with many frequencies (and ports), then with few, then the first switch of
        the z0 mode, then grown again inside the old allocation, then every new row is touched"""
        r = self.rng
        d = r.randrange(ND)
        if self.D[d] is None:
            self.emit("dalloc", d, 1)
        big, small = r.choice([6, 8, 10]), r.choice([0, 1, 2, 3])
        mid = r.randrange(small + 1, big + 1)
        t, bigp = r.choice([(1, 2), (1, 3), (4, 2), (5, 3), (1, 1), (10, 3)])
        smallp = r.choice([bigp, bigp, max(1, bigp - 1)])

        def dims(ports):
            return (1, ports) if t == 10 else (ports, ports)
        self.emit("dinit", d, t, dims(bigp)[0], dims(bigp)[1], big)
        if r.random() < 0.5:
            self.emit("dsetfv", d, 0)
        self.emit(r.choice(["dinit", "dresize"]), d, t, dims(smallp)[0], dims(smallp)[1], small)
        k = r.randrange(4)
        if small == 0:
            k = 3
        if k == 0:
            self.emit("dsetfz0", d, r.randrange(small), r.randrange(smallp), "75", "0")
        elif k == 1:
            self.emit("dsetfz0v", d, r.randrange(small), 0, "30")
        elif k == 2:
            self.emit("dsetz0", d, r.randrange(smallp), "75", "1")
        if r.random() < 0.7:
            self.emit("dresize", d, t, dims(bigp)[0], dims(bigp)[1], mid)
        else:
            for _ in range(mid - small):
                self.emit("daddf", d, "%de9" % (20 + len(self.ops)))
        if k >= 2:
            self.emit("dsetfz0", d, mid - 1, bigp - 1, "75", "0")       # the first switch happens after the growth
        self.emit("dgetfz0", d, mid - 1, bigp - 1)
        self.emit("dgetfz0v", d, r.randrange(small, mid))
        self.emit("dsetfz0", d, r.randrange(small, mid), r.randrange(bigp), "60", "1")
        if r.random() < 0.5:
            self.emit("dsetfz0v", d, mid - 1, 0, "45")
        self.emit("ddig", d)
        if r.random() < 0.5:
            t_ = r.randrange(NT)
            self.emit("dsave", d, t_, "x.npd")
            self.Ttxt[t_] = "data:x.npd"
        if r.random() < 0.4:
            self.emit("dsetz0", d, 0, "50", "0")                        # back to the simple vector, and forth again
            self.emit("dresize", d, t, dims(bigp)[0], dims(bigp)[1], big)
            self.emit("dsetfz0", d, big - 1, bigp - 1, "40", "0")
            self.emit("ddig", d)
        self.D[d] = dict(rows=dims(bigp)[0], cols=dims(bigp)[1], freqs=mid, type=t)

    def data_op(self):
        r = self.rng
        d = r.randrange(ND)
        st = self.D[d]
        if st is not None and r.random() < self.p_alias["d"]:
            self.data_alias_op(d, st)
            return
        if st is None:
            if r.random() < 0.5:
                self.emit("dalloc", d, r.randrange(2))
                self.D[d] = dict(rows=0, cols=0, freqs=0, type=0)
            else:
                t = r.choice([1, 1, 4, 5, 2, 6, 10, 0])
                rows, cols = type_dims(r, t)
                f = r.choice([0, 1, 2, 3, 5])
                if self.bad():
                    rows = r.choice([-1, rows + 1, 0])
                self.emit("dallocinit", d, r.randrange(2), t, rows, cols, f)
                ok = self.valid_dims(t, rows, cols, f)
                self.D[d] = dict(rows=rows, cols=cols, freqs=f, type=t) if ok else None
            return
        rows, cols, nf = st["rows"], st["cols"], st["freqs"]
        ports = max(rows, cols)
        x = r.random()
        pb = self.p_bad
        if x < 0.04:
            self.emit("dfree", d)
            self.D[d] = None
        elif x < 0.22:
            t = r.choice([1, 1, 4, 5, 2, 3, 6, 7, 8, 9, 10, 0, 0])
            nr, ncol = type_dims(r, t)
            f = r.choice([0, 1, 2, 3, 4, 8])
            if self.bad():
                c = r.randrange(4)
                if c == 0:
                    nr = -1
                elif c == 1:
                    ncol = -1
                elif c == 2:
                    f = -1
                else:
                    t = r.choice([11, -1, 99])
            self.emit(r.choice(["dinit", "dresize", "dresize"]), d, t, nr, ncol, f)
            if self.valid_dims(t, nr, ncol, f):
                st.update(rows=nr, cols=ncol, freqs=f, type=t)
        elif x < 0.26:
            self.emit("dsettype", d, r.choice([0, 1, 2, 4, 5, 6, 10, 11, -1]))
        elif x < 0.32:
            self.emit("daddf", d, r.choice(["1e9", "2e9", "5e8", "-1", "0"]))
            st["freqs"] = nf + 1   # approximately (fails on negative)
        elif x < 0.38:
            self.emit(r.choice(["dsetf", "dgetf"]), d, rnd_index(r, nf, pb), "1.5e9")
        elif x < 0.42:
            self.emit(r.choice(["dsetfv", "dgetfv", "dfminmax"]), d, 1 if self.bad() else 0)
        elif x < 0.52:
            self.emit(r.choice(["dgetc", "dsetc"]), d, rnd_index(r, nf, pb), rnd_index(r, rows, pb), rnd_index(r, cols, pb), "0.25", "-0.5")
        elif x < 0.58:
            self.emit(r.choice(["dgetm", "dsetm"]), d, rnd_index(r, nf, pb), "1.5")
        elif x < 0.62:
            self.emit(r.choice(["dgetv", "dsetv"]), d, rnd_index(r, rows, pb), rnd_index(r, cols, pb), "2.5")
        elif x < 0.70:
            self.emit(r.choice(["dgetz0", "dsetz0"]), d, rnd_index(r, ports, 0.3), "75", "1")
        elif x < 0.74:
            k = r.choice(["dsetallz0", "dgetz0v", "dsetz0v", "dhasfz0"])
            if k == "dsetallz0":
                self.emit(k, d, "60", "0")
            else:
                self.emit(k, d, 0, "60")        # the z0 vector is not an optional argument: never NULL
        elif x < 0.82:
            self.emit(r.choice(["dgetfz0", "dsetfz0"]), d, rnd_index(r, nf, pb), rnd_index(r, ports, 0.3), "45", "2")
        elif x < 0.86:
            self.emit(r.choice(["dgetfz0v", "dsetfz0v"]), d, rnd_index(r, nf, pb), 0, "30")
        elif x < 0.91:
            o = r.randrange(ND)
            self.emit("dconv", d, o, r.choice([1, 4, 5, 2, 3, 6, 7, 8, 9, 10, 0, 11, -1]))
            if self.D[o] is not None:
                self.D[o].update(rows=rows, cols=cols, freqs=nf)   # approximate
        elif x < 0.94:
            if r.random() < 0.25:
                self.emit("dsetfmt", d, enc(r.choice(["Sri", "SdB", "Sma,Zri", "zin", "PRC", "IL,RL,VSWR", "bogus", "", "Sri,", "S", "Tri,Uma,Hri", None])))
            else:
                self.emit("dsetfmt", d, enc(rnd_format(r)))
            y = r.random()
            if y < 0.35:
                # the format in use: saved as NPD (the '#:parameters' line is the canonical string) and loaded back
                t = r.randrange(NT)
                self.emit("dsave", d, t, "x.npd")
                self.Ttxt[t] = "data:x.npd"
                if r.random() < 0.6:
                    self.emit("dload", r.randrange(ND), t, "x.npd")
            elif y < 0.6:
                # an input-impedance vector (type Zin) saved with a format of untyped entries: completed to Zinri / Zinma / ...
                o = r.randrange(ND)
                self.emit("dconv", d, o, 10)
                self.emit("dsetfmt", o, enc(rnd_format(r, p_bad=0.0, untyped=0.6)))
                t = r.randrange(NT)
                self.emit(r.choice(["dsave", "dsave", "dcksave"]), o, t, r.choice(["x.npd", "x.npd", "x.txt"]))
                self.Ttxt[t] = "data:x.npd"
            elif y < 0.85:
                # an NPD file written by hand: the '#:parameters' line takes the whole grammar, incl. mixed case and white space
                self.emit("dloads", d, enc(npd_text(r, rnd_format(r, p_bad=0.05))), "y.npd")
        elif x < 0.96:
            self.emit(r.choice(["dsetft", "dsetfp", "dsetdp", "dgetprec", "dgetft", "dgetfmt"]), d, r.choice([0, 1, 2, 3, 6, 1000, -1, 4, 20]))
        elif x < 0.985:
            t = r.randrange(NT)
            name = r.choice(["x.s%dp" % max(ports, 1), "x.ts", "x.npd", "x.s2p", "x.txt", "x.s1p"])
            self.emit(r.choice(["dsave", "dsave", "dcksave"]), d, t, name) if r.random() < 0.8 else self.emit("dcksave", d, name)
            self.Ttxt[t] = "data:" + name
        else:
            ts = [i for i in range(NT) if self.Ttxt[i] and self.Ttxt[i].startswith("data:")]
            if ts:
                t = r.choice(ts)
                self.emit("dload", d, t, self.Ttxt[t][5:])
            else:
                self.emit("dloads", d, enc("# GHz S RI R 50\n1 0.1 0.2\n2 0.3 0.4\n"), "y.s1p")
            self.emit("ddig", d)

    @staticmethod
    def valid_dims(t, rows, cols, f):
        if rows < 0 or cols < 0 or f < 0:
            return False
        if t in (1, 4, 5):
            return rows == cols
        if t in (2, 3, 6, 7, 8, 9):
            return rows == 2 and cols == 2
        if t == 10:
            return rows == 1
        return t == 0

    # ------------------------------------------------------------------ vnacal
    @staticmethod
    def chain_vector(kinds, p):
        """number of frequencies of the vector parameter at the end of the chain of `other` references
        starting at parameter p (unknown / correlated -> ... -> vector), None when it does not end in one"""
        for _ in range(16):
            k = kinds.get(p)
            if k is None:
                return None
            if k[0] == "v":
                return k[1]
            if k[0] not in ("u", "c"):
                return None
            p = k[1]
        return None

    def cal_op(self):
        r = self.rng
        c = r.randrange(NC)
        st = self.C[c]
        if st is None:
            if self.saved and r.random() < 0.3:
                self.emit("cload", c, r.choice(sorted(self.saved)), r.randrange(2))
                self.C[c] = dict(params=[0, 1, 2], cals=["cal0"], named=True)
            else:
                self.emit("ccreate", c, r.randrange(2))
                self.C[c] = dict(params=[0, 1, 2], cals=[])
            return
        params = st["params"]
        kinds = st.setdefault("kinds", {})    # approximate: index -> ("s",) | ("v", n) | ("u", other) | ("c", other)
        nxt = max(params) + 1 if params else 3
        if r.random() < self.p_alias["c"]:
            self.cal_alias_op(c, st)
            return

        def par():
            if params and not self.bad():
                return r.choice(params)
            return r.choice([-1, nxt, nxt + 1, 100, 3])
        x = r.random()
        if x < 0.03:
            self.emit("cfree", c)
            self.C[c] = None
            for i in range(NN):
                if self.N[i] is not None and self.N[i]["c"] == c:
                    self.N[i] = None
        elif x < 0.15:
            self.emit("cscalar", c, r.choice(["0.5", "-0.3", "0", "1"]), r.choice(["0", "0.2"]))
            params.append(nxt)
            kinds[nxt] = ("s",)
        elif x < 0.25:
            n = r.choice([1, 2, 3, 5]) if not self.bad() else r.choice([0, -1])
            variant = r.choice([0, 0, 0, 1, 2, 3, 4]) if self.bad() else 0
            self.emit("cvector", c, n, variant)
            params.append(nxt)
            if n >= 1 and variant in (0, 1, 2):     # (the harness passes valid vectors for the former NULL variants 1, 2)
                kinds[nxt] = ("v", n)
        elif x < 0.33:
            o = par()
            self.emit("cunknown", c, o)
            params.append(nxt)
            kinds[nxt] = ("u", o)
        elif x < 0.41:
            n = r.choice([1, 2, 3, 4]) if not self.bad() else r.choice([0, -1])
            o = par()
            variant = r.choice([1, 2, 3]) if self.bad() else 0
            vn = self.chain_vector(kinds, o)
            if variant == 0 and n >= 1 and vn is not None and r.random() < 0.6:
                # sigma_frequency_vector NULL: the frequencies are borrowed from the vector parameter at
                # the end of the chain of `other` references (valid only with its number of frequencies)
                n, variant = vn, 1
            self.emit("ccorr", c, o, n, variant)
            params.append(nxt)
            kinds[nxt] = ("c", o)
        elif x < 0.47:
            self.emit("cpval", c, par(), r.choice(["1e9", "2.5e9", "1e5", "-1", "1e15"]))
        elif x < 0.57:
            p = par()
            self.emit("cpdel", c, p)
            if p in params and p >= 3:
                params.remove(p)
                kinds.pop(p, None)
        elif x < 0.62:
            ci = rnd_index(r, len(st["cals"]), 0.3)
            self.emit(r.choice(["cgets", "cgets", "cdelcal", "cend"]), c, ci)
        elif x < 0.66:
            self.emit("cfind", c, r.choice(["cal0", "cal1", "nope", "second"]))
        elif x < 0.80:
            ci = rnd_index(r, len(st["cals"]), 0.3) if r.random() < 0.7 else -1
            k = r.choice(["cpset", "cpset", "cpget", "cpdelp", "cpcount", "cptype", "cpkeys", "cpgetsub", "cpsetsub"])
            if k == "cpset":
                e = r.choice(BAD_EXPR) if self.bad() else r.choice(GOOD_SET)
            elif k == "cpdelp":
                e = r.choice(GOOD_DEL)
            else:
                e = r.choice(BAD_EXPR) if self.bad() else r.choice(GOOD_SUB)
            self.emit(k, c, ci, enc(e))
        elif x < 0.84:
            self.emit(r.choice(["csetfp", "csetdp"]), c, r.choice([1, 6, 9, 1000, 0, -1, 30]))
        elif x < 0.90:
            fid = r.randrange(3)
            self.emit("csave", c, fid)
            self.saved.add(fid)
            st["named"] = True
        elif x < 0.96:
            ns = [i for i in range(NN) if self.N[i] is not None and self.N[i]["c"] == c]
            n = r.choice(ns) if ns and not self.bad() else r.randrange(NN + 1)
            name = r.choice(["cal0", "cal1", "second"])
            self.emit("caddcal", c, name, n)
            if name not in st["cals"]:
                st["cals"].append(name)
        else:
            d = r.randrange(ND) if not self.bad() else -1
            ci = rnd_index(r, len(st["cals"]), 0.2)
            nf = r.choice([1, 2, 3, 0, 4, -1])
            rows, cols = r.choice([(2, 2), (1, 1), (2, 1), (1, 2), (3, 3), (0, 0)])
            self.emit("capply", c, ci, d, nf, rows, cols, r.randrange(2), 1 if self.bad() else 0)

    def cal_alias_op(self, c, st):
        """a pointer returned by a getter of vnacal_t o handed to a mutator of vnacal_t c (mostly o == c)"""
        r = self.rng
        if not st["cals"] and "n" in self.modules and r.random() < 0.6:
            ports = r.choice([1, 1, 2])
            self.calibration_scenario(self.free_new(), c, r.choice([T8, U8, TE10, UE10, E12, UE14]), ports, r.choice([1, 2, 3]))
        o = c if (r.random() < 0.7 or self.C[1 - c] is None) else 1 - c
        ncal, ncalo = len(st["cals"]), len(self.C[o]["cals"])

        def ci(n=None):
            n = ncal if n is None else n
            if n == 0:
                return -1 if r.random() < 0.8 else 0
            return rnd_index(r, n, 0.15) if r.random() < 0.75 else -1
        x = r.random()
        if ncal == 0 and 0.58 <= x < 0.96:
            x = r.choice([0.0, 0.2, 0.4])       # nothing to take a name / frequency vector from: properties and file name
        if x < 0.14:
            if not self.C[o].get("named") and r.random() < 0.85:
                fid = r.randrange(3)
                self.emit("csave", o, fid)
                self.saved.add(fid)
                self.C[o]["named"] = True
            self.emit("casave", c, o)
            if self.C[o].get("named"):
                st["named"] = True
        elif x < 0.28:
            src = r.choice(ALIAS_LEAVES)
            dst = src if r.random() < 0.5 else r.choice(ALIAS_LEAVES + ["new.key", "l[+]"])
            cj = ci(ncalo)
            if r.random() < 0.85:
                self.emit("cpset", o, cj, enc(src + "=value"))
            self.emit("capset", c, ci(), o, cj, enc(src), enc(dst), enc(r.choice(ALIAS_SUFFIX)))
        elif x < 0.33:
            self.emit("capsetvia", c, ci(), enc(r.choice(GOOD_SUB)), "val")
        elif x < 0.43:
            dst, src = r.choice(ALIAS_NESTED) if r.random() < 0.7 else (r.choice(GOOD_SUB), r.choice(GOOD_SUB))
            cj = ci(ncalo)
            if r.random() < 0.85:
                for e in r.sample(ALIAS_RICH[:-1], 4):
                    self.emit("cpset", o, cj, enc(e))
            self.emit("capcopy", c, r.choice([cj, ci()]) if o == c else ci(), enc(dst), o, cj, enc(src))
        elif x < 0.50:
            self.emit(r.choice(["capexport", "capimport"]), c, ci(), enc(r.choice(GOOD_SUB)), r.randrange(NP))
        elif x < 0.58:
            cj = ci()
            if r.random() < 0.85:
                for e in r.sample(ALIAS_RICH[:-1], 3) + ["m.k1=v1", "m.k2=v2"]:
                    self.emit("cpset", c, cj, enc(e))
            self.emit("capkeys", c, cj, enc(r.choice(ALIAS_MAPS)), r.randrange(4))
        elif x < 0.70:
            ns = [i for i in range(NN) if self.N[i] is not None and self.N[i]["c"] == c and self.N[i].get("solved")]
            if ns:
                self.emit("caaddcal", c, rnd_index(r, ncalo, 0.15), o, r.choice(ns))
            else:
                self.emit("cafind", c, rnd_index(r, ncalo, 0.15), o)
        elif x < 0.76:
            self.emit("cafind", c, rnd_index(r, ncalo, 0.15), o)
        elif x < 0.84:
            if r.random() < 0.5:
                self.emit("cavector", c, o, rnd_index(r, ncalo, 0.15))
            else:
                self.emit("cacorr", c, o, rnd_index(r, ncalo, 0.15), r.choice(st["params"]))
            st["params"].append(max(st["params"]) + 1)
        elif x < 0.96:
            rows, cols = r.choice([(2, 2), (1, 1), (1, 1), (2, 1), (1, 2)])
            d = self.need_data()
            src = r.randrange(2)
            if src == 0 and self.D[d]["freqs"] <= 0 and r.random() < 0.8:
                self.emit("dinit", d, 1, rows, rows, r.choice([1, 2, 3]))
                self.emit("dsetfv", d, 0)
            self.emit("caapply", c, rnd_index(r, ncal, 0.15), src, d, rows, cols, r.randrange(2), o, rnd_index(r, ncalo, 0.15))
        else:
            other = 1 - c
            if self.C[other] is None:
                if not st.get("named"):
                    fid = r.randrange(3)
                    self.emit("csave", c, fid)
                    self.saved.add(fid)
                    st["named"] = True
                self.emit("caload", other, c, r.randrange(2))
                self.C[other] = dict(params=[0, 1, 2], cals=list(st["cals"]), named=True)
            else:
                self.emit("casave", c, other)

    # ------------------------------------------------------------------ vnacal_new
    def new_op(self):
        r = self.rng
        n = r.randrange(NN)
        st = self.N[n]
        if st is not None and r.random() < self.p_alias["n"]:
            cs = [i for i in range(NC) if self.C[i] is not None and self.C[i]["cals"]]
            if cs:
                c = st["c"] if (st["c"] in cs and r.random() < 0.7) else r.choice(cs)
                self.emit(r.choice(["nasetfv", "nasetfv", "namerr"]), n, c, rnd_index(r, len(self.C[c]["cals"]), 0.15))
                return
        if st is None:
            cs = [i for i in range(NC) if self.C[i] is not None]
            if not cs:
                self.cal_op()
                return
            c = r.choice(cs)
            t = r.choice([T8, U8, TE10, UE10, T16, U16, UE14, E12])
            if t in (T8, TE10, T16):
                rows, cols = r.choice([(1, 1), (2, 2), (1, 2), (2, 2), (3, 3), (2, 3)])
            else:
                rows, cols = r.choice([(1, 1), (2, 2), (2, 1), (2, 2), (3, 3), (3, 2)])
            f = r.choice([1, 2, 3])
            if self.bad():
                k = r.randrange(5)
                if k == 0:
                    rows, cols = cols + 1, rows      # wrong orientation for the type (mostly)
                elif k == 1:
                    rows = r.choice([0, -1])
                elif k == 2:
                    f = r.choice([0, -1])
                elif k == 3:
                    t = r.choice([-1, 7, 9, 100])
                else:
                    cols = 0
            self.emit("nalloc", n, c, t, rows, cols, f)
            ok = rows >= 1 and cols >= 1 and f >= 0 and t in (T8, U8, TE10, UE10, T16, U16, UE14, E12) and \
                ((rows <= cols) if t in (T8, TE10, T16) else (rows >= cols))
            if ok:
                self.N[n] = dict(c=c, type=t, rows=rows, cols=cols, freqs=f, fv=False, solved=False)
            return
        R, Cn, F, t = st["rows"], st["cols"], st["freqs"], st["type"]
        ports = max(R, Cn)
        params = self.C[st["c"]]["params"] if self.C[st["c"]] else [0, 1, 2]

        def par():
            if not self.bad():
                return r.choice(params)
            return r.choice([-1, 100, max(params) + 1])

        def port():
            if not self.bad():
                return r.randrange(1, ports + 1)
            return r.choice([0, -1, ports + 1, ports + 2])

        def mdims():
            if not self.bad():
                return R, Cn
            return r.choice([(R + 1, Cn), (R, Cn + 1), (0, 0), (-1, Cn), (1, 1), (2, 2), (Cn, R), (R, R), (Cn, Cn)])

        def ab():
            if r.random() < 0.7:
                return 0
            if t in (UE14, E12):
                return r.choice([3, 3, 1, 4])
            return r.choice([1, 1, 3, 4])
        x = r.random()
        if x < 0.03:
            self.emit("nfree", n)
            self.N[n] = None
        elif x < 0.13:
            self.emit("nsetfv", n, r.choice([1, 2, 3, 4]) if self.bad() else 0)
            st["fv"] = True
        elif x < 0.16:
            self.emit(r.choice(["nsetz0", "nptol", "nettol", "npvlim"]), n, r.choice(["50", "1e-6", "0", "-1", "0.5", "75"]), "0")
        elif x < 0.18:
            self.emit("nitlim", n, r.choice([10, 30, 0, -1]))
        elif x < 0.23:
            self.emit("nmerr", n, r.choice([1, 2, 3, F]) if not self.bad() else r.choice([0, -1]), r.choice([0, 0, 1, 2, 5]) if not self.bad() else r.choice([3, 4]))
        elif x < 0.45:
            mr, mc = mdims()
            s11 = par()
            g = {0: ("0", "0"), 1: ("1", "0"), 2: ("-1", "0")}.get(s11, ("0.5", "0"))
            self.emit("nsr", n, mr, mc, ab(), 1 if (self.bad() and self.bad()) else 0, s11, port(), g[0], g[1])
        elif x < 0.55 and ports >= 2:
            mr, mc = mdims()
            p1 = port()
            p2 = port() if self.bad() else (p1 % ports) + 1
            self.emit("ndr", n, mr, mc, ab(), 0, par(), par(), p1, p2, "1", "0", "-1", "0")
        elif x < 0.70 and ports >= 2:
            mr, mc = mdims()
            p1 = port()
            p2 = port() if self.bad() else (p1 % ports) + 1
            self.emit("nthru", n, mr, mc, ab(), 0, p1, p2)
        elif x < 0.77 and ports >= 2:
            mr, mc = mdims()
            p1 = port()
            p2 = port() if self.bad() else (p1 % ports) + 1
            self.emit("nline", n, mr, mc, ab(), 0, par(), par(), par(), par(), p1, p2, 0, "0", "1", "1", "0")
        elif x < 0.88:
            mr, mc = mdims()
            if self.bad():
                sr, sc = r.choice([(0, 0), (-1, 1), (1, 0), (ports + 1, ports + 1), (1, 2), (2, 1), (ports, 1), (1, ports)])
            else:
                k = r.randrange(1, ports + 1)
                sr, sc = k, k
            havemap = 1 if (sr != ports or sc != ports or r.random() < 0.3) else 0
            if self.bad():
                havemap = 1 - havemap
            scells = max(sr, 0) * max(sc, 0)
            scells = min(scells, 36)
            sp = min(max(sr, sc, 0), 8)
            toks = [par() for _ in range(scells)]
            if havemap:
                pm = list(range(1, ports + 1))
                r.shuffle(pm)
                pm = (pm + [ports + 1] * 8)[:sp]
                if self.bad() and sp >= 1:
                    pm[r.randrange(sp)] = r.choice([0, -1, ports + 1, pm[0]])
                toks += pm
            toks += ["0.5"] * scells
            self.emit("nmm", n, mr, mc, ab(), 0, sr, sc, havemap, *toks)
        else:
            self.emit("nsolve", n)
            if st["solved"] and r.random() < 0.3:
                self.emit("nsolve", n)          # solve again at once (same frequencies, same unknowns)
            st["solved"] = True

    # ------------------------------------------------------------------ composite valid scenario
    def calibration_scenario(self, n, c, t, ports, f, addcal=True):
        """a full valid calibration: SOL on every port, through on every pair, solve, add"""
        if self.C[c] is None:
            self.emit("ccreate", c, 1)
            self.C[c] = dict(params=[0, 1, 2], cals=[])
        if self.N[n] is not None:
            self.emit("nfree", n)
        self.emit("nalloc", n, c, t, ports, ports, f)
        self.N[n] = dict(c=c, type=t, rows=ports, cols=ports, freqs=f, fv=True, solved=True)
        self.emit("nsetfv", n, 0)
        for p in range(1, ports + 1):
            for s11, g in ((2, "-1"), (1, "1"), (0, "0")):
                self.emit("nsr", n, ports, ports, 0, 0, s11, p, g, "0")
        for p1 in range(1, ports + 1):
            for p2 in range(p1 + 1, ports + 1):
                self.emit("nthru", n, ports, ports, 0, 0, p1, p2)
        self.emit("nsolve", n)
        if addcal:
            name = self.rng.choice(["cal0", "cal1"])
            self.emit("caddcal", c, name, n)
            if name not in self.C[c]["cals"]:
                self.C[c]["cals"].append(name)

    def fresh_cal(self):
        """a vnacal slot holding a newly created vnacal_t, so that the indices of the parameters made
        next are known exactly (3, 4, ...); an occupied slot is freed first when none is empty"""
        r = self.rng
        empty = [i for i in range(NC) if self.C[i] is None]
        c = r.choice(empty) if empty else r.randrange(NC)
        if self.C[c] is not None:
            self.emit("cfree", c)
            for i in range(NN):
                if self.N[i] is not None and self.N[i]["c"] == c:
                    self.N[i] = None
        self.emit("ccreate", c, 1)
        self.C[c] = dict(params=[0, 1, 2], cals=[], kinds={})
        return c

    def add_param(self, c, kind):
        st = self.C[c]
        idx = max(st["params"]) + 1
        st["params"].append(idx)
        st["kinds"][idx] = kind
        return idx

    def param_chain_scenario(self):
        """vector parameter <- unknown [<- correlated]* <- correlated, every correlated parameter made with
        sigma_frequency_vector NULL and as many sigmas as the vector has frequencies (the frequencies
        are borrowed from the vector at the end of the chain); then deletes / evaluations / a second
        correlated parameter in a random order.  Returns (c, vector, unknown, last correlated)."""
        r = self.rng
        c = self.fresh_cal()
        nf = r.choice([2, 3, 4])
        self.emit("cvector", c, nf, 0)
        v = self.add_param(c, ("v", nf))
        self.emit("cunknown", c, v)
        u = self.add_param(c, ("u", v))
        top = u
        for _ in range(r.choice([1, 1, 2])):
            self.emit("ccorr", c, top, nf, 1)
            top = self.add_param(c, ("c", top))
        tail = [("cpdel", top), ("cpval", v), ("ccorr", u), ("cpdel", u), ("cpval", v)]
        r.shuffle(tail)
        for k, p in tail[:r.choice([2, 3, 4])]:
            if k == "cpdel":
                self.emit("cpdel", c, p)
                if p in self.C[c]["params"]:
                    self.C[c]["params"].remove(p)
            elif k == "cpval":
                self.emit("cpval", c, p, r.choice(["6e8", "1e9", "7.5e8"]))
            else:
                self.emit("ccorr", c, p, nf, 1)
                self.add_param(c, ("c", p))     # approximately (a freed slot may be reused)
        return c, v, u, top

    def unknown_solve_scenario(self):
        """a one-port calibration (short, open, match and one unknown reflect standard) solved more than
        once with the same frequencies; optionally the same unknown parameter is also a standard of a
        second vnacal_new_t with the same number of frequencies and both are solved"""
        r = self.rng
        c = self.fresh_cal()
        nf = r.choice([1, 2, 3])
        if r.random() < 0.5:
            self.emit("cscalar", c, "0.45", "0.25")
            g = ("0.5", "0.3")
            self.add_param(c, ("s",))
            unk = [self.add_param(c, ("u", 3))]
            self.emit("cunknown", c, 3)
        else:
            # initial guess = vector parameter; unknown and correlated (borrowed frequencies) standards
            nf = max(nf, 2)
            self.emit("cvector", c, nf, 0)
            g = ("0.1", "-0.2")
            self.add_param(c, ("v", nf))
            self.emit("cunknown", c, 3)
            unk = [self.add_param(c, ("u", 3))]
            if r.random() < 0.5:
                self.emit("ccorr", c, 4, nf, 1)
                unk.append(self.add_param(c, ("c", 4)))
        ns = [r.randrange(NN)]
        if r.random() < 0.5:
            ns.append((ns[0] + 1 + r.randrange(NN - 1)) % NN)
        for n in ns:
            if self.N[n] is not None:
                self.emit("nfree", n)
            t = r.choice([T8, U8, TE10, UE10, UE14, E12])
            self.emit("nalloc", n, c, t, 1, 1, nf)
            self.N[n] = dict(c=c, type=t, rows=1, cols=1, freqs=nf, fv=True, solved=True)
            self.emit("nsetfv", n, 0)
            for s11, gs in ((2, "-1"), (1, "1"), (0, "0")):
                self.emit("nsr", n, 1, 1, 0, 0, s11, 1, gs, "0")
            for p in unk:
                self.emit("nsr", n, 1, 1, 0, 0, p, 1, g[0], g[1])
        for n in ns:
            self.emit("nsolve", n)
        for _ in range(r.choice([1, 1, 2])):
            k = r.randrange(4)
            if k == 0:
                self.emit("nptol", ns[0], "1e-9", "0")
            elif k == 1:
                self.emit("cpval", c, unk[-1], "1e9")
            elif k == 2:
                self.emit("caddcal", c, "cal0", ns[-1])
                if "cal0" not in self.C[c]["cals"]:
                    self.C[c]["cals"].append("cal0")
            self.emit("nsolve", r.choice(ns))

    def free_new(self, exclude=()):
        """a vnacal_new slot (released first when in use)"""
        r = self.rng
        cand = [i for i in range(NN) if i not in exclude]
        empty = [i for i in cand if self.N[i] is None]
        n = r.choice(empty) if empty else r.choice(cand)
        if self.N[n] is not None:
            self.emit("nfree", n)
            self.N[n] = None
        return n

    def need_data(self):
        ds = [i for i in range(ND) if self.D[i] is not None]
        if ds:
            return self.rng.choice(ds)
        d = self.rng.randrange(ND)
        self.emit("dalloc", d, 1)
        self.D[d] = dict(rows=0, cols=0, freqs=0, type=0)
        return d

    def sol_standards(self, n, ports, order=None):
        stds = [("nsr", n, ports, ports, 0, 0, s11, p, g, "0") for p in range(1, ports + 1) for s11, g in ((2, "-1"), (1, "1"), (0, "0"))]
        stds += [("nthru", n, ports, ports, 0, 0, p1, p2) for p1 in range(1, ports + 1) for p2 in range(p1 + 1, ports + 1)]
        return stds

    def zero_freq_scenario(self):
        """a vnacal_new_t with ZERO frequencies and unknown / correlated parameters taken through set_frequency_vector, add,
        m_error, solve, add_calibration, apply, save, load (neighbourhood of D68, D63, D66, D13)"""
        r = self.rng
        c = self.fresh_cal()
        self.emit("cscalar", c, "0.45", "0.25")
        s = self.add_param(c, ("s",))
        self.emit("cunknown", c, r.choice([s, s, 2, 1]))
        unk = [self.add_param(c, ("u", s))]
        k = r.randrange(4)
        if k == 1:
            self.emit("ccorr", c, unk[0], 1, r.choice([0, 1]))
            unk.append(self.add_param(c, ("c", unk[0])))
        elif k == 2:
            self.emit("cunknown", c, r.choice([0, 1, 2]))
            unk.append(self.add_param(c, ("u", 0)))
        elif k == 3:
            self.emit("ccorr", c, s, 1, 1)
            unk.append(self.add_param(c, ("c", s)))
        n = self.free_new()
        ports = r.choice([1, 1, 2])
        t = r.choice([T8, U8, TE10, UE10, T16, U16, UE14, E12])
        self.emit("nalloc", n, c, t, ports, ports, 0)
        self.N[n] = dict(c=c, type=t, rows=ports, cols=ports, freqs=0, fv=True, solved=True)
        self.emit("nsetfv", n, 0)
        stds = self.sol_standards(n, ports)
        for u in unk:
            stds.append(("nsr", n, ports, ports, 0, 0, u, r.randrange(1, ports + 1), "0.5", "0.3"))
        if ports == 2 and r.random() < 0.5:
            stds.append(("ndr", n, 2, 2, 0, 0, unk[0], unk[-1], 1, 2, "0.5", "0.3", "0.4", "-0.1"))
        if r.random() < 0.5:
            r.shuffle(stds)
        if r.random() < 0.4:
            stds.insert(r.choice([0, 0, len(stds)]), ("nmerr", n, r.choice([0, 1, 1, 2]), r.choice([0, 1, 2, 5])))
        for st_ in stds:
            self.emit(*st_)
        self.emit("nsolve", n)
        tail = [("nsolve", n), ("cpval", c, unk[0], "1e9"), ("cpval", c, unk[-1], "2.5e9"), ("caddcal", c, "cal0", n), ("cgets", c, 0)]
        d = self.need_data()
        tail.append(("capply", c, 0, d, r.choice([0, 0, 1, 2]), ports, ports, r.randrange(2), 0))
        tail.append(("caapply", c, 0, 1, d, ports, ports, r.randrange(2), c, 0))
        fid = r.randrange(3)
        tail += [("csave", c, fid), ("casave", c, c)]
        r.shuffle(tail)
        tail = [("caddcal", c, "cal0", n)] + tail[:r.choice([3, 5, 7])]
        for t_ in tail:
            self.emit(*t_)
            if t_[0] == "csave":
                self.saved.add(fid)
        if "cal0" not in self.C[c]["cals"]:
            self.C[c]["cals"].append("cal0")

    def trl_scenario(self):
        """2x2 T8 / U8 / TE10 / UE10 calibration with exactly three standards and two unknown parameters (the TRL detection path of
        vnacal_new_solve): through / reflect / line shapes mixed with single and double reflects, in every order (D69)"""
        r = self.rng
        c = self.fresh_cal()
        g = []
        for _ in range(2):
            if r.random() < 0.5:
                self.emit("cscalar", c, r.choice(["-0.9", "0.3", "0.95"]), r.choice(["0", "0.1"]))
                g.append(self.add_param(c, ("s",)))
            else:
                g.append(r.choice([0, 1, 2]))
        u = []
        for i in range(2):
            self.emit("cunknown", c, g[i])
            u.append(self.add_param(c, ("u", g[i])))
        n = self.free_new()
        t = r.choice([T8, U8, TE10, UE10])
        f = r.choice([1, 2, 3])
        self.emit("nalloc", n, c, t, 2, 2, f)
        self.N[n] = dict(c=c, type=t, rows=2, cols=2, freqs=f, fv=True, solved=True)
        self.emit("nsetfv", n, 0)

        def par(i):
            return u[i] if r.random() < 0.75 else r.choice([0, 1, 2])
        pool = [
            lambda: ("nsr", n, 2, 2, 0, 0, par(0), 1, "0.5", "0.1"),
            lambda: ("nsr", n, 2, 2, 0, 0, par(1), 2, "-0.5", "0.1"),
            lambda: ("nsr", n, 2, 2, 0, 0, par(0), 2, "0.5", "0.1"),
            lambda: ("ndr", n, 2, 2, 0, 0, par(0), par(1), 1, 2, "0.5", "0", "-0.5", "0"),
            lambda: ("ndr", n, 2, 2, 0, 0, u[0], u[0], 2, 1, "0.5", "0", "0.5", "0"),
            lambda: ("nthru", n, 2, 2, 0, 0, 1, 2),
            lambda: ("nthru", n, 2, 2, 0, 0, 2, 1),
            lambda: ("nline", n, 2, 2, 0, 0, 0, u[1], u[1], 0, 1, 2, 0, "0", "0.7", "0.7", "0"),           # L: matched line of unknown transmission
            lambda: ("nline", n, 2, 2, 0, 0, u[0], 0, 0, u[0], 1, 2, 0, "0.6", "0", "0", "0.6"),           # R: equal unknown reflects, no transmission
            lambda: ("nline", n, 2, 2, 0, 0, 0, 1, 1, 0, 1, 2, 0, "0", "1", "1", "0"),                     # T written as a line
            lambda: ("nline", n, 2, 2, 0, 0, par(0), par(1), par(1), par(0), 2, 1, 0, "0.1", "0.7", "0.7", "0.1"),
        ]
        if r.random() < 0.25:
            chosen = [pool[5](), pool[8](), pool[7]()]      # a real TRL set, in a random order
        else:
            # three standards that refer to both unknown parameters (else the solver does not take the TRL test)
            for _ in range(20):
                chosen = [r.choice(pool)() for _ in range(3)]
                used = set(tk for st_ in chosen for tk in st_[6:] if isinstance(tk, int) and tk >= 3)
                if used == set(u):
                    break
        r.shuffle(chosen)
        for st_ in chosen:
            self.emit(*st_)
        self.emit("nsolve", n)
        for _ in range(r.choice([0, 1, 2])):
            k = r.randrange(4)
            if k == 0:
                self.emit("cpval", c, r.choice(u), "1.5e9")
            elif k == 1:
                self.emit("caddcal", c, "cal0", n)
                if "cal0" not in self.C[c]["cals"]:
                    self.C[c]["cals"].append("cal0")
            elif k == 2:
                self.emit(*r.choice(pool)())               # a fourth standard: no longer the TRL path
                self.emit("nsolve", n)
            else:
                self.emit("nsolve", n)

    def save_loaded_scenario(self):
        """save a calibration file, load it, save the loaded vnacal_t to the file name it reports (D70), and to the name of a second
        vnacal_t that holds the same file"""
        r = self.rng
        c = r.randrange(NC)
        if self.C[c] is not None:
            self.emit("cfree", c)
            for i in range(NN):
                if self.N[i] is not None and self.N[i]["c"] == c:
                    self.N[i] = None
            self.C[c] = None
        ports = r.choice([1, 1, 2])
        self.calibration_scenario(self.free_new(), c, r.choice([T8, U8, TE10, UE10, E12, UE14, T16]), ports, r.choice([1, 2, 3]))
        fid = r.randrange(3)
        self.emit("csave", c, fid)
        self.saved.add(fid)
        k = r.randrange(3)
        if k == 0:
            self.emit("casave", c, c)
        elif k == 1:
            self.emit("cfree", c)
            for i in range(NN):
                if self.N[i] is not None and self.N[i]["c"] == c:
                    self.N[i] = None
            self.emit("cload", c, fid, r.randrange(2))
            self.emit("casave", c, c)
            self.emit("cgets", c, 0)
            if r.random() < 0.5:
                self.emit("cpset", c, 0, "k=v")
                self.emit("casave", c, c)
        else:
            o = 1 - c
            if self.C[o] is not None:
                self.emit("cfree", o)
                for i in range(NN):
                    if self.N[i] is not None and self.N[i]["c"] == o:
                        self.N[i] = None
            self.emit("caload", o, c, r.randrange(2))
            self.C[o] = dict(params=[0, 1, 2], cals=list(self.C[c]["cals"]))
            self.emit("casave", r.choice([c, o]), r.choice([c, o]))
            self.emit("casave", o, o)
            self.emit("cgets", o, 0)

    def hint_shrink_scenario(self):
        """shrink after use: one unknown parameter solved by a calibration of many frequencies, evaluated at an off-grid frequency near
        the top of that range (which stores the segment found), then solved by a calibration of few frequencies and evaluated again"""
        r = self.rng
        c = self.fresh_cal()
        if r.random() < 0.6:
            self.emit("cscalar", c, "0.45", "0.25")
            self.add_param(c, ("s",))
        else:
            self.emit("cvector", c, r.choice([2, 3, 5]), 0)
            self.add_param(c, ("v", 2))
        self.emit("cunknown", c, 3)
        unk = [self.add_param(c, ("u", 3))]
        if r.random() < 0.3:
            self.emit("ccorr", c, unk[0], 1, 1)
            unk.append(self.add_param(c, ("c", unk[0])))
        big, small = r.choice([6, 9, 12]), r.choice([2, 3, 4])
        n1 = self.free_new()
        n2 = self.free_new(exclude=(n1,))
        for n, nf in ((n1, big), (n2, small)):
            t = r.choice([T8, U8, TE10, UE10, UE14, E12])
            self.emit("nalloc", n, c, t, 1, 1, nf)
            self.N[n] = dict(c=c, type=t, rows=1, cols=1, freqs=nf, fv=True, solved=True)
            self.emit("nsetfv", n, 0)
            for st_ in self.sol_standards(n, 1):
                self.emit(*st_)
            for p in unk:
                self.emit("nsr", n, 1, 1, 0, 0, p, 1, "0.5", "0.3")
        self.emit("nsolve", n1)
        for p in unk:
            self.emit("cpval", c, p, "%.2fe9" % (big - r.choice([0.5, 0.25, 1.5])))
        self.emit("nsolve", n2)
        for p in unk:
            self.emit("cpval", c, p, "%.2fe9" % (small - 0.5))
        if r.random() < 0.5:
            self.emit("cpval", c, unk[-1], "1.5e9")
            self.emit("nsolve", n1)
            self.emit("cpval", c, unk[0], "%.2fe9" % (big - 0.5))
            self.emit("caddcal", c, "cal0", n2)
            if "cal0" not in self.C[c]["cals"]:
                self.C[c]["cals"].append("cal0")

    def random_script(self, nops, profile=None):
        r = self.rng
        fns = {"p": self.prop_op, "d": self.data_op, "c": self.cal_op, "n": self.new_op}
        if profile is not None and PROFILES[profile][1] is not None:
            getattr(self, PROFILES[profile][1])()           # the history starts with this scenario
        if "n" in self.modules and r.random() < 0.5:
            self.calibration_scenario(r.randrange(NN), r.randrange(NC), r.choice([T8, U8, TE10, UE10, E12, UE14]), r.choice([1, 2, 2]), r.choice([1, 2, 3]))
        if "c" in self.modules:
            # profiles: parameter chains with borrowed sigma frequencies; calibrations with unknown
            # parameters solved repeatedly / shared by two vnacal_new_t (the rest of the history then
            # keeps operating on these objects)
            x = r.random()
            if x < 0.2:
                self.param_chain_scenario()
            elif x < 0.4 and "n" in self.modules:
                self.unknown_solve_scenario()
            # neighbourhoods of D68 / D69 / D70 and of the seeded change C03-6 (see the doc strings)
            if "n" in self.modules:
                x = r.random()
                if x < 0.16:
                    self.zero_freq_scenario()
                elif x < 0.32:
                    self.trl_scenario()
                elif x < 0.44:
                    self.save_loaded_scenario()
                elif x < 0.58:
                    self.hint_shrink_scenario()
        if "p" in self.modules and r.random() < 0.25:
            self.list_boundary_scenario()
        if "d" in self.modules and r.random() < 0.30:
            self.data_shrink_scenario()
        nops = max(nops, len(self.ops) + nops // 3)       # a long scenario is still followed by random ops on its objects
        while len(self.ops) < nops:
            m = r.choice(self.modules)
            fns[m]()
        return self.ops


# profile -> (modules of the random ops that follow, scenario method or None, probability of a self-aliasing op or None)
PROFILES = {
    "zero_freq": (("c", "n", "d"), "zero_freq_scenario", None),
    "trl": (("c", "n"), "trl_scenario", None),
    "save_loaded": (("c", "n"), "save_loaded_scenario", None),
    "hint_shrink": (("c", "n"), "hint_shrink_scenario", None),
    "param_chain": (("c", "n"), "param_chain_scenario", None),
    "unknown_solve": (("c", "n"), "unknown_solve_scenario", None),
    "list_boundary": (("p",), "list_boundary_scenario", None),
    "data_shrink": (("d",), "data_shrink_scenario", None),
    "alias_prop": (("p",), None, 0.5),
    "alias_data": (("d",), None, 0.5),
    "alias_cal": (("c", "n", "d", "p"), None, 0.4),
}


def gen_script(rng, nops, modules=("p", "d", "c", "n"), p_bad=0.15):
    return Gen(rng, modules, p_bad).random_script(nops)


def gen_profile_script(rng, nops, profile, p_bad=0.15):
    """a history that starts with the named scenario (or has a high rate of self-aliasing ops) and goes on with random ops"""
    mods, _, p_alias = PROFILES[profile]
    return Gen(rng, mods, p_bad, p_alias=p_alias).random_script(nops, profile=profile)


def mutate_script(rng, ops, nmut=3):
    """malformed-argument stream: replace integer tokens of a valid script by boundary values"""
    ops = list(ops)
    for _ in range(nmut):
        i = rng.randrange(len(ops))
        toks = ops[i].split(" ")
        idx = [j for j in range(2, len(toks)) if re.fullmatch(r"-?\d+", toks[j])]
        if not idx:
            continue
        j = rng.choice(idx)
        v = int(toks[j])
        toks[j] = str(rng.choice([-1, 0, v + 1, v - 1, v + 2, 7, 1000]))
        ops[i] = " ".join(toks)
    return ops


# ---------------------------------------------------------------------------------------------
# running
class Result(object):
    pass


LINE_RE = re.compile(r"^(R )?(\d+) (\S+) ret=(\S+) errno=(\S+) cb=(\d+) da=(\d+) live=(-?\d+)(?: val=(.*))?$")


# ---------------------------------------------------------------------- property trees in faulted replays
# harness/mem_harness.c prints the tree the op under test works on before the call ("S0 <idx> <dump>") and after the
# failed call ("S1 <idx> <dump>").  classify_prop_failure says whether the tree after the failure is one of the
# states vnaproperty_vset / vnaproperty_vset_subtree walk through while they make the path of the expression conform
# (descend(): free a node of the wrong type, allocate the map / list, add the key / extend the list / insert / append a
# null cell), the target cell still holding what it held before: the shape of the known finding DM55.
def parse_prop_dump(text):
    """dump -> None | ("s", hex) | ("l", [..]) | ("m", [(hexkey, value), ..]);  raises ValueError on '?' / garbage"""
    pos = [0]

    def node():
        if pos[0] >= len(text):
            raise ValueError("truncated")
        c = text[pos[0]]
        if c == "~":
            pos[0] += 1
            return None
        if c == "s":
            j = pos[0] + 1
            while j < len(text) and text[j] in "0123456789abcdef":
                j += 1
            v = ("s", text[pos[0] + 1:j])
            pos[0] = j
            return v
        if c == "[":
            pos[0] += 1
            items = []
            while text[pos[0]] != "]":
                if items:
                    if text[pos[0]] != ",":
                        raise ValueError("list")
                    pos[0] += 1
                items.append(node())
            pos[0] += 1
            return ("l", items)
        if c == "{":
            pos[0] += 1
            items = []
            while text[pos[0]] != "}":
                if items:
                    if text[pos[0]] != ",":
                        raise ValueError("map")
                    pos[0] += 1
                j = text.index(":", pos[0])
                key = text[pos[0]:j]
                pos[0] = j + 1
                items.append((key, node()))
            pos[0] += 1
            return ("m", items)
        raise ValueError("unexpected %r" % c)
    try:
        v = node()
    except IndexError:
        raise ValueError("truncated")
    if pos[0] != len(text):
        raise ValueError("trailing")
    return v


def _isalpha(c):
    return (65 <= c <= 90) or (97 <= c <= 122)


def parse_prop_expr(b):
    """the LL(1) grammar of parse() / scan() in vnaproperty.c on the bytes of the formatted expression.
    Returns (components, token after the expression) with components ("key", hexname) | ("idx", i) | ("ins", i) |
    ("app",) | ("map",) | ("list",) | ("dot",), or None when the expression is not accepted."""
    n = len(b)
    pos = [0]

    def scan():
        while pos[0] < n and b[pos[0]] in b"\f\n\r\t\v ":
            pos[0] += 1
        if pos[0] >= n or b[pos[0]] == 0:
            return ("eof",)
        c = b[pos[0]]
        if c in b"#+.=[]{}":
            pos[0] += 1
            return (chr(c),)
        if 48 <= c <= 57:
            j = pos[0]
            while j < n and 48 <= b[j] <= 57:
                j += 1
            v = int(b[pos[0]:j])
            pos[0] = j
            return ("int", v)
        if _isalpha(c) or c >= 128 or c in b"_\\":
            out = bytearray()
            start = pos[0]
            protected = start               # source position, compared with the (compacted) destination as the C code does
            while True:
                c = b[pos[0]] if pos[0] < n else 0
                if c == 92:
                    pos[0] += 1
                    if pos[0] >= n or b[pos[0]] == 0:
                        return ("error",)
                    protected = pos[0]
                    c = b[pos[0]]
                out.append(c)
                pos[0] += 1
                c = b[pos[0]] if pos[0] < n else 0
                if not (_isalpha(c) or 48 <= c <= 57 or c >= 128 or c in b" _-\\"):
                    break
            while start + len(out) - 1 > protected and out[-1] == 32:
                out.pop()
            return ("id", bytes(out).hex())
        return ("error",)
    comps = []
    tok = scan()
    state = 0
    while True:
        if state in (0, 1, 2):
            if tok[0] == "." and state in (0, 2):
                tok = scan()
                state = 1
                continue
            if tok[0] == "id" and state in (0, 1):
                comps.append(("key", tok[1]))
                tok = scan()
                state = 2
                continue
            if tok[0] == "[":
                tok = scan()
                if tok[0] == "int":
                    i = tok[1]
                    tok = scan()
                    if tok[0] == "+":
                        tok = scan()
                        if tok[0] != "]":
                            return None
                        comps.append(("ins", i))
                    elif tok[0] == "]":
                        comps.append(("idx", i))
                    else:
                        return None
                    tok = scan()
                    state = 2
                    continue
                if tok[0] == "+":
                    tok = scan()
                    if tok[0] != "]":
                        return None
                    comps.append(("app",))
                    tok = scan()
                    state = 2
                    continue
                if tok[0] == "]":
                    comps.append(("list",))
                    tok = scan()
                    return comps, tok
                return None
            if tok[0] == "{":
                tok = scan()
                if tok[0] != "}":
                    return None
                comps.append(("map",))
                tok = scan()
                return comps, tok
            if state == 0:
                return None
            if state == 1:
                comps.append(("dot",))
            return comps, tok


def prop_conform_states(tree, comps):
    """every tree descend(set = true) passes through on the way down the expression, in order; the last one is the
    fully conformed tree.  Trees are the values of parse_prop_dump."""
    import copy
    root = [copy.deepcopy(tree)]            # a one-cell list stands for the root pointer
    states = []

    def emit():
        st = copy.deepcopy(root[0])
        if not states or states[-1] != st:
            states.append(st)
    emit()
    holder, key = root, 0                   # the anchor is holder[key]

    def get():
        return holder[key] if not isinstance(holder, tuple) else None

    class Anchor(object):
        def __init__(self, cont, k):
            self.cont, self.k = cont, k

        def get(self):
            if isinstance(self.k, tuple):       # map item index
                return self.cont[self.k[0]][1]
            return self.cont[self.k]

        def set(self, v):
            if isinstance(self.k, tuple):
                self.cont[self.k[0]] = (self.cont[self.k[0]][0], v)
            else:
                self.cont[self.k] = v
    a = Anchor(root, 0)
    for c in comps:
        if c[0] == "dot":
            break
        want = "m" if c[0] in ("key", "map") else "l"
        node = a.get()
        if node is None:
            a.set((want, []))
            emit()
        elif node[0] != want:
            a.set(None)
            emit()
            a.set((want, []))
            emit()
        node = a.get()
        items = node[1]
        if c[0] in ("map", "list"):
            break
        if c[0] == "key":
            found = [i for i, (k, _) in enumerate(items) if k == c[1]]
            if not found:
                items.append((c[1], None))
                emit()
                found = [len(items) - 1]
            a = Anchor(items, (found[0],))
        elif c[0] == "idx":
            if c[1] >= len(items):
                if c[1] > 100000:
                    return None
                items.extend([None] * (c[1] + 1 - len(items)))
                emit()
            a = Anchor(items, c[1])
        elif c[0] == "ins":
            if c[1] >= len(items):
                if c[1] > 100000:
                    return None
                items.extend([None] * (c[1] + 1 - len(items)))
            else:
                items.insert(c[1], None)
            emit()
            a = Anchor(items, c[1])
        elif c[0] == "app":
            items.append(None)
            emit()
            a = Anchor(items, len(items) - 1)
    return states


def decode_arg(t):
    """the %XX decoding of harness/mem_harness.c gets_() (bytes up to the first NUL)"""
    out = bytearray()
    i = 0
    while i < len(t):
        if t[i] == "%" and i + 2 < len(t) + 0 and len(t) - i >= 3:
            try:
                out.append(int(t[i + 1:i + 3], 16))
                i += 3
                continue
            except ValueError:
                pass
        out += t[i].encode("latin-1", "replace")
        i += 1
    z = out.find(b"\0")
    return bytes(out if z < 0 else out[:z])


def classify_prop_failure(op_text, s0, s1):
    """'unchanged' | 'path-conformed' | 'other' | 'no-dump': the tree after a call that failed with an injected
    allocation failure, against the tree before it and the expression of the call"""
    if s0 is None or s1 is None or s0 == "?" or s1 == "?":
        return "no-dump"
    if s0 == s1:
        return "unchanged"
    toks = op_text.split(" ")
    name = toks[0]
    if name in ("pset", "psetsub"):
        expr = toks[2] if len(toks) > 2 else ""
    elif name in ("cpset", "cpsetsub"):
        expr = toks[3] if len(toks) > 3 else ""
    else:
        return "other"
    try:
        t0 = parse_prop_dump(s0)
        t1 = parse_prop_dump(s1)
    except ValueError:
        return "no-dump"
    parsed = parse_prop_expr(decode_arg(expr))
    if parsed is None:
        return "other"
    states = prop_conform_states(t0, parsed[0])
    if states is not None and t1 in states:
        return "path-conformed"
    return "other"


def prop_expr_form(op_text):
    """'append' / 'insert' when the expression of a pset-like op has a [+] / [N+] component (the only forms for which
    conforming the path twice differs from conforming it once), else 'plain'"""
    toks = op_text.split(" ")
    expr = toks[3] if toks[0].startswith("c") and len(toks) > 3 else toks[2] if len(toks) > 2 else ""
    parsed = parse_prop_expr(decode_arg(expr))
    if parsed is None:
        return "plain"
    kinds = set(c[0] for c in parsed[0])
    return "append" if "app" in kinds else "insert" if "ins" in kinds else "plain"


def parse_out(out):
    lines = []
    end = None
    fline = None
    for ln in out.splitlines():
        m = LINE_RE.match(ln)
        if m:
            lines.append(dict(rep=bool(m.group(1)), idx=int(m.group(2)), op=m.group(3), ret=m.group(4), errno=m.group(5),
                              cb=int(m.group(6)), da=int(m.group(7)), live=int(m.group(8)), val=m.group(9) or ""))
        elif ln.startswith("END live="):
            end = int(ln[9:])
        elif ln.startswith("F "):
            m2 = re.match(r"F (\d+) injected=(\d+) failed=(\d+)", ln)
            if m2:
                fline = dict(idx=int(m2.group(1)), injected=int(m2.group(2)), failed=int(m2.group(3)))
    return lines, end, fline


def leak_functions(err):
    """{allocating libvna function: objects} from a LeakSanitizer report (direct and indirect)"""
    res = {}
    for blk in re.split(r"\n(?=(?:Direct|Indirect) leak of )", err):
        m = re.match(r"(?:Direct|Indirect) leak of \d+ byte\(s\) in (\d+) object", blk)
        if not m:
            continue
        func = None
        for fm in re.finditer(r"#\d+ 0x[0-9a-f]+ in (\S+) (\S+)", blk):
            if "/src/vna" in fm.group(2) or "/src/archdep" in fm.group(2):
                func = fm.group(1)
                break
        if func is None:
            continue
        res[func] = res.get(func, 0) + int(m.group(1))
    return res


def fault_signature(rc, err):
    """normalise a crash of the harness process: sanitizer report, assertion, signal, timeout"""
    if rc == 124:
        return {"kind": "fault", "error": "timeout", "function": None}
    if "ERROR: AddressSanitizer" in err or "runtime error:" in err:
        if "ERROR: AddressSanitizer" not in err:
            # UBSan only: take the first report
            pass
        sig = vplib.asan_signature(err)
        if sig and sig["error"] != "leak":
            return sig
    m = re.search(r"(\S+): Assertion `(.*?)' failed", err)
    if m:
        return {"kind": "fault", "error": "assert", "function": m.group(1).rstrip(":")}
    if rc in (-27, 128 + 27):
        # SIGPROF: the per-op processor-time watchdog of the harness (endless loop / unbounded recursion in one op)
        return {"kind": "fault", "error": "timeout", "function": None}
    if rc < 0 or rc in (134, 139, 136):
        return {"kind": "fault", "error": "signal %d" % (-rc if rc < 0 else rc - 128), "function": None}
    return None


def run_script(ctx, exe, ops, k=0, opindex=-1, timeout=60, leak=True, tag="s", norepeat=False):
    """run one script in a fresh process and work directory; returns a Result"""
    wd = tempfile.mkdtemp(prefix="mh_", dir=ctx.tmp)
    try:
        sp = os.path.join(wd, "script.txt")
        with open(sp, "w") as f:
            f.write("\n".join(ops) + "\n")
        env = ctx.run_env(leak=leak)
        env["ASAN_OPTIONS"] += ":fast_unwind_on_malloc=0:malloc_context_size=12:max_allocation_size_mb=512"
        # allocwrap.c keeps every tracked pointer in a global table; without this LSan would treat
        # every tracked block as reachable.  Only leak blocks with a libvna frame are used.
        env["LSAN_OPTIONS"] += ":use_globals=0"
        cmd = [exe, sp, wd]
        if opindex >= 0:
            cmd += [str(k), str(opindex)]
            if norepeat:
                cmd += ["1"]
        rc, out, err = vplib.sh(cmd, timeout=timeout, env=env)
    finally:
        shutil.rmtree(wd, ignore_errors=True)
    r = Result()
    r.rc, r.out, r.err = rc, out, err
    r.lines, r.end, r.fline = parse_out(out)
    r.states = {}
    for ln in out.splitlines():
        if ln.startswith("S0 ") or ln.startswith("S1 "):
            parts = ln.split(" ", 2)
            r.states[parts[0]] = parts[2] if len(parts) > 2 else "?"
    r.fault = fault_signature(rc, err)
    r.leaks = leak_functions(err) if ("LeakSanitizer" in err) else {}
    r.completed = r.end is not None
    # the op in progress when the process died
    r.fault_index = None
    if r.fault is not None and not r.completed:
        done = [l["idx"] for l in r.lines]
        r.fault_index = (max(done) + 1) if done else 0
        if r.fault_index >= len(ops):
            r.fault_index = None          # died in the final clean-up
    return r


def ddmin(ops, test, budget=120):
    """delta debugging on op lines: smallest sub-list for which test(sub) is still true"""
    n = 2
    runs = [0]

    def t(x):
        runs[0] += 1
        return test(x)
    while len(ops) >= 2 and runs[0] < budget:
        chunk = max(1, len(ops) // n)
        subsets = [ops[i:i + chunk] for i in range(0, len(ops), chunk)]
        reduced = False
        for i in range(len(subsets)):
            comp = [x for j, s in enumerate(subsets) if j != i for x in s]
            if comp and t(comp):
                ops = comp
                n = max(n - 1, 2)
                reduced = True
                break
            if runs[0] >= budget:
                break
        if not reduced:
            if n >= len(ops):
                break
            n = min(len(ops), n * 2)
    return ops
