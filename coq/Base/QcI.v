(* Gaussian rationals Q[i] over canonical rationals Qc: an executable CField with Leibniz
   equality.  Used to run the numeric models exactly and for non-vacuity examples. *)
Require Import QArith Qcanon ZArith Lia Field.
Require Import LV.Base.CField.

Lemma Q_sumsq_zero (x y : Q) : (x * x + y * y == 0)%Q -> (x == 0)%Q.
Proof.
  destruct x as [a b], y as [c d]. unfold Qeq, Qplus, Qmult; simpl.
  intros H. nia.
Qed.

Local Open Scope Qc_scope.

Lemma Qc_sumsq_zero (x y : Qc) : x * x + y * y = 0 -> x = 0.
Proof.
  intros H. apply Qc_is_canon. apply (Q_sumsq_zero x y).
  assert (H' : ((x * x + y * y)%Qc == 0%Qc)%Q) by (rewrite H; reflexivity).
  unfold Qcplus, Qcmult, Q2Qc, this in H'.
  repeat (rewrite Qred_correct in H'). exact H'.
Qed.

Record qi := QI { qre : Qc; qim : Qc }.

Definition qi0 := QI 0 0.
Definition qi1 := QI 1 0.
Definition qiI := QI 0 1.
Definition qi_add (a b : qi) := QI (qre a + qre b) (qim a + qim b).
Definition qi_sub (a b : qi) := QI (qre a - qre b) (qim a - qim b).
Definition qi_opp (a : qi) := QI (- qre a) (- qim a).
Definition qi_mul (a b : qi) := QI (qre a * qre b - qim a * qim b) (qre a * qim b + qim a * qre b).
Definition qi_nrm (a : qi) : Qc := qre a * qre a + qim a * qim a.
Definition qi_inv (a : qi) := QI (qre a / qi_nrm a) (- qim a / qi_nrm a).
Definition qi_div (a b : qi) := qi_mul a (qi_inv b).
Definition qi_cj (a : qi) := QI (qre a) (- qim a).
Definition qi_re (a : qi) := QI (qre a) 0.
Definition qi_of_Qc (x : Qc) := QI x 0.

(* Exact square root of |x| when numerator and denominator are perfect squares (the checks'
   generators only pick such values); otherwise an integer-part approximation. *)
Definition Qc_sqrt_abs (x : Qc) : Qc :=
  Q2Qc (Qmake (Z.sqrt (Z.abs (Qnum x))) (Pos.sqrt (Qden x))).
Definition qi_ksq (a : qi) := QI (Qc_sqrt_abs (qre a)) 0.

Lemma qi_eq a b : qre a = qre b -> qim a = qim b -> a = b.
Proof. destruct a, b; simpl; intros; subst; reflexivity. Qed.

Lemma qi_nrm_zero a : qi_nrm a = 0 -> a = qi0.
Proof.
  destruct a as [x y]; unfold qi_nrm; simpl; intros H.
  assert (Hx : x = 0) by (apply (Qc_sumsq_zero x y); exact H).
  assert (Hy : y = 0) by (apply (Qc_sumsq_zero y x); rewrite <- H; ring).
  subst; reflexivity.
Qed.

Lemma qi_field : field_theory qi0 qi1 qi_add qi_mul qi_sub qi_opp qi_div qi_inv (@eq qi).
Proof.
  constructor.
  - constructor; intros; apply qi_eq; simpl; ring.
  - intro H. apply (f_equal qre) in H. simpl in H. exact (F_1_neq_0 Qcft H).
  - reflexivity.
  - intros p Hp. apply qi_eq; simpl.
    + assert (Hn : qi_nrm p <> 0) by (intro Hz; apply Hp; apply qi_nrm_zero; exact Hz).
      unfold qi_nrm in *. field. exact Hn.
    + assert (Hn : qi_nrm p <> 0) by (intro Hz; apply Hp; apply qi_nrm_zero; exact Hz).
      unfold qi_nrm in *. field. exact Hn.
Qed.

Definition QIF : CField :=
  {| F := qi; c0 := qi0; c1 := qi1; cadd := qi_add; cmul := qi_mul; csub := qi_sub;
     copp := qi_opp; cdiv := qi_div; cinv := qi_inv; cth := qi_field;
     cj := qi_cj; re := qi_re; ksq := qi_ksq |}.

Lemma QIF_char : char_ok QIF.
Proof. unfold char_ok, two; simpl. intro H. discriminate H. Qed.

(* decidable equality, so that side conditions of instantiated theorems compute *)
Definition qi_eqb (a b : qi) : bool :=
  (if Qc_eq_dec (qre a) (qre b) then true else false) &&
  (if Qc_eq_dec (qim a) (qim b) then true else false).

Lemma qi_eqb_eq a b : qi_eqb a b = true <-> a = b.
Proof.
  unfold qi_eqb; destruct (Qc_eq_dec (qre a) (qre b)), (Qc_eq_dec (qim a) (qim b)); simpl;
    split; intros H; try discriminate; try reflexivity; try (apply qi_eq; assumption);
    subst; congruence.
Qed.

Lemma qi_neqb a b : qi_eqb a b = false -> a <> b.
Proof. intros H E. apply qi_eqb_eq in E. congruence. Qed.

(* z0_ok is decidable by computation for concrete impedances *)
Definition qi_z0_okb (z : qi) : bool :=
  qi_eqb (qi_mul (qi_ksq z) (qi_ksq z)) (qi_re z) && negb (qi_eqb (qi_ksq z) qi0).

Lemma qi_z0_ok z : qi_z0_okb z = true -> @z0_ok QIF z.
Proof.
  unfold qi_z0_okb; intros H. apply andb_prop in H as [H1 H2].
  apply qi_eqb_eq in H1. unfold z0_ok; simpl. split; [|split].
  - destruct z as [x y]; unfold qi_re, qi_add, qi_cj, qi_div, qi_inv, qi_mul, two, qi_nrm; simpl.
    apply qi_eq; simpl; field; discriminate.
  - exact H1.
  - apply qi_neqb. destruct (qi_eqb (qi_ksq z) qi0); [discriminate|reflexivity].
Qed.

(* helpers for writing literals *)
Definition qz (n : Z) : Qc := Q2Qc (inject_Z n).
Definition qq (n : Z) (d : positive) : Qc := Q2Qc (Qmake n d).
Definition mkqi (rn : Z) (rd : positive) (im : Z) (id : positive) : qi := QI (qq rn rd) (qq im id).
