(* An abstract "complex-like" field: a field with Leibniz equality together with the three
   operations the libvna conversion code uses besides field arithmetic:
     cj z  = conj(z),   re z = creal(z) (embedded in the field),   ksq z = sqrt(fabs(creal(z))).
   All numeric models of the development are written over this interface; it is instantiated
   by the Gaussian rationals (Base/QcI.v, executable, Leibniz equality).  Rounding is not
   modelled (DESIGN.md section 3). *)
Require Export Ring Field.

Record CField := {
  F :> Type;
  c0 : F; c1 : F;
  cadd : F -> F -> F; cmul : F -> F -> F; csub : F -> F -> F; copp : F -> F;
  cdiv : F -> F -> F; cinv : F -> F;
  cth : field_theory c0 c1 cadd cmul csub copp cdiv cinv (@eq F);
  cj : F -> F; re : F -> F; ksq : F -> F }.

Arguments c0 {_}. Arguments c1 {_}. Arguments cadd {_}. Arguments cmul {_}. Arguments csub {_}.
Arguments copp {_}. Arguments cdiv {_}. Arguments cinv {_}. Arguments cj {_}. Arguments re {_}.
Arguments ksq {_}.

Declare Scope cf_scope.
Delimit Scope cf_scope with cf.
Notation "0" := c0 : cf_scope.
Notation "1" := c1 : cf_scope.
Notation "x + y" := (cadd x y) : cf_scope.
Notation "x * y" := (cmul x y) : cf_scope.
Notation "x - y" := (csub x y) : cf_scope.
Notation "x / y" := (cdiv x y) : cf_scope.
Notation "- x" := (copp x) : cf_scope.

Local Open Scope cf_scope.

Definition two {K : CField} : K := 1 + 1.

(* What "z is a reference impedance with positive real part" means at this level of
   abstraction: re is the real part, ksq squares to it and does not vanish.
   Over the complex numbers with ksq z = sqrt |Re z| this is exactly Re z > 0. *)
Definition z0_ok {K : CField} (z : K) : Prop :=
  re z = (z + cj z) / two /\ ksq z * ksq z = re z /\ ksq z <> 0.

Definition char_ok (K : CField) : Prop := @two K <> 0.

Section Lemmas.
Variable K : CField.
Add Field Kf : (cth K).
Hypothesis H2 : char_ok K.

Lemma cj_of_ksq (z : K) : z0_ok z -> cj z = two * (ksq z * ksq z) - z.
Proof. intros (Hre & Hk & Hn). rewrite Hk, Hre. field. exact H2. Qed.

Lemma re_of_ksq (z : K) : z0_ok z -> re z = ksq z * ksq z.
Proof. intros (Hre & Hk & Hn). symmetry; exact Hk. Qed.

Lemma ksq_nz (z : K) : z0_ok z -> ksq z <> 0.
Proof. intros (Hre & Hk & Hn). exact Hn. Qed.
End Lemmas.
