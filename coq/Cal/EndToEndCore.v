(* C01, the NON-leakage types T8, U8, T16, U16: the calibration half of the composition from the PHYSICAL
   hypothesis.  Measurements are M = Mc exactly (no El, no connectivity argument, no sampling), Mc the response
   of the error network of the type to the standard S, given in the form that determines it,
        T8 / T16:   Mc (Tx S + Tm) = Ts S + Ti          (T8: diagonal blocks; T16: full p x p blocks)
        U8 / U16:   (Um - S Ux) Mc = S Us - Ui          (U8: diagonal blocks; U16: full blocks)
   the blocks being read from the network's terms fe (unity term = 1) through the layout regenerated from the C
   text, exactly as AssembleIdentity.std_cell reads them (LeakPhysical.te_Ts ... generalised with the `full' flag).

   1. core_rows_satisfied_lemma (every field K): for ty in [T8; U8; T16; U16], every LIST of standards of the
      family AssembleList.zcfgs (bound in the statement: dimensions 1..3 as the type allows, every port set, the
      known-zero masks of that family; any number, order, mix) measured exactly by one network of the type:
      every row (a, b) of every linear system the model of _vnacal_new_solve_simple assembles AS CODED is
      satisfied by the network's terms,  sum_k a_k x_k - b = 0.
   2. core_solve_returns_true_terms_lemma (Gaussian rationals): if moreover every assembled system has at least as
      many equations as unknowns and full column rank, the solve model SUCCEEDS and returns the network's vector
      (unity terms inserted, no leakage terms, no conversion).
   The device half and the composition are in EndToEndCoreDevice.v. *)
Require Import List ZArith Bool Arith Lia QArith Qcanon.
Require Import LV.Base.CField LV.Base.QcI LV.Lin.MatL LV.Lin.LuGenA.
Require Import LV.Gen.LayoutGen LV.Cal.Sym LV.Cal.TermsModel LV.Cal.AddModel LV.Cal.ApplyModel LV.Cal.ApplyProofs
               LV.Cal.ApplyIdentity LV.Cal.AssembleIdentity LV.Cal.SolveSimple LV.Cal.CalQI LV.Cal.TermsProofs
               LV.Cal.C17Proofs LV.Cal.OrderProofs LV.Cal.AssembleList
               LV.Cal.LeakProofs LV.Cal.LeakPhysical LV.Cal.EndToEndLeak LV.Cal.ApplyRecovers LV.Cal.SolveRecovers
               LV.Cal.EndToEnd LV.Cal.EndToEndAll LV.Cal.EndToEndDevice.
Require Import LV.SolveCount.DeterminingProofs.
Import ListNotations.
Local Open Scope nat_scope.

Definition core_types : list caltype := [T8; U8; T16; U16].

(* T16 / U16: the four blocks are full matrices *)
Definition core_full (ty : caltype) : bool := orb (caltype_eqb ty T16) (caltype_eqb ty U16).

Section K.
Variable K : CField.
Add Field Kf_core : (cth K).
Let O := ops_of K.
Variables (ty : caltype) (mr mc : nat).
Let p := Nat.max mr mc.
Let l := layout ty (Z.of_nat mr) (Z.of_nat mc).
Variables (fe : nat -> K) (pv : Z -> K).
Variables (fxof : mvals O -> nat -> K) (core : mvals O -> nat -> nat -> K).
Let e0 := terms_of K ty mr mc fe 0.
Local Open Scope cf_scope.

(* the blocks of the type, read through the layout as std_cell reads them *)
Definition core_Ts := blk O (core_full ty) (zn (VL_TS_OFFSET l)) p e0.
Definition core_Ti := blk O (core_full ty) (zn (VL_TI_OFFSET l)) p e0.
Definition core_Tx := blk O (core_full ty) (zn (VL_TX_OFFSET l)) p e0.
Definition core_Tm := blk O (core_full ty) (zn (VL_TM_OFFSET l)) p e0.
Definition core_Um := blk O (core_full ty) (zn (VL_UM_OFFSET l)) mr e0.
Definition core_Ui := blk O (core_full ty) (zn (VL_UI_OFFSET l)) mc e0.
Definition core_Ux := blk O (core_full ty) (zn (VL_UX_OFFSET l)) mr e0.
Definition core_Us := blk O (core_full ty) (zn (VL_US_OFFSET l)) mc e0.

(* the physical hypothesis on one standard: its response core mv satisfies the determining equation *)
Definition core_network (mv : mvals O) : Prop :=
  match ty with
  | T8 | T16 => physT K p (Sof K mr mc pv fxof mv) core_Ts core_Ti core_Tx core_Tm mr (core mv)
  | U8 | U16 => physU K p (Sof K mr mc pv fxof mv) core_Um core_Ui core_Ux core_Us mc (core mv)
  | _ => False
  end.

(* no leakage: the measured value of every cell IS the response *)
Definition measured_exactly (mv : mvals O) : Prop :=
  forall r c, (r < mr)%nat -> (c < mc)%nat -> g O (mv_m O mv) (r * mc + c) = core mv r c.

(* ---------------------------------------------------------------- no correction of the measured values *)
Lemma m_adjusted_is_measured (ms : list (mvals O)) (mv : mvals O) (cell : nat) :
  has_outside_leakage ty = false -> m_adjusted O ty mr mc ms mv cell = g O (mv_m O mv) cell.
Proof. intros H. unfold m_adjusted. rewrite H. reflexivity. Qed.

Lemma core_leak_terms_nil (ms : list (mvals O)) :
  has_outside_leakage ty = false -> leak_terms O ty mr mc ms = [].
Proof. intros H. unfold leak_terms. rewrite H. reflexivity. Qed.

(* ---------------------------------------------------------------- std_cell is the documented expression *)
Lemma core_std_cell_T mv (fm : nat -> K) i j :
  VNACAL_IS_T ty = true -> (mr <= mc)%nat -> (i < mr)%nat -> (j < mc)%nat ->
  (forall a, (a < mc)%nat -> fm (i * mc + a)%nat = core mv i a) ->
  std_cell K ty mr mc (mv_meas O mv) fe fm (fxof mv) pv i j
  = docT K p (Sof K mr mc pv fxof mv) core_Ts core_Ti core_Tx core_Tm (core mv) i j.
Proof.
  intros HT dims Hi Hj Hfm. unfold std_cell. rewrite HT. unfold std_cell_T, docT, std_M.
  rewrite !sumk_sumf_K.
  assert (En : Nat.max mr mc = mc) by lia.
  unfold core_Ts, core_Ti, core_Tx, core_Tm, core_full, Sof, e0, l, p. rewrite !En.
  f_equal; [f_equal|].
  - apply sumf_ext. intros a Ha. rewrite (Hfm a Ha), sumk_sumf_K. reflexivity.
  - apply sumf_ext. intros a Ha. rewrite (Hfm a Ha). reflexivity.
Qed.

Lemma core_std_cell_U mv (fm : nat -> K) i j :
  VNACAL_IS_T ty = false -> VNACAL_IS_UE14 ty = false -> (mc <= mr)%nat -> (i < mr)%nat -> (j < mc)%nat ->
  (forall a, (a < mr)%nat -> fm (a * mc + j)%nat = core mv a j) ->
  std_cell K ty mr mc (mv_meas O mv) fe fm (fxof mv) pv i j
  = docU K p (Sof K mr mc pv fxof mv) core_Um core_Ui core_Ux core_Us (core mv) i j.
Proof.
  intros HT H14 dims Hi Hj Hfm. unfold std_cell. rewrite HT, H14. unfold std_cell_U, docU, std_M.
  rewrite !sumk_sumf_K.
  assert (En : Nat.max mr mc = mr) by lia.
  unfold core_Um, core_Ui, core_Ux, core_Us, core_full, Sof, e0, l, p. rewrite !En.
  f_equal. f_equal; [f_equal|].
  - apply sumf_ext. intros a Ha. rewrite (Hfm a Ha). reflexivity.
  - apply sumf_ext. intros k Hk. f_equal. rewrite sumk_sumf_K. apply sumf_ext. intros a Ha. rewrite (Hfm a Ha). reflexivity.
Qed.

End K.

(* ---------------------------------------------------------------- every assembled row is satisfied *)
Section Rows.
Variable K : CField.
Let O := ops_of K.
Variables (mr mc : nat) (fe : nat -> K) (pv : Z -> K).
Variables (fxof : mvals O -> nat -> K) (core : mvals O -> nat -> nat -> K).
Variable ms : list (mvals O).
Let p := Nat.max mr mc.

Theorem core_rows_satisfied_lemma (ty : caltype) :
  In ty core_types ->
  (forall mv, In mv ms -> std_of K ty mr mc mv /\ core_network K ty mr mc fe pv fxof core mv /\
                          measured_exactly K mr mc core mv) ->
  forall sys, (sys < systems_of ty mc)%nat ->
    forall row, In row (assemble O ty mr mc pv ms sys) -> row_res K ty mr mc fe sys row = @c0 K.
Proof.
  intros Hty H sys Hsys row Hrow.
  assert (HL : has_outside_leakage ty = false) by (destruct Hty as [<-|[<-|[<-|[<-|[]]]]]; reflexivity).
  destruct (row_in_assemble K mr mc pv ms ty sys row Hrow) as (mv & e & Hmv & He & ->).
  destruct (H mv Hmv) as ((c & Hc & E1 & E2 & E3 & Hacc) & Hnet & Hmeas).
  (* dimensions and ranges from membership in the family *)
  assert (Hd : if VNACAL_IS_T ty then (mr <= mc)%nat else (mc <= mr)%nat).
  { pose proof dims_family_all as D. rewrite forallb_forall in D. specialize (D c Hc). unfold dims_family in D.
    rewrite E1, E2, E3 in D. destruct (VNACAL_IS_T ty); apply Nat.leb_le; exact D. }
  apply filter_In in He. destruct He as [He Hf].
  assert (Hr : (e_row e < (if VNACAL_IS_T ty then mr else Nat.max mr mc))%nat /\
               (e_col e < (if VNACAL_IS_T ty then Nat.max mr mc else mc))%nat).
  { pose proof eqs_in_range_all as D. rewrite forallb_forall in D. specialize (D c Hc).
    unfold eqs_in_range in D. rewrite Hacc, E1, E2, E3 in D. rewrite forallb_forall in D. specialize (D e He).
    apply andb_prop in D. destruct D as [D1 D2]. split; apply Nat.ltb_lt; assumption. }
  destruct Hr as [R1 R2].
  (* the row is the documented cell *)
  pose proof (adj_identity_all K c Hc fe (m_adjusted O (z_ty c) (z_mr c) (z_mc c) ms mv) (fxof mv) pv) as A.
  rewrite Hacc in A. rewrite E1, E2, E3 in A. rewrite row_of_mv_adj.
  etransitivity.
  { refine (conj_all_in _ (conj_all_in _ A _ _) _ _).
    - apply in_map_iff. exists sys. split; [reflexivity|]. apply in_seq. lia.
    - apply in_map_iff. exists e. split; [reflexivity|]. apply filter_In. split; assumption. }
  assert (CT : forall t, VNACAL_IS_T t = true -> has_outside_leakage t = false ->
            (mr <= mc)%nat -> (e_row e < mr)%nat -> (e_col e < Nat.max mr mc)%nat ->
            measured_exactly K mr mc core mv ->
            physT K p (Sof K mr mc pv fxof mv) (core_Ts K t mr mc fe) (core_Ti K t mr mc fe)
                  (core_Tx K t mr mc fe) (core_Tm K t mr mc fe) mr (core mv) ->
            std_cell K t mr mc (mv_meas O mv) fe (m_adjusted O t mr mc ms mv) (fxof mv) pv (e_row e) (e_col e) = @c0 K).
  { intros t HT HLt Hd' R1' R2' Hm Hp. rewrite Nat.max_r in R2' by exact Hd'.
    rewrite (core_std_cell_T K t mr mc fe pv fxof core mv _ (e_row e) (e_col e) HT Hd' R1' R2').
    - apply (proj1 (physT_iff_doc K p _ _ _ _ _ mr (core mv)) Hp (e_row e) (e_col e) R1'). unfold p. lia.
    - intros a Ha. rewrite (m_adjusted_is_measured K t mr mc ms mv _ HLt). exact (Hm (e_row e) a R1' Ha). }
  assert (CU : forall t, VNACAL_IS_T t = false -> VNACAL_IS_UE14 t = false -> has_outside_leakage t = false ->
            (mc <= mr)%nat -> (e_row e < Nat.max mr mc)%nat -> (e_col e < mc)%nat ->
            measured_exactly K mr mc core mv ->
            physU K p (Sof K mr mc pv fxof mv) (core_Um K t mr mc fe) (core_Ui K t mr mc fe)
                  (core_Ux K t mr mc fe) (core_Us K t mr mc fe) mc (core mv) ->
            std_cell K t mr mc (mv_meas O mv) fe (m_adjusted O t mr mc ms mv) (fxof mv) pv (e_row e) (e_col e) = @c0 K).
  { intros t HT H14 HLt Hd' R1' R2' Hm Hp. rewrite Nat.max_l in R1' by exact Hd'.
    rewrite (core_std_cell_U K t mr mc fe pv fxof core mv _ (e_row e) (e_col e) HT H14 Hd' R1' R2').
    - apply (proj1 (physU_iff_doc K p _ _ _ _ _ mc (core mv)) Hp (e_row e) (e_col e)); [unfold p; lia | exact R2'].
    - intros a Ha. rewrite (m_adjusted_is_measured K t mr mc ms mv _ HLt). exact (Hm a (e_col e) Ha R2'). }
  destruct Hty as [<-|[<-|[<-|[<-|[]]]]].
  - exact (CT T8 eq_refl eq_refl Hd R1 R2 Hmeas Hnet).
  - exact (CU U8 eq_refl eq_refl eq_refl Hd R1 R2 Hmeas Hnet).
  - exact (CT T16 eq_refl eq_refl Hd R1 R2 Hmeas Hnet).
  - exact (CU U16 eq_refl eq_refl eq_refl Hd R1 R2 Hmeas Hnet).
Qed.
End Rows.

(* ================================================================ the solve model returns the network's vector *)
Section Solve.
Variables (ty : caltype) (mr mc : nat) (fe : nat -> qi) (pv : Z -> qi) (ms : list (mvals qops)).
Variables (fxof : mvals qops -> nat -> qi) (core : mvals qops -> nat -> nat -> qi).
Hypothesis Hty : In ty core_types.
Hypothesis Hstd : forall mv, In mv ms ->
  std_of QIF ty mr mc mv /\ core_network QIF ty mr mc fe pv fxof core mv /\ measured_exactly QIF mr mc core mv.
(* sufficient and well conditioned, in the form of determining_set_solves *)
Hypothesis Hrank : forall sys, sys < systems_of ty mc ->
  let rows := q_assemble ty mr mc ms pv sys in
  unknowns ty mr mc <= length rows /\ kernel_trivial (unknowns ty mr mc) rows.

Lemma core_rows_rdot sys : sys < systems_of ty mc ->
  forall r, In r (q_assemble ty mr mc ms pv sys) ->
    rdot (unknowns ty mr mc) (fst r) (x_of_sys ty mr mc fe sys) = snd r.
Proof.
  intros Hs r Hr. apply rows_satisfied_rdot.
  - exact (assemble_rows_length qops ty mr mc pv ms sys r Hr).
  - exact (core_rows_satisfied_lemma QIF mr mc fe pv fxof core ms ty Hty Hstd sys Hs r Hr).
Qed.

Theorem core_solve_returns_true_terms_lemma :
  q_error_terms ty mr mc ms pv = Some (net_vector qops ty mr mc (xs_of ty mr mc fe) []) /\
  leak_terms qops ty mr mc ms = [].
Proof.
  assert (HL : has_outside_leakage ty = false) by (destruct Hty as [E|[E|[E|[E|[]]]]]; rewrite <- E; reflexivity).
  assert (HE : caltype_eqb ty E12_UE14 = false) by (destruct Hty as [E|[E|[E|[E|[]]]]]; rewrite <- E; reflexivity).
  pose proof (core_leak_terms_nil QIF ty mr mc ms HL) as Hl.
  split; [|exact Hl].
  assert (D : q_error_terms ty mr mc ms pv =
              Some (if caltype_eqb ty E12_UE14 then convert_ue14_to_e12 qops mr mc (e_vector qops ty mr mc ms (xs_of ty mr mc fe))
                    else e_vector qops ty mr mc ms (xs_of ty mr mc fe))).
  { apply (determining_set_recovers ty mr mc ms pv (xs_of ty mr mc fe) (xs_of_length ty mr mc fe)).
    intros sys Hs. cbv zeta. rewrite (xs_of_nth ty mr mc fe sys Hs).
    split; [apply x_of_sys_length|]. split; [exact (core_rows_rdot sys Hs)|]. exact (Hrank sys Hs). }
  rewrite HE, (e_vector_net qops ty mr mc ms (xs_of ty mr mc fe)) in D.
  change (ops_of QIF) with qops in Hl. rewrite Hl in D. exact D.
Qed.
End Solve.
