(* c01_model_end_to_end_leak: calibrate-then-apply on the models as coded, for the leakage types, from the PHYSICAL
   hypothesis on both halves, at the Gaussian rationals.
   Bound (in the statement): stored type TE10, UE10, UE14 or E12 (solved as E12_UE14), SQUARE dimensions n = 1..3,
   standards of the family AssembleList.zcfgs (any number, order, mix).
   If every standard is measured by one network of the type (core network with terms fe, unity term 1, well posed;
   additive leakage El off the diagonal), every off-diagonal cell is sampled by some standard (or has no leakage),
   and every assembled system has at least as many equations as unknowns and full column rank, then
     (a) the solve model (assembly as coded, LU / least squares) SUCCEEDS and returns exactly the vector of the
         network: unity terms inserted, El appended, converted by convert_ue14_to_e12 for E12;
     (b) for EVERY device S (n x n) measured by the same network, M = Mc + El off the diagonal with Mc the core
         response to S (E12: and the solved terms regular: um <> 0, us um - ui ux <> 0 per column), the apply model
         (fill_* as coded, then the LU model of A \ B or B / A) on the returned vector and M, when it does not
         report a zero determinant, returns S. *)
Require Import List ZArith Bool Arith Lia QArith Qcanon.
Require Import LV.Base.CField LV.Base.QcI LV.Lin.MatL LV.Lin.LuGenA.
Require Import LV.Gen.LayoutGen LV.Cal.Sym LV.Cal.TermsModel LV.Cal.AddModel LV.Cal.ApplyModel LV.Cal.ApplyProofs
               LV.Cal.ApplyIdentity LV.Cal.AssembleIdentity LV.Cal.SolveSimple LV.Cal.CalQI LV.Cal.AssembleList
               LV.Cal.LeakProofs LV.Cal.LeakPhysical LV.Cal.EndToEndLeak LV.Cal.ApplyRecovers LV.Cal.SolveRecovers
               LV.Cal.EndToEnd LV.Cal.EndToEndAll LV.Cal.EndToEndDevice.
Import ListNotations.
Local Open Scope nat_scope.

Lemma solve_type_eq ty : solve_type ty = solve_type' ty.
Proof. reflexivity. Qed.

(* the vector of EndToEnd.true_terms for the network's solutions is EndToEndDevice.dev_vector *)
Lemma true_terms_dev_vector ty n (fe : nat -> qi) (el : nat -> nat -> qi) (ms : list (mvals qops)) :
  leak_terms qops (solve_type ty) n n ms = map (fun rc => el (fst rc) (snd rc)) (offdiag_cells n n) ->
  true_terms ty n n ms (xs_of (solve_type ty) n n fe) = dev_vector QIF ty n fe el.
Proof.
  intros Hl. unfold true_terms, dev_vector. cbv zeta. change (solve_type' ty) with (solve_type ty).
  rewrite (e_vector_net qops (solve_type ty) n n ms). rewrite Hl. reflexivity.
Qed.

Lemma apply_case_of ty n : In (ty, n) dev_cases_all -> In (ty, (n, n)) apply_cases.
Proof. intros H. vm_compute in H. repeat (destruct H as [E|H]; [injection E as <- <-; vm_compute; tauto|]). contradiction. Qed.

Lemma leak_type_of ty n : In (ty, n) dev_cases_all -> In ty [TE10; UE10; UE14; E12].
Proof. intros H. vm_compute in H. repeat (destruct H as [E|H]; [injection E as <- <-; cbn; tauto|]). contradiction. Qed.

Theorem c01_model_end_to_end_leak_lemma2 (ty : caltype) (n : nat) :
  In (ty, n) dev_cases_all ->
  let sty := solve_type ty in
  forall (fe : nat -> qi) (el : nat -> nat -> qi) (pv : Z -> qi) (ms : list (mvals qops))
         (fxof : mvals qops -> nat -> qi) (core : mvals qops -> nat -> nat -> qi),
  (forall mv, In mv ms ->
     std_of QIF sty n n mv /\ network_of QIF n n fe pv fxof core sty mv /\ measured_with_leakage QIF n n el core mv) ->
  covered QIF n n el ms ->
  (forall sys, sys < systems_of sty n ->
     let rows := q_assemble sty n n ms pv sys in
     unknowns sty n n <= length rows /\ kernel_trivial (unknowns sty n n) rows) ->
  let e_true := dev_vector QIF ty n fe el in
  q_error_terms sty n n ms pv = Some e_true /\
  forall (m s : list qi) (Mc : nat -> nat -> qi), length m = n * n -> length s = n * n ->
    device_network QIF ty n fe Mc (fun a b => nth (a * n + b) s (@c0 QIF)) ->
    (forall r c, r < n -> c < n ->
       nth (r * n + c) m (@c0 QIF) = @cadd QIF (Mc r c) (if Nat.eqb r c then @c0 QIF else el r c)) ->
    forall a b x, q_apply ty n n e_true m = AOk a b x -> x = s.
Proof.
  intros Hin sty fe el pv ms fxof core Hstd Hcov Hrank e_true.
  pose proof (apply_case_of ty n Hin) as Hac. pose proof (leak_type_of ty n Hin) as Hty.
  destruct (c01_model_end_to_end_leak_lemma ty n n Hac Hty fe el pv ms fxof core Hstd Hcov Hrank) as (Hq & Hl & Hap).
  fold sty in Hl. rewrite (true_terms_dev_vector ty n fe el ms Hl) in Hq, Hap. fold e_true in Hq, Hap.
  split; [exact Hq|].
  intros m s Mc Hm Hs Hnet Hmeas a b x Ha.
  rewrite Nat.max_id in Hap.
  refine (Hap m s Hm Hs _ a b x Ha).
  intros i j Hi Hj.
  assert (Em : m = dev_m QIF n Mc el).
  { rewrite (lst_of_list QIF (n * n) m Hm). unfold dev_m. unfold lst. apply map_ext_in. intros cell Hc.
    apply in_seq in Hc. assert (Hn : 0 < n) by (destruct n; lia).
    assert (Hr : cell / n < n) by (apply Nat.div_lt_upper_bound; lia).
    assert (Hcc : cell mod n < n) by (apply Nat.mod_upper_bound; lia).
    rewrite <- (Hmeas (cell / n) (cell mod n) Hr Hcc). f_equal.
    rewrite (Nat.mul_comm (cell / n) n). apply Nat.div_mod. lia. }
  assert (Es : s = lst QIF (n * n) (fun k => nth k s (@c0 QIF))) by (exact (lst_of_list QIF (n * n) s Hs)).
  rewrite Em. rewrite Es at 1.
  apply (device_doc_vanishes_lemma QIF ty n fe el Mc (fun k => nth k s (@c0 QIF)) Hin Hnet i j Hi Hj).
Qed.
