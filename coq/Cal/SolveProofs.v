(* assembled_eq_matrix_cell: for every configuration of TermsProofs.all_cfgs and every generated equation,
   the row of a_matrix / entry of b_vector assembled by the model of _vnacal_new_solve_simple, read as
   "sum_k a_k x_k - b" with x_k the error term the unknown k stands for, is -- as a polynomial in the
   error terms, the (leakage-corrected) measured cells and the S cells of the standard -- the cell
   (eq_row, eq_col) of the documented matrix expression
        T:  - Ts S - Ti + M Tx S + M Tm        U:  Um M + Ui - S Ux M - S Us
   with the unity term set to 1, the matrices being read from the error-term vector through the layout
   regenerated from the C text.  Hence the assembled equation holds for error terms, measurements and
   standards that satisfy the documented matrix equation (Properties_C01.true_terms_solve_T/U), and only
   for those cells.  Symbolic values (Cal/Sym.v); decided by computation. *)
Require Import List ZArith Bool Arith.
Require Import LV.Base.CField LV.Gen.LayoutGen LV.Cal.Sym LV.Cal.TermsModel LV.Cal.AddModel
               LV.Cal.ApplyModel LV.Cal.SolveSimple LV.Cal.TermsProofs.
Import ListNotations.
Local Open Scope nat_scope.

Section Cell.
Variables (ty : caltype) (mr mc : nat) (m : measurement).
Let O := sym_ops.
Let p := Nat.max mr mc.
Let l := layout ty (Z.of_nat mr) (Z.of_nat mc).
Let full := orb (caltype_eqb ty T16) (caltype_eqb ty U16).

Definition sym_pval (h : Z) : frac := fvar (v_s (Z.to_nat h)).
Definition sym_S (i j : nat) : frac :=
  match nth (i * p + j) (ms_s m) SNull with
  | SParam h => sym_pval h
  | SZero => fconst 0
  | SNull => fvar (v_x (i * p + j))
  end.
Definition sym_M (i j : nat) : frac := fvar (v_m (i * mc + j)).

(* error-term vector of indeterminates with the unity term of system sys equal to 1 *)
Definition sys_base (sys : nat) : nat := if VNACAL_IS_UE14 ty then sys * Z.to_nat (vl_t_terms l) else 0.
Definition unity_abs (sys : nat) : nat := sys_base sys + Z.to_nat (vl_unity_offset l (Z.of_nat sys)).
Definition sym_terms (sys : nat) : list frac :=
  map (fun k => if Nat.eqb k (unity_abs sys) then fconst 1 else fvar (v_e k))
      (seq 0 (Z.to_nat (VL_ERROR_TERMS l))).
(* the error term the unknown k of system sys stands for *)
Definition x_of (sys k : nat) : frac :=
  let u := Z.to_nat (vl_unity_offset l (Z.of_nat sys)) in
  fvar (v_e (sys_base sys + (if Nat.ltb k u then k else k + 1))).

Definition B (off cols : nat) (e : list frac) := blk O full off cols e.
Definition Sg (n : nat) (f : nat -> frac) : frac := sumk O n f.

Definition cell_T (i j : nat) : frac :=
  let e := sym_terms 0 in
  let Ts := B (zn (VL_TS_OFFSET l)) p e in let Ti := B (zn (VL_TI_OFFSET l)) p e in
  let Tx := B (zn (VL_TX_OFFSET l)) p e in let Tm := B (zn (VL_TM_OFFSET l)) p e in
  fadd (fadd (fsub (fopp (Sg p (fun k => fmul (Ts i k) (sym_S k j)))) (Ti i j))
             (Sg mc (fun a => fmul (sym_M i a) (Sg p (fun k => fmul (Tx a k) (sym_S k j))))))
       (Sg mc (fun a => fmul (sym_M i a) (Tm a j))).

Definition cell_U (i j : nat) : frac :=
  let e := sym_terms 0 in
  let Um := B (zn (VL_UM_OFFSET l)) mr e in let Ui := B (zn (VL_UI_OFFSET l)) mc e in
  let Ux := B (zn (VL_UX_OFFSET l)) mr e in let Us := B (zn (VL_US_OFFSET l)) mc e in
  fsub (fsub (fadd (Sg mr (fun a => fmul (Um i a) (sym_M a j))) (Ui i j))
             (Sg p (fun k => fmul (sym_S i k) (Sg mr (fun a => fmul (Ux k a) (sym_M a j))))))
       (Sg p (fun k => fmul (sym_S i k) (Us k j))).

(* UE14: column j is its own system with diagonal Um_j, Ux_j and the scalars Ui_j, Us_j in row j *)
Definition cell_14 (i j : nat) : frac :=
  let e := sym_terms j in
  let um k := g O e (zn (VL_UM14_OFFSET l (Z.of_nat j)) + k) in
  let ux k := g O e (zn (VL_UX14_OFFSET l (Z.of_nat j)) + k) in
  let ui := g O e (zn (VL_UI14_OFFSET l (Z.of_nat j))) in
  let us := g O e (zn (VL_US14_OFFSET l (Z.of_nat j))) in
  fsub (fsub (fadd (fmul (um i) (sym_M i j)) (if Nat.eqb i j then ui else fconst 0))
             (Sg p (fun k => fmul (sym_S i k) (fmul (ux k) (sym_M k j)))))
       (fmul (sym_S i j) us).

Definition cell_expr (i j : nat) : frac :=
  if VNACAL_IS_T ty then cell_T i j else if VNACAL_IS_UE14 ty then cell_14 i j else cell_U i j.

(* sum_k a_k x_k - b of the assembled row *)
Definition row_residual (sys : nat) (row : list frac * frac) : frac :=
  fsub (fold_left (fun acc ka => fadd acc (fmul (snd ka) (x_of sys (fst ka))))
                  (combine (seq 0 (length (fst row))) (fst row)) (fconst 0))
       (snd row).
End Cell.

Definition check_assembled (c : cfg) : bool :=
  let '(ty, (mr, mc), ports) := c in
  match add_common (cfg_args c) with
  | Accepted m =>
      let mv := mkMV sym_ops m (map (fun cell => fvar (v_m cell)) (seq 0 (mr * mc))) in
      forallb (fun sys =>
        let eqs := system_equations ty [m] sys in
        let rows := assemble sym_ops ty mr mc sym_pval [mv] sys in
        andb (Nat.eqb (length eqs) (length rows))
             (forallb (fun er => let '((_, e), row) := er in
                         feqb (row_residual ty mr mc sys row) (cell_expr ty mr mc m (e_row e) (e_col e)))
                      (combine eqs rows)))
        (seq 0 (systems_of ty mc))
  | _ => false
  end.

Lemma assembled_eq_matrix_cell_all : forallb check_assembled all_cfgs = true.
Proof. vm_compute. reflexivity. Qed.

Lemma assembled_eq_matrix_cell_lemma : forall c, In c all_cfgs -> check_assembled c = true.
Proof. apply forallb_forall. exact assembled_eq_matrix_cell_all. Qed.
