(* C01, the device half of the composition for the leakage types, from the PHYSICAL hypothesis.
   The vector the solve model saves for a network fe with leakage el (EndToEndAll: unity terms inserted, El appended;
   converted for E12) is `dev_vector'; a device S measured by the same network gives m = Mc + El off the diagonal
   (`dev_m'), Mc the core response.  device_identity: the documented expression that ApplyIdentity.doc_cell reads
   out of the SAVED VECTOR through the layout, at the measured matrix, IS the documented core expression of
   LeakPhysical (docT / docU / doc14) at the network's terms and Mc -- every field, all values; bound in the
   statement: dev_cases = TE10, UE10, UE14 x square dimensions 1..3 (unfolding at an abstract field + ring).
   Hence (device_doc_vanishes) it vanishes when Mc satisfies the physical equation of the core network. *)
Require Import List ZArith Bool Arith Lia.
Require Import LV.Base.CField LV.Lin.MatL LV.Lin.LuGenA.
Require Import LV.Gen.LayoutGen LV.Cal.Sym LV.Cal.TermsModel LV.Cal.AddModel LV.Cal.ApplyModel LV.Cal.ApplyProofs
               LV.Cal.ApplyIdentity LV.Cal.AssembleIdentity LV.Cal.SolveSimple LV.Cal.LeakPhysical.
Import ListNotations.
Local Open Scope nat_scope.

Definition solve_type' (ty : caltype) : caltype := if caltype_eqb ty E12 then E12_UE14 else ty.

(* SolveSimple.e_vector with the leakage terms as a parameter *)
Definition net_vector (O : Ops) (sty : caltype) (mr mc : nat) (xs : list (list O)) (lk : list O) : list O :=
  concat (map (fun sx => insert_unity O sty mr mc (fst sx) (snd sx)) (combine (seq 0 (length xs)) xs)) ++ lk.

Lemma e_vector_net (O : Ops) sty mr mc ms xs :
  e_vector O sty mr mc ms xs = net_vector O sty mr mc xs (leak_terms O sty mr mc ms).
Proof. reflexivity. Qed.

Definition dev_cases : list (caltype * nat) :=
  flat_map (fun ty => map (fun n => (ty, n)) [1; 2; 3]) [TE10; UE10; UE14].

Section K.
Variable K : CField.
Add Field Kf_dev : (cth K).
Let O := ops_of K.

Definition xs_of_K (sty : caltype) (mr mc : nat) (fe : nat -> K) : list (list K) :=
  map (fun sys => map (x_of' K sty mr mc fe sys) (seq 0 (unknowns sty mr mc))) (seq 0 (systems_of sty mc)).

Definition dev_vector (ty : caltype) (n : nat) (fe : nat -> K) (el : nat -> nat -> K) : list K :=
  let sty := solve_type' ty in
  let v := net_vector O sty n n (xs_of_K sty n n fe) (map (fun rc => el (fst rc) (snd rc)) (offdiag_cells n n)) in
  if caltype_eqb sty E12_UE14 then convert_ue14_to_e12 O n n v else v.

Definition dev_m (n : nat) (Mc el : nat -> nat -> K) : list K :=
  lst K (n * n) (fun cell => let r := cell / n in let c := cell mod n in
                             cadd (Mc r c) (if Nat.eqb r c then c0 else el r c)).

(* the documented core expression at the network's terms *)
Definition dev_doc (ty : caltype) (n : nat) (fe : nat -> K) (Mc S : nat -> nat -> K) (i j : nat) : K :=
  match ty with
  | TE10 => docT K n S (te_Ts K n n fe) (te_Ti K n n fe) (te_Tx K n n fe) (te_Tm K n n fe) Mc i j
  | UE10 => docU K n S (ue_Um K n n fe) (ue_Ui K n n fe) (ue_Ux K n n fe) (ue_Us K n n fe) Mc i j
  | UE14 => doc14 K n S (c14_um K n n fe UE14) (c14_ux K n n fe UE14) (c14_ui K n n fe UE14) (c14_us K n n fe UE14) Mc i j
  | _ => c0
  end.

Definition device_identity (c : caltype * nat) : Prop :=
  let '(ty, n) := c in
  forall (fe : nat -> K) (el Mc : nat -> nat -> K) (fs : nat -> K),
    conj_all (map (fun ij =>
        doc_cell K ty n n (dev_vector ty n fe el) (dev_m n Mc el) (lst K (n * n) fs) (fst ij) (snd ij)
        = dev_doc ty n fe Mc (fun a b => fs (a * n + b)) (fst ij) (snd ij)) (pairs n)).

Ltac dev_id := intros fe el Mc fs; cbv -[cadd cmul csub copp cdiv cinv c0 c1 F]; repeat split; ring.

Lemma device_identity_all : forall c, In c dev_cases -> device_identity c.
Proof.
  intros c H. vm_compute in H.
  repeat (destruct H as [<-|H]; [dev_id|]). contradiction.
Qed.
(* ---------------------------------------------------------------- E12: the converted vector *)
(* the device equation read out of convert_ue14_to_e12 (saved E12_UE14 vector) in E12 form is the UE14 core
   expression of the solved terms, times um_j[j] / (us_j um_j[j] - ui_j ux_j[j]) in column j *)
Definition e12_nd (n : nat) (fe : nat -> K) (c : nat) : K :=
  csub (cmul (c14_us K n n fe E12_UE14 c) (c14_um K n n fe E12_UE14 c c))
       (cmul (c14_ui K n n fe E12_UE14 c) (c14_ux K n n fe E12_UE14 c c)).
Definition e12_doc14 (n : nat) (fe : nat -> K) (Mc S : nat -> nat -> K) (i j : nat) : K :=
  doc14 K n S (c14_um K n n fe E12_UE14) (c14_ux K n n fe E12_UE14) (c14_ui K n n fe E12_UE14) (c14_us K n n fe E12_UE14) Mc i j.
Definition e12_regular (n : nat) (fe : nat -> K) : Prop :=
  conj_all (map (fun ck => c14_um K n n fe E12_UE14 (fst ck) (snd ck) <> c0) (pairs n)) /\
  conj_all (map (fun c => e12_nd n fe c <> c0) (seq 0 n)).

Definition e12_identity (n : nat) : Prop :=
  forall (fe : nat -> K) (el Mc : nat -> nat -> K) (fs : nat -> K),
    e12_regular n fe ->
    conj_all (map (fun ij =>
        doc_cell K E12 n n (dev_vector E12 n fe el) (dev_m n Mc el) (lst K (n * n) fs) (fst ij) (snd ij)
        = cdiv (cmul (c14_um K n n fe E12_UE14 (snd ij) (snd ij)) (e12_doc14 n fe Mc (fun a b => fs (a * n + b)) (fst ij) (snd ij)))
               (e12_nd n fe (snd ij))) (pairs n)).

Ltac nz :=
  match goal with
  | |- _ => assumption
  | H : ?B = c0 -> False |- ?A <> c0 => replace A with B by ring; exact H
  | H : ?B <> c0 |- ?A <> c0 => replace A with B by ring; exact H
  end.
Ltac e12_id :=
  intros fe el Mc fs; cbv -[cadd cmul csub copp cdiv cinv c0 c1 F]; intros Hreg;
  repeat match goal with H : _ /\ _ |- _ => destruct H end;
  repeat split; field; repeat split; nz.

Lemma e12_identity_all : forall n, In n [1; 2; 3] -> e12_identity n.
Proof.
  intros n H. repeat (destruct H as [<-|H]; [e12_id|]). contradiction.
Qed.
End K.

(* ---------------------------------------------------------------- the documented expression vanishes *)
Section Vanish.
Variable K : CField.
Add Field Kf_dev2 : (cth K).

(* the physical hypothesis on the device: its core response Mc satisfies the determining equation of the core
   network with the terms fe (read through the layout as LeakPhysical reads them) *)
Definition device_network (ty : caltype) (n : nat) (fe : nat -> K) (Mc S : nat -> nat -> K) : Prop :=
  match ty with
  | TE10 => physT K n S (te_Ts K n n fe) (te_Ti K n n fe) (te_Tx K n n fe) (te_Tm K n n fe) n Mc
  | UE10 => physU K n S (ue_Um K n n fe) (ue_Ui K n n fe) (ue_Ux K n n fe) (ue_Us K n n fe) n Mc
  | UE14 => phys14 K n S (c14_um K n n fe UE14) (c14_ux K n n fe UE14) (c14_ui K n n fe UE14) (c14_us K n n fe UE14) n Mc
  | E12 => phys14 K n S (c14_um K n n fe E12_UE14) (c14_ux K n n fe E12_UE14) (c14_ui K n n fe E12_UE14)
                  (c14_us K n n fe E12_UE14) n Mc /\ e12_regular K n fe
  | _ => False
  end.

Definition dev_cases_all : list (caltype * nat) :=
  flat_map (fun ty => map (fun n => (ty, n)) [1; 2; 3]) [TE10; UE10; UE14; E12].

Theorem device_doc_vanishes_lemma (ty : caltype) (n : nat) (fe : nat -> K) (el Mc : nat -> nat -> K) (fs : nat -> K) :
  In (ty, n) dev_cases_all ->
  device_network ty n fe Mc (fun a b => fs (a * n + b)) ->
  forall i j, i < n -> j < n ->
    doc_cell K ty n n (dev_vector K ty n fe el) (dev_m K n Mc el) (lst K (n * n) fs) i j = @c0 K.
Proof.
  intros Hin Hnet i j Hi Hj.
  assert (Hty : In ty [TE10; UE10; UE14; E12] /\ In n [1; 2; 3]).
  { unfold dev_cases_all in Hin. apply in_flat_map in Hin. destruct Hin as (ty' & Ht & Hn).
    apply in_map_iff in Hn. destruct Hn as (n' & E & Hn). injection E as <- <-. split; assumption. }
  destruct Hty as [Hty Hn].
  destruct Hty as [<-|[<-|[<-|[<-|[]]]]].
  - assert (Hc : In (TE10, n) dev_cases) by (destruct Hn as [<-|[<-|[<-|[]]]]; vm_compute; tauto).
    pose proof (device_identity_all K _ Hc fe el Mc fs) as H.
    pose proof (conj_all_in _ H _ (in_map _ _ _ (in_pairs n i j Hi Hj))) as E. cbv beta in E. cbn [fst snd] in E.
    rewrite E. cbn [dev_doc].
    exact (proj1 (physT_iff_doc K n _ _ _ _ _ n Mc) Hnet i j Hi Hj).
  - assert (Hc : In (UE10, n) dev_cases) by (destruct Hn as [<-|[<-|[<-|[]]]]; vm_compute; tauto).
    pose proof (device_identity_all K _ Hc fe el Mc fs) as H.
    pose proof (conj_all_in _ H _ (in_map _ _ _ (in_pairs n i j Hi Hj))) as E. cbv beta in E. cbn [fst snd] in E.
    rewrite E. cbn [dev_doc].
    exact (proj1 (physU_iff_doc K n _ _ _ _ _ n Mc) Hnet i j Hi Hj).
  - assert (Hc : In (UE14, n) dev_cases) by (destruct Hn as [<-|[<-|[<-|[]]]]; vm_compute; tauto).
    pose proof (device_identity_all K _ Hc fe el Mc fs) as H.
    pose proof (conj_all_in _ H _ (in_map _ _ _ (in_pairs n i j Hi Hj))) as E. cbv beta in E. cbn [fst snd] in E.
    rewrite E. cbn [dev_doc].
    exact (proj1 (phys14_iff_doc K n _ _ _ _ _ n Mc) Hnet i j Hi Hj).
  - destruct Hnet as [Hp Hreg].
    pose proof (e12_identity_all K n Hn fe el Mc fs Hreg) as H.
    pose proof (conj_all_in _ H _ (in_map _ _ _ (in_pairs n i j Hi Hj))) as E. cbv beta in E. cbn [fst snd] in E.
    rewrite E. unfold e12_doc14.
    rewrite (proj1 (phys14_iff_doc K n _ _ _ _ _ n Mc) Hp i j Hi Hj).
    destruct Hreg as [_ Hnd].
    assert (Hd : e12_nd K n fe j <> c0).
    { apply (conj_all_in _ Hnd). apply (in_map (fun c => e12_nd K n fe c <> c0)). apply in_seq. lia. }
    field. exact Hd.
Qed.
End Vanish.
