(* C01, leakage types: the calibration half of the composition from the PHYSICAL hypothesis.
   For TE10, UE10, UE14 and E12 (measured as E12_UE14), every field in which sample counts are invertible, every
   LIST of standards of the family AssembleList.zcfgs (bound in the statement: dimensions 1..3 as the type allows,
   every port set, the known-zero masks of that family; any number of standards, any order, any mix) whose
   measurements come from a physical network of the type (LeakPhysical: core response + additive leakage El,
   well posed) with every off-diagonal cell sampled at least once (or free of leakage):
     every row (a, b) of every linear system that the model of _vnacal_new_solve_simple assembles AS CODED, from
     the measured values AS CODED corrected by the leakage means computed over the whole list, is satisfied by the
     true error terms:   sum_k a_k x_k - b = 0,   and the saved leakage terms are El.
   This is the hypothesis "the true normalised terms satisfy every assembled equation" of
   EndToEnd.c01_model_end_to_end_lemma, derived instead of assumed (in the residual form AssembleIdentity.row_res). *)
Require Import List ZArith Bool Arith Lia.
Require Import LV.Base.CField LV.Gen.LayoutGen LV.Cal.Sym LV.Cal.TermsModel LV.Cal.AddModel
               LV.Cal.ApplyModel LV.Cal.SolveSimple LV.Cal.TermsProofs LV.Cal.ApplyIdentity LV.Cal.AssembleIdentity
               LV.Cal.C17Proofs LV.Cal.OrderProofs LV.Cal.AssembleList LV.Cal.LeakProofs LV.Cal.LeakPhysical.
Import ListNotations.
Local Open Scope nat_scope.

(* the equations of a standard of the family lie inside the matrix the documented equation is about *)
Definition eqs_in_range (c : zcfg) : bool :=
  match add_common (zcfg_args c) with
  | Accepted m => forallb (fun e => andb (Nat.ltb (e_row e) (if VNACAL_IS_T (z_ty c) then z_mr c else Nat.max (z_mr c) (z_mc c)))
                                         (Nat.ltb (e_col e) (if VNACAL_IS_T (z_ty c) then Nat.max (z_mr c) (z_mc c) else z_mc c)))
                          (ms_eqs m)
  | _ => false
  end.
Lemma eqs_in_range_all : forallb eqs_in_range zcfgs = true.
Proof. vm_compute. reflexivity. Qed.

Definition dims_family (c : zcfg) : bool :=
  if VNACAL_IS_T (z_ty c) then Nat.leb (z_mr c) (z_mc c) else Nat.leb (z_mc c) (z_mr c).
Lemma dims_family_all : forallb dims_family zcfgs = true.
Proof. vm_compute. reflexivity. Qed.

Section K.
Variable K : CField.
Let O := ops_of K.
Variables (mr mc : nat) (fe : nat -> K) (el : nat -> nat -> K) (pv : Z -> K) (ms : list (mvals O)).
Variables (fxof : mvals O -> nat -> K) (core : mvals O -> nat -> nat -> K).
Hypothesis Hchar : forall k : nat, k <> 0 -> onat O k <> @c0 K.

(* the physical hypothesis, by type *)
Definition network_of (ty : caltype) (mv : mvals O) : Prop :=
  match ty with
  | TE10 => te_network K mr mc fe pv fxof core mv
  | UE10 => ue_network K mr mc fe pv fxof core mv
  | UE14 | E12_UE14 => c14_network K mr mc fe pv fxof core ty mv
  | _ => False
  end.

Lemma row_in_assemble ty sys row : In row (assemble O ty mr mc pv ms sys) ->
  exists mv e, In mv ms /\ In e (filter (eq_in_system ty sys) (ms_eqs (mv_meas O mv))) /\
               row = row_of_mv O ty mr mc pv ms mv e.
Proof.
  rewrite assemble_flat. intros H. apply in_flat_map in H. destruct H as (mv & Hmv & H).
  apply in_map_iff in H. destruct H as (e & <- & He). exists mv, e. repeat split; assumption.
Qed.

Theorem leak_rows_satisfied_lemma (ty : caltype) :
  In ty [TE10; UE10; UE14; E12_UE14] ->
  (forall mv, In mv ms -> std_of K ty mr mc mv /\ network_of ty mv /\ measured_with_leakage K mr mc el core mv) ->
  covered K mr mc el ms ->
  leak_terms O ty mr mc ms = map (fun rc => el (fst rc) (snd rc)) (offdiag_cells mr mc) /\
  forall sys, sys < systems_of ty mc ->
    forall row, In row (assemble O ty mr mc pv ms sys) -> row_res K ty mr mc fe sys row = @c0 K.
Proof.
  intros Hty H Hcov.
  (* dimensions and connectivity from membership in the family *)
  assert (Hfam : forall mv, In mv ms -> conn_built K mr mc mv /\
            (if VNACAL_IS_T ty then mr <= mc else mc <= mr) /\
            forall e, In e (ms_eqs (mv_meas O mv)) ->
              e_row e < (if VNACAL_IS_T ty then mr else Nat.max mr mc) /\
              e_col e < (if VNACAL_IS_T ty then Nat.max mr mc else mc)).
  { intros mv Hmv. destruct (H mv Hmv) as ((c & Hc & E1 & E2 & E3 & Hacc) & _ & _).
    split; [|split].
    - unfold conn_built. rewrite (accepted_conn_built_lemma _ _ Hacc).
      assert (E : aa_ty (zcfg_args c) = ty) by exact E1.
      assert (Er : aa_mr (zcfg_args c) = mr) by exact E2. assert (Ec : aa_mc (zcfg_args c) = mc) by exact E3.
      rewrite E, Er, Ec.
      destruct Hty as [<-|[<-|[<-|[<-|[]]]]]; reflexivity.
    - pose proof dims_family_all as D. rewrite forallb_forall in D. specialize (D c Hc). unfold dims_family in D.
      rewrite E1, E2, E3 in D. destruct (VNACAL_IS_T ty); apply Nat.leb_le; exact D.
    - intros e He. pose proof eqs_in_range_all as D. rewrite forallb_forall in D. specialize (D c Hc).
      unfold eqs_in_range in D. rewrite Hacc, E1, E2, E3 in D. rewrite forallb_forall in D. specialize (D e He).
      apply andb_prop in D. destruct D as [D1 D2]. split; apply Nat.ltb_lt; assumption. }
  (* the conclusion of LeakPhysical for the type *)
  assert (HC : ms <> [] -> leak_conclusion K mr mc fe el pv ms fxof core ty).
  { intros Hne. destruct ms as [|mv0 r] eqn:Ems; [contradiction|]. rewrite <- Ems in *.
    assert (Hmv0 : In mv0 ms) by (rewrite Ems; left; reflexivity).
    destruct (Hfam mv0 Hmv0) as (_ & Hd & _).
    destruct Hty as [<-|[<-|[<-|[<-|[]]]]]; cbn [VNACAL_IS_T] in Hd.
    - apply (leak_TE10_lemma K mr mc fe el pv ms fxof core Hchar Hd).
      intros mv Hmv. destruct (H mv Hmv) as (_ & Hn & Hm). split; [exact (proj1 (Hfam mv Hmv))|]. split; assumption.
    - apply (leak_UE10_lemma K mr mc fe el pv ms fxof core Hchar Hd).
      intros mv Hmv. destruct (H mv Hmv) as (_ & Hn & Hm). split; [exact (proj1 (Hfam mv Hmv))|]. split; assumption.
    - apply (leak_UE14_lemma K mr mc fe el pv ms fxof core Hchar UE14 (or_introl eq_refl) Hd).
      intros mv Hmv. destruct (H mv Hmv) as (_ & Hn & Hm). split; [exact (proj1 (Hfam mv Hmv))|]. split; assumption.
    - apply (leak_UE14_lemma K mr mc fe el pv ms fxof core Hchar E12_UE14 (or_intror eq_refl) Hd).
      intros mv Hmv. destruct (H mv Hmv) as (_ & Hn & Hm). split; [exact (proj1 (Hfam mv Hmv))|]. split; assumption. }
  split.
  - destruct ms as [|mv0 r] eqn:Ems.
    + (* no standard: no sample, so by `covered' there is no leakage *)
      unfold leak_terms. assert (HL : has_outside_leakage ty = true) by (destruct Hty as [<-|[<-|[<-|[<-|[]]]]]; reflexivity).
      rewrite HL. apply map_ext_in. intros [r c] Hin. cbn [fst snd].
      destruct (in_offdiag_cells mr mc r c Hin) as (Hr & Hc & Hrc).
      change (leak_mean O mr mc [] (r, c)) with (@None O). symmetry. apply (Hcov r c Hr Hc Hrc). reflexivity.
    + rewrite <- Ems in *. assert (Hne : ms <> []) by (rewrite Ems; discriminate).
      destruct (HC Hne) as (_ & _ & C). exact (proj1 (C Hcov)).
  - intros sys Hsys row Hrow.
    destruct (row_in_assemble ty sys row Hrow) as (mv & e & Hmv & He & ->).
    assert (Hne : ms <> []) by (intros E; rewrite E in Hmv; destruct Hmv).
    destruct (HC Hne) as (_ & _ & C). destruct (C Hcov) as [_ C2].
    destruct (H mv Hmv) as ((c & Hc & <- & <- & <- & Hacc) & _ & _).
    pose proof (adj_identity_all K c Hc fe (m_adjusted O (z_ty c) (z_mr c) (z_mc c) ms mv) (fxof mv) pv) as A.
    rewrite Hacc in A. rewrite row_of_mv_adj.
    etransitivity.
    { refine (conj_all_in _ (conj_all_in _ A _ _) _ _).
      - apply in_map_iff. exists sys. split; [reflexivity|]. apply in_seq. lia.
      - apply in_map_iff. exists e. split; [reflexivity|exact He]. }
    apply filter_In in He. destruct He as [He _].
    destruct (Hfam mv Hmv) as (_ & Hd & Hr). destruct (Hr e He) as [R1 R2].
    destruct (VNACAL_IS_T (z_ty c)) eqn:ET.
    + rewrite Nat.max_r in R2 by exact Hd. exact (proj2 (C2 mv Hmv (e_row e) (e_col e) R1 R2)).
    + rewrite Nat.max_l in R1 by exact Hd. exact (proj2 (C2 mv Hmv (e_row e) (e_col e) R1 R2)).
Qed.
End K.
