(* C01 bridge for LISTS of standards, with known-zero and absent S cells.

   1. (every type, all dimensions, every list)  SolveSimple.assemble builds the rows of a system standard by
      standard, and a row depends on the rest of the list only through the leakage-corrected measured
      values m_adjusted (OrderProofs.assemble_flat + row_of_mv_adj below).
   2. (bounded, zcfgs)  for one standard and ARBITRARY corrected values fadj, every row is the cell
      (eq_row, eq_col) of the documented matrix expression evaluated at the error terms, M' = fadj and the S
      matrix of the standard, where a known-zero cell is 0, a parameter its value and an absent cell (a port
      the standard is not connected to) any value fx.  Bound: the 8 measuring types, dimensions 1..3 as the
      type allows, every non-empty set of ports, and as known-zero masks of the k x k S matrix: k = 1 both,
      k = 2 all 16 (4 when the VNA has 3 ports), k = 3 four (none; every off-diagonal cell and S11; above
      the diagonal; all off-diagonal cells but S23, S31 -- the directional chain).
   3. (every list)  hence for every list of standards drawn from that family, in any number and order, every
      assembled row of every system satisfies  sum_k a_k x_k - b = documented cell  with M' = M minus the
      leakage means computed over the WHOLE list. *)
Require Import List ZArith Bool Arith Lia.
Require Import LV.Base.CField LV.Gen.LayoutGen LV.Cal.Sym LV.Cal.TermsModel LV.Cal.AddModel
               LV.Cal.ApplyModel LV.Cal.SolveSimple LV.Cal.TermsProofs LV.Cal.ApplyIdentity LV.Cal.AssembleIdentity
               LV.Cal.C17Proofs LV.Cal.OrderProofs.
Import ListNotations.
Local Open Scope nat_scope.

(* the body of SolveSimple.row_of with the corrected measured values as a function of the M cell *)
Definition row_of_adj (O : Ops) (ty : caltype) (mr mc : nat) (pval : Z -> O) (adj : nat -> O)
           (m : measurement) (e : equation) : list O * O :=
  let vcols := v_columns_of ty mr mc in
  fold_left (fun ab t =>
    if negb (t_nov vcols t) then ab else
    let v0 := if t_neg t then osub O (o0 O) (o1 O) else o1 O in
    let v1 := if Z.ltb (t_m t) 0 then v0 else omul O v0 (adj (Z.to_nat (t_m t))) in
    let v2 := if Z.ltb (t_s t) 0 then v1 else omul O v1 (s_value O pval m (Z.to_nat (t_s t))) in
    if Z.ltb (t_x t) 0 then (fst ab, oadd O (snd ab) v2)
    else (updl (fst ab) (Z.to_nat (t_x t)) (oadd O (g O (fst ab) (Z.to_nat (t_x t))) v2), snd ab))
    (e_terms e) (repeat (o0 O) (unknowns ty mr mc), o0 O).

Lemma row_of_mv_adj (O : Ops) ty mr mc pval (ms : list (mvals O)) mv e :
  row_of_mv O ty mr mc pval ms mv e
  = row_of_adj O ty mr mc pval (m_adjusted O ty mr mc ms mv) (mv_meas O mv) e.
Proof. reflexivity. Qed.

(* ---------------------------------------------------------------- the family of standards *)
(* type, dimensions, ports of the standard (1-based, ascending), known-zero mask of its k x k S matrix by rows *)
Definition zcfg := (caltype * (nat * nat) * list nat * list bool)%type.
Definition z_ty (c : zcfg) : caltype := fst (fst (fst c)).
Definition z_mr (c : zcfg) : nat := fst (snd (fst (fst c))).
Definition z_mc (c : zcfg) : nat := snd (snd (fst (fst c))).
Definition z_ports (c : zcfg) : list nat := snd (fst c).
Definition z_mask (c : zcfg) : list bool := snd c.

Definition zcfg_args (c : zcfg) : add_args :=
  let k := length (z_ports c) in
  mkArgs (z_ty c) (z_mr c) (z_mc c) false (fun _ => true) false 0 0 (Z.of_nat (z_mr c)) (Z.of_nat (z_mc c))
         (map (fun i => if nth i (z_mask c) false then 0%Z else Z.of_nat (3 + i)) (seq 0 (k * k)))
         (Z.of_nat k) (Z.of_nat k) false (Some (map Z.of_nat (z_ports c))).

Fixpoint bools (n : nat) : list (list bool) :=
  match n with 0 => [[]] | S k => flat_map (fun l => [false :: l; true :: l]) (bools k) end.

Definition masks_for (p k : nat) : list (list bool) :=
  match k with
  | 1 => [[false]; [true]]
  | 2 => if Nat.leb p 2 then bools 4
         else [[false; false; false; false]; [false; true; true; false]; [false; true; false; false]; [true; false; false; true]]
  | 3 => [repeat false 9;
          [true; true; true;  true; false; true;  true; true; false];
          [false; true; true;  false; false; true;  false; false; false];
          [false; true; true;  true; false; false;  false; true; false]]
  | _ => [repeat false (k * k)]
  end.

Definition zcfgs_for (ty : caltype) : list zcfg :=
  flat_map (fun rc =>
     if dims_allowed ty rc then
       let p := Nat.max (fst rc) (snd rc) in
       flat_map (fun ports => map (fun mask => (ty, rc, ports, mask)) (masks_for p (length ports)))
                (filter (fun x => negb (Nat.eqb (length x) 0)) (sublists (seq 1 p)))
     else []) dims3.

Definition zcfgs : list zcfg := flat_map zcfgs_for public_types.

Section K.
Variable K : CField.
Add Field Kf_al : (cth K).
Let O := ops_of K.

(* one standard, arbitrary corrected values: every row is the documented cell *)
Definition adj_identity (c : zcfg) : Prop :=
  forall (fe fadj fx : nat -> K) (pv : Z -> K),
  match add_common (zcfg_args c) with
  | Accepted m =>
      conj_all (map (fun sys =>
        conj_all (map (fun e => row_res K (z_ty c) (z_mr c) (z_mc c) fe sys (row_of_adj O (z_ty c) (z_mr c) (z_mc c) pv fadj m e)
                                = std_cell K (z_ty c) (z_mr c) (z_mc c) m fe fadj fx pv (e_row e) (e_col e))
                      (filter (eq_in_system (z_ty c) sys) (ms_eqs m))))
        (seq 0 (systems_of (z_ty c) (z_mc c))))
  | _ => False
  end.

Ltac adj_id := intros fe fadj fx pv; cbv -[cadd cmul csub copp cdiv cinv c0 c1 F]; repeat split; ring.

Lemma adj_identity_for ty : In ty public_types -> forall c, In c (zcfgs_for ty) -> adj_identity c.
Proof.
  intros Ht. vm_compute in Ht.
  repeat (destruct Ht as [<-|Ht];
          [intros c H; vm_compute in H; repeat (destruct H as [<-|H]; [adj_id|]); contradiction|]).
  contradiction.
Qed.

Lemma adj_identity_all : forall c, In c zcfgs -> adj_identity c.
Proof.
  intros c H. unfold zcfgs in H. apply in_flat_map in H. destruct H as (ty & Ht & Hc).
  exact (adj_identity_for ty Ht c Hc).
Qed.

(* ---------------------------------------------------------------- lists of standards *)
(* the standard was entered by a call of the family *)
Definition std_of (ty : caltype) (mr mc : nat) (mv : mvals O) : Prop :=
  exists c, In c zcfgs /\ z_ty c = ty /\ z_mr c = mr /\ z_mc c = mc /\
            add_common (zcfg_args c) = Accepted (mv_meas O mv).

Lemma Forall2_map_same {A B C} (R : B -> C -> Prop) (f : A -> B) (h : A -> C) (l : list A) :
  (forall x, In x l -> R (f x) (h x)) -> Forall2 R (map f l) (map h l).
Proof.
  induction l as [|x r IH]; intros H; simpl; constructor.
  - apply H. left; reflexivity.
  - apply IH. intros y Hy. apply H. right; exact Hy.
Qed.

Theorem assembled_list_rows_lemma ty mr mc (ms : list (mvals O)) (pv : Z -> K) (fe fx : nat -> K) (sys : nat) :
  sys < systems_of ty mc ->
  (forall mv, In mv ms -> std_of ty mr mc mv) ->
  Forall2 (fun row me =>
             row_res K ty mr mc fe sys row
             = std_cell K ty mr mc (mv_meas O (fst me)) fe (m_adjusted O ty mr mc ms (fst me)) fx pv
                        (e_row (snd me)) (e_col (snd me)))
          (assemble O ty mr mc pv ms sys)
          (flat_map (fun mv => map (pair mv) (filter (eq_in_system ty sys) (ms_eqs (mv_meas O mv)))) ms).
Proof.
  intros Hsys Hall. rewrite assemble_flat.
  assert (G : forall l, (forall mv, In mv l -> std_of ty mr mc mv) ->
    Forall2 (fun row (me : mvals O * equation) =>
             row_res K ty mr mc fe sys row
             = std_cell K ty mr mc (mv_meas O (fst me)) fe (m_adjusted O ty mr mc ms (fst me)) fx pv
                        (e_row (snd me)) (e_col (snd me)))
      (flat_map (fun mv => map (row_of_mv O ty mr mc pv ms mv) (filter (eq_in_system ty sys) (ms_eqs (mv_meas O mv)))) l)
      (flat_map (fun mv => map (pair mv) (filter (eq_in_system ty sys) (ms_eqs (mv_meas O mv)))) l)).
  { induction l as [|mv r IH]; intros Hl; simpl; [constructor|].
    apply Forall2_app.
    - apply Forall2_map_same. intros e He. cbn [fst snd].
      destruct (Hl mv (or_introl eq_refl)) as (c & Hc & <- & <- & <- & Hacc).
      pose proof (adj_identity_all c Hc fe (m_adjusted O (z_ty c) (z_mr c) (z_mc c) ms mv) fx pv) as H.
      rewrite Hacc in H.
      rewrite row_of_mv_adj.
      refine (conj_all_in _ (conj_all_in _ H _ _) _ _).
      + apply in_map_iff. exists sys. split; [reflexivity|]. apply in_seq. lia.
      + apply in_map_iff. exists e. split; [reflexivity|exact He].
    - apply IH. intros y Hy. apply Hl. right; exact Hy. }
  exact (G ms Hall).
Qed.
End K.

Example zcfgs_size :
  length zcfgs = 864 /\
  fold_left (fun n c => match add_common (zcfg_args c) with Accepted m => n + length (ms_eqs m) | _ => n end) zcfgs 0 > 864 /\
  length (filter (fun c => existsb (fun b => b) (z_mask c)) zcfgs) > 400.
Proof. vm_compute. repeat split; lia. Qed.

(* ---------------------------------------------------------------- the hypotheses can be met *)
(* a 2 x 2 TE10 calibration: a through-like standard with S11 = S22 = 0 (known zero), a reflect on port 1, a
   match (known zero) on port 2; any measured values, any field: every standard is of the family, the system
   has 6 rows and the cell (0, 1) has a leakage mean (sampled by the two one-port standards) that is
   subtracted from the through's M12 *)
Section Ex.
Variable K : CField.
Let O := ops_of K.
Definition exl_cfgs : list zcfg :=
  [(TE10, (2, 2), [1; 2], [true; false; false; true]); (TE10, (2, 2), [1], [false]); (TE10, (2, 2), [2], [true])].
Definition exl_ms (vals : nat -> nat -> K) : list (mvals O) :=
  flat_map (fun ic => match add_common (zcfg_args (snd ic)) with
                      | Accepted m => [mkMV O m (lst K 4 (vals (fst ic)))]
                      | _ => [] end) (combine (seq 0 3) exl_cfgs).

Ltac in_zcfgs :=
  apply in_flat_map; exists TE10; split; [simpl; tauto|];
  unfold zcfgs_for; apply in_flat_map; exists (2, 2); split; [vm_compute; tauto|];
  vm_compute; repeat (first [left; reflexivity | right]).

Lemma assembled_list_example (vals : nat -> nat -> K) (pv : Z -> K) :
  length (exl_ms vals) = 3 /\
  (forall mv, In mv (exl_ms vals) -> std_of K TE10 2 2 mv) /\
  length (assemble O TE10 2 2 pv (exl_ms vals) 0) = 6 /\
  leak_mean O 2 2 (exl_ms vals) (0, 1) <> None.
Proof.
  split; [vm_compute; reflexivity|]. split.
  - intros mv H. vm_compute in H.
    destruct H as [<-|[<-|[<-|[]]]].
    + exists (TE10, (2, 2), [1; 2], [true; false; false; true]).
      split; [in_zcfgs|]. repeat split; vm_compute; reflexivity.
    + exists (TE10, (2, 2), [1], [false]).
      split; [in_zcfgs|]. repeat split; vm_compute; reflexivity.
    + exists (TE10, (2, 2), [2], [true]).
      split; [in_zcfgs|]. repeat split; vm_compute; reflexivity.
  - split; [vm_compute; reflexivity|]. vm_compute. discriminate.
Qed.
End Ex.
