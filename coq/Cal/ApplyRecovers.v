(* apply_model_recovers_S: the model of _vnacal_apply_common at one frequency (CalQI.q_apply: the fill
   functions as coded, then the exact LU model of A \ B resp. B / A, at the Gaussian rationals) returns
   the device's S whenever the measurement satisfies the documented equation with the error terms
   and the solver does not report a zero determinant.  All error terms, all measurements, all S;
   stored types x shapes of ApplyProofs.apply_cases (dims 1..4 square, 1x2 / 2x1). *)
Require Import List ZArith Bool Arith Lia QArith Qcanon.
Require Import LV.Base.CField LV.Base.QcI LV.Lin.MatL LV.Lin.LuModel LV.Lin.LuQI LV.Lin.LuGenA LV.Lin.LuProofs.
Require Import LV.Gen.LayoutGen LV.Cal.Sym LV.Cal.ApplyModel LV.Cal.ApplyProofs LV.Cal.ApplyIdentity
               LV.Cal.LinUnique LV.Cal.CalQI.
Import ListNotations.
Local Open Scope nat_scope.

Lemma sumk_sumf (n : nat) (f : nat -> qi) : sumk qops n f = @sumf QIF n f.
Proof. exact (msum_sumf QIF n f). Qed.

Lemma csub_zero_eq (x y : QIF) : csub x y = copp (@c0 QIF) -> x = y.
Proof.
  intros H. assert (E : x = cadd (csub x y) y) by (change (x = qi_add (qi_sub x y) y); destruct x, y; apply qi_eq; cbn; ring).
  rewrite E, H. destruct y; apply qi_eq; cbn; ring.
Qed.

Theorem apply_model_recovers_S_lemma (ty : caltype) (mr mc : nat) (e m s : list qi) :
  In (ty, (mr, mc)) apply_cases ->
  let p := Nat.max mr mc in
  length e = nterms ty mr mc -> length m = p * p -> length s = p * p ->
  (forall i j, i < p -> j < p -> doc_cell QIF ty mr mc e m s i j = @c0 QIF) ->
  forall a b x, q_apply ty mr mc e m = AOk a b x -> x = s.
Proof.
  intros Hin p He Hm Hs Hdoc a b x Hq.
  destruct (fill_solves_lemma QIF ty mr mc e m s Hin He Hm Hs) as (m' & a0 & b0 & Hf & Hid).
  fold p in Hid.
  unfold q_apply in Hq. fold p in Hq. change qops with (ops_of QIF) in Hq. rewrite Hf in Hq.
  assert (Hcell : forall i j, i < p -> j < p ->
            prod_cell QIF ty mr mc a0 s i j = nth (i * p + j) b0 (@c0 QIF)).
  { intros i j Hi Hj. apply csub_zero_eq. pose proof (Hid i j Hi Hj) as E. rewrite (Hdoc i j Hi Hj) in E. exact E. }
  unfold prod_cell in Hcell. fold p in Hcell.
  destruct (VNACAL_IS_T ty) eqn:ET.
  - destruct (q_mldivide (munflat QIF p p a0) (munflat QIF p p b0) p p) as [X d] eqn:EX.
    destruct (qi_eqb d qi0) eqn:Ed; [discriminate|].
    injection Hq as <- <- <-.
    pose proof (mldivide_unique QIF Qc qi_nrm Qcmult Qc_ltb 0%Qc row_scale_of_max p a0 b0 s Hs) as U.
    cbv zeta in U. change (mldivide QIF Qc qi_nrm Qcmult Qc_ltb 0%Qc row_scale_of_max) with q_mldivide in U.
    rewrite EX in U. cbn [fst snd] in U. apply U.
    + intros i j Hi Hj. etransitivity; [|exact (Hcell i j Hi Hj)]. symmetry. apply sumk_sumf.
    + apply qi_neqb. exact Ed.
  - destruct (q_mrdivide (munflat QIF p p b0) (munflat QIF p p a0) p p) as [X d] eqn:EX.
    destruct (qi_eqb d qi0) eqn:Ed; [discriminate|].
    injection Hq as <- <- <-.
    pose proof (mrdivide_unique QIF Qc qi_nrm Qcmult Qc_ltb 0%Qc row_scale_of_max p a0 b0 s Hs) as U.
    cbv zeta in U. change (mrdivide QIF Qc qi_nrm Qcmult Qc_ltb 0%Qc row_scale_of_max) with q_mrdivide in U.
    rewrite EX in U. cbn [fst snd] in U. apply U.
    + intros i j Hi Hj. etransitivity; [|exact (Hcell i j Hi Hj)]. symmetry. apply sumk_sumf.
    + apply qi_neqb. exact Ed.
Qed.

(* ---------------------------------------------------------------- the hypotheses can be met *)
(* T8 2x2, ideal error terms Ts = Tm = I, Ti = Tx = 0: M = S; a device that is not symmetric *)
Definition qn (z : Z) : qi := mkqi z 1 0 1.
Definition ex_e : list qi := [qn 1; qn 1; qn 0; qn 0; qn 0; qn 0; qn 1; qn 1].
Definition ex_s : list qi := [mkqi 1 2 1 3; qn 2; mkqi 0 1 (-1) 1; mkqi 1 4 0 1].

Fixpoint qlist_eqb (x y : list qi) : bool :=
  match x, y with
  | [], [] => true
  | a :: x', b :: y' => andb (qi_eqb a b) (qlist_eqb x' y')
  | _, _ => false
  end.
Lemma qlist_eqb_sound x : forall y, qlist_eqb x y = true -> x = y.
Proof.
  induction x as [|a x IH]; intros [|b y] H; try discriminate; [reflexivity|].
  cbn in H. apply andb_prop in H. destruct H as [H1 H2]. apply qi_eqb_eq in H1. rewrite (IH y H2), H1. reflexivity.
Qed.
Definition res_is (r : apply_res) (s : list qi) : bool :=
  match r with AOk _ _ x => qlist_eqb x s | _ => false end.
Lemma res_is_sound r s : res_is r s = true -> exists a b, r = AOk a b s.
Proof. destruct r as [a b x| | |]; cbn; intros H; try discriminate. exists a, b. rewrite (qlist_eqb_sound x s H). reflexivity. Qed.

Example apply_model_recovers_S_nonvacuous :
  In (T8, (2, 2)) apply_cases /\ length ex_e = nterms T8 2 2 /\
  (forall i j, i < 2 -> j < 2 -> doc_cell QIF T8 2 2 ex_e ex_s ex_s i j = @c0 QIF) /\
  exists a b, q_apply T8 2 2 ex_e ex_s = AOk a b ex_s.
Proof.
  split; [vm_compute; tauto|]. split; [reflexivity|]. split.
  - intros i j Hi Hj.
    destruct i as [|[|i]]; [| |lia]; (destruct j as [|[|j]]; [| |lia]); apply qi_eqb_eq; vm_compute; reflexivity.
  - apply res_is_sound. vm_compute. reflexivity.
Qed.
