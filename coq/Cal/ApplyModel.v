(* Executable model of the fill_* functions of vnacal_apply.c as coded (flat arrays, the 1x2 / 2x1
   special cases, leakage subtraction from M in place) and of the shape test of _vnacal_apply_common,
   written over the interface Sym.Ops so that it runs on a CField (exact Gaussian rationals) and on
   symbolic values.  A failing assert(m_rows == m_columns) is `FAssert'.  No proofs here. *)
Require Import List ZArith Bool Arith.
Require Import LV.Base.CField LV.Gen.LayoutGen LV.Cal.Sym.
Import ListNotations.
Local Open Scope nat_scope.

Fixpoint updl {A} (l : list A) (i : nat) (x : A) : list A :=
  match l, i with
  | [], _ => []
  | _ :: r, O => x :: r
  | y :: r, S k => y :: updl r k x
  end.

Inductive fres (A : Type) := Filled (m a b : list A) | FAssert | Refused.
Arguments Filled {A}. Arguments FAssert {A}. Arguments Refused {A}.

Section Fill.
Variable O : Ops.
Notation "x +! y" := (oadd O x y) (at level 50, left associativity).
Notation "x -! y" := (osub O x y) (at level 50, left associativity).
Notation "x *! y" := (omul O x y) (at level 40, left associativity).
Notation "x /! y" := (odiv O x y) (at level 40, left associativity).
Notation Z0 := (o0 O).
Notation ONE := (o1 O).

Definition g (l : list O) (i : nat) : O := nth i l Z0.
Definition build (n : nat) (f : nat -> O) : list O := map f (seq 0 n).
Definition zn (z : Z) : nat := Z.to_nat z.

(* m[cell] -= *el_cur++ over the off-diagonal cells by rows *)
Definition sub_leak (mr mc : nat) (m : list O) (el : nat -> O) : list O :=
  let cells := flat_map (fun r => flat_map (fun c => if Nat.eqb r c then [] else [r * mc + c]) (seq 0 mc)) (seq 0 mr) in
  fst (fold_left (fun st cell => let '(m, k) := st in (updl m cell (g m cell -! el k), S k)) cells (m, 0)).

Definition fill_t8 (ty : caltype) (mr mc : nat) (e m : list O) : fres O :=
  let l := layout ty (Z.of_nat mr) (Z.of_nat mc) in
  let p := Nat.max mr mc in
  let ts i := g e (zn (VL_TS_OFFSET l) + i) in let ti i := g e (zn (VL_TI_OFFSET l) + i) in
  let tx i := g e (zn (VL_TX_OFFSET l) + i) in let tm i := g e (zn (VL_TM_OFFSET l) + i) in
  let el i := g e (zn (VL_EL_OFFSET l) + i) in
  if andb (Nat.eqb mr 1) (Nat.eqb mc 2) then
    let m := if caltype_eqb ty TE10 then updl (updl m 1 (g m 1 -! el 0)) 2 (g m 2 -! el 0) else m in
    Filled m
      [ts 0 -! g m 0 *! tx 0; oopp O (g m 1) *! tx 1; oopp O (g m 2) *! tx 1; ts 0 -! g m 3 *! tx 0]
      [oopp O (ti 0) +! g m 0 *! tm 0; g m 1 *! tm 1; g m 2 *! tm 1; oopp O (ti 0) +! g m 3 *! tm 0]
  else if negb (Nat.eqb mr mc) then FAssert
  else
    let m := if caltype_eqb ty TE10 then sub_leak mr mc m el else m in
    Filled m
      (build (mr * p) (fun cell => let r := cell / p in let c := cell mod p in
          (if Nat.eqb r c then Z0 +! ts r else Z0) -! g m cell *! tx c))
      (build (mr * p) (fun cell => let r := cell / p in let c := cell mod p in
          (if Nat.eqb r c then Z0 -! ti r else Z0) +! g m cell *! tm c)).

Definition fill_u8 (ty : caltype) (mr mc : nat) (e m : list O) : fres O :=
  let l := layout ty (Z.of_nat mr) (Z.of_nat mc) in
  let p := Nat.max mr mc in
  let um i := g e (zn (VL_UM_OFFSET l) + i) in let ui i := g e (zn (VL_UI_OFFSET l) + i) in
  let ux i := g e (zn (VL_UX_OFFSET l) + i) in let us i := g e (zn (VL_US_OFFSET l) + i) in
  let el i := g e (zn (VL_EL_OFFSET l) + i) in
  if andb (Nat.eqb mr 2) (Nat.eqb mc 1) then
    let m := if caltype_eqb ty UE10 then updl (updl m 1 (g m 1 -! el 0)) 2 (g m 2 -! el 0) else m in
    Filled m
      [us 0 +! g m 0 *! ux 0; g m 1 *! ux 1; g m 2 *! ux 1; us 0 +! g m 3 *! ux 0]
      [ui 0 +! g m 0 *! um 0; g m 1 *! um 1; g m 2 *! um 1; ui 0 +! g m 3 *! um 0]
  else if negb (Nat.eqb mr mc) then FAssert
  else
    let m := if caltype_eqb ty UE10 then sub_leak mr mc m el else m in
    Filled m
      (build (p * mc) (fun cell => let r := cell / mc in let c := cell mod mc in
          let v := g m cell *! ux r in if Nat.eqb r c then v +! us r else v))
      (build (p * mc) (fun cell => let r := cell / mc in let c := cell mod mc in
          let v := g m cell *! um r in if Nat.eqb r c then v +! ui r else v)).

Definition fill_t16 (ty : caltype) (mr mc : nat) (e m : list O) : fres O :=
  let l := layout ty (Z.of_nat mr) (Z.of_nat mc) in
  let p := Nat.max mr mc in
  let ts i := g e (zn (VL_TS_OFFSET l) + i) in let ti i := g e (zn (VL_TI_OFFSET l) + i) in
  let tx i := g e (zn (VL_TX_OFFSET l) + i) in let tm i := g e (zn (VL_TM_OFFSET l) + i) in
  if andb (Nat.eqb mr 1) (Nat.eqb mc 2) then
    Filled m
      [ts 0 -! g m 0 *! tx 0 -! g m 1 *! tx 2; ts 1 -! g m 0 *! tx 1 -! g m 1 *! tx 3;
       ts 1 -! g m 2 *! tx 3 -! g m 3 *! tx 1; ts 0 -! g m 2 *! tx 2 -! g m 3 *! tx 0]
      [oopp O (ti 0) +! g m 0 *! tm 0 +! g m 1 *! tm 2; oopp O (ti 1) +! g m 0 *! tm 1 +! g m 1 *! tm 3;
       oopp O (ti 1) +! g m 2 *! tm 3 +! g m 3 *! tm 1; oopp O (ti 0) +! g m 2 *! tm 2 +! g m 3 *! tm 0]
  else if negb (Nat.eqb mr mc) then FAssert
  else
    Filled m
      (build (mr * p) (fun cell => let r := cell / p in let c := cell mod p in
          fold_left (fun acc k => acc -! g m (r * mc + k) *! tx (k * p + c)) (seq 0 mc) (ts cell)))
      (build (mr * p) (fun cell => let r := cell / p in let c := cell mod p in
          fold_left (fun acc k => acc +! g m (r * mc + k) *! tm (k * p + c)) (seq 0 mc) (oopp O (ti cell)))).

Definition fill_u16 (ty : caltype) (mr mc : nat) (e m : list O) : fres O :=
  let l := layout ty (Z.of_nat mr) (Z.of_nat mc) in
  let p := Nat.max mr mc in
  let um i := g e (zn (VL_UM_OFFSET l) + i) in let ui i := g e (zn (VL_UI_OFFSET l) + i) in
  let ux i := g e (zn (VL_UX_OFFSET l) + i) in let us i := g e (zn (VL_US_OFFSET l) + i) in
  if andb (Nat.eqb mr 2) (Nat.eqb mc 1) then
    Filled m
      [us 0 +! g m 0 *! ux 0 +! g m 2 *! ux 1; us 1 +! g m 1 *! ux 3 +! g m 3 *! ux 2;
       us 1 +! g m 0 *! ux 2 +! g m 2 *! ux 3; us 0 +! g m 1 *! ux 1 +! g m 3 *! ux 0]
      [ui 0 +! g m 0 *! um 0 +! g m 2 *! um 1; ui 1 +! g m 1 *! um 3 +! g m 3 *! um 2;
       ui 1 +! g m 0 *! um 2 +! g m 2 *! um 3; ui 0 +! g m 1 *! um 1 +! g m 3 *! um 0]
  else if negb (Nat.eqb mr mc) then FAssert
  else
    Filled m
      (build (p * mc) (fun cell => let r := cell / mc in let c := cell mod mc in
          fold_left (fun acc k => acc +! g m (k * mc + c) *! ux (r * mr + k)) (seq 0 mr) Z0 +! us cell))
      (build (p * mc) (fun cell => let r := cell / mc in let c := cell mod mc in
          fold_left (fun acc k => acc +! g m (k * mc + c) *! um (r * mr + k)) (seq 0 mr) Z0 +! ui cell)).

Definition fill_ue14 (ty : caltype) (mr mc : nat) (e m : list O) : fres O :=
  let l := layout ty (Z.of_nat mr) (Z.of_nat mc) in
  let p := Nat.max mr mc in
  let el i := g e (zn (VL_EL_OFFSET l) + i) in
  if andb (Nat.eqb mr 2) (Nat.eqb mc 1) then
    let um i := g e (zn (VL_UM_OFFSET l) + i) in let ui i := g e (zn (VL_UI_OFFSET l) + i) in
    let ux i := g e (zn (VL_UX_OFFSET l) + i) in let us i := g e (zn (VL_US_OFFSET l) + i) in
    let m := updl (updl m 1 (g m 1 -! el 0)) 2 (g m 2 -! el 0) in
    Filled m
      [us 0 +! g m 0 *! ux 0; g m 1 *! ux 1; g m 2 *! ux 1; us 0 +! g m 3 *! ux 0]
      [ui 0 +! g m 0 *! um 0; g m 1 *! um 1; g m 2 *! um 1; ui 0 +! g m 3 *! um 0]
  else if negb (Nat.eqb mr mc) then FAssert
  else
    let m := sub_leak mr mc m el in
    let um c i := g e (zn (VL_UM14_OFFSET l (Z.of_nat c)) + i) in
    let ui c := g e (zn (VL_UI14_OFFSET l (Z.of_nat c))) in
    let ux c i := g e (zn (VL_UX14_OFFSET l (Z.of_nat c)) + i) in
    let us c := g e (zn (VL_US14_OFFSET l (Z.of_nat c))) in
    Filled m
      (build (p * mc) (fun cell => let r := cell / mc in let c := cell mod mc in
          let v := g m cell *! ux c r in if Nat.eqb r c then v +! us c else v))
      (build (p * mc) (fun cell => let r := cell / mc in let c := cell mod mc in
          let v := g m cell *! um c r in if Nat.eqb r c then v +! ui c else v)).

Definition fill_e12 (ty : caltype) (mr mc : nat) (e m : list O) : fres O :=
  let l := layout ty (Z.of_nat mr) (Z.of_nat mc) in
  let el c i := g e (zn (VL_EL12_OFFSET l (Z.of_nat c)) + i) in
  let er c i := g e (zn (VL_ER12_OFFSET l (Z.of_nat c)) + i) in
  let em c i := g e (zn (VL_EM12_OFFSET l (Z.of_nat c)) + i) in
  if andb (Nat.eqb mr 2) (Nat.eqb mc 1) then
    let m := [g m 0 -! el 0 0; g m 1 -! el 0 1; g m 2 -! el 0 1; g m 3 -! el 0 0] in
    let b := [g m 0 /! er 0 0; g m 1 /! er 0 1; g m 2 /! er 0 1; g m 3 /! er 0 0] in
    Filled m
      [ONE +! em 0 0 *! g b 0; em 0 1 *! g b 1; em 0 1 *! g b 2; ONE +! em 0 0 *! g b 3]
      b
  else if negb (Nat.eqb mr mc) then FAssert
  else
    let x cell := let r := cell / mc in let c := cell mod mc in (g m cell -! el c r) /! er c r in
    Filled m
      (build (mr * mc) (fun cell => let r := cell / mc in let c := cell mod mc in
          (if Nat.eqb r c then ONE else Z0) +! em c r *! x cell))
      (build (mr * mc) x).

(* the shape test and the switch of _vnacal_apply_common *)
Definition apply_fill (ty : caltype) (mr mc : nat) (e m : list O) : fres O :=
  if andb (negb (Nat.eqb mr mc)) (negb (Nat.eqb (Nat.max mr mc) 2)) then Refused else
  match ty with
  | T8 | TE10 => fill_t8 ty mr mc e m
  | U8 | UE10 => fill_u8 ty mr mc e m
  | T16 => fill_t16 ty mr mc e m
  | U16 => fill_u16 ty mr mc e m
  | UE14 | E12_UE14 => fill_ue14 ty mr mc e m
  | E12 => fill_e12 ty mr mc e m
  end.

(* ---------------------------------------------------------------- specification: block expressions *)
(* matrices are functions of (row, column) *)
Definition blk (full : bool) (off cols : nat) (e : list O) (i j : nat) : O :=
  if full then g e (off + i * cols + j) else if Nat.eqb i j then g e (off + i) else Z0.
Definition sumk (n : nat) (f : nat -> O) : O := fold_left (fun acc k => acc +! f k) (seq 0 n) Z0.

(* leakage outside of the linear system: M' = M - El on the off-diagonal cells (row-major numbering) *)
Definition leak_index (mc r c : nat) : nat := r * mc + c - (Nat.min r mc + (if Nat.ltb r c then 1 else 0)).
Definition m_minus_el (has : bool) (el : nat -> O) (mc : nat) (mu : nat -> nat -> O) (r c : nat) : O :=
  if andb has (negb (Nat.eqb r c)) then mu r c -! el (leak_index mc r c) else mu r c.

(* one measured row (T) / column (U) gives one row / column of A and B:
   T:  A_row = Ts[i,:] - mu Tx         B_row = mu Tm - Ti[i,:]
   U:  A_col = Ux nu + Us[:,c]         B_col = Um nu + Ui[:,c]                                *)
Section Blocks.
Variables (ty : caltype) (mr mc : nat) (e : list O).
Let l := layout ty (Z.of_nat mr) (Z.of_nat mc).
Let p := Nat.max mr mc.
Let full := orb (caltype_eqb ty T16) (caltype_eqb ty U16).

Definition specT_rowA (i : nat) (mu : nat -> O) (j : nat) : O :=
  blk full (zn (VL_TS_OFFSET l)) p e i j -! sumk mc (fun k => mu k *! blk full (zn (VL_TX_OFFSET l)) p e k j).
Definition specT_rowB (i : nat) (mu : nat -> O) (j : nat) : O :=
  sumk mc (fun k => mu k *! blk full (zn (VL_TM_OFFSET l)) p e k j) -! blk full (zn (VL_TI_OFFSET l)) p e i j.
Definition specU_colA (c : nat) (nu : nat -> O) (i : nat) : O :=
  sumk mr (fun k => blk full (zn (VL_UX_OFFSET l)) mr e i k *! nu k) +! blk full (zn (VL_US_OFFSET l)) mc e i c.
Definition specU_colB (c : nat) (nu : nat -> O) (i : nat) : O :=
  sumk mr (fun k => blk full (zn (VL_UM_OFFSET l)) mr e i k *! nu k) +! blk full (zn (VL_UI_OFFSET l)) mc e i c.
(* UE14: column c has its own diagonal Um, Ux and the scalars Ui, Us in row c *)
Definition spec14_colA (c : nat) (nu : nat -> O) (i : nat) : O :=
  g e (zn (VL_UX14_OFFSET l (Z.of_nat c)) + i) *! nu i +!
  (if Nat.eqb i c then g e (zn (VL_US14_OFFSET l (Z.of_nat c))) else Z0).
Definition spec14_colB (c : nat) (nu : nat -> O) (i : nat) : O :=
  g e (zn (VL_UM14_OFFSET l (Z.of_nat c)) + i) *! nu i +!
  (if Nat.eqb i c then g e (zn (VL_UI14_OFFSET l (Z.of_nat c))) else Z0).
(* E12: B_col = Er_c^-1 (nu - El_c),  A_col = e_c + Em_c B_col *)
Definition spec12_colB (c : nat) (nu : nat -> O) (i : nat) : O :=
  (nu i -! g e (zn (VL_EL12_OFFSET l (Z.of_nat c)) + i)) /! g e (zn (VL_ER12_OFFSET l (Z.of_nat c)) + i).
Definition spec12_colA (c : nat) (nu : nat -> O) (i : nat) : O :=
  (if Nat.eqb i c then ONE else Z0) +! g e (zn (VL_EM12_OFFSET l (Z.of_nat c)) + i) *! spec12_colB c nu i.

Definition has_leak : bool :=
  orb (orb (caltype_eqb ty TE10) (caltype_eqb ty UE10)) (orb (caltype_eqb ty UE14) (caltype_eqb ty E12_UE14)).
Definition el_at (k : nat) : O := g e (zn (VL_EL_OFFSET l) + k).

(* (A, B) for a p x p matrix m handed to apply, by rows.  Square calibrations: row i (T) / column c (U)
   of M - El.  1x2: row 0 is the measured 1x2 row [m11 m12]; row 1 is the row measured with the DUT
   turned round, [m22 m21], with the columns of its (A, B) row exchanged.  2x1: dually by columns. *)
Definition spec_fill (m : list O) : list O * list O :=
  let is_t := VNACAL_IS_T ty in
  let sq := Nat.eqb mr mc in
  let colA := if caltype_eqb ty E12 then spec12_colA
              else if VNACAL_IS_UE14 ty then spec14_colA else specU_colA in
  let colB := if caltype_eqb ty E12 then spec12_colB
              else if VNACAL_IS_UE14 ty then spec14_colB else specU_colB in
  if is_t then
    let mu (i : nat) : nat -> O :=
      if sq then (fun k => m_minus_el has_leak el_at mc (fun r c => g m (r * mc + c)) i k)
      else if Nat.eqb i 0 then (fun k => m_minus_el has_leak el_at mc (fun r c => g m c) 0 k)
      else (fun k => m_minus_el has_leak el_at mc (fun r c => g m (3 - c)) 0 k) in
    let cell f := build (p * p) (fun cell => let i := cell / p in let j := cell mod p in
                    if sq then f i (mu i) j
                    else if Nat.eqb i 0 then f 0 (mu 0) j else f 0 (mu 1) (1 - j)) in
    (cell specT_rowA, cell specT_rowB)
  else
    let nu (c : nat) : nat -> O :=
      if sq then (fun k => m_minus_el has_leak el_at mc (fun r c' => g m (r * mc + c')) k c)
      else if Nat.eqb c 0 then (fun k => m_minus_el has_leak el_at mc (fun r c' => g m (2 * r)) k 0)
      else (fun k => m_minus_el has_leak el_at mc (fun r c' => g m (3 - 2 * r)) k 0) in
    let cell f := build (p * p) (fun cell => let i := cell / p in let j := cell mod p in
                    if sq then f j (nu j) i
                    else if Nat.eqb j 0 then f 0 (nu 0) i else f 0 (nu 1) (1 - i)) in
    (cell colA, cell colB).
End Blocks.
End Fill.
