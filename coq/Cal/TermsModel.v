(* Executable model of vnacal_new_build_equation_terms.c: the five term builders, as coded.
   Indices are nat; absent factors (m, s) and the right-hand side (xindex) are -1 as in the C code.
   An `assert' of the C code that fails is reported as BAssert (the library aborts).  No proofs here. *)
Require Import List ZArith Bool Arith.
Require Import LV.Gen.LayoutGen.
Import ListNotations.
Local Open Scope nat_scope.

Inductive scell := SNull | SZero | SParam (h : Z).

Definition scell_is_null (s : scell) : bool := match s with SNull => true | _ => false end.
Definition scell_is_zero (s : scell) : bool := match s with SZero => true | _ => false end.

Record term := mkTerm { t_x : Z; t_neg : bool; t_m : Z; t_s : Z; t_v : Z }.

(* add_term: the term is also linked on the no-V thread when v % (v_columns + 1) == 0 *)
Definition t_nov (vcols : nat) (t : term) : bool :=
  Z.eqb (Z.modulo (t_v t) (Z.of_nat vcols + 1)) 0.

(* one measured standard as the builders see it *)
Record mctx := mkCtx {
  c_mr : nat;                 (* VL_M_ROWS *)
  c_mc : nat;                 (* VL_M_COLUMNS *)
  c_s : nat -> scell;         (* vnm_s_matrix *)
  c_conn : nat -> bool;       (* vnm_connectivity_matrix (8/10/14-term types only) *)
  c_mgiven : nat -> bool      (* vnm_m_matrix[cell] != NULL *)
}.

Inductive titem := Tm (t : term) | AssertFail (which : nat).

Definition zn (n : nat) : Z := Z.of_nat n.
Definition tm (x : Z) (neg : bool) (m s v : Z) : titem := Tm (mkTerm x neg m s v).
Definition none : Z := (-1)%Z.

(* assert(vnprp != NULL); if (vnprp != vn_zero) [assert(m given);] add_term *)
Definition s_term (c : mctx) (s_cell : nat) (need_m : option nat) (t : titem) : list titem :=
  match c_s c s_cell with
  | SNull => [AssertFail 1]
  | SZero => []
  | SParam _ =>
      match need_m with
      | Some m_cell => if c_mgiven c m_cell then [t] else [AssertFail 2]
      | None => [t]
      end
  end.

Definition m_term (c : mctx) (m_cell : nat) (t : titem) : list titem :=
  if c_mgiven c m_cell then [t] else [AssertFail 2].

(* ---------------------------------------------------------------- build_terms_t8 (T8, TE10) *)
Definition build_terms_t8 (c : mctx) (eq_row eq_column : nat) : list titem :=
  let m_rows := c_mr c in let m_columns := c_mc c in
  let base0 := 0 in
  let ts :=
    flat_map (fun v_row =>
      let s_cell := eq_row * m_columns + v_row in
      let v_cell := v_row * m_columns + eq_column in
      if negb (c_conn c v_cell) then [] else
      s_term c s_cell None (tm (zn (base0 + eq_row)) true none (zn s_cell) (zn v_cell)))
      (seq 0 m_columns) in
  let base1 := base0 + m_rows in
  let ti :=
    let v_cell := eq_row * m_columns + eq_column in
    if c_conn c v_cell then [tm (zn (base1 + eq_row)) true none none (zn v_cell)] else [] in
  let base2 := base1 + m_rows in
  let tx :=
    flat_map (fun tx_d =>
      let m_cell := eq_row * m_columns + tx_d in
      flat_map (fun v_row =>
        let s_cell := tx_d * m_columns + v_row in
        let v_cell := v_row * m_columns + eq_column in
        if negb (c_conn c v_cell) then [] else
        s_term c s_cell (Some m_cell) (tm (zn (base2 + tx_d)) false (zn m_cell) (zn s_cell) (zn v_cell)))
        (seq 0 m_columns))
      (seq 0 m_columns) in
  let base3 := base2 + m_columns in
  let tmm :=
    flat_map (fun tm_d =>
      let m_cell := eq_row * m_columns + tm_d in
      let v_cell := tm_d * m_columns + eq_column in
      if negb (c_conn c v_cell) then [] else
      m_term c m_cell
        (if Nat.eqb tm_d 0 then tm none true (zn m_cell) none (zn v_cell)
         else tm (zn (base3 + tm_d - 1)) false (zn m_cell) none (zn v_cell)))
      (seq 0 m_columns) in
  ts ++ ti ++ tx ++ tmm.

(* ---------------------------------------------------------------- build_terms_u8 (U8, UE10) *)
Definition build_terms_u8 (c : mctx) (eq_row eq_column : nat) : list titem :=
  let m_rows := c_mr c in let m_columns := c_mc c in
  let um :=
    flat_map (fun um_d =>
      let v_cell := eq_row * m_rows + um_d in
      let m_cell := um_d * m_columns + eq_column in
      if negb (c_conn c v_cell) then [] else
      m_term c m_cell
        (if Nat.eqb um_d 0 then tm none true (zn m_cell) none (zn v_cell)
         else tm (zn (0 + um_d - 1)) false (zn m_cell) none (zn v_cell)))
      (seq 0 m_rows) in
  let base1 := m_rows - 1 in
  let ui :=
    let v_cell := eq_row * m_rows + eq_column in
    if c_conn c v_cell then [tm (zn (base1 + eq_column)) false none none (zn v_cell)] else [] in
  let base2 := base1 + m_columns in
  let ux :=
    flat_map (fun ux_d =>
      let m_cell := ux_d * m_columns + eq_column in
      flat_map (fun v_column =>
        let v_cell := eq_row * m_rows + v_column in
        let s_cell := v_column * m_rows + ux_d in
        if negb (c_conn c v_cell) then [] else
        s_term c s_cell (Some m_cell) (tm (zn (base2 + ux_d)) true (zn m_cell) (zn s_cell) (zn v_cell)))
        (seq 0 m_rows))
      (seq 0 m_rows) in
  let base3 := base2 + m_rows in
  let us :=
    flat_map (fun v_column =>
      let v_cell := eq_row * m_rows + v_column in
      let s_cell := v_column * m_rows + eq_column in
      if negb (c_conn c v_cell) then [] else
      s_term c s_cell None (tm (zn (base3 + eq_column)) true none (zn s_cell) (zn v_cell)))
      (seq 0 m_rows) in
  um ++ ui ++ ux ++ us.

(* in the 16-term builders a NULL S cell is not skipped: `if (vnprp != NULL && vnprp == vn_zero) continue' *)
Definition s16 (c : mctx) (s_cell : nat) (t : titem) : list titem :=
  if scell_is_zero (c_s c s_cell) then [] else [t].

(* ---------------------------------------------------------------- build_terms_t16 *)
Definition build_terms_t16 (c : mctx) (eq_row eq_column : nat) : list titem :=
  let m_rows := c_mr c in let m_columns := c_mc c in
  let ts :=
    flat_map (fun ts_column =>
      let ts_cell := eq_row * m_columns + ts_column in
      flat_map (fun v_row =>
        let s_cell := ts_column * m_columns + v_row in
        let v_cell := v_row * m_columns + eq_column in
        s16 c s_cell (tm (zn (0 + ts_cell)) true none (zn s_cell) (zn v_cell)))
        (seq 0 m_columns))
      (seq 0 m_columns) in
  let base1 := m_rows * m_columns in
  let ti :=
    map (fun ti_column =>
      let ti_cell := eq_row * m_columns + ti_column in
      let v_cell := ti_column * m_columns + eq_column in
      tm (zn (base1 + ti_cell)) true none none (zn v_cell))
      (seq 0 m_columns) in
  let base2 := base1 + m_rows * m_columns in
  let tx :=
    flat_map (fun tx_row =>
      flat_map (fun tx_column =>
        let tx_cell := tx_row * m_columns + tx_column in
        let m_cell := eq_row * m_columns + tx_row in
        if negb (c_mgiven c m_cell) then [AssertFail 2] else
        flat_map (fun v_row =>
          let v_cell := v_row * m_columns + eq_column in
          let s_cell := tx_column * m_columns + v_row in
          s16 c s_cell (tm (zn (base2 + tx_cell)) false (zn m_cell) (zn s_cell) (zn v_cell)))
          (seq 0 m_columns))
        (seq 0 m_columns))
      (seq 0 m_columns) in
  let base3 := base2 + m_columns * m_columns in
  let tmm :=
    flat_map (fun tm_row =>
      flat_map (fun tm_column =>
        let tm_cell := tm_row * m_columns + tm_column in
        let m_cell := eq_row * m_columns + tm_row in
        let v_cell := tm_column * m_columns + eq_column in
        m_term c m_cell
          (if Nat.eqb tm_cell 0 then tm none true (zn m_cell) none (zn v_cell)
           else tm (zn (base3 + tm_cell - 1)) false (zn m_cell) none (zn v_cell)))
        (seq 0 m_columns))
      (seq 0 m_columns) in
  ts ++ ti ++ tx ++ tmm.

(* ---------------------------------------------------------------- build_terms_u16 *)
Definition build_terms_u16 (c : mctx) (eq_row eq_column : nat) : list titem :=
  let m_rows := c_mr c in let m_columns := c_mc c in
  let um :=
    flat_map (fun um_row =>
      flat_map (fun um_column =>
        let um_cell := um_row * m_rows + um_column in
        let v_cell := eq_row * m_rows + um_row in
        let m_cell := um_column * m_columns + eq_column in
        m_term c m_cell
          (if Nat.eqb um_cell 0 then tm none true (zn m_cell) none (zn v_cell)
           else tm (zn (0 + um_cell - 1)) false (zn m_cell) none (zn v_cell)))
        (seq 0 m_rows))
      (seq 0 m_rows) in
  let base1 := m_rows * m_rows - 1 in
  let ui :=
    map (fun ui_row =>
      let ui_cell := ui_row * m_columns + eq_column in
      let v_cell := eq_row * m_rows + ui_row in
      tm (zn (base1 + ui_cell)) false none none (zn v_cell))
      (seq 0 m_rows) in
  let base2 := base1 + m_rows * m_columns in
  let ux :=
    flat_map (fun ux_row =>
      flat_map (fun ux_column =>
        let ux_cell := ux_row * m_rows + ux_column in
        let m_cell := ux_column * m_columns + eq_column in
        if negb (c_mgiven c m_cell) then [AssertFail 2] else
        flat_map (fun v_column =>
          let v_cell := eq_row * m_rows + v_column in
          let s_cell := v_column * m_rows + ux_row in
          s16 c s_cell (tm (zn (base2 + ux_cell)) true (zn m_cell) (zn s_cell) (zn v_cell)))
          (seq 0 m_rows))
        (seq 0 m_rows))
      (seq 0 m_rows) in
  let base3 := base2 + m_rows * m_rows in
  let us :=
    flat_map (fun us_row =>
      let us_cell := us_row * m_columns + eq_column in
      flat_map (fun v_column =>
        let v_cell := eq_row * m_rows + v_column in
        let s_cell := v_column * m_rows + us_row in
        s16 c s_cell (tm (zn (base3 + us_cell)) true none (zn s_cell) (zn v_cell)))
        (seq 0 m_rows))
      (seq 0 m_rows) in
  um ++ ui ++ ux ++ us.

(* ---------------------------------------------------------------- build_terms_ue14 (UE14, E12 while solving) *)
Definition build_terms_ue14 (c : mctx) (eq_row eq_column : nat) : list titem :=
  let m_rows := c_mr c in let m_columns := c_mc c in
  (* base_coefficient is decremented when the unity term (um_d == eq_column) is emitted *)
  let um :=
    flat_map (fun um_d =>
      let m_cell := um_d * m_columns + eq_column in
      let v_cell := eq_row * m_rows + um_d in
      if negb (c_conn c v_cell) then [] else
      m_term c m_cell
        (if Nat.eqb um_d eq_column then tm none true (zn m_cell) none (zn v_cell)
         else
           (* base_coefficient is -1 after the unity term has been emitted, 0 before *)
           let emitted := andb (Nat.ltb eq_column um_d) (c_conn c (eq_row * m_rows + eq_column)) in
           tm (if emitted then (zn um_d - 1)%Z else zn um_d) false (zn m_cell) none (zn v_cell)))
      (seq 0 m_rows) in
  (* after the loop: base = m_rows - 1 if the unity term was emitted, else m_rows *)
  let unity_emitted := andb (Nat.ltb eq_column m_rows) (c_conn c (eq_row * m_rows + eq_column)) in
  let base1 := if unity_emitted then m_rows - 1 else m_rows in
  let ui :=
    let v_cell := eq_row * m_rows + eq_column in
    if c_conn c v_cell then [tm (zn base1) false none none (zn v_cell)] else [] in
  let base2 := base1 + 1 in
  let ux :=
    flat_map (fun ux_d =>
      let m_cell := ux_d * m_columns + eq_column in
      flat_map (fun v_column =>
        let v_cell := eq_row * m_rows + v_column in
        let s_cell := v_column * m_rows + ux_d in
        if negb (c_conn c v_cell) then [] else
        s_term c s_cell (Some m_cell) (tm (zn (base2 + ux_d)) true (zn m_cell) (zn s_cell) (zn v_cell)))
        (seq 0 m_rows))
      (seq 0 m_rows) in
  let base3 := base2 + m_rows in
  let us :=
    flat_map (fun v_column =>
      let v_cell := eq_row * m_rows + v_column in
      let s_cell := v_column * m_rows + eq_column in
      if negb (c_conn c v_cell) then [] else
      s_term c s_cell None (tm (zn base3) true none (zn s_cell) (zn v_cell)))
      (seq 0 m_rows) in
  um ++ ui ++ ux ++ us.

(* ---------------------------------------------------------------- dispatcher *)
Inductive bres := BOk (l : list term) | BAssert (which : nat) | BAbort.

Fixpoint collect (l : list titem) (acc : list term) : bres :=
  match l with
  | [] => BOk (rev acc)
  | Tm t :: r => collect r (t :: acc)
  | AssertFail w :: _ => BAssert w
  end.

Definition build_terms (ty : caltype) (c : mctx) (eq_row eq_column : nat) : bres :=
  match ty with
  | T8 | TE10 => collect (build_terms_t8 c eq_row eq_column) []
  | U8 | UE10 => collect (build_terms_u8 c eq_row eq_column) []
  | T16 => collect (build_terms_t16 c eq_row eq_column) []
  | U16 => collect (build_terms_u16 c eq_row eq_column) []
  | UE14 | E12_UE14 => collect (build_terms_ue14 c eq_row eq_column) []
  | E12 => BAbort
  end.

(* v_columns argument of add_term *)
Definition v_columns_of (ty : caltype) (mr mc : nat) : nat := if VNACAL_IS_T ty then mc else mr.
