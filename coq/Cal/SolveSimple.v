(* Executable model of one frequency of vnacal_new_solve without unknown parameters and without
   measurement-error modelling, as coded: leakage sums of _vnacal_new_solve_start_frequency, the
   measured values with the leakage means subtracted, assembly of the coefficient matrix and right-hand
   side from the no-V term threads (_vnacal_new_solve_simple), insertion of the unity term, the leakage
   terms and convert_ue14_to_e12 (_vnacal_new_solve_internal).  Written over Sym.Ops.  The solver
   itself (LU / QR) is supplied by the instantiation.  No proofs here. *)
Require Import List ZArith Bool Arith.
Require Import LV.Base.CField LV.Gen.LayoutGen LV.Cal.Sym LV.Cal.TermsModel LV.Cal.AddModel LV.Cal.ApplyModel.
Import ListNotations.
Local Open Scope nat_scope.

Section Solve.
Variable O : Ops.
Notation "x +! y" := (oadd O x y) (at level 50, left associativity).
Notation "x -! y" := (osub O x y) (at level 50, left associativity).
Notation "x *! y" := (omul O x y) (at level 40, left associativity).
Notation "x /! y" := (odiv O x y) (at level 40, left associativity).
Notation Z0 := (o0 O).
Notation ONE := (o1 O).

Fixpoint onat (n : nat) : O := match n with 0 => Z0 | S k => onat k +! ONE end.

Variables (ty : caltype) (mr mc : nat).
Let p := Nat.max mr mc.
Let l := layout ty (Z.of_nat mr) (Z.of_nat mc).

(* a measured standard with its values at the current frequency *)
Record mvals := mkMV { mv_meas : measurement; mv_m : list O }.   (* mr*mc values, given cells only matter *)

Definition offdiag_cells : list (nat * nat) :=
  flat_map (fun r => flat_map (fun c => if Nat.eqb r c then [] else [(r, c)]) (seq 0 mc)) (seq 0 mr).

(* vnlt_sum, vnlt_count of the cell: measurements in which the cell was given and the standard has no
   path between the two ports *)
Definition leak_acc (ms : list mvals) (rc : nat * nat) : O * nat :=
  let '(r, c) := rc in
  fold_left (fun acc mv =>
    let m := mv_meas mv in
    let conn := match ms_conn m with Some cm => nth (r * p + c) cm false | None => true end in
    if andb (nth (r * mc + c) (ms_m_given m) false) (negb conn)
    then (fst acc +! g O (mv_m mv) (r * mc + c), S (snd acc)) else acc) ms (Z0, 0).

Definition leak_mean (ms : list mvals) (rc : nat * nat) : option O :=
  let '(s, n) := leak_acc ms rc in if Nat.eqb n 0 then None else Some (s /! onat n).

Definition has_outside_leakage : bool := VNACAL_HAS_OUTSIDE_LEAKAGE_TERMS ty.

(* vnmm_m_matrix: measured value minus the leakage mean of its cell *)
Definition m_adjusted (ms : list mvals) (mv : mvals) (cell : nat) : O :=
  let r := cell / mc in let c := cell mod mc in
  let v := g O (mv_m mv) cell in
  if andb has_outside_leakage (negb (Nat.eqb r c)) then
    match leak_mean ms (r, c) with Some x => v -! x | None => v end
  else v.

Variable pval : Z -> O.           (* value of a (known) parameter at the current frequency *)

Definition s_value (m : measurement) (cell : nat) : O :=
  match nth cell (ms_s m) SNull with SParam h => pval h | _ => Z0 end.

Definition unknowns : nat := Z.to_nat (vl_t_terms l) - 1.

(* one row of a_matrix and the entry of b_vector: value = (neg ? -1 : 1) [* m] [* s] accumulated *)
Definition row_of (ms : list mvals) (ie : nat * equation) : list O * O :=
  let '(i, e) := ie in
  let mv := nth i ms (mkMV (mkMeas [] [] None []) []) in
  let vcols := v_columns_of ty mr mc in
  fold_left (fun ab t =>
    if negb (t_nov vcols t) then ab else
    let v0 := if t_neg t then Z0 -! ONE else ONE in
    let v1 := if Z.ltb (t_m t) 0 then v0 else v0 *! m_adjusted ms mv (Z.to_nat (t_m t)) in
    let v2 := if Z.ltb (t_s t) 0 then v1 else v1 *! s_value (mv_meas mv) (Z.to_nat (t_s t)) in
    if Z.ltb (t_x t) 0 then (fst ab, snd ab +! v2)
    else (updl (fst ab) (Z.to_nat (t_x t)) (g O (fst ab) (Z.to_nat (t_x t)) +! v2), snd ab))
    (e_terms e) (repeat Z0 unknowns, Z0).

Definition assemble (ms : list mvals) (sys : nat) : list (list O * O) :=
  map (row_of ms) (system_equations ty (map mv_meas ms) sys).

(* e_vector: the solutions of the systems with the unity term inserted, then the leakage terms *)
Definition insert_unity (sys : nat) (x : list O) : list O :=
  let u := Z.to_nat (vl_unity_offset l (Z.of_nat sys)) in
  firstn u x ++ [ONE] ++ skipn u x.

Definition leak_terms (ms : list mvals) : list O :=
  if has_outside_leakage then
    map (fun rc => match leak_mean ms rc with Some x => x | None => Z0 end) offdiag_cells
  else [].

Definition e_vector (ms : list mvals) (xs : list (list O)) : list O :=
  concat (map (fun sx => insert_unity (fst sx) (snd sx)) (combine (seq 0 (length xs)) xs)) ++ leak_terms ms.

(* convert_ue14_to_e12 (the input vector has the layout of E12_UE14 mr x mc) *)
Definition convert_ue14_to_e12 (e : list O) : list O :=
  let li := layout E12_UE14 (Z.of_nat mr) (Z.of_nat mc) in
  let el_in k := g O e (zn (VL_EL_OFFSET li) + k) in
  concat (map (fun c =>
    let um i := g O e (zn (VL_UM14_OFFSET li (Z.of_nat c)) + i) in
    let ui := g O e (zn (VL_UI14_OFFSET li (Z.of_nat c))) in
    let ux i := g O e (zn (VL_UX14_OFFSET li (Z.of_nat c)) + i) in
    let us := g O e (zn (VL_US14_OFFSET li (Z.of_nat c))) in
    let n := us -! ui *! ux c /! um c in
    map (fun r => if Nat.eqb r c then (Z0 -! ui) /! um c else el_in (leak_index mc r c)) (seq 0 mr) ++
    map (fun r => n /! um r) (seq 0 mr) ++
    map (fun r => ux r /! um r) (seq 0 mr)) (seq 0 mc)).
End Solve.
