(* The hypotheses of EndToEndLeak.leak_rows_satisfied_lemma are met by a concrete calibration: 2 x 2 TE10 at the
   Gaussian rationals, ideal core network, leakage El12 = 1/4 + i/8, El21 = 1/3, two standards of the family
   zcfgs: a two-port with S12 = S21 = known zero (S11 = -1, S22 = 1/2) and a reflect on port 1 (port 2 left
   to an unknown termination, value 0 here); the system has 3 rows, all satisfied, and the saved leakage terms are El. *)
Require Import List ZArith Bool Arith Lia QArith Qcanon.
Require Import LV.Base.CField LV.Base.QcI LV.Lin.LuGenA.
Require Import LV.Gen.LayoutGen LV.Cal.Sym LV.Cal.TermsModel LV.Cal.AddModel LV.Cal.ApplyModel LV.Cal.SolveSimple
               LV.Cal.LeakProofs LV.Cal.ApplyIdentity LV.Cal.AssembleIdentity LV.Cal.AssembleList
               LV.Cal.LeakPhysical LV.Cal.LeakPhysicalEx LV.Cal.EndToEndLeak.
Import ListNotations.
Local Open Scope nat_scope.
Add Field qif_e2lx : (cth QIF).

Definition ly_c1 : zcfg := (TE10, (2, 2), [1; 2], [false; true; true; false]).
Definition ly_c2 : zcfg := (TE10, (2, 2), [1], [false]).
Definition ly_meas (c : zcfg) : measurement :=
  match add_common (zcfg_args c) with Accepted m => m | _ => mkMeas [] [] None [] end.
Definition ly_pv (h : Z) : qi := if Z.eqb h 3 then mkqi (-1) 1 0 1 else mkqi 1 2 0 1.
Definition ly_ms : list (mvals QO) :=
  [mkMV QO (ly_meas ly_c1) [ly_pv 3; lx_el 0 1; lx_el 1 0; ly_pv 6];
   mkMV QO (ly_meas ly_c2) [ly_pv 3; lx_el 0 1; lx_el 1 0; qi0]].

Ltac two i Hi := destruct i as [|[|i]]; [| |exfalso; lia].
Ltac qdec := apply qi_eqb_eq; vm_compute; reflexivity.
Ltac keq := match goal with |- @eq _ ?x ?y => change (@eq (F QIF) x y) end.

Lemma ly_kernel mv : In mv ly_ms ->
  left_kernel_trivial QIF 2 (NT QIF 2 (Sof QIF 2 2 ly_pv lx_fx mv) (te_Tx QIF 2 2 lx_fe) (te_Tm QIF 2 2 lx_fe)).
Proof.
  intros Hmv x H k Hk.
  assert (N00 : forall mv', In mv' ly_ms -> forall a j, a < 2 -> j < 2 ->
            NT QIF 2 (Sof QIF 2 2 ly_pv lx_fx mv') (te_Tx QIF 2 2 lx_fe) (te_Tm QIF 2 2 lx_fe) a j
            = if Nat.eqb a j then @c1 QIF else @c0 QIF).
  { intros mv' [<-|[<-|[]]] a j Ha Hj; two a Ha; two j Hj; qdec. }
  pose proof (H k Hk) as E. cbn [sumf] in E.
  rewrite !(N00 mv Hmv) in E by lia.
  two k Hk; cbn [Nat.eqb] in E.
  - transitivity (cadd (cadd c0 (cmul (x 0) c1)) (cmul (x 1) c0)); [keq; ring | exact E].
  - transitivity (cadd (cadd c0 (cmul (x 0) c0)) (cmul (x 1) c1)); [keq; ring | exact E].
Qed.

Ltac in_zcfgs :=
  apply in_flat_map; exists TE10; split; [simpl; tauto|];
  unfold zcfgs_for; apply in_flat_map; exists (2, 2); split; [vm_compute; tauto|];
  vm_compute; repeat (first [left; reflexivity | right]).

Example leak_rows_satisfied_nonvacuous :
  (forall mv, In mv ly_ms ->
     std_of QIF TE10 2 2 mv /\ network_of QIF 2 2 lx_fe ly_pv lx_fx lx_core TE10 mv /\
     measured_with_leakage QIF 2 2 lx_el lx_core mv) /\
  covered QIF 2 2 lx_el ly_ms /\
  length (assemble QO TE10 2 2 ly_pv ly_ms 0) = 3 /\
  leak_terms QO TE10 2 2 ly_ms = [mkqi 1 4 1 8; mkqi 1 3 0 1] /\
  forall row, In row (assemble QO TE10 2 2 ly_pv ly_ms 0) -> row_res QIF TE10 2 2 lx_fe 0 row = @c0 QIF.
Proof.
  assert (H : forall mv, In mv ly_ms ->
     std_of QIF TE10 2 2 mv /\ network_of QIF 2 2 lx_fe ly_pv lx_fx lx_core TE10 mv /\
     measured_with_leakage QIF 2 2 lx_el lx_core mv).
  { intros mv Hmv. split; [|split; [split|]].
    - destruct Hmv as [<-|[<-|[]]].
      + exists ly_c1. split; [in_zcfgs|]. repeat split; vm_compute; reflexivity.
      + exists ly_c2. split; [in_zcfgs|]. repeat split; vm_compute; reflexivity.
    - intros i j Hi Hj. destruct Hmv as [<-|[<-|[]]]; two i Hi; two j Hj; qdec.
    - exact (ly_kernel mv Hmv).
    - intros r c Hr Hc. destruct Hmv as [<-|[<-|[]]]; two r Hr; two c Hc; qdec. }
  assert (Hcov : covered QIF 2 2 lx_el ly_ms).
  { intros r c Hr Hc Hrc Hn. exfalso. two r Hr; two c Hc; try lia; vm_compute in Hn; discriminate. }
  split; [exact H|]. split; [exact Hcov|]. split; [vm_compute; reflexivity|].
  pose proof (leak_rows_satisfied_lemma QIF 2 2 lx_fe lx_el ly_pv ly_ms lx_fx lx_core onat_qif_nonzero TE10
                (or_introl eq_refl) H Hcov) as [C1 C2].
  split.
  - rewrite C1. apply (f_equal2 (@cons qi)); [qdec|]. apply (f_equal2 (@cons qi)); [qdec|reflexivity].
  - intros row Hrow. apply (C2 0); [vm_compute; lia | exact Hrow].
Qed.
