(* General-n matrix algebra behind calibrate / apply (mathcomp).  F is any field; rounding is not
   modelled.  Kept separate from the stdlib-style model files. *)
From mathcomp Require Import all_ssreflect all_fingroup all_algebra.
Set Implicit Arguments.
Unset Strict Implicit.
Unset Printing Implicit Defensive.
Import GRing.Theory.
Local Open Scope ring_scope.

Section CalAlgebra.
Variable F : fieldType.

Lemma invmx_eq n (X Y : 'M[F]_n) : X *m Y = 1%:M -> invmx X = Y.
Proof.
move=> H; have [UX _] := mulmx1_unit H.
by rewrite -[Y](mulKmx UX) H mulmx1.
Qed.

(* ------------------------------------------------------------------ T terms *)
Section T.
Variables (r p : nat).
Variables (Ts Ti : 'M[F]_(r, p)) (Tx Tm : 'M[F]_(p, p)) (S : 'M[F]_p) (M : 'M[F]_(r, p)).

(* the true terms satisfy the documented equation of every standard:
   M = (Ts S + Ti)(Tx S + Tm)^-1  ->  -Ts S - Ti + M Tx S + M Tm = 0 *)
Lemma true_terms_solve_T :
  Tx *m S + Tm \in unitmx ->
  M = (Ts *m S + Ti) *m invmx (Tx *m S + Tm) ->
  - (Ts *m S) - Ti + M *m Tx *m S + M *m Tm = 0.
Proof.
move=> U ->.
rewrite -(mulmxA _ Tx S) -addrA -mulmxDr -mulmxA mulVmx // mulmx1.
by rewrite -opprD addNr.
Qed.

(* conversely, the equation determines M *)
Lemma equation_gives_M_T :
  Tx *m S + Tm \in unitmx ->
  - (Ts *m S) - Ti + M *m Tx *m S + M *m Tm = 0 ->
  M = (Ts *m S + Ti) *m invmx (Tx *m S + Tm).
Proof.
move=> U H.
have E : M *m (Tx *m S + Tm) = Ts *m S + Ti.
  rewrite mulmxDr mulmxA.
  move: H; rewrite -opprD -addrA => /eqP; rewrite addrC subr_eq0 => /eqP <-.
  by [].
by rewrite -E -mulmxA mulmxV // mulmx1.
Qed.

(* any scalar multiple of the terms satisfies the same equation (the solver fixes tm11 = 1) *)
Lemma scaled_terms_solve_T (k : F) :
  - (Ts *m S) - Ti + M *m Tx *m S + M *m Tm = 0 ->
  - ((k *: Ts) *m S) - k *: Ti + M *m (k *: Tx) *m S + M *m (k *: Tm) = 0.
Proof.
move=> H.
have -> : - ((k *: Ts) *m S) - k *: Ti + M *m (k *: Tx) *m S + M *m (k *: Tm)
          = k *: (- (Ts *m S) - Ti + M *m Tx *m S + M *m Tm).
  by rewrite !scalerDr !scalerN -!scalemxAr -!scalemxAl.
by rewrite H scaler0.
Qed.
End T.

(* apply for a square calibration: with A = Ts - M Tx and B = M Tm - Ti (fill_t8 / fill_t16),
   A^-1 B is the DUT's S, for any non-zero scalar multiple of the true terms *)
Section ApplyT.
Variables (n : nat).
Variables (Ts Ti Tx Tm S M : 'M[F]_n) (k : F).

Lemma apply_recovers_T :
  k != 0 ->
  Tx *m S + Tm \in unitmx ->
  M = (Ts *m S + Ti) *m invmx (Tx *m S + Tm) ->
  let A := k *: Ts - M *m (k *: Tx) in
  let B := M *m (k *: Tm) - k *: Ti in
  A \in unitmx -> invmx A *m B = S.
Proof.
move=> k0 U HM A B UA.
have E : M *m (Tx *m S + Tm) = Ts *m S + Ti by rewrite HM -mulmxA mulVmx // mulmx1.
have AS : A *m S = B.
  rewrite /A /B -!scalemxAr -!scalerBr -scalemxAl; congr (_ *: _).
  rewrite mulmxBl -mulmxA.
  apply/eqP; rewrite subr_eq addrAC eq_sym subr_eq eq_sym; apply/eqP.
  by rewrite -E mulmxDr addrC.
by rewrite -AS mulKmx.
Qed.
End ApplyT.

(* ------------------------------------------------------------------ U terms *)
Section U.
Variables (p c : nat).
Variables (Um Ux : 'M[F]_(p, p)) (Ui Us : 'M[F]_(p, c)) (S : 'M[F]_p) (M : 'M[F]_(p, c)).

Lemma true_terms_solve_U :
  Um - S *m Ux \in unitmx ->
  M = invmx (Um - S *m Ux) *m (S *m Us - Ui) ->
  Um *m M + Ui - S *m Ux *m M - S *m Us = 0.
Proof.
move=> U HM.
have E : (Um - S *m Ux) *m M = S *m Us - Ui by rewrite HM mulKVmx.
move: E; rewrite mulmxBl => E.
apply/eqP; rewrite subr_eq0 addrAC E.
by rewrite subrK.
Qed.
End U.

Section ApplyU.
Variables (n : nat).
Variables (Um Ui Ux Us S M : 'M[F]_n) (k : F).

(* fill_u8 / fill_u16: A = Ux M + Us, B = Um M + Ui, S = B A^-1 *)
Lemma apply_recovers_U :
  k != 0 ->
  Um - S *m Ux \in unitmx ->
  M = invmx (Um - S *m Ux) *m (S *m Us - Ui) ->
  let A := (k *: Ux) *m M + k *: Us in
  let B := (k *: Um) *m M + k *: Ui in
  A \in unitmx -> B *m invmx A = S.
Proof.
move=> k0 U HM A B UA.
have E : (Um - S *m Ux) *m M = S *m Us - Ui by rewrite HM mulKVmx.
have SA : S *m A = B.
  rewrite /A /B -!scalemxAl -!scalerDr -scalemxAr; congr (_ *: _).
  move: E; rewrite mulmxBl => E.
  by rewrite mulmxDr mulmxA -[Um *m M](subrK (S *m Ux *m M)) E addrAC subrK addrC.
by rewrite -SA mulmxK.
Qed.
End ApplyU.

(* ------------------------------------------------------------------ a / b measurements *)
Section AB.
Variables (r n : nat) (A D : 'M[F]_n) (B : 'M[F]_(r, n)).

(* a common (right) scaling / mixing D of simultaneous a and b readings cancels: M = B A^-1 *)
Lemma ab_scaling : A \in unitmx -> D \in unitmx -> (B *m D) *m invmx (A *m D) = B *m invmx A.
Proof.
move=> UA UD.
have UAD : A *m D \in unitmx by rewrite unitmx_mul UA UD.
have -> : B *m D = (B *m invmx A) *m (A *m D) by rewrite mulmxA mulmxKV.
by rewrite mulmxK.
Qed.
End AB.

(* ------------------------------------------------------------------ order of the equations *)
Section Order.
Variables (m n : nat) (s : 'S_m) (A : 'M[F]_(m, n)) (b : 'M[F]_(m, 1)).

(* permuting the equations (rows of A and b) leaves the normal equations unchanged ... *)
Lemma order_irrelevant_normal :
  (row_perm s A)^T *m row_perm s A = A^T *m A /\ (row_perm s A)^T *m row_perm s b = A^T *m b.
Proof.
rewrite !row_permE !trmx_mul tr_perm_mx.
split; by rewrite mulmxA -(mulmxA A^T) -perm_mxM mulVg perm_mx1 mulmx1.
Qed.
End Order.

(* ------------------------------------------------------------------ order of the equations, Hermitian form *)
(* The C code (vnacommon_qrsolve2 on complex data) minimises the Hermitian norm |A x - b|^2, whose normal
   equations are A^H A x = A^H b with A^H the CONJUGATE transpose.  cj is any ring morphism of the field
   (complex conjugation in the intended reading; the identity gives the bilinear form A^T A of
   order_irrelevant_normal above). *)
Section OrderHermitian.
Variables (m n : nat) (s : 'S_m) (A : 'M[F]_(m, n)) (b : 'M[F]_(m, 1)).
Variable cj : {rmorphism F -> F}.

Definition adjoint (p q : nat) (X : 'M[F]_(p, q)) : 'M[F]_(q, p) := map_mx cj X^T.

Lemma order_irrelevant_normal_hermitian :
  adjoint (row_perm s A) *m row_perm s A = adjoint A *m A /\
  adjoint (row_perm s A) *m row_perm s b = adjoint A *m b.
Proof.
rewrite /adjoint !row_permE !trmx_mul !map_mxM tr_perm_mx map_perm_mx.
split; by rewrite mulmxA -(mulmxA (map_mx cj A^T)) -perm_mxM mulVg perm_mx1 mulmx1.
Qed.
End OrderHermitian.

Section OrderSquare.
Variables (n : nat) (s : 'S_n) (A : 'M[F]_n) (b : 'M[F]_(n, 1)).

(* ... and the solution of a square system *)
Lemma order_irrelevant_square :
  A \in unitmx -> invmx (row_perm s A) *m row_perm s b = invmx A *m b.
Proof.
move=> UA.
rewrite !row_permE.
have UP : perm_mx s *m A \in unitmx by rewrite unitmx_mul unitmx_perm UA.
have -> : perm_mx s *m b = (perm_mx s *m A) *m (invmx A *m b) by rewrite -mulmxA mulKVmx.
by rewrite mulKmx.
Qed.
End OrderSquare.

(* ------------------------------------------------------------------ renumbering of the VNA ports *)
Section Renumber.
Variables (n : nat) (P : 'M[F]_n).
Variables (Ts Ti Tx Tm S M : 'M[F]_n).
Let cj (X : 'M[F]_n) := P *m X *m invmx P.

(* conjugating standards, measurements and error terms by P conjugates the model equation; hence
   (by apply_recovers_T on the conjugated data) the corrected DUT matrix is conjugated as well *)
Lemma port_renumbering :
  P \in unitmx ->
  Tx *m S + Tm \in unitmx ->
  M = (Ts *m S + Ti) *m invmx (Tx *m S + Tm) ->
  cj M = (cj Ts *m cj S + cj Ti) *m invmx (cj Tx *m cj S + cj Tm).
Proof.
move=> UP U ->.
have cjM (X Y : 'M[F]_n) : cj X *m cj Y = cj (X *m Y).
  by rewrite /cj !mulmxA -(mulmxA (P *m X)) mulVmx // mulmx1.
have cjD (X Y : 'M[F]_n) : cj X + cj Y = cj (X + Y).
  by rewrite /cj mulmxDr mulmxDl.
rewrite !cjM !cjD.
have -> : invmx (cj (Tx *m S + Tm)) = cj (invmx (Tx *m S + Tm)).
  apply: invmx_eq; rewrite cjM mulmxV // /cj mulmx1 mulmxV //.
by rewrite cjM.
Qed.
End Renumber.

(* ------------------------------------------------------------------ column systems (UE14, E12) *)
Section Columns.
Variables (n : nat) (S A B : 'M[F]_n).

(* fill_ue14 / fill_e12 build A and B column by column from independent systems: if every column
   satisfies its own equation B(:,c) = S A(:,c), then B A^-1 = S.  Scaling a column of A and B by a
   non-zero factor (E12 vs UE14 terms) does not change the hypothesis. *)
Lemma apply_recovers_columns :
  (forall c, col c B = S *m col c A) -> A \in unitmx -> B *m invmx A = S.
Proof.
move=> H UA.
have -> : B = S *m A.
  apply/matrixP=> i j; move: (H j) => /matrixP /(_ i ord0).
  rewrite !mxE => ->; apply: eq_bigr => k _; by rewrite mxE.
by rewrite mulmxK.
Qed.

Lemma column_scaling (c : 'I_n) (k : F) :
  col c B = S *m col c A -> k *: col c B = S *m (k *: col c A).
Proof. by move=> ->; rewrite -scalemxAr. Qed.
End Columns.

(* ------------------------------------------------------------------ 1x2 / 2x1 calibrations *)
Section Flip.
Variables (n : nat) (P S : 'M[F]_n).

(* the second row (column) of the 2x2 matrix handed to apply is measured with the DUT turned round,
   S' = P S P with P the exchange of the ports (P P = 1): its equation, with the columns (rows) of its
   coefficients exchanged, is an equation for S itself *)
Lemma flipped_row (a b : 'rV[F]_n) :
  P *m P = 1%:M -> a *m (P *m S *m P) = b -> (a *m P) *m S = b *m P.
Proof. by move=> PP <-; rewrite !mulmxA -(mulmxA _ P P) PP mulmx1. Qed.

Lemma flipped_col (a b : 'cV[F]_n) :
  P *m P = 1%:M -> (P *m S *m P) *m a = b -> S *m (P *m a) = P *m b.
Proof. by move=> PP <-; rewrite !mulmxA PP mul1mx. Qed.
End Flip.

(* ------------------------------------------------------------------ the hypotheses are satisfiable *)
Section Satisfiable.
Variables (n : nat) (S : 'M[F]_n).

(* the ideal VNA (Ts = Tm = Um = Us = 1, the rest 0) meets the hypotheses of apply_recovers_T / _U
   for every device S *)
Lemma apply_hypotheses_satisfiable_T :
  [/\ (1 : F) != 0, (0 : 'M[F]_n) *m S + 1%:M \in unitmx,
      S = (1%:M *m S + 0) *m invmx ((0 : 'M[F]_n) *m S + 1%:M)
    & (1 : F) *: (1%:M : 'M[F]_n) - S *m ((1 : F) *: (0 : 'M[F]_n)) \in unitmx].
Proof.
split; first exact: oner_neq0.
- by rewrite mul0mx add0r unitmx1.
- by rewrite mul0mx add0r invmx1 mulmx1 addr0 mul1mx.
- by rewrite scaler0 mulmx0 subr0 scale1r unitmx1.
Qed.

Lemma apply_hypotheses_satisfiable_U :
  [/\ (1 : F) != 0, (1%:M : 'M[F]_n) - S *m 0 \in unitmx,
      S = invmx ((1%:M : 'M[F]_n) - S *m 0) *m (S *m 1%:M - 0)
    & ((1 : F) *: (0 : 'M[F]_n)) *m S + (1 : F) *: (1%:M : 'M[F]_n) \in unitmx].
Proof.
split; first exact: oner_neq0.
- by rewrite mulmx0 subr0 unitmx1.
- by rewrite mulmx0 !subr0 invmx1 mul1mx mulmx1.
- by rewrite scaler0 mul0mx add0r scale1r unitmx1.
Qed.
End Satisfiable.

(* ------------------------------------------------------------------ C17: the hypotheses are satisfiable *)
Section C17Satisfiable.
Variables (n : nat) (s : 'S_n).

(* ab_scaling with A = 1 and D = a permutation of the columns *)
Lemma ab_scaling_satisfiable (r : nat) (B : 'M[F]_(r, n)) :
  (B *m perm_mx s) *m invmx (1%:M *m perm_mx s) = B *m invmx 1%:M.
Proof. by apply: ab_scaling; rewrite ?unitmx1 ?unitmx_perm. Qed.

(* order_irrelevant_square with A = 1 *)
Lemma order_irrelevant_square_satisfiable (b : 'M[F]_(n, 1)) :
  invmx (row_perm s 1%:M) *m row_perm s b = invmx 1%:M *m b.
Proof. by apply: order_irrelevant_square; rewrite unitmx1. Qed.

(* port_renumbering with P = a permutation matrix and the ideal VNA (Ts = Tm = 1, Ti = Tx = 0), any device S *)
Lemma port_renumbering_satisfiable (S : 'M[F]_n) :
  let P := perm_mx s : 'M[F]_n in
  P *m S *m invmx P =
    (P *m 1%:M *m invmx P *m (P *m S *m invmx P) + P *m 0 *m invmx P)
    *m invmx (P *m 0 *m invmx P *m (P *m S *m invmx P) + P *m 1%:M *m invmx P).
Proof.
move=> P; apply: port_renumbering; first exact: unitmx_perm.
- by rewrite mul0mx add0r unitmx1.
- by rewrite mul0mx add0r invmx1 mulmx1 addr0 mul1mx.
Qed.
End C17Satisfiable.

End CalAlgebra.
