(* terms_model_eq_spec: for every type, all dimensions 1..4 the type allows and every non-empty set of
   VNA ports a standard can be connected to (full measurement matrix, all S cells of the standard
   given, the zero / unknown pattern of the full S matrix induced by the port set), every equation
   _vnacal_new_add_common generates has, as a multiset and after dropping known-zero terms, exactly
   the terms of the literal expansion of the documented matrix equation.  Decided by computation. *)
Require Import List ZArith Bool Arith.
Require Import LV.Gen.LayoutGen LV.Cal.TermsModel LV.Cal.AddModel LV.Cal.TermsSpec.
Import ListNotations.
Local Open Scope nat_scope.

Definition cfg := (caltype * (nat * nat) * list nat)%type.

Fixpoint sublists {A} (l : list A) : list (list A) :=
  match l with [] => [[]] | x :: r => let s := sublists r in s ++ map (cons x) s end.

Definition public_types : list caltype := [T8; U8; TE10; UE10; T16; U16; UE14; E12_UE14].
Definition dims4 : list (nat * nat) :=
  flat_map (fun r => map (fun c => (r, c)) (seq 1 4)) (seq 1 4).
Definition dims_allowed (ty : caltype) (rc : nat * nat) : bool :=
  if VNACAL_IS_T ty then Nat.leb (fst rc) (snd rc) else Nat.leb (snd rc) (fst rc).

Definition all_cfgs : list cfg :=
  flat_map (fun ty => flat_map (fun rc =>
     if dims_allowed ty rc then
       map (fun ports => (ty, rc, ports))
           (filter (fun x => negb (Nat.eqb (length x) 0)) (sublists (seq 1 (Nat.max (fst rc) (snd rc)))))
     else []) dims4) public_types.

Definition cfg_args (c : cfg) : add_args :=
  let '(ty, (mr, mc), ports) := c in
  let k := length ports in
  mkArgs ty mr mc false (fun _ => true) false 0 0 (Z.of_nat mr) (Z.of_nat mc)
         (map (fun i => Z.of_nat (3 + i)) (seq 0 (k * k))) (Z.of_nat k) (Z.of_nat k) false
         (Some (map Z.of_nat ports)).

Definition check_cfg (c : cfg) : bool :=
  let '(ty, (mr, mc), ports) := c in
  match add_common (cfg_args c) with
  | Accepted m =>
      let s := fun i => nth i (ms_s m) SNull in
      let conn := match ms_conn m with Some cm => Some (fun i => nth i cm false) | None => None end in
      let vcols := v_columns_of ty mr mc in
      forallb (fun e =>
                 multiset_eqb (map (model_tuple vcols) (e_terms e))
                              (spec_terms ty mr mc (e_row e) (e_col e) s conn))
              (ms_eqs m)
  | _ => false
  end.

Lemma all_cfgs_ok : forallb check_cfg all_cfgs = true.
Proof. vm_compute. reflexivity. Qed.

Lemma terms_model_eq_spec_lemma : forall c, In c all_cfgs -> check_cfg c = true.
Proof. apply forallb_forall. exact all_cfgs_ok. Qed.

(* the enumeration is not trivial: number of configurations and of equations compared *)
Example all_cfgs_size :
  length all_cfgs = 704 /\
  fold_left (fun n c => match add_common (cfg_args c) with Accepted m => n + length (ms_eqs m) | _ => n end)
            all_cfgs 0 = 2358.
Proof. vm_compute. split; reflexivity. Qed.

(* A call that passes every argument check of _vnacal_new_add_common and then fails the
   assert(vnprp != NULL) of build_terms_t8: T8 2x2, mapped matrix with a 2x1 S matrix, map {1,2}. *)
Definition rectangular_s_args : add_args :=
  mkArgs T8 2 2 false (fun _ => true) false 0 0 2 2 [3; 4]%Z 2 1 false (Some [1; 2]%Z).
Lemma rectangular_s_reaches_assert : exists a, add_common a = Aborts 11.
Proof. exists rectangular_s_args. vm_compute. reflexivity. Qed.
