(* terms_model_eq_spec: for every type, all dimensions 1..4 the type allows and every non-empty set of
   VNA ports a standard can be connected to (full measurement matrix, all S cells of the standard
   given, the zero / unknown pattern of the full S matrix induced by the port set), every equation
   _vnacal_new_add_common generates has, as a multiset and after dropping known-zero terms, exactly
   the terms of the literal expansion of the documented matrix equation.  Decided by computation. *)
Require Import List ZArith Bool Arith.
Require Import LV.Gen.LayoutGen LV.Cal.TermsModel LV.Cal.AddModel LV.Cal.TermsSpec.
Import ListNotations.
Local Open Scope nat_scope.

Definition cfg := (caltype * (nat * nat) * list nat)%type.

Fixpoint sublists {A} (l : list A) : list (list A) :=
  match l with [] => [[]] | x :: r => let s := sublists r in s ++ map (cons x) s end.

Definition public_types : list caltype := [T8; U8; TE10; UE10; T16; U16; UE14; E12_UE14].
Definition dims4 : list (nat * nat) :=
  flat_map (fun r => map (fun c => (r, c)) (seq 1 4)) (seq 1 4).
Definition dims_allowed (ty : caltype) (rc : nat * nat) : bool :=
  if VNACAL_IS_T ty then Nat.leb (fst rc) (snd rc) else Nat.leb (snd rc) (fst rc).

Definition all_cfgs : list cfg :=
  flat_map (fun ty => flat_map (fun rc =>
     if dims_allowed ty rc then
       map (fun ports => (ty, rc, ports))
           (filter (fun x => negb (Nat.eqb (length x) 0)) (sublists (seq 1 (Nat.max (fst rc) (snd rc)))))
     else []) dims4) public_types.

Definition cfg_args (c : cfg) : add_args :=
  let '(ty, (mr, mc), ports) := c in
  let k := length ports in
  mkArgs ty mr mc false (fun _ => true) false 0 0 (Z.of_nat mr) (Z.of_nat mc)
         (map (fun i => Z.of_nat (3 + i)) (seq 0 (k * k))) (Z.of_nat k) (Z.of_nat k) false
         (Some (map Z.of_nat ports)).

Definition check_cfg (c : cfg) : bool :=
  let '(ty, (mr, mc), ports) := c in
  match add_common (cfg_args c) with
  | Accepted m =>
      let s := fun i => nth i (ms_s m) SNull in
      let conn := match ms_conn m with Some cm => Some (fun i => nth i cm false) | None => None end in
      let vcols := v_columns_of ty mr mc in
      forallb (fun e =>
                 multiset_eqb (map (model_tuple vcols) (e_terms e))
                              (spec_terms ty mr mc (e_row e) (e_col e) s conn))
              (ms_eqs m)
  | _ => false
  end.

Lemma all_cfgs_ok : forallb check_cfg all_cfgs = true.
Proof. vm_compute. reflexivity. Qed.

Lemma terms_model_eq_spec_lemma : forall c, In c all_cfgs -> check_cfg c = true.
Proof. apply forallb_forall. exact all_cfgs_ok. Qed.

(* the enumeration is not trivial: number of configurations and of equations compared *)
Example all_cfgs_size :
  length all_cfgs = 704 /\
  fold_left (fun n c => match add_common (cfg_args c) with Accepted m => n + length (ms_eqs m) | _ => n end)
            all_cfgs 0 = 2358.
Proof. vm_compute. split; reflexivity. Qed.

(* D63 (fixed): a rectangular S matrix is refused for every type but T16 / U16 -- bounded statement:
   the 6 other public layout types, dims 1..4, every s_rows <> s_columns in 1..ports, full M, port map
   1..max(s_rows, s_columns).  (Before the repair such a call reached assert(vnprp != NULL).) *)
Definition rect_cases : list (caltype * (nat * nat) * (nat * nat)) :=
  flat_map (fun ty => flat_map (fun rc =>
    if andb (dims_allowed ty rc) (negb (is_16 ty)) then
      let p := Nat.max (fst rc) (snd rc) in
      flat_map (fun sr => flat_map (fun sc =>
        if Nat.eqb sr sc then [] else [(ty, rc, (sr, sc))]) (seq 1 p)) (seq 1 p)
    else []) dims4) public_types.

Definition rect_args (c : caltype * (nat * nat) * (nat * nat)) : add_args :=
  let '(ty, (mr, mc), (sr, sc)) := c in
  mkArgs ty mr mc false (fun _ => true) false 0 0 (Z.of_nat mr) (Z.of_nat mc)
         (map (fun i => Z.of_nat (3 + i)) (seq 0 (sr * sc))) (Z.of_nat sr) (Z.of_nat sc) false
         (Some (map Z.of_nat (seq 1 (Nat.max sr sc)))).

Definition is_rejected (o : outcome) : bool := match o with Rejected _ => true | _ => false end.

Lemma rectangular_s_refused_all : forallb (fun c => is_rejected (add_common (rect_args c))) rect_cases = true.
Proof. vm_compute. reflexivity. Qed.

Lemma rectangular_s_refused_lemma : forall c, In c rect_cases -> is_rejected (add_common (rect_args c)) = true.
Proof. apply forallb_forall. exact rectangular_s_refused_all. Qed.

Example rect_cases_nonempty : Nat.ltb 300 (length rect_cases) = true /\
  add_common (rect_args (T8, (2, 2), (2, 1))) = Rejected 17.
Proof. vm_compute. split; reflexivity. Qed.

(* ---------------------------------------------------------------- connectivity closure *)
(* Specification: reflexive - symmetric - transitive closure (Warshall) of "S cell (i,j) is not known to
   be zero", i <> j. *)
Definition adj0 (n : nat) (s : list scell) (i j : nat) : bool :=
  orb (Nat.eqb i j)
      (orb (negb (scell_is_zero (nth (i * n + j) s SNull))) (negb (scell_is_zero (nth (j * n + i) s SNull)))).

Definition warshall (n : nat) (r0 : nat -> nat -> bool) : nat -> nat -> bool :=
  fold_left (fun r k => fun i j => orb (r i j) (andb (r i k) (r k j))) (seq 0 n) r0.

(* memoised as a list after every step so that the computation stays polynomial *)
Definition tab (n : nat) (r : nat -> nat -> bool) : nat -> nat -> bool :=
  let l := flat_map (fun i => map (fun j => r i j) (seq 0 n)) (seq 0 n) in
  fun i j => nth (i * n + j) l false.

Definition closure_spec (n : nat) (s : list scell) : list bool :=
  let r := fold_left (fun r k => tab n (fun i j => orb (r i j) (andb (r i k) (r k j)))) (seq 0 n) (tab n (adj0 n s)) in
  flat_map (fun i => map (fun j => r i j) (seq 0 n)) (seq 0 n).

Definition offdiag (n : nat) : list (nat * nat) :=
  flat_map (fun i => flat_map (fun j => if Nat.eqb i j then [] else [(i, j)]) (seq 0 n)) (seq 0 n).

(* S matrix whose non-zero (here: a parameter) off-diagonal cells are `nz'; diagonal cells unknown *)
Definition s_of_pattern (n : nat) (nz : list (nat * nat)) : list scell :=
  flat_map (fun i => map (fun j =>
     if Nat.eqb i j then SNull
     else if existsb (fun q => andb (Nat.eqb (fst q) i) (Nat.eqb (snd q) j)) nz then SParam 3 else SZero)
     (seq 0 n)) (seq 0 n).

Definition list_beq (a b : list bool) : bool :=
  andb (Nat.eqb (length a) (length b)) (forallb (fun xy => Bool.eqb (fst xy) (snd xy)) (combine a b)).

Definition conn_ok (n : nat) (nz : list (nat * nat)) : bool :=
  let s := s_of_pattern n nz in list_beq (build_connectivity n s) (closure_spec n s).

Lemma connectivity_closed_all :
  forallb (fun n => forallb (conn_ok n) (sublists (offdiag n))) [1; 2; 3; 4] = true.
Proof. vm_compute. reflexivity. Qed.

(* Bound in the statement: n <= 4 ports, EVERY pattern of known-zero off-diagonal cells (4096 for n = 4,
   directed, non-reciprocal patterns included): the matrix built by the union-find code is the
   reflexive-symmetric-transitive closure. *)
Lemma connectivity_closed_lemma :
  forall n nz, In n [1; 2; 3; 4] -> In nz (sublists (offdiag n)) -> conn_ok n nz = true.
Proof.
  intros n nz Hn Hz.
  pose proof connectivity_closed_all as H.
  rewrite forallb_forall in H. specialize (H n Hn).
  rewrite forallb_forall in H. exact (H nz Hz).
Qed.

Example connectivity_chain_1_3_2 :
  (* the isolator chain: only S23 and S31 non-zero (0-based (1,2) and (2,0)): all three ports connected *)
  build_connectivity 3 (s_of_pattern 3 [(1, 2); (2, 0)]) = [true; true; true; true; true; true; true; true; true].
Proof. vm_compute. reflexivity. Qed.
