(* Properties of the error-term layout computed by _vnacal_layout (model regenerated from the C text:
   Gen/LayoutGen.v).  Stdlib only. *)
Require Import ZArith Bool List Lia.
Require Import LV.Gen.LayoutGen.
Import ListNotations.
Open Scope Z_scope.

(* dimensions vnacal_new_alloc accepts for the type *)
Definition dims_ok (ty : caltype) (r c : Z) : Prop :=
  1 <= r /\ 1 <= c /\ (if VNACAL_IS_T ty then r <= c else c <= r).

(* number of error terms per type: the table of vnacal_new(3) *)
Definition documented_terms (ty : caltype) (r c : Z) : Z :=
  match ty with
  | T8 | U8 => 2 * r + 2 * c
  | TE10 => r * c + r + 2 * c
  | UE10 => r * c + 2 * r + c
  | T16 => 2 * r * c + 2 * c * c
  | U16 => 2 * r * c + 2 * r * r
  | UE14 | E12_UE14 => 3 * r * c + c
  | E12 => 3 * r * c
  end.

Definition cells (full : bool) (rows cols : Z) : Z := if full then rows * cols else Z.min rows cols.

(* four consecutive blocks followed by the leakage block, each of the documented size *)
Definition blocks4 (l : layout_rec) (full : bool) (el : Z) : Prop :=
  VL_TS_OFFSET l = 0 /\
  VL_TS_TERMS l = cells full (VL_TS_ROWS l) (VL_TS_COLUMNS l) /\
  VL_TI_OFFSET l = VL_TS_OFFSET l + VL_TS_TERMS l /\
  VL_TI_TERMS l = cells full (VL_TI_ROWS l) (VL_TI_COLUMNS l) /\
  VL_TX_OFFSET l = VL_TI_OFFSET l + VL_TI_TERMS l /\
  VL_TX_TERMS l = cells full (VL_TX_ROWS l) (VL_TX_COLUMNS l) /\
  VL_TM_OFFSET l = VL_TX_OFFSET l + VL_TX_TERMS l /\
  VL_TM_TERMS l = cells full (VL_TM_ROWS l) (VL_TM_COLUMNS l) /\
  VL_EL_OFFSET l = VL_TM_OFFSET l + VL_TM_TERMS l /\
  VL_EL_TERMS l = el /\ 0 <= el /\
  VL_ERROR_TERMS l = VL_EL_OFFSET l + VL_EL_TERMS l.

(* the same four blocks read through the U macros *)
Definition blocks4u (l : layout_rec) (full : bool) (el : Z) : Prop :=
  VL_UM_OFFSET l = 0 /\
  VL_UM_TERMS l = cells full (VL_UM_ROWS l) (VL_UM_COLUMNS l) /\
  VL_UI_OFFSET l = VL_UM_OFFSET l + VL_UM_TERMS l /\
  VL_UI_TERMS l = cells full (VL_UI_ROWS l) (VL_UI_COLUMNS l) /\
  VL_UX_OFFSET l = VL_UI_OFFSET l + VL_UI_TERMS l /\
  VL_UX_TERMS l = cells full (VL_UX_ROWS l) (VL_UX_COLUMNS l) /\
  VL_US_OFFSET l = VL_UX_OFFSET l + VL_UX_TERMS l /\
  VL_US_TERMS l = cells full (VL_US_ROWS l) (VL_US_COLUMNS l) /\
  VL_EL_OFFSET l = VL_US_OFFSET l + VL_US_TERMS l /\
  VL_EL_TERMS l = el /\ 0 <= el /\
  VL_ERROR_TERMS l = VL_EL_OFFSET l + VL_EL_TERMS l.

(* UE14: per driven column k the blocks um | ui | ux | us, column k+1 follows column k, the
   off-diagonal leakage block follows the last column *)
Definition blocks14 (l : layout_rec) (r c : Z) : Prop :=
  (forall k, 0 <= k < c ->
     VL_UM14_OFFSET l k = k * (2 * r + 2) /\
     VL_UM14_TERMS l = Z.min (VL_UM14_ROWS l) (VL_UM14_COLUMNS l) /\
     VL_UI14_OFFSET l k = VL_UM14_OFFSET l k + VL_UM14_TERMS l /\
     VL_UI14_TERMS l = 1 /\
     VL_UX14_OFFSET l k = VL_UI14_OFFSET l k + VL_UI14_TERMS l /\
     VL_UX14_TERMS l = Z.min (VL_UX14_ROWS l) (VL_UX14_COLUMNS l) /\
     VL_US14_OFFSET l k = VL_UX14_OFFSET l k + VL_UX14_TERMS l /\
     VL_US14_TERMS l = 1 /\
     VL_UM14_OFFSET l (k + 1) = VL_US14_OFFSET l k + VL_US14_TERMS l /\
     vl_unity_offset l k = k /\ 0 <= k < VL_UM14_TERMS l) /\
  VL_EL_OFFSET l = VL_UM14_OFFSET l c /\
  VL_EL_TERMS l = r * c - c /\ 0 <= VL_EL_TERMS l /\
  VL_ERROR_TERMS l = VL_EL_OFFSET l + VL_EL_TERMS l.

(* E12: per driven column k the blocks el | er | (et: empty) | em *)
Definition blocks12 (l : layout_rec) (r c : Z) : Prop :=
  (forall k, 0 <= k < c ->
     VL_EL12_OFFSET l k = k * (3 * r) /\
     VL_EL12_TERMS l = r /\
     VL_ER12_OFFSET l k = VL_EL12_OFFSET l k + VL_EL12_TERMS l /\
     VL_ER12_TERMS l = r /\
     VL_ET12_OFFSET l k = VL_ER12_OFFSET l k + VL_ER12_TERMS l /\
     VL_ET12_TERMS l = 0 /\
     VL_EM12_OFFSET l k = VL_ET12_OFFSET l k + VL_ET12_TERMS l /\
     VL_EM12_TERMS l = r /\
     VL_EL12_OFFSET l (k + 1) = VL_EM12_OFFSET l k + VL_EM12_TERMS l) /\
  VL_ERROR_TERMS l = VL_EL12_OFFSET l c.

Definition layout_ok (ty : caltype) (r c : Z) : Prop :=
  let l := layout ty r c in
  vl_type l = ty /\ vl_m_rows l = r /\ vl_m_columns l = c /\
  VL_ERROR_TERMS l = documented_terms ty r c /\
  match ty with
  | T8 => blocks4 l false 0
  | TE10 => blocks4 l false (r * c - r)
  | T16 => blocks4 l true 0
  | U8 => blocks4u l false 0
  | UE10 => blocks4u l false (r * c - c)
  | U16 => blocks4u l true 0
  | UE14 | E12_UE14 => blocks14 l r c
  | E12 => blocks12 l r c
  end /\
  (* the unity term lies inside the block the solver normalises (tm11 / um11 / um_kk) *)
  match ty with
  | T8 | TE10 | T16 => vl_unity_offset l 0 = VL_TM_OFFSET l /\ 0 < VL_TM_TERMS l
  | U8 | UE10 | U16 => vl_unity_offset l 0 = VL_UM_OFFSET l /\ 0 < VL_UM_TERMS l
  | UE14 | E12_UE14 => True
  | E12 => vl_unity_offset l 0 = -1
  end.

Ltac unf :=
  cbv [layout_ok dims_ok documented_terms blocks4 blocks4u blocks14 blocks12 cells layout
       VL_TS_OFFSET VL_TS_TERMS VL_TS_ROWS VL_TS_COLUMNS VL_TI_OFFSET VL_TI_TERMS VL_TI_ROWS VL_TI_COLUMNS
       VL_TX_OFFSET VL_TX_TERMS VL_TX_ROWS VL_TX_COLUMNS VL_TM_OFFSET VL_TM_TERMS VL_TM_ROWS VL_TM_COLUMNS
       VL_UM_OFFSET VL_UM_TERMS VL_UM_ROWS VL_UM_COLUMNS VL_UI_OFFSET VL_UI_TERMS VL_UI_ROWS VL_UI_COLUMNS
       VL_UX_OFFSET VL_UX_TERMS VL_UX_ROWS VL_UX_COLUMNS VL_US_OFFSET VL_US_TERMS VL_US_ROWS VL_US_COLUMNS
       VL_UM14_OFFSET VL_UM14_TERMS VL_UM14_ROWS VL_UM14_COLUMNS VL_UI14_OFFSET VL_UI14_TERMS
       VL_UX14_OFFSET VL_UX14_TERMS VL_UX14_ROWS VL_UX14_COLUMNS VL_US14_OFFSET VL_US14_TERMS
       VL_EL12_OFFSET VL_EL12_TERMS VL_ER12_OFFSET VL_ER12_TERMS VL_ET12_OFFSET VL_ET12_TERMS
       VL_EM12_OFFSET VL_EM12_TERMS VL_EL_OFFSET VL_EL_TERMS VL_ERROR_TERMS
       VL_M_ROWS VL_M_COLUMNS VL_M_PORTS VL_S_ROWS VL_S_COLUMNS vl_unity_offset VNACAL_IS_T caltype_eqb caltype_code
       vl_type vl_m_rows vl_m_columns vl_ti_offset vl_tx_offset vl_tm_offset vl_t_terms vl_el_offset vl_el_terms vl_error_terms
       Z.eqb orb Pos.eqb].

Lemma layout_partition_lemma : forall ty r c, dims_ok ty r c -> layout_ok ty r c.
Proof.
  intros ty r c H; destruct ty; revert H; unf; intros (Hr & Hc & Hd);
    repeat split; intros; try lia; try nia.
Qed.

(* non-vacuity: a rectangular instance of each family *)
Example layout_partition_instances :
  dims_ok TE10 2 3 /\ dims_ok UE14 4 2 /\ dims_ok E12 3 3 /\ dims_ok U16 3 1 /\
  VL_ERROR_TERMS (layout TE10 2 3) = 14 /\ VL_UX14_OFFSET (layout UE14 4 2) 1 = 15 /\
  VL_EM12_OFFSET (layout E12 3 3) 2 = 24 /\ VL_US_OFFSET (layout U16 3 1) = 21.
Proof. cbv; repeat split; congruence. Qed.
