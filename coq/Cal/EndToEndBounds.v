(* The composed theorems restricted to the dimensions where their hypotheses can be met (review R1): in the family
   zcfgs a 1 x 1 calibration has two distinct standards (S11 = pv 3 and the known zero) for three unknowns, so the
   rank hypothesis is unsatisfiable at n = 1 and the statements are given for n = 2, 3 only.  Also: the vector the
   solve returns for E12 passes the um == 0 test of the C function convert_ue14_to_e12 when the network's um terms
   are non-zero (EndToEndE12Check). *)
Require Import List ZArith Bool Arith Lia QArith Qcanon.
Require Import LV.Base.CField LV.Base.QcI LV.Lin.MatL LV.Lin.LuGenA.
Require Import LV.Gen.LayoutGen LV.Cal.Sym LV.Cal.TermsModel LV.Cal.AddModel LV.Cal.ApplyModel LV.Cal.ApplyProofs
               LV.Cal.ApplyIdentity LV.Cal.AssembleIdentity LV.Cal.SolveSimple LV.Cal.CalQI LV.Cal.AssembleList
               LV.Cal.LeakProofs LV.Cal.LeakPhysical LV.Cal.EndToEndLeak LV.Cal.ApplyRecovers LV.Cal.SolveRecovers
               LV.Cal.EndToEnd LV.Cal.EndToEndAll LV.Cal.EndToEndDevice LV.Cal.EndToEndFinal
               LV.Cal.EndToEndCore LV.Cal.EndToEndCoreDevice LV.Cal.EndToEndE12Check.
Import ListNotations.
Local Open Scope nat_scope.

Lemma in_dev_cases_23 ty n : In ty [TE10; UE10; UE14; E12] -> In n [2; 3] -> In (ty, n) dev_cases_all.
Proof.
  intros Ht Hn. unfold dev_cases_all. apply in_flat_map. exists ty. split; [exact Ht|].
  apply in_map. destruct Hn as [<-|[<-|[]]]; cbn; tauto.
Qed.

Lemma in_core_cases_23 ty n : In ty core_types -> In n [2; 3] -> In (ty, n) core_e2e_cases.
Proof.
  intros Ht Hn. unfold core_e2e_cases. apply in_flat_map. exists ty. split; [exact Ht|].
  apply in_map. destruct Hn as [<-|[<-|[]]]; cbn; tauto.
Qed.

Definition leak_e2e_statement (ty : caltype) (n : nat) : Prop :=
  let sty := solve_type ty in
  forall (fe : nat -> qi) (el : nat -> nat -> qi) (pv : Z -> qi) (ms : list (mvals qops))
         (fxof : mvals qops -> nat -> qi) (core : mvals qops -> nat -> nat -> qi),
  (forall mv, In mv ms ->
     std_of QIF sty n n mv /\ network_of QIF n n fe pv fxof core sty mv /\ measured_with_leakage QIF n n el core mv) ->
  covered QIF n n el ms ->
  (forall sys, sys < systems_of sty n ->
     let rows := q_assemble sty n n ms pv sys in
     unknowns sty n n <= length rows /\ kernel_trivial (unknowns sty n n) rows) ->
  let e_true := dev_vector QIF ty n fe el in
  q_error_terms sty n n ms pv = Some e_true /\
  forall (m s : list qi) (Mc : nat -> nat -> qi), length m = n * n -> length s = n * n ->
    device_network QIF ty n fe Mc (fun a b => nth (a * n + b) s (@c0 QIF)) ->
    (forall r c, r < n -> c < n ->
       nth (r * n + c) m (@c0 QIF) = @cadd QIF (Mc r c) (if Nat.eqb r c then @c0 QIF else el r c)) ->
    forall a b x, q_apply ty n n e_true m = AOk a b x -> x = s.

Theorem c01_model_end_to_end_leak_23 (ty : caltype) (n : nat) :
  In ty [TE10; UE10; UE14; E12] -> In n [2; 3] -> leak_e2e_statement ty n.
Proof. intros Ht Hn. exact (c01_model_end_to_end_leak_lemma2 ty n (in_dev_cases_23 ty n Ht Hn)). Qed.

Definition core_e2e_statement (ty : caltype) (n : nat) : Prop :=
  forall (fe : nat -> qi) (pv : Z -> qi) (ms : list (mvals qops))
         (fxof : mvals qops -> nat -> qi) (core : mvals qops -> nat -> nat -> qi),
  (forall mv, In mv ms ->
     std_of QIF ty n n mv /\ core_network QIF ty n n fe pv fxof core mv /\ measured_exactly QIF n n core mv) ->
  (forall sys, sys < systems_of ty n ->
     let rows := q_assemble ty n n ms pv sys in
     unknowns ty n n <= length rows /\ kernel_trivial (unknowns ty n n) rows) ->
  let e_true := core_dev_vector QIF ty n fe in
  q_error_terms ty n n ms pv = Some e_true /\
  forall (m s : list qi) (Mc : nat -> nat -> qi), length m = n * n -> length s = n * n ->
    core_device_network QIF ty n fe Mc (fun a b => nth (a * n + b) s (@c0 QIF)) ->
    (forall r c, r < n -> c < n -> nth (r * n + c) m (@c0 QIF) = Mc r c) ->
    forall a b x, q_apply ty n n e_true m = AOk a b x -> x = s.

Theorem c01_model_end_to_end_core_23 (ty : caltype) (n : nat) :
  In ty core_types -> In n [2; 3] -> core_e2e_statement ty n.
Proof. intros Ht Hn. exact (c01_model_end_to_end_core_lemma ty n (in_core_cases_23 ty n Ht Hn)). Qed.

(* ---------------------------------------------------------------- E12: the C function's um == 0 test on the solved vector *)
Section K.
Variable K : CField.
Let O := ops_of K.

Definition um_read_identity (n : nat) : Prop :=
  forall (fe : nat -> K) (lk : list K),
    conj_all (map (fun cr =>
        um_of O n n (net_vector O E12_UE14 n n (xs_of_K K E12_UE14 n n fe) lk) (fst cr) (snd cr)
        = c14_um K n n fe E12_UE14 (fst cr) (snd cr)) (pairs n)).

Lemma um_read_identity_all : forall n, In n [1; 2; 3] -> um_read_identity n.
Proof.
  intros n H. repeat (destruct H as [<-|H]; [intros fe lk; cbv -[cadd cmul csub copp cdiv cinv c0 c1 F]; repeat split; reflexivity|]).
  contradiction.
Qed.
End K.

Theorem solved_e12_vector_passes_um_test_lemma (n : nat) (fe : nat -> qi) (lk : list qi) :
  In n [1; 2; 3] -> e12_regular QIF n fe ->
  let v := net_vector qops E12_UE14 n n (xs_of_K QIF E12_UE14 n n fe) lk in
  q_convert_checked n n v = Some (convert_ue14_to_e12 qops n n v).
Proof.
  intros Hn [Hum _] v. apply (convert_checked_ok qops q_is0 n n v).
  intros c r Hc Hr.
  pose proof (conj_all_in _ (um_read_identity_all QIF n Hn fe lk) _
                (in_map (fun cr => um_of qops n n v (fst cr) (snd cr) = c14_um QIF n n fe E12_UE14 (fst cr) (snd cr)) _ _ (in_pairs n c r Hc Hr))) as E.
  cbn [fst snd] in E. rewrite E.
  pose proof (conj_all_in _ Hum _ (in_map (fun ck => c14_um QIF n n fe E12_UE14 (fst ck) (snd ck) <> @c0 QIF) _ _ (in_pairs n c r Hc Hr))) as Hz.
  cbn [fst snd] in Hz. unfold q_is0.
  destruct (qi_eqb (c14_um QIF n n fe E12_UE14 c r) qi0) eqn:Eq; [|reflexivity].
  exfalso. apply Hz. apply qi_eqb_eq. exact Eq.
Qed.
