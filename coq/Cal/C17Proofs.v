(* C17 on the structural model: entry points that describe the same standard build the same
   measurement and equations; a full measurement matrix generates the equations of the abbreviated
   one (identical term lists) -- and nothing else for the types without in-system leakage terms. *)
Require Import List ZArith Bool Arith.
Require Import LV.Gen.LayoutGen LV.Cal.TermsModel LV.Cal.AddModel LV.Cal.TermsProofs.
Import ListNotations.
Local Open Scope nat_scope.

(* through = line (0,1;1,0) = mapped matrix: the three entry points build the same argument
   structure, so everything _vnacal_new_add_common derives from it is the same, for all arguments *)
Lemma through_eq_line_eq_mapped_lemma :
  forall ty mr mc merr valid a_given a_rows a_cols b_rows b_cols port1 port2,
    add_through ty mr mc merr valid a_given a_rows a_cols b_rows b_cols port1 port2
    = add_line ty mr mc merr valid a_given a_rows a_cols b_rows b_cols 0 1 1 0 port1 port2
    /\
    add_through ty mr mc merr valid a_given a_rows a_cols b_rows b_cols port1 port2
    = add_mapped_matrix ty mr mc merr valid a_given a_rows a_cols b_rows b_cols
        [0; 1; 1; 0]%Z 2 2 (Some [port1; port2]).
Proof. intros; split; reflexivity. Qed.

(* abbreviated variants of a configuration of TermsProofs.all_cfgs (which uses the full matrix) *)
Definition with_b (c : cfg) (br bc : nat) : add_args :=
  let a := cfg_args c in
  mkArgs (aa_ty a) (aa_mr a) (aa_mc a) (aa_merr a) (aa_valid a) (aa_a_given a) (aa_a_rows a) (aa_a_cols a)
         (Z.of_nat br) (Z.of_nat bc) (aa_s a) (aa_s_rows a) (aa_s_cols a) (aa_s_diag a) (aa_map a).

Definition term_eqb (a b : term) : bool :=
  andb (andb (Z.eqb (t_x a) (t_x b)) (Bool.eqb (t_neg a) (t_neg b)))
       (andb (andb (Z.eqb (t_m a) (t_m b)) (Z.eqb (t_s a) (t_s b))) (Z.eqb (t_v a) (t_v b))).
Fixpoint list_eqb {A} (f : A -> A -> bool) (x y : list A) : bool :=
  match x, y with
  | [], [] => true
  | a :: r, b :: s => andb (f a b) (list_eqb f r s)
  | _, _ => false
  end.
Definition eq_eqb (a b : equation) : bool :=
  andb (andb (Nat.eqb (e_row a) (e_row b)) (Nat.eqb (e_col a) (e_col b))) (list_eqb term_eqb (e_terms a) (e_terms b)).

Definition check_abbrev (c : cfg) : bool :=
  let '(ty, (mr, mc), ports) := c in
  let k := length ports in
  match add_common (cfg_args c) with
  | Accepted full =>
      forallb (fun brbc =>
        let '(br, bc) := brbc in
        match add_common (with_b c br bc) with
        | Accepted ab =>
            andb
              (* every equation of the abbreviated call is an equation of the full call, same terms *)
              (forallb (fun e => existsb (eq_eqb e) (ms_eqs full)) (ms_eqs ab))
              (* and there are no others, except for T16 / U16 whose extra rows / columns carry the
                 in-system leakage terms *)
              (orb (is_16 ty) (list_eqb eq_eqb (ms_eqs ab) (ms_eqs full)))
        | Rejected _ => true          (* not accepted: nothing to compare *)
        | Aborts _ => false
        end) [(k, mc); (mr, k); (k, k)]
  | _ => false
  end.

Lemma all_abbrev_ok : forallb check_abbrev all_cfgs = true.
Proof. vm_compute. reflexivity. Qed.

Lemma full_eq_abbreviated_lemma : forall c, In c all_cfgs -> check_abbrev c = true.
Proof. apply forallb_forall. exact all_abbrev_ok. Qed.

(* how many abbreviated calls were accepted and compared *)
Example abbrev_accepted_count :
  fold_left (fun n c => let '(ty, (mr, mc), ports) := c in let k := length ports in
     n + length (filter (fun brbc => match add_common (with_b c (fst brbc) (snd brbc)) with Accepted _ => true | _ => false end)
                        [(k, mc); (mr, k); (k, k)])) all_cfgs 0 = 0 -> False.
Proof. vm_compute. discriminate. Qed.
