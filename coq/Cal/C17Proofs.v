(* C17 on the structural model (AddModel).
   1. The three entry points through / line / mapped matrix build the same argument structure.
   2. The sorted port map: sort_z sorts; the B cell -> M cell map of _vnacal_new_add_common does not
      depend on the ORDER in which the ports of the standard are listed (all arguments).
   3. Bounded sweep: an abbreviated measurement matrix is accepted exactly when the documented
      conditions hold, its values are stored in the cells the full matrix stores them in, and it
      generates the equations of the full matrix (T16 / U16: a subset of them).
   4. The order in which standards are added: a permutation of the calls gives a permutation of the
      (measurement, equation) rows of every linear system (all lists of calls). *)
Require Import List ZArith Bool Arith Lia Sorted Permutation.
Require Import LV.Gen.LayoutGen LV.Cal.TermsModel LV.Cal.AddModel LV.Cal.TermsProofs.
Import ListNotations.
Local Open Scope nat_scope.

(* ------------------------------------------------------------------------------------------------ *)
(* through = line (0,1;1,0) = mapped matrix: the three entry points (transcribed from the three C
   wrappers, tied to them by the entry-point correspondence of check C17) build the same argument
   structure, so everything _vnacal_new_add_common derives from it is the same, for all arguments.
   True by unfolding the three definitions: the content is in their tie to the C wrappers. *)
Lemma through_eq_line_eq_mapped_lemma :
  forall ty mr mc merr valid a_given a_rows a_cols b_rows b_cols port1 port2,
    add_through ty mr mc merr valid a_given a_rows a_cols b_rows b_cols port1 port2
    = add_line ty mr mc merr valid a_given a_rows a_cols b_rows b_cols 0 1 1 0 port1 port2
    /\
    add_through ty mr mc merr valid a_given a_rows a_cols b_rows b_cols port1 port2
    = add_mapped_matrix ty mr mc merr valid a_given a_rows a_cols b_rows b_cols
        [0; 1; 1; 0]%Z 2 2 (Some [port1; port2]).
Proof. intros; split; reflexivity. Qed.

(* ------------------------------------------------------------------------------------------------ *)
(* the port-map sort *)
Lemma insert_sorted_perm : forall x l, Permutation (x :: l) (insert_sorted x l).
Proof.
  intros x l; induction l as [|y r IH]; simpl; [reflexivity|].
  destruct (Z.leb x y); [reflexivity|].
  rewrite perm_swap. constructor. exact IH.
Qed.

Lemma insert_sorted_sorted : forall x l, Sorted Z.le l -> Sorted Z.le (insert_sorted x l).
Proof.
  intros x l; induction l as [|y r IH]; intros H; simpl.
  - repeat constructor.
  - destruct (Z.leb x y) eqn:E.
    + constructor; [exact H|]. constructor. apply Z.leb_le; exact E.
    + inversion H as [|? ? Hr Hy]; subst. constructor; [apply IH; exact Hr|].
      apply Z.leb_gt in E.
      destruct r as [|z r']; simpl.
      * constructor. lia.
      * destruct (Z.leb x z); constructor; [lia|]. inversion Hy; subst; assumption.
Qed.

Lemma sort_z_sorts_lemma : forall l, Sorted Z.le (sort_z l) /\ Permutation l (sort_z l).
Proof.
  induction l as [|x r [IS IP]]; simpl.
  - split; constructor.
  - split; [apply insert_sorted_sorted; exact IS|].
    etransitivity; [apply perm_skip; exact IP|apply insert_sorted_perm].
Qed.

Lemma insert_sorted_comm : forall x y l,
  insert_sorted x (insert_sorted y l) = insert_sorted y (insert_sorted x l).
Proof.
  intros x y l; induction l as [|z r IH]; simpl.
  - destruct (Z.leb x y) eqn:A, (Z.leb y x) eqn:B; try reflexivity.
    + apply Z.leb_le in A, B. assert (x = y) by lia. subst; reflexivity.
    + apply Z.leb_gt in A, B. lia.
  - destruct (Z.leb y z) eqn:Yz, (Z.leb x z) eqn:Xz; simpl;
      destruct (Z.leb x y) eqn:A, (Z.leb y x) eqn:B; simpl;
      rewrite ?Yz, ?Xz; try reflexivity;
      try (apply Z.leb_le in A); try (apply Z.leb_gt in A); try (apply Z.leb_le in B); try (apply Z.leb_gt in B);
      try (apply Z.leb_le in Yz); try (apply Z.leb_gt in Yz); try (apply Z.leb_le in Xz); try (apply Z.leb_gt in Xz);
      try lia.
    + assert (x = y) by lia; subst; reflexivity.
    + rewrite IH; reflexivity.
    + rewrite IH; reflexivity.
    + rewrite IH; reflexivity.
Qed.

(* the sorted map depends on the SET of ports only, not on the order in which the caller lists them *)
Lemma sort_z_order_irrelevant_lemma : forall l l', Permutation l l' -> sort_z l = sort_z l'.
Proof.
  induction 1; simpl.
  - reflexivity.
  - rewrite IHPermutation; reflexivity.
  - apply insert_sorted_comm.
  - etransitivity; eassumption.
Qed.

(* the same call with the ports of the standard listed in another order (and the S cells re-arranged) *)
Definition with_map_s (a : add_args) (mp : list Z) (s : list Z) : add_args :=
  mkArgs (aa_ty a) (aa_mr a) (aa_mc a) (aa_merr a) (aa_valid a) (aa_a_given a) (aa_a_rows a) (aa_a_cols a)
         (aa_b_rows a) (aa_b_cols a) s (aa_s_rows a) (aa_s_cols a) (aa_s_diag a) (Some mp).

Definition map_ports (a : add_args) : list Z :=
  match aa_map a with
  | Some mp => firstn (Z.to_nat (Z.max (aa_s_rows a) (aa_s_cols a))) mp
  | None => []
  end.

(* for ALL arguments: the B cell -> M cell map is a function of the set of ports *)
Lemma m_cell_map_order_irrelevant_lemma : forall a mp mp' s',
  aa_map a = Some mp ->
  Permutation (map_ports a) (map_ports (with_map_s a mp' s')) ->
  m_cell_map (with_map_s a mp' s') = m_cell_map a.
Proof.
  intros a mp mp' s' Hm HP.
  unfold map_ports in HP. rewrite Hm in HP. simpl in HP.
  unfold m_cell_map, m_rows_of_args, m_cols_of_args, m_port_map_of. rewrite Hm. simpl.
  rewrite (sort_z_order_irrelevant_lemma _ _ HP). reflexivity.
Qed.

(* what add_common records is that map: inversion of the accepting path, all arguments *)
Lemma accepted_records_cell_map_lemma : forall a m, add_common a = Accepted m -> ms_m_cells m = m_cell_map a.
Proof.
  intros a m H. unfold add_common in H.
  repeat match type of H with
  | (if ?c then _ else _) = _ => destruct c; [discriminate H|]
  | (let '(_, _) := ?p in _) = _ => destruct p
  | match ?x with Some _ => _ | None => _ end = _ => destruct x; [discriminate H|]
  end.
  match type of H with
  | match ?x with Some _ => _ | None => _ end = _ => destruct x as [[? r]|]; [destruct r; discriminate H|]
  end.
  injection H as <-. reflexivity.
Qed.

Lemma port_order_irrelevant_for_m_cells_lemma : forall a mp mp' s' m m',
  aa_map a = Some mp ->
  Permutation (map_ports a) (map_ports (with_map_s a mp' s')) ->
  add_common a = Accepted m ->
  add_common (with_map_s a mp' s') = Accepted m' ->
  ms_m_cells m' = ms_m_cells m.
Proof.
  intros a mp mp' s' m m' Hm HP H1 H2.
  rewrite (accepted_records_cell_map_lemma _ _ H1), (accepted_records_cell_map_lemma _ _ H2).
  eapply m_cell_map_order_irrelevant_lemma; eassumption.
Qed.

(* ------------------------------------------------------------------------------------------------ *)
(* The bounded sweep.  A configuration: type, dimensions, the ports of the standard IN THE ORDER GIVEN
   (any order), the form of the S argument, m_error set or not, a matrix given or not. *)
Inductive sform :=
| SFull (pat : nat)      (* k x k matrix of parameters, zero pattern `pat' (see s_handle) *)
| SDiag.                 (* vnaa_s_is_diagonal (single / double reflect; any k in the model) *)

Record xcfg := mkX {
  x_ty : caltype; x_mr : nat; x_mc : nat;
  x_ports : list nat;
  x_form : sform;
  x_merr : bool;
  x_ag : bool
}.

(* S cell (i, j) of the k-port standard: 0 = VNACAL_ZERO (VNACAL_MATCH on the diagonal), else a parameter.
   pat 0: no zero; pat 1: every off-diagonal cell zero and a match on port 0;
   pat 2: zero above the diagonal (directional: S_ij = 0 for i < j);
   pat 3: off-diagonal non-zero only at (1,3), (2,0), (2,1) (non-reciprocal; the two-level union-find chain) *)
Definition s_handle (pat k i j : nat) : Z :=
  let h := Z.of_nat (3 + i * k + j) in
  match pat with
  | 0 => h
  | 1 => if Nat.eqb i j then (if Nat.eqb i 0 then 0%Z else h) else 0%Z
  | 2 => if Nat.ltb i j then 0%Z else h
  | _ => if Nat.eqb i j then h
         else if orb (andb (Nat.eqb i 1) (Nat.eqb j 3)) (andb (Nat.eqb i 2) (orb (Nat.eqb j 0) (Nat.eqb j 1)))
              then h else 0%Z
  end.

Definition x_args (c : xcfg) (br bc : nat) : add_args :=
  let k := length (x_ports c) in
  let ty := x_ty c in
  mkArgs ty (x_mr c) (x_mc c) (x_merr c) (fun _ => true)
         (x_ag c) (if VNACAL_IS_UE14 ty then 1%Z else Z.of_nat bc) (Z.of_nat bc)
         (Z.of_nat br) (Z.of_nat bc)
         (match x_form c with
          | SFull pat => flat_map (fun i => map (fun j => s_handle pat k i j) (seq 0 k)) (seq 0 k)
          | SDiag => map (fun i => Z.of_nat (3 + i)) (seq 0 k)
          end)
         (Z.of_nat k) (Z.of_nat k)
         (match x_form c with SDiag => true | _ => false end)
         (Some (map Z.of_nat (x_ports c))).

(* ---- the specification side, written without the sort ---- *)
(* the ports of the standard in ascending order, 0-based: those of 0 .. p-1 that occur in the map *)
Definition asc_ports (p : nat) (ports : list nat) : list nat :=
  filter (fun q => existsb (Nat.eqb (q + 1)) ports) (seq 0 p).

(* vnacal_new_add_*(3): an abbreviated matrix has the rows (columns) of the ports of the standard, in
   ascending order of VNA port; cell (i, j) of the caller's matrix is cell (rows[i], cols[j]) of the full one.
   The list gives, for every cell of the caller's matrix by rows, the full cell it denotes. *)
Definition denoted_cells (c : xcfg) (br bc : nat) : list nat :=
  let asc := asc_ports (Nat.max (x_mr c) (x_mc c)) (x_ports c) in
  let rows := if Nat.ltb br (x_mr c) then asc else seq 0 (x_mr c) in
  let cols := if Nat.ltb bc (x_mc c) then asc else seq 0 (x_mc c) in
  flat_map (fun r => map (fun cc => r * x_mc c + cc) cols) rows.

(* when the documentation (and the D48 repair) allow a br x bc matrix: each dimension is the full one, or
   the minimum one of the type (number of ports k; T16: k x full columns; U16: full rows x k) and then
   smaller than the full one with every port of the standard inside the calibration's rows (columns) *)
Definition shape_allowed (c : xcfg) (br bc : nat) : bool :=
  let k := length (x_ports c) in
  let ty := x_ty c in
  let minr := if caltype_eqb ty U16 then x_mr c else k in
  let minc := if caltype_eqb ty T16 then x_mc c else k in
  andb (orb (Nat.eqb br (x_mr c))
            (andb (andb (Nat.eqb br minr) (Nat.ltb br (x_mr c))) (forallb (fun q => Nat.leb q (x_mr c)) (x_ports c))))
       (orb (Nat.eqb bc (x_mc c))
            (andb (andb (Nat.eqb bc minc) (Nat.ltb bc (x_mc c))) (forallb (fun q => Nat.leb q (x_mc c)) (x_ports c)))).

Definition term_eqb (a b : term) : bool :=
  andb (andb (Z.eqb (t_x a) (t_x b)) (Bool.eqb (t_neg a) (t_neg b)))
       (andb (andb (Z.eqb (t_m a) (t_m b)) (Z.eqb (t_s a) (t_s b))) (Z.eqb (t_v a) (t_v b))).
Fixpoint list_eqb {A} (f : A -> A -> bool) (x y : list A) : bool :=
  match x, y with
  | [], [] => true
  | a :: r, b :: s => andb (f a b) (list_eqb f r s)
  | _, _ => false
  end.
Definition eq_eqb (a b : equation) : bool :=
  andb (andb (Nat.eqb (e_row a) (e_row b)) (Nat.eqb (e_col a) (e_col b))) (list_eqb term_eqb (e_terms a) (e_terms b)).
Definition scell_eqb (a b : scell) : bool :=
  match a, b with
  | SNull, SNull => true | SZero, SZero => true | SParam x, SParam y => Z.eqb x y | _, _ => false
  end.
Definition optn_eqb (a b : option nat) : bool :=
  match a, b with None, None => true | Some x, Some y => Nat.eqb x y | _, _ => false end.
Definition conn_eqb (a b : option (list bool)) : bool :=
  match a, b with None, None => true | Some x, Some y => list_eqb Bool.eqb x y | _, _ => false end.
Definition is_some {A} (o : option A) : bool := match o with Some _ => true | None => false end.

(* the full matrix itself is refused only in one case of the sweep: measurement-error modelling on T16 / U16
   needs the S parameters of ALL VNA ports (a standard on fewer ports leaves cells unknown) *)
Definition full_allowed (c : xcfg) : bool :=
  negb (andb (andb (x_merr c) (is_16 (x_ty c))) (Nat.ltb (length (x_ports c)) (Nat.max (x_mr c) (x_mc c)))).

(* the full matrix of the sweep carries in every cell its own index (a value that identifies the cell:
   store_m is parametric in the values, so agreement on these tags is agreement for all values) *)
Definition check_x (c : xcfg) : bool :=
  let ty := x_ty c in let mr := x_mr c in let mc := x_mc c in
  let k := length (x_ports c) in
  let tags := seq 0 (mr * mc) in
  match add_common (x_args c mr mc) with
  | Accepted full =>
      let stored_full := store_m (mr * mc) (ms_m_cells full) tags in
      andb (andb (full_allowed c) (list_eqb optn_eqb stored_full (map Some tags)))
      (forallb (fun brbc =>
        let '(br, bc) := brbc in
        match add_common (x_args c br bc) with
        | Accepted ab =>
            let stored_ab := store_m (mr * mc) (ms_m_cells ab) (denoted_cells c br bc) in
            andb (shape_allowed c br bc)
            (andb
              (* the caller's values land in the cells the full matrix has them in; exactly these cells are given *)
              (andb (Nat.eqb (length (ms_m_cells ab)) (br * bc))
                 (andb (Nat.eqb (length (denoted_cells c br bc)) (br * bc))
                    (andb (list_eqb Bool.eqb (map is_some stored_ab) (ms_m_given ab))
                          (forallb (fun xy => match fst xy with None => true | Some _ => optn_eqb (fst xy) (snd xy) end)
                                   (combine stored_ab stored_full)))))
            (andb
              (* the S matrix and the connectivity matrix do not depend on the shape of M *)
              (andb (list_eqb scell_eqb (ms_s ab) (ms_s full)) (conn_eqb (ms_conn ab) (ms_conn full)))
            (andb
              (* every equation of the abbreviated call is an equation of the full call, same terms *)
              (forallb (fun e => existsb (eq_eqb e) (ms_eqs full)) (ms_eqs ab))
              (* and there are no others, except for T16 / U16 whose extra rows / columns carry the
                 in-system leakage terms: there, INCLUSION ONLY *)
              (orb (is_16 ty) (list_eqb eq_eqb (ms_eqs ab) (ms_eqs full))))))
        | Rejected _ => negb (shape_allowed c br bc)
        | Aborts _ => false
        end) [(k, mc); (mr, k); (k, k)])
  | Rejected _ =>
      (* then no shape is accepted either *)
      andb (negb (full_allowed c))
           (forallb (fun brbc => match add_common (x_args c (fst brbc) (snd brbc)) with Rejected _ => true | _ => false end)
                    [(k, mc); (mr, k); (k, k)])
  | Aborts _ => false
  end.

(* ---- the enumeration ---- *)
Fixpoint insert_all {A} (x : A) (l : list A) : list (list A) :=
  match l with
  | [] => [[x]]
  | y :: r => (x :: l) :: map (cons y) (insert_all x r)
  end.
Fixpoint perms {A} (l : list A) : list (list A) :=
  match l with [] => [[]] | x :: r => flat_map (insert_all x) (perms r) end.

Definition nonempty_subsets (p : nat) : list (list nat) :=
  filter (fun x => negb (Nat.eqb (length x) 0)) (sublists (seq 1 p)).
(* ascending, descending, rotated by one *)
Definition three_orders (l : list nat) : list (list nat) :=
  match l with
  | [] => []
  | [_] => [l]
  | [_; _] => [l; rev l]
  | x :: r => [l; rev l; r ++ [x]]
  end.

Definition over_types_dims (f : caltype -> nat -> nat -> list xcfg) : list xcfg :=
  flat_map (fun ty => flat_map (fun rc => if dims_allowed ty rc then f ty (fst rc) (snd rc) else []) dims4) public_types.

(* A: every port set in EVERY order, all S cells parameters *)
Definition sweep_A : list xcfg :=
  over_types_dims (fun ty mr mc =>
    flat_map (fun sub => map (fun ports => mkX ty mr mc ports (SFull 0) false false) (perms sub))
             (nonempty_subsets (Nat.max mr mc))).
(* B: ascending, descending and rotated maps x zero patterns 1..3 and the diagonal form *)
Definition sweep_B : list xcfg :=
  over_types_dims (fun ty mr mc =>
    flat_map (fun sub => flat_map (fun ports =>
        map (fun f => mkX ty mr mc ports f false false) [SFull 1; SFull 2; SFull 3; SDiag]) (three_orders sub))
             (nonempty_subsets (Nat.max mr mc))).
(* C: descending maps x (m_error, a matrix given) *)
Definition sweep_C : list xcfg :=
  over_types_dims (fun ty mr mc =>
    flat_map (fun sub => map (fun ma => mkX ty mr mc (rev sub) (SFull 0) (fst ma) (snd ma))
                             [(true, false); (false, true); (true, true)])
             (nonempty_subsets (Nat.max mr mc))).
Definition sweep_cfgs : list xcfg := sweep_A ++ sweep_B ++ sweep_C.


Lemma sweep_ok : forallb check_x sweep_cfgs = true.
Proof. vm_cast_no_check (@eq_refl bool true). Qed.   (* evaluated once, by the kernel at Qed *)

Lemma abbreviated_agrees_with_full_swept_lemma : forall c, In c sweep_cfgs -> check_x c = true.
Proof. apply forallb_forall. exact sweep_ok. Qed.

(* the sweep is not vacuous.  Over part A (every order of every port set): abbreviated calls (a shape
   counts when it is smaller than the full matrix) accepted and compared, those among them whose port map
   is not ascending, and shapes refused (and required to be refused by shape_allowed) *)
Definition truly_abbreviated (c : xcfg) (brbc : nat * nat) : bool :=
  orb (Nat.ltb (fst brbc) (x_mr c)) (Nat.ltb (snd brbc) (x_mc c)).
Definition shapes_of (c : xcfg) : list (nat * nat) :=
  let k := length (x_ports c) in [(k, x_mc c); (x_mr c, k); (k, k)].
Definition count_shapes (l : list xcfg) (p : xcfg -> nat * nat -> bool) : nat :=
  fold_left (fun n c => n + length (filter (p c) (shapes_of c))) l 0.
Definition accepted_shape (c : xcfg) (brbc : nat * nat) : bool :=
  match add_common (x_args c (fst brbc) (snd brbc)) with Accepted _ => true | _ => false end.
Definition ascending (l : list nat) : bool := list_eqb Nat.eqb l (map S (asc_ports 4 l)).

Example sweep_counts :
  (length sweep_A, length sweep_B, length sweep_C) = (2480, 52 * 104, 2112) /\
  count_shapes sweep_A (fun c s => andb (truly_abbreviated c s) (accepted_shape c s)) = 2348 /\
  count_shapes sweep_A (fun c s => andb (andb (truly_abbreviated c s) (accepted_shape c s)) (negb (ascending (x_ports c)))) = 1300 /\
  count_shapes sweep_A (fun c s => negb (accepted_shape c s)) = 3204.
Proof. vm_compute. repeat split; reflexivity. Qed.

(* the sort at work: a three-port standard on VNA ports 4, 2, 1 (in this order) of a 4 x 4 T8 calibration,
   3 x 3 measurement matrix: its rows / columns are the VNA ports 1, 2, 4 *)
Example unsorted_map_421 :
  match add_common (x_args (mkX T8 4 4 [4; 2; 1] (SFull 0) false false) 3 3) with
  | Accepted m => ms_m_cells m = [0; 1; 3; 4; 5; 7; 12; 13; 15]
  | _ => False
  end.
Proof. vm_compute. reflexivity. Qed.

(* the hypotheses of port_order_irrelevant_for_m_cells are met by a non-trivial pair *)
Lemma port_order_irrelevant_nonvacuous_lemma :
  let a := x_args (mkX T8 4 4 [4; 2; 1] (SFull 0) false false) 3 3 in
  let mp' := [1; 2; 4]%Z in
  aa_map a = Some [4; 2; 1]%Z /\
  Permutation (map_ports a) (map_ports (with_map_s a mp' (aa_s a))) /\
  (exists m m', add_common a = Accepted m /\ add_common (with_map_s a mp' (aa_s a)) = Accepted m' /\
                ms_m_cells m = [0; 1; 3; 4; 5; 7; 12; 13; 15] /\ ms_m_cells m' = ms_m_cells m).
Proof.
  split; [reflexivity|]. split.
  - vm_compute. change (Permutation (rev [1; 2; 4]%Z) [1; 2; 4]%Z). apply Permutation_sym, Permutation_rev.
  - eexists; eexists. split; [vm_compute; reflexivity|]. split; [vm_compute; reflexivity|].
    split; vm_compute; reflexivity.
Qed.

(* ------------------------------------------------------------------------------------------------ *)
(* The order in which the standards are added.  _vnacal_new_add_common reads nothing from the
   calibration under construction but the layout, the m_error flag and the parameter table (aa_valid),
   so the calls are independent: *)
Definition accepted_of (a : add_args) : list measurement :=
  match add_common a with Accepted m => [m] | _ => [] end.

Definition add_all (l : list add_args) : calstate := fold_left (fun st a => fst (add_step st a)) l [].

Lemma add_all_from : forall l st, fold_left (fun st a => fst (add_step st a)) l st = st ++ flat_map accepted_of l.
Proof.
  induction l as [|a r IH]; intros st; simpl.
  - rewrite app_nil_r; reflexivity.
  - rewrite IH. unfold add_step, accepted_of. destruct (add_common a); simpl; try reflexivity.
    rewrite <- app_assoc; reflexivity.
Qed.

Lemma add_all_flat_map : forall l, add_all l = flat_map accepted_of l.
Proof. intros l; unfold add_all; rewrite add_all_from; reflexivity. Qed.

(* a row of a linear system: the equation together with the measurement whose M values and S cells its
   terms refer to (system_equations gives the index of that measurement in the list) *)
Definition no_meas : measurement := mkMeas [] [] None [].
Definition system_rows (ty : caltype) (st : calstate) (sys : nat) : list (measurement * equation) :=
  map (fun ie => (nth (fst ie) st no_meas, snd ie)) (system_equations ty st sys).

Definition eq_in_system (ty : caltype) (sys : nat) (e : equation) : bool :=
  orb (negb (is_ue14 ty)) (Nat.eqb (e_col e) sys).

Definition rows_of (ty : caltype) (sys : nat) (m : measurement) : list (measurement * equation) :=
  map (pair m) (filter (eq_in_system ty sys) (ms_eqs m)).

Lemma eqs_of_index : forall ty sys (i : nat) (l : list equation),
  flat_map (fun e => if orb (negb (is_ue14 ty)) (Nat.eqb (e_col e) sys) then [(i, e)] else []) l
  = map (pair i) (filter (eq_in_system ty sys) l).
Proof.
  intros ty sys i l; induction l as [|e r IH]; simpl; [reflexivity|].
  unfold eq_in_system at 1. destruct (orb (negb (is_ue14 ty)) (Nat.eqb (e_col e) sys)); simpl; rewrite IH; reflexivity.
Qed.

Lemma system_rows_from : forall ty sys st pre,
  map (fun ie : nat * equation => (nth (fst ie) (pre ++ st) no_meas, snd ie))
      (flat_map (fun im : nat * measurement => let '(i, m) := im in
                   flat_map (fun e => if orb (negb (is_ue14 ty)) (Nat.eqb (e_col e) sys) then [(i, e)] else [])
                            (ms_eqs m))
                (combine (seq (length pre) (length st)) st))
  = flat_map (rows_of ty sys) st.
Proof.
  intros ty sys st; induction st as [|m r IH]; intros pre; simpl; [reflexivity|].
  rewrite map_app. f_equal.
  - rewrite eqs_of_index. unfold rows_of. rewrite map_map. apply map_ext. intros e; simpl.
    rewrite app_nth2 by lia. rewrite Nat.sub_diag. reflexivity.
  - specialize (IH (pre ++ [m])). rewrite <- app_assoc in IH. simpl in IH.
    rewrite app_length in IH. simpl in IH. rewrite Nat.add_1_r in IH. exact IH.
Qed.

Lemma system_rows_flat_map : forall ty st sys, system_rows ty st sys = flat_map (rows_of ty sys) st.
Proof. intros ty st sys. unfold system_rows, system_equations. exact (system_rows_from ty sys st []). Qed.

(* for ALL calibration states: permuting the accepted standards permutes the rows of every system *)
Lemma standards_order_permutes_rows_lemma : forall ty sys st st',
  Permutation st st' -> Permutation (system_rows ty st sys) (system_rows ty st' sys).
Proof. intros ty sys st st' H. rewrite !system_rows_flat_map. apply Permutation_flat_map. exact H. Qed.

(* for ALL lists of calls (accepted or refused, any arguments): adding the same standards in another
   order gives the same measurements and, in every linear system, the same rows in another order *)
Lemma add_order_permutes_rows_lemma : forall ty sys l l',
  Permutation l l' ->
  Permutation (add_all l) (add_all l') /\
  Permutation (system_rows ty (add_all l) sys) (system_rows ty (add_all l') sys).
Proof.
  intros ty sys l l' H.
  assert (P : Permutation (add_all l) (add_all l')) by (rewrite !add_all_flat_map; apply Permutation_flat_map; exact H).
  split; [exact P|apply standards_order_permutes_rows_lemma; exact P].
Qed.

(* the hypotheses are met non-trivially: a through and a reflect on a 2 x 2 TE10 calibration in both orders
   give the 5 rows of the system in two different orders *)
Definition ex_thru : add_args := mkArgs TE10 2 2 false (fun _ => true) false 0 0 2 2 [0; 1; 1; 0]%Z 2 2 false (Some [1; 2]%Z).
Definition ex_refl : add_args := mkArgs TE10 2 2 false (fun _ => true) false 0 0 2 2 [2]%Z 1 1 true (Some [2]%Z).
Example add_order_example :
  length (system_rows TE10 (add_all [ex_thru; ex_refl]) 0) = 5 /\
  map (fun r => e_row (snd r)) (system_rows TE10 (add_all [ex_thru; ex_refl]) 0) <>
  map (fun r => e_row (snd r)) (system_rows TE10 (add_all [ex_refl; ex_thru]) 0).
Proof. vm_compute. split; [reflexivity|discriminate]. Qed.
