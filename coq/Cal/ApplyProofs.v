(* fill_eq_spec: the (A, B) matrices filled by fill_t8/u8/t16/u16/ue14/e12 as coded are the block
   expressions of the apply theorems (Ts - M' Tx, M' Tm - Ti; Ux M' + Us, Um M' + Ui; the per-column
   forms for UE14 and E12), for every stored type and every shape vnacal_apply accepts with
   dimensions 1..4, as rational functions of the error terms and measured cells (symbolic values,
   Cal/Sym.v).  Decided by computation. *)
Require Import List ZArith Bool Arith.
Require Import LV.Base.CField LV.Gen.LayoutGen LV.Cal.Sym LV.Cal.ApplyModel.
Import ListNotations.
Local Open Scope nat_scope.

Definition stored_types : list caltype := [T8; U8; TE10; UE10; T16; U16; UE14; E12].

Definition apply_shapes (ty : caltype) : list (nat * nat) :=
  [(1, 1); (2, 2); (3, 3); (4, 4)] ++ (if VNACAL_IS_T ty then [(1, 2)] else [(2, 1)]).

Definition apply_cases : list (caltype * (nat * nat)) :=
  flat_map (fun ty => map (fun rc => (ty, rc)) (apply_shapes ty)) stored_types.

Definition sym_e (ty : caltype) (mr mc : nat) : list frac :=
  map (fun k => fvar (v_e k)) (seq 0 (Z.to_nat (VL_ERROR_TERMS (layout ty (Z.of_nat mr) (Z.of_nat mc))))).
Definition sym_m (p : nat) : list frac := map (fun c => fvar (v_m c)) (seq 0 (p * p)).

Definition check_fill (c : caltype * (nat * nat)) : bool :=
  let '(ty, (mr, mc)) := c in
  let p := Nat.max mr mc in
  match apply_fill sym_ops ty mr mc (sym_e ty mr mc) (sym_m p) with
  | Filled _ a b =>
      let '(sa, sb) := spec_fill sym_ops ty mr mc (sym_e ty mr mc) (sym_m p) in
      andb (andb (Nat.eqb (length a) (p * p)) (list_feqb a sa)) (list_feqb b sb)
  | _ => false
  end.

Lemma fill_eq_spec_all : forallb check_fill apply_cases = true.
Proof. vm_compute. reflexivity. Qed.

Lemma fill_eq_spec_lemma : forall c, In c apply_cases -> check_fill c = true.
Proof. apply forallb_forall. exact fill_eq_spec_all. Qed.

(* every other shape with dimensions 1..4 the type allows is refused before any fill function runs *)
Definition refused_shapes (ty : caltype) : list (nat * nat) :=
  filter (fun rc => andb (if VNACAL_IS_T ty then Nat.leb (fst rc) (snd rc) else Nat.leb (snd rc) (fst rc))
                         (negb (existsb (fun q => andb (Nat.eqb (fst q) (fst rc)) (Nat.eqb (snd q) (snd rc))) (apply_shapes ty))))
         (flat_map (fun r => map (fun c => (r, c)) (seq 1 4)) (seq 1 4)).

Definition is_refused {A} (r : fres A) : bool := match r with Refused => true | _ => false end.

Lemma apply_refuses_other_shapes_all :
  forallb (fun ty => forallb (fun rc => is_refused (apply_fill sym_ops ty (fst rc) (snd rc) [] [])) (refused_shapes ty))
          stored_types = true.
Proof. vm_compute. reflexivity. Qed.

Example fill_cases_count : length apply_cases = 40 /\ length (refused_shapes U16) = 5.
Proof. vm_compute. split; reflexivity. Qed.

(* the symbolic comparison is not blind: exchanging two error terms is seen *)
Example fill_check_is_sensitive :
  let e := sym_e U8 2 2 in
  let e' := updl (updl e 4 (nth 5 e (fconst 0))) 5 (nth 4 e (fconst 0)) in
  match apply_fill sym_ops U8 2 2 e' (sym_m 2), spec_fill sym_ops U8 2 2 e (sym_m 2) with
  | Filled _ a _, (sa, _) => list_feqb a sa
  | _, _ => true
  end = false.
Proof. vm_compute. reflexivity. Qed.

(* ---------------------------------------------------------------- the shape test, every dimension *)
Require Import Lia.

(* no bound: for every value type, every type code, all dimensions and all arrays *)
Lemma apply_refuses_other_shapes_lemma (O : Ops) (ty : caltype) (mr mc : nat) (e m : list O) :
  mr <> mc -> Nat.max mr mc <> 2 -> apply_fill O ty mr mc e m = Refused.
Proof.
  intros H1 H2. unfold apply_fill.
  destruct (Nat.eqb_spec mr mc) as [E|_]; [contradiction|].
  destruct (Nat.eqb_spec (Nat.max mr mc) 2) as [E|_]; [contradiction|].
  reflexivity.
Qed.

Ltac fill_cases :=
  unfold fill_t8, fill_u8, fill_t16, fill_u16, fill_ue14, fill_e12; cbv zeta;
  repeat match goal with |- context [if ?b then _ else _] => destruct b end;
  try discriminate.

Lemma fill_not_refused (O : Ops) (ty : caltype) (mr mc : nat) (e m : list O) :
  fill_t8 O ty mr mc e m <> Refused /\ fill_u8 O ty mr mc e m <> Refused /\
  fill_t16 O ty mr mc e m <> Refused /\ fill_u16 O ty mr mc e m <> Refused /\
  fill_ue14 O ty mr mc e m <> Refused /\ fill_e12 O ty mr mc e m <> Refused.
Proof. repeat split; fill_cases. Qed.

Lemma apply_accepts_shape_lemma (O : Ops) (ty : caltype) (mr mc : nat) (e m : list O) :
  mr = mc \/ Nat.max mr mc = 2 -> apply_fill O ty mr mc e m <> Refused.
Proof.
  intros H. unfold apply_fill.
  assert (E : andb (negb (Nat.eqb mr mc)) (negb (Nat.eqb (Nat.max mr mc) 2)) = false).
  { destruct (Nat.eqb_spec mr mc); destruct (Nat.eqb_spec (Nat.max mr mc) 2); try reflexivity; lia. }
  rewrite E.
  destruct (fill_not_refused O ty mr mc e m) as (H1 & H2 & H3 & H4 & H5 & H6).
  destruct ty; assumption.
Qed.

(* for the dimensions the type allows (rows <= columns for T, rows >= columns for U and E) the
   assert(m_rows == m_columns) of the fill functions cannot fail *)
Lemma apply_assert_unreachable_lemma (O : Ops) (ty : caltype) (mr mc : nat) (e m : list O) :
  1 <= mr -> 1 <= mc -> (if VNACAL_IS_T ty then mr <= mc else mc <= mr) ->
  apply_fill O ty mr mc e m <> FAssert.
Proof.
  intros Hr Hc Hd. unfold apply_fill.
  destruct (Nat.eqb_spec mr mc) as [E|NE]; cbn [negb andb].
  - subst mc. unfold fill_t8, fill_u8, fill_t16, fill_u16, fill_ue14, fill_e12.
    rewrite Nat.eqb_refl. cbn [negb]. cbv zeta.
    destruct ty; repeat match goal with |- context [if ?b then _ else _] => destruct b end; discriminate.
  - destruct (Nat.eqb_spec (Nat.max mr mc) 2) as [E2|NE2]; cbn [negb]; [|discriminate].
    assert (Hs : (mr = 1 /\ mc = 2) \/ (mr = 2 /\ mc = 1)) by lia.
    destruct Hs as [[-> ->]|[-> ->]]; destruct ty; cbn in Hd; try lia; cbv; discriminate.
Qed.
