(* fill_eq_spec: the (A, B) matrices filled by fill_t8/u8/t16/u16/ue14/e12 as coded are the block
   expressions of the apply theorems (Ts - M' Tx, M' Tm - Ti; Ux M' + Us, Um M' + Ui; the per-column
   forms for UE14 and E12), for every stored type and every shape vnacal_apply accepts with
   dimensions 1..4, as rational functions of the error terms and measured cells (symbolic values,
   Cal/Sym.v).  Decided by computation. *)
Require Import List ZArith Bool Arith.
Require Import LV.Base.CField LV.Gen.LayoutGen LV.Cal.Sym LV.Cal.ApplyModel.
Import ListNotations.
Local Open Scope nat_scope.

Definition stored_types : list caltype := [T8; U8; TE10; UE10; T16; U16; UE14; E12].

Definition apply_shapes (ty : caltype) : list (nat * nat) :=
  [(1, 1); (2, 2); (3, 3); (4, 4)] ++ (if VNACAL_IS_T ty then [(1, 2)] else [(2, 1)]).

Definition apply_cases : list (caltype * (nat * nat)) :=
  flat_map (fun ty => map (fun rc => (ty, rc)) (apply_shapes ty)) stored_types.

Definition sym_e (ty : caltype) (mr mc : nat) : list frac :=
  map (fun k => fvar (v_e k)) (seq 0 (Z.to_nat (VL_ERROR_TERMS (layout ty (Z.of_nat mr) (Z.of_nat mc))))).
Definition sym_m (p : nat) : list frac := map (fun c => fvar (v_m c)) (seq 0 (p * p)).

Definition check_fill (c : caltype * (nat * nat)) : bool :=
  let '(ty, (mr, mc)) := c in
  let p := Nat.max mr mc in
  match apply_fill sym_ops ty mr mc (sym_e ty mr mc) (sym_m p) with
  | Filled _ a b =>
      let '(sa, sb) := spec_fill sym_ops ty mr mc (sym_e ty mr mc) (sym_m p) in
      andb (andb (Nat.eqb (length a) (p * p)) (list_feqb a sa)) (list_feqb b sb)
  | _ => false
  end.

Lemma fill_eq_spec_all : forallb check_fill apply_cases = true.
Proof. vm_compute. reflexivity. Qed.

Lemma fill_eq_spec_lemma : forall c, In c apply_cases -> check_fill c = true.
Proof. apply forallb_forall. exact fill_eq_spec_all. Qed.

(* every other shape with dimensions 1..4 the type allows is refused before any fill function runs *)
Definition refused_shapes (ty : caltype) : list (nat * nat) :=
  filter (fun rc => andb (if VNACAL_IS_T ty then Nat.leb (fst rc) (snd rc) else Nat.leb (snd rc) (fst rc))
                         (negb (existsb (fun q => andb (Nat.eqb (fst q) (fst rc)) (Nat.eqb (snd q) (snd rc))) (apply_shapes ty))))
         (flat_map (fun r => map (fun c => (r, c)) (seq 1 4)) (seq 1 4)).

Definition is_refused {A} (r : fres A) : bool := match r with Refused => true | _ => false end.

Lemma apply_refuses_other_shapes_all :
  forallb (fun ty => forallb (fun rc => is_refused (apply_fill sym_ops ty (fst rc) (snd rc) [] [])) (refused_shapes ty))
          stored_types = true.
Proof. vm_compute. reflexivity. Qed.

Example fill_cases_count : length apply_cases = 40 /\ length (refused_shapes U16) = 5.
Proof. vm_compute. split; reflexivity. Qed.

(* the symbolic comparison is not blind: exchanging two error terms is seen *)
Example fill_check_is_sensitive :
  let e := sym_e U8 2 2 in
  let e' := updl (updl e 4 (nth 5 e (fconst 0))) 5 (nth 4 e (fconst 0)) in
  match apply_fill sym_ops U8 2 2 e' (sym_m 2), spec_fill sym_ops U8 2 2 e (sym_m 2) with
  | Filled _ a _, (sa, _) => list_feqb a sa
  | _, _ => true
  end = false.
Proof. vm_compute. reflexivity. Qed.
