(* C17, renumbering of the VNA ports, ON THE EXECUTABLE LIST MODELS (TermsModel builders as coded,
   SolveSimple.row_of / assemble as coded), any field, EVERY number of ports n (mr = mc = n), every renumbering
   (p with inverse q), every list of measured standards, for the types T8, TE10, U8, UE10, T16, U16:
     1. a row assembled by the fold of _vnacal_new_solve_simple is, column by column of the homogeneous system
        (unity term put back, hrow), the SUM over the no-V terms of the equation of their signed values
        (hrow_terms);
     2. the terms the builders emit for equation (p r, p c) on the renumbered record are, loop index by loop index
        (sums reindexed along p), the terms of equation (r, c) of the original record with the unknown k replaced
        by perm_index k -- the unity term tm[0] / um[0] of one side is an ordinary term of the other
        (t8_equiv, u8_equiv, t16_equiv, u16_equiv);
     3. the leakage sums / means of TE10, UE10 are equivariant cell by cell (leak_acc_renum, m_adjusted_renum);
     4. hence renum_row_lemma / renum_assemble_lemma: every row of the renumbered calibration is the row of the
        same standard and equation of the original with its columns permuted by perm_index.
   Exact arithmetic; nothing about the solver here. *)
Require Import List ZArith Bool Arith Lia Permutation FinFun.
Require Import LV.Base.CField LV.Lin.MatL LV.Lin.LuGenA.
Require Import LV.Gen.LayoutGen LV.Cal.Sym LV.Cal.TermsModel LV.Cal.AddModel LV.Cal.ApplyModel LV.Cal.SolveSimple
               LV.Cal.RenumberModel LV.Cal.OrderProofs.
Import ListNotations.
Local Open Scope nat_scope.

(* ---------------------------------------------------------------- renumberings *)
Lemma renum_sym n p q : is_renum n p q -> is_renum n q p.
Proof. intros [A B]. split; assumption. Qed.

Lemma renum_perm_list n p q : is_renum n p q -> Permutation (map p (seq 0 n)) (seq 0 n).
Proof.
  intros [Hp Hq].
  set (p' := fun i => if Nat.ltb i n then p i else i).
  assert (E : map p (seq 0 n) = map p' (seq 0 n)).
  { apply map_ext_in. intros i Hi. apply in_seq in Hi. unfold p'.
    destruct (Nat.ltb_spec i n); [reflexivity|lia]. }
  rewrite E. apply nat_bijection_Permutation.
  - intros x Hx. unfold p'. destruct (Nat.ltb_spec x n); [apply Hp; assumption|lia].
  - intros x y. unfold p'. destruct (Nat.ltb_spec x n) as [Hx|Hx], (Nat.ltb_spec y n) as [Hy|Hy]; intros HH.
    + rewrite <- (proj2 (Hp x Hx)), <- (proj2 (Hp y Hy)). rewrite HH. reflexivity.
    + destruct (Hp x Hx). lia.
    + destruct (Hp y Hy). lia.
    + exact HH.
Qed.

Section Sums.
Variable K : CField.
Add Field Kf_ren1 : (cth K).
Local Open Scope cf_scope.

Lemma sumf_renum n p q (f : nat -> K) : is_renum n p q -> sumf n (fun k => f (p k)) = sumf n f.
Proof.
  intros H. rewrite <- (sumf_reindex K n (map p (seq 0 n)) f (renum_perm_list n p q H)).
  apply sumf_ext. intros k Hk.
  rewrite (nth_indep _ O (p O)) by (rewrite map_length, seq_length; exact Hk).
  rewrite map_nth. rewrite seq_nth by exact Hk. reflexivity.
Qed.

(* sums over the items a builder emits *)
Definition isum (h : term -> K) (items : list titem) : K :=
  lsum K (map (fun it => match it with Tm t => h t | AssertFail _ => 0 end) items).

Lemma isum_terms h items : isum h items = lsum K (map h (terms_of_items items)).
Proof.
  induction items as [|[t|w] r IH]; [reflexivity| |]; unfold isum, terms_of_items, lsum in *;
    cbn [map flat_map app fold_right]; rewrite IH; [reflexivity | ring].
Qed.

Lemma isum_app h a b : isum h (a ++ b) = isum h a + isum h b.
Proof. unfold isum. rewrite map_app, lsum_app. reflexivity. Qed.

Lemma isum_nil h : isum h [] = 0.
Proof. reflexivity. Qed.

Lemma isum_one h t : isum h [Tm t] = h t.
Proof. unfold isum. cbn. ring. Qed.

Lemma isum_assert h w : isum h [AssertFail w] = 0.
Proof. unfold isum. cbn. ring. Qed.

Lemma isum_flat_map {A} h (f : A -> list titem) (l : list A) :
  isum h (flat_map f l) = lsum K (map (fun x => isum h (f x)) l).
Proof.
  induction l as [|x r IH]; [reflexivity|]. cbn [flat_map map lsum fold_right].
  rewrite isum_app, IH. reflexivity.
Qed.

Lemma isum_flat_map_seq h (f : nat -> list titem) n :
  isum h (flat_map f (seq 0 n)) = sumf n (fun i => isum h (f i)).
Proof. rewrite isum_flat_map. symmetry. apply sumf_lsum. Qed.

Lemma isum_map_seq h (f : nat -> titem) n :
  isum h (map f (seq 0 n)) = sumf n (fun i => isum h [f i]).
Proof.
  rewrite <- isum_flat_map_seq.
  replace (flat_map (fun i => [f i]) (seq 0 n)) with (map f (seq 0 n)); [reflexivity|].
  induction (seq 0 n) as [|x r IH]; [reflexivity|]. cbn. rewrite IH. reflexivity.
Qed.

(* ---------------------------------------------------------------- a row as a sum over the terms *)
Lemma nth_updl {A} (l : list A) j x k d :
  nth k (updl l j x) d = if andb (Nat.eqb j k) (Nat.ltb j (length l)) then x else nth k l d.
Proof.
  revert j k. induction l as [|y l IH]; intros [|j] [|k]; cbn; try reflexivity.
  - destruct (Nat.eqb j k); reflexivity.
  - rewrite IH. change (S j <? S (length l))%nat with (j <? length l)%nat. reflexivity.
Qed.

Lemma updl_len {A} (l : list A) i x : length (updl l i x) = length l.
Proof. revert i; induction l as [|y l IH]; intros [|i]; cbn; try reflexivity. rewrite IH. reflexivity. Qed.

Ltac kring :=
  repeat match goal with |- context [hrow ?o ?u ?ab ?k] =>
    let x := fresh "x" in pose (x := (hrow o u ab k : F K)); change (hrow o u ab k) with x; clearbody x end;
  match goal with |- @eq _ ?a ?b => change (@eq (F K) a b) end; ring.

Section Row.
Variables (vcols u unk : nat) (adj sv : nat -> K).

Definition tval (t : term) : K :=
  let v0 := if t_neg t then 0 - 1 else 1 in
  let v1 := if Z.ltb (t_m t) 0 then v0 else v0 * adj (Z.to_nat (t_m t)) in
  if Z.ltb (t_s t) 0 then v1 else v1 * sv (Z.to_nat (t_s t)).

Definition rstep (ab : list K * K) (t : term) : list K * K :=
  if negb (t_nov vcols t) then ab else
  if Z.ltb (t_x t) 0 then (fst ab, snd ab + tval t)
  else (updl (fst ab) (Z.to_nat (t_x t)) (nth (Z.to_nat (t_x t)) (fst ab) 0 + tval t), snd ab).

(* column of the homogeneous system a term contributes to, and its coefficient there *)
Definition hx (t : term) : nat :=
  if Z.ltb (t_x t) 0 then u else let j := Z.to_nat (t_x t) in if Nat.ltb j u then j else S j.
Definition hval (t : term) : K := if Z.ltb (t_x t) 0 then 0 - tval t else tval t.
Definition hcoef (k : nat) (t : term) : K :=
  if andb (t_nov vcols t) (Nat.eqb (hx t) k) then hval t else 0.

Notation hr := (hrow (ops_of K) u).

Lemma rstep_length ab t : length (fst (rstep ab t)) = length (fst ab).
Proof.
  unfold rstep. destruct (negb _); [reflexivity|]. destruct (Z.ltb _ _); cbn [fst]; [reflexivity|apply updl_len].
Qed.

Lemma hrow_step ab t k : length (fst ab) = unk -> (u <= unk)%nat -> (k <= unk)%nat ->
  hr (rstep ab t) k = hr ab k + hcoef k t.
Proof.
  intros Hl Hu Hk. unfold rstep, hcoef, hx, hval, hrow, g. cbn [T o0 osub ops_of].
  destruct (t_nov vcols t); cbn [negb andb]; [|ring].
  destruct (Z.ltb (t_x t) 0); cbn [fst snd].
  - destruct (Nat.ltb_spec k u).
    + destruct (Nat.eqb_spec u k); [lia|ring].
    + destruct (Nat.eqb_spec k u), (Nat.eqb_spec u k); try lia; ring.
  - set (j := Z.to_nat (t_x t)). rewrite !nth_updl. rewrite Hl.
    destruct (Nat.ltb_spec k u).
    + destruct (Nat.ltb_spec j u).
      * destruct (Nat.eqb_spec j k); cbn [andb].
        -- subst k. destruct (Nat.ltb_spec j unk); [ring|lia].
        -- ring.
      * destruct (Nat.eqb_spec j k), (Nat.eqb_spec (S j) k); try lia. cbn [andb]. ring.
    + destruct (Nat.eqb_spec k u).
      * destruct (Nat.ltb_spec j u).
        -- destruct (Nat.eqb_spec j k); [lia|ring].
        -- destruct (Nat.eqb_spec (S j) k); [lia|ring].
      * destruct (Nat.ltb_spec j u).
        -- destruct (Nat.eqb_spec j (k - 1)), (Nat.eqb_spec j k); try lia. cbn [andb]. ring.
        -- destruct (Nat.eqb_spec j (k - 1)), (Nat.eqb_spec (S j) k); try lia; cbn [andb].
           ++ destruct (Nat.ltb_spec j unk); [|lia]. replace (k - 1)%nat with j by lia. ring.
           ++ ring.
Qed.

Lemma hrow_fold ts k : (u <= unk)%nat -> (k <= unk)%nat -> forall ab, length (fst ab) = unk ->
  hr (fold_left rstep ts ab) k = hr ab k + lsum K (map (hcoef k) ts).
Proof.
  intros Hu Hk. induction ts as [|t r IH]; intros ab Hl; cbn [fold_left map lsum fold_right]; [kring|].
  rewrite IH by (rewrite rstep_length; exact Hl). rewrite hrow_step by assumption.
  change (fold_right (fun x s : K => cadd x s) c0 (map (hcoef k) r)) with (lsum K (map (hcoef k) r)). kring.
Qed.

Lemma hrow_init k : hr (repeat 0 unk, 0) k = 0.
Proof.
  unfold hrow, g. cbn [T o0 osub ops_of fst snd].
  destruct (Nat.ltb k u); [apply nth_repeat|]. destruct (Nat.eqb k u); [ring|apply nth_repeat].
Qed.

Lemma hrow_terms ts k : (u <= unk)%nat -> (k <= unk)%nat ->
  hr (fold_left rstep ts (repeat 0 unk, 0)) k = lsum K (map (hcoef k) ts).
Proof.
  intros Hu Hk. rewrite hrow_fold by (try assumption; apply repeat_length). rewrite hrow_init.
  kring.
Qed.
End Row.
End Sums.
Notation tzn := TermsModel.zn.

(* ---------------------------------------------------------------- index arithmetic *)
Lemma pidx_block ty n p b i : is_16 ty = false -> i < n -> perm_index ty n p (b * n + i) = b * n + p i.
Proof.
  intros H Hi. unfold perm_index. rewrite H.
  rewrite Nat.div_add_l by lia. rewrite (Nat.div_small i n) by exact Hi. rewrite Nat.add_0_r.
  rewrite (Nat.add_comm (b * n) i), Nat.mod_add by lia. rewrite Nat.mod_small by exact Hi. reflexivity.
Qed.

Lemma pidx_inv ty n p q k : is_16 ty = false -> is_renum n p q -> 0 < n ->
  perm_index ty n q (perm_index ty n p k) = k.
Proof.
  intros H [Hp Hq] Hn.
  assert (Hm : k mod n < n) by (apply Nat.mod_upper_bound; lia).
  rewrite (Nat.div_mod k n) at 1 by lia. rewrite (Nat.mul_comm n (k / n)).
  rewrite (pidx_block ty n p _ _ H Hm).
  rewrite (pidx_block ty n q _ _ H (proj1 (Hp _ Hm))).
  rewrite (proj2 (Hp _ Hm)). rewrite (Nat.div_mod k n) at 3 by lia. lia.
Qed.

Lemma nov_cell n x neg m s i j : i < n -> j < n ->
  t_nov n (mkTerm x neg m s (tzn (i * n + j))) = Nat.eqb i j.
Proof.
  intros Hi Hj. unfold t_nov, TermsModel.zn. cbn [t_v].
  destruct (Nat.eqb_spec i j) as [E|E].
  - subst j. replace (Z.of_nat (i * n + i)) with (Z.of_nat i * (Z.of_nat n + 1))%Z by lia.
    rewrite Z.mod_mul by lia. reflexivity.
  - apply Z.eqb_neq. intros H. apply Z.mod_divide in H; [|lia]. destruct H as [z Hz].
    assert (Hz' : (Z.of_nat i * Z.of_nat n + Z.of_nat j = z * (Z.of_nat n + 1))%Z) by lia.
    assert (z = Z.of_nat i) by nia. subst z. apply E. lia.
Qed.

Lemma renum_eqb n p q i j : is_renum n p q -> i < n -> j < n -> Nat.eqb (p i) (p j) = Nat.eqb i j.
Proof.
  intros [Hp _] Hi Hj. destruct (Nat.eqb_spec i j) as [E|E]; [subst; apply Nat.eqb_refl|].
  apply Nat.eqb_neq. intros H. apply E. rewrite <- (proj2 (Hp i Hi)), <- (proj2 (Hp j Hj)), H. reflexivity.
Qed.

Lemma zn_ltb0 a : Z.ltb (tzn a) 0 = false.
Proof. unfold TermsModel.zn. apply Z.ltb_ge. lia. Qed.
Lemma zn_id a : Z.to_nat (tzn a) = a.
Proof. unfold TermsModel.zn. apply Nat2Z.id. Qed.

Lemma cell_div n i j : j < n -> (i * n + j) / n = i.
Proof. intros H. rewrite Nat.div_add_l by lia. rewrite Nat.div_small by exact H. lia. Qed.
Lemma cell_mod n i j : j < n -> (i * n + j) mod n = j.
Proof. intros H. rewrite Nat.add_comm, Nat.mod_add by lia. apply Nat.mod_small. exact H. Qed.

Lemma pidx16_block ty n p b i j : is_16 ty = true -> i < n -> j < n ->
  perm_index ty n p (b * (n * n) + (i * n + j)) = b * (n * n) + (p i * n + p j).
Proof.
  intros H Hi Hj. unfold perm_index. rewrite H. cbv zeta.
  assert (Hc : i * n + j < n * n) by nia.
  rewrite (cell_div (n * n) b _ Hc), (cell_mod (n * n) b _ Hc).
  rewrite (cell_div n i j Hj), (cell_mod n i j Hj). reflexivity.
Qed.

Lemma pidx16_inv ty n p q k : is_16 ty = true -> is_renum n p q -> 0 < n ->
  perm_index ty n q (perm_index ty n p k) = k.
Proof.
  intros H [Hp Hq] Hn.
  set (cell := k mod (n * n)).
  assert (Hnn : 0 < n * n) by nia.
  assert (Hi : cell / n < n) by (apply Nat.div_lt_upper_bound; [lia|]; unfold cell; apply Nat.mod_upper_bound; lia).
  assert (Hj : cell mod n < n) by (apply Nat.mod_upper_bound; lia).
  assert (Ek : k = (k / (n * n)) * (n * n) + ((cell / n) * n + cell mod n)).
  { rewrite (Nat.mul_comm (cell / n) n), <- (Nat.div_mod cell n) by lia. unfold cell.
    rewrite (Nat.mul_comm (k / (n * n))). apply Nat.div_mod. lia. }
  rewrite Ek at 1.
  rewrite (pidx16_block ty n p _ _ _ H Hi Hj).
  rewrite (pidx16_block ty n q _ _ _ H (proj1 (Hp _ Hi)) (proj1 (Hp _ Hj))).
  rewrite (proj2 (Hp _ Hi)), (proj2 (Hp _ Hj)). symmetry. exact Ek.
Qed.

Section Equiv.
Variable K : CField.
Add Field Kf_ren2 : (cth K).
Local Open Scope cf_scope.
Variables (n : nat) (p q : nat -> nat).
Hypothesis Hren : is_renum n p q.
Variables (s s' : nat -> scell) (conn conn' mg mg' : nat -> bool) (adj adj' sv sv' : nat -> K).
Hypothesis Hs : forall i j, (i < n)%nat -> (j < n)%nat -> s' (p i * n + p j)%nat = s (i * n + j)%nat.
Hypothesis Hc : forall i j, (i < n)%nat -> (j < n)%nat -> conn' (p i * n + p j)%nat = conn (i * n + j)%nat.
Hypothesis Hg : forall i j, (i < n)%nat -> (j < n)%nat -> mg' (p i * n + p j)%nat = mg (i * n + j)%nat.
Hypothesis Hadj : forall i j, (i < n)%nat -> (j < n)%nat -> adj' (p i * n + p j)%nat = adj (i * n + j)%nat.
Hypothesis Hsv : forall i j, (i < n)%nat -> (j < n)%nat -> sv' (p i * n + p j)%nat = sv (i * n + j)%nat.
Let c := mkCtx n n s conn mg.
Let c' := mkCtx n n s' conn' mg'.

Lemma pn i : (i < n)%nat -> (p i < n)%nat.
Proof. intros H. apply (proj1 Hren i H). Qed.

Lemma hcoef_eq (pi pinv : nat -> nat) (tt u : nat) t t' k :
  (forall a, (a < tt)%nat -> pinv (pi a) = a) -> (k < tt)%nat -> (hx u t < tt)%nat ->
  t_nov n t' = t_nov n t -> hx u t' = pi (hx u t) -> hval K adj' sv' t' = hval K adj sv t ->
  hcoef K n u adj' sv' (pi k) t' = hcoef K n u adj sv k t.
Proof.
  intros Hinv Hk Hx E1 E2 E3. unfold hcoef. rewrite E1, E2, E3.
  destruct (t_nov n t); cbn [andb]; [|reflexivity].
  destruct (Nat.eqb_spec (hx u t) k) as [E|E].
  - subst k. rewrite Nat.eqb_refl. reflexivity.
  - destruct (Nat.eqb_spec (pi (hx u t)) (pi k)) as [E'|E']; [|reflexivity].
    exfalso. apply E. rewrite <- (Hinv _ Hx), <- (Hinv _ Hk), E'. reflexivity.
Qed.

(* the value and column of concrete terms *)
Lemma hval_pos x neg m sc v (A A' S S' : nat -> K) x' m' sc' v' :
  A' m' = A m -> S' sc' = S sc ->
  hval K A' S' (mkTerm (tzn x') neg (tzn m') (tzn sc') v') = hval K A S (mkTerm (tzn x) neg (tzn m) (tzn sc) v).
Proof. intros E1 E2. unfold hval, tval. cbn [t_x t_neg t_m t_s]. rewrite !zn_ltb0, !zn_id, E1, E2. reflexivity. Qed.

Lemma hval_pos_m x neg m v (A A' S S' : nat -> K) x' m' v' :
  A' m' = A m ->
  hval K A' S' (mkTerm (tzn x') neg (tzn m') none v') = hval K A S (mkTerm (tzn x) neg (tzn m) none v).
Proof. intros E1. unfold hval, tval. cbn [t_x t_neg t_m t_s]. rewrite !zn_ltb0, !zn_id, E1. reflexivity. Qed.

Lemma hval_pos_s x neg sc v (A A' S S' : nat -> K) x' sc' v' :
  S' sc' = S sc ->
  hval K A' S' (mkTerm (tzn x') neg none (tzn sc') v') = hval K A S (mkTerm (tzn x) neg none (tzn sc) v).
Proof. intros E1. unfold hval, tval. cbn [t_x t_neg t_m t_s]. rewrite !zn_ltb0, !zn_id, E1. reflexivity. Qed.

Lemma hval_pos_0 x neg v (A A' S S' : nat -> K) x' v' :
  hval K A' S' (mkTerm (tzn x') neg none none v') = hval K A S (mkTerm (tzn x) neg none none v).
Proof. unfold hval, tval, none. cbn [t_x t_neg t_m t_s]. rewrite !zn_ltb0. reflexivity. Qed.

(* the unity term (index -1, negated, on the right-hand side) has the homogeneous coefficient of the term
   it replaces:  + m *)
Lemma hval_unity_l m v (A A' S S' : nat -> K) x' m' v' :
  A' m' = A m ->
  hval K A' S' (mkTerm (tzn x') false (tzn m') none v') = hval K A S (mkTerm none true (tzn m) none v).
Proof. intros E1. unfold hval, tval, none. cbn [t_x t_neg t_m t_s]. rewrite !zn_ltb0, !zn_id, E1. cbn. ring. Qed.
Lemma hval_unity_r m v (A A' S S' : nat -> K) x m' v' :
  A' m' = A m ->
  hval K A' S' (mkTerm none true (tzn m') none v') = hval K A S (mkTerm (tzn x) false (tzn m) none v).
Proof. intros E1. unfold hval, tval, none. cbn [t_x t_neg t_m t_s]. rewrite !zn_ltb0, !zn_id, E1. cbn. ring. Qed.
Lemma hval_unity_b m v (A A' S S' : nat -> K) m' v' :
  A' m' = A m ->
  hval K A' S' (mkTerm none true (tzn m') none v') = hval K A S (mkTerm none true (tzn m) none v).
Proof. intros E1. unfold hval, tval, none. cbn [t_x t_neg t_m t_s]. rewrite !zn_ltb0, !zn_id, E1. reflexivity. Qed.

Lemma hx_pos u x neg m sc v : hx u (mkTerm (tzn x) neg m sc v) = if Nat.ltb x u then x else S x.
Proof. unfold hx. cbn [t_x]. rewrite zn_ltb0, zn_id. reflexivity. Qed.
Lemma hx_none u neg m sc v : hx u (mkTerm none neg m sc v) = u.
Proof. reflexivity. Qed.

(* ---------------------------------------------------------------- tactics for the builders *)
Ltac lt_split := repeat match goal with |- context [Nat.ltb ?a ?b] => destruct (Nat.ltb_spec a b) end.
Ltac hx_norm := rewrite ?hx_pos, ?hx_none.
Ltac pfacts := repeat match goal with H : (?i < n)%nat |- _ => is_var i;
                 lazymatch goal with _ : (p i < n)%nat |- _ => fail | _ => pose proof (pn i H) end end.

Lemma isum_if_nil h (b : bool) (l : list titem) :
  isum K h (if b then [] else l) = if b then 0 else isum K h l.
Proof. destruct b; reflexivity. Qed.

Section D8.
Variable ty : caltype.
Hypothesis H16 : is_16 ty = false.
Notation pi8 := (perm_index ty n p).

Lemma pi8_inv tt a : (a < tt)%nat -> (0 < n)%nat -> perm_index ty n q (pi8 a) = a.
Proof. intros _ Hn. apply pidx_inv; assumption. Qed.

Ltac hx_tac b i :=
  hx_norm; lt_split; try lia;
  match goal with |- _ = perm_index _ _ _ ?X => replace X with (b * n + i)%nat by lia end;
  rewrite (pidx_block ty n p b i H16) by assumption; lia.
Ltac hxb_tac := hx_norm; lt_split; lia.
Ltac nov_tac := rewrite !nov_cell by assumption; try reflexivity; apply (renum_eqb n p q); assumption.
Ltac start_term u b i :=
  rewrite !isum_one;
  apply (hcoef_eq pi8 (perm_index ty n q) (4 * n) u);
  [intros a Ha; apply (pi8_inv _ a Ha); lia | assumption | hxb_tac | nov_tac | hx_tac b i | ].

Lemma t8_equiv r c0 k : (r < n)%nat -> (c0 < n)%nat -> (k < 4 * n)%nat ->
  isum K (hcoef K n (3 * n) adj' sv' (pi8 k)) (build_terms_t8 c' (p r) (p c0)) =
  isum K (hcoef K n (3 * n) adj sv k) (build_terms_t8 c r c0).
Proof.
  intros Hr Hc0 Hk. pfacts.
  unfold build_terms_t8, tm, c, c'. cbn [c_mr c_mc c_s c_conn c_mgiven]. cbv zeta.
  rewrite !isum_app.
  apply f_equal2; [|apply f_equal2; [|apply f_equal2]].
  - rewrite !isum_flat_map_seq. rewrite <- (sumf_renum K n p q _ Hren). apply sumf_ext. intros i Hi. cbv beta. pfacts.
    rewrite (Hc i c0 Hi Hc0). destruct (conn (i * n + c0)); cbn [negb]; [|reflexivity].
    unfold s_term. cbn [c_s]. rewrite (Hs r i Hr Hi). destruct (s (r * n + i)); try reflexivity.
    start_term (3 * n)%nat 0%nat r. apply hval_pos_s. apply Hsv; assumption.
  - rewrite (Hc r c0 Hr Hc0). destruct (conn (r * n + c0)); [|reflexivity].
    start_term (3 * n)%nat 1%nat r. apply hval_pos_0.
  - rewrite !isum_flat_map_seq. rewrite <- (sumf_renum K n p q _ Hren). apply sumf_ext. intros d Hd. cbv beta. pfacts.
    rewrite !isum_flat_map_seq. rewrite <- (sumf_renum K n p q _ Hren). apply sumf_ext. intros i Hi. cbv beta. pfacts.
    rewrite (Hc i c0 Hi Hc0). destruct (conn (i * n + c0)); cbn [negb]; [|reflexivity].
    unfold s_term. cbn [c_s c_mgiven]. rewrite (Hs d i Hd Hi), (Hg r d Hr Hd).
    destruct (s (d * n + i)); try reflexivity. destruct (mg (r * n + d)); [|reflexivity].
    start_term (3 * n)%nat 2%nat d. apply hval_pos; [apply Hadj|apply Hsv]; assumption.
  - rewrite !isum_flat_map_seq. rewrite <- (sumf_renum K n p q _ Hren). apply sumf_ext. intros d Hd. cbv beta. pfacts.
    rewrite (Hc d c0 Hd Hc0). destruct (conn (d * n + c0)); cbn [negb]; [|reflexivity].
    unfold m_term. cbn [c_mgiven]. rewrite (Hg r d Hr Hd). destruct (mg (r * n + d)); [|reflexivity].
    destruct (Nat.eqb_spec (p d) 0) as [E|E], (Nat.eqb_spec d 0) as [E0|E0].
    + start_term (3 * n)%nat 3%nat d. apply hval_unity_b. apply Hadj; assumption.
    + start_term (3 * n)%nat 3%nat d. apply hval_unity_r. apply Hadj; assumption.
    + start_term (3 * n)%nat 3%nat d. apply hval_unity_l. apply Hadj; assumption.
    + start_term (3 * n)%nat 3%nat d. apply hval_pos_m. apply Hadj; assumption.
Qed.

Lemma u8_equiv r c0 k : (r < n)%nat -> (c0 < n)%nat -> (k < 4 * n)%nat ->
  isum K (hcoef K n 0 adj' sv' (pi8 k)) (build_terms_u8 c' (p r) (p c0)) =
  isum K (hcoef K n 0 adj sv k) (build_terms_u8 c r c0).
Proof.
  intros Hr Hc0 Hk. pfacts.
  unfold build_terms_u8, tm, c, c'. cbn [c_mr c_mc c_s c_conn c_mgiven]. cbv zeta.
  rewrite !isum_app.
  apply f_equal2; [|apply f_equal2; [|apply f_equal2]].
  - rewrite !isum_flat_map_seq. rewrite <- (sumf_renum K n p q _ Hren). apply sumf_ext. intros d Hd. cbv beta. pfacts.
    rewrite (Hc r d Hr Hd). destruct (conn (r * n + d)); cbn [negb]; [|reflexivity].
    unfold m_term. cbn [c_mgiven]. rewrite (Hg d c0 Hd Hc0). destruct (mg (d * n + c0)); [|reflexivity].
    destruct (Nat.eqb_spec (p d) 0) as [E|E], (Nat.eqb_spec d 0) as [E0|E0].
    + start_term 0%nat 0%nat d. apply hval_unity_b. apply Hadj; assumption.
    + start_term 0%nat 0%nat d. apply hval_unity_r. apply Hadj; assumption.
    + start_term 0%nat 0%nat d. apply hval_unity_l. apply Hadj; assumption.
    + start_term 0%nat 0%nat d. apply hval_pos_m. apply Hadj; assumption.
  - rewrite (Hc r c0 Hr Hc0). destruct (conn (r * n + c0)); [|reflexivity].
    start_term 0%nat 1%nat c0. apply hval_pos_0.
  - rewrite !isum_flat_map_seq. rewrite <- (sumf_renum K n p q _ Hren). apply sumf_ext. intros d Hd. cbv beta. pfacts.
    rewrite !isum_flat_map_seq. rewrite <- (sumf_renum K n p q _ Hren). apply sumf_ext. intros i Hi. cbv beta. pfacts.
    rewrite (Hc r i Hr Hi). destruct (conn (r * n + i)); cbn [negb]; [|reflexivity].
    unfold s_term. cbn [c_s c_mgiven]. rewrite (Hs i d Hi Hd), (Hg d c0 Hd Hc0).
    destruct (s (i * n + d)); try reflexivity. destruct (mg (d * n + c0)); [|reflexivity].
    start_term 0%nat 2%nat d. apply hval_pos; [apply Hadj|apply Hsv]; assumption.
  - rewrite !isum_flat_map_seq. rewrite <- (sumf_renum K n p q _ Hren). apply sumf_ext. intros i Hi. cbv beta. pfacts.
    rewrite (Hc r i Hr Hi). destruct (conn (r * n + i)); cbn [negb]; [|reflexivity].
    unfold s_term. cbn [c_s]. rewrite (Hs i c0 Hi Hc0). destruct (s (i * n + c0)); try reflexivity.
    start_term 0%nat 3%nat c0. apply hval_pos_s. apply Hsv; assumption.
Qed.
End D8.

Section D16.
Variable ty : caltype.
Hypothesis H16 : is_16 ty = true.
Notation pi16 := (perm_index ty n p).

Lemma cell_lt a b : (a < n)%nat -> (b < n)%nat -> (a * n + b < n * n)%nat.
Proof. intros. nia. Qed.

Ltac cfacts := repeat match goal with Ha : (?a < n)%nat, Hb : (?b < n)%nat |- _ =>
                 lazymatch a with _ * _ + _ => fail | _ => idtac end; lazymatch b with _ * _ + _ => fail | _ => idtac end;
                 lazymatch goal with _ : (a * n + b < n * n)%nat |- _ => fail | _ => pose proof (cell_lt a b Ha Hb) end end.
Ltac hx16_tac b i j :=
  hx_norm; lt_split; try lia;
  match goal with |- _ = perm_index _ _ _ ?X => replace X with (b * (n * n) + (i * n + j))%nat by lia end;
  rewrite (pidx16_block ty n p b i j H16) by assumption; lia.
Ltac hxb_tac := hx_norm; lt_split; lia.
Ltac nov_tac := rewrite !nov_cell by assumption; try reflexivity; apply (renum_eqb n p q); assumption.
Ltac start16 u b i j :=
  rewrite !isum_one; cfacts;
  apply (hcoef_eq pi16 (perm_index ty n q) (4 * (n * n)) u);
  [intros a0 Ha0; apply (pidx16_inv ty n p q a0 H16 Hren); lia | assumption | hxb_tac | nov_tac | hx16_tac b i j | ].
Ltac sum_step i Hi :=
  rewrite ?isum_flat_map_seq, ?isum_map_seq; rewrite <- (sumf_renum K n p q _ Hren); apply sumf_ext; intros i Hi; cbv beta; pfacts.



Lemma t16_equiv r c0 k : (r < n)%nat -> (c0 < n)%nat -> (k < 4 * (n * n))%nat ->
  isum K (hcoef K n (3 * (n * n)) adj' sv' (pi16 k)) (build_terms_t16 c' (p r) (p c0)) =
  isum K (hcoef K n (3 * (n * n)) adj sv k) (build_terms_t16 c r c0).
Proof.
  intros Hr Hc0 Hk. pfacts.
  unfold build_terms_t16, tm, c, c'. cbn [c_mr c_mc c_s c_conn c_mgiven]. cbv zeta.
  rewrite !isum_app.
  apply f_equal2; [|apply f_equal2; [|apply f_equal2]].
  - sum_step a Ha. sum_step i Hi.
    unfold s16. cbn [c_s]. rewrite (Hs a i Ha Hi). destruct (scell_is_zero (s (a * n + i))); [reflexivity|].
    start16 (3 * (n * n))%nat 0%nat r a. apply hval_pos_s. apply Hsv; assumption.
  - sum_step a Ha.
    start16 (3 * (n * n))%nat 1%nat r a. apply hval_pos_0.
  - sum_step a Ha. sum_step b Hb.
    rewrite (Hg r a Hr Ha). destruct (mg (r * n + a)); cbn [negb]; [|reflexivity].
    sum_step i Hi.
    unfold s16. cbn [c_s]. rewrite (Hs b i Hb Hi). destruct (scell_is_zero (s (b * n + i))); [reflexivity|].
    start16 (3 * (n * n))%nat 2%nat a b. apply hval_pos; [apply Hadj|apply Hsv]; assumption.
  - sum_step a Ha. sum_step b Hb.
    unfold m_term. cbn [c_mgiven]. rewrite (Hg r a Hr Ha). destruct (mg (r * n + a)); [|reflexivity].
    destruct (Nat.eqb_spec (p a * n + p b) 0) as [E|E], (Nat.eqb_spec (a * n + b) 0) as [E0|E0].
    + start16 (3 * (n * n))%nat 3%nat a b. apply hval_unity_b. apply Hadj; assumption.
    + start16 (3 * (n * n))%nat 3%nat a b. apply hval_unity_r. apply Hadj; assumption.
    + start16 (3 * (n * n))%nat 3%nat a b. apply hval_unity_l. apply Hadj; assumption.
    + start16 (3 * (n * n))%nat 3%nat a b. apply hval_pos_m. apply Hadj; assumption.
Qed.

Lemma u16_equiv r c0 k : (r < n)%nat -> (c0 < n)%nat -> (k < 4 * (n * n))%nat ->
  isum K (hcoef K n 0 adj' sv' (pi16 k)) (build_terms_u16 c' (p r) (p c0)) =
  isum K (hcoef K n 0 adj sv k) (build_terms_u16 c r c0).
Proof.
  intros Hr Hc0 Hk. pfacts.
  unfold build_terms_u16, tm, c, c'. cbn [c_mr c_mc c_s c_conn c_mgiven]. cbv zeta.
  rewrite !isum_app.
  apply f_equal2; [|apply f_equal2; [|apply f_equal2]].
  - sum_step a Ha. sum_step b Hb.
    unfold m_term. cbn [c_mgiven]. rewrite (Hg b c0 Hb Hc0). destruct (mg (b * n + c0)); [|reflexivity].
    destruct (Nat.eqb_spec (p a * n + p b) 0) as [E|E], (Nat.eqb_spec (a * n + b) 0) as [E0|E0].
    + start16 0%nat 0%nat a b. apply hval_unity_b. apply Hadj; assumption.
    + start16 0%nat 0%nat a b. apply hval_unity_r. apply Hadj; assumption.
    + start16 0%nat 0%nat a b. apply hval_unity_l. apply Hadj; assumption.
    + start16 0%nat 0%nat a b. apply hval_pos_m. apply Hadj; assumption.
  - sum_step a Ha.
    start16 0%nat 1%nat a c0. apply hval_pos_0.
  - sum_step a Ha. sum_step b Hb.
    rewrite (Hg b c0 Hb Hc0). destruct (mg (b * n + c0)); cbn [negb]; [|reflexivity].
    sum_step i Hi.
    unfold s16. cbn [c_s]. rewrite (Hs i a Hi Ha). destruct (scell_is_zero (s (i * n + a))); [reflexivity|].
    start16 0%nat 2%nat a b. apply hval_pos; [apply Hadj|apply Hsv]; assumption.
  - sum_step a Ha. sum_step i Hi.
    unfold s16. cbn [c_s]. rewrite (Hs i a Hi Ha). destruct (scell_is_zero (s (i * n + a))); [reflexivity|].
    start16 0%nat 3%nat a c0. apply hval_pos_s. apply Hsv; assumption.
Qed.
End D16.
End Equiv.

(* ---------------------------------------------------------------- the records *)
Lemma collect_terms l : forall acc ts, collect l acc = BOk ts -> ts = rev acc ++ terms_of_items l.
Proof.
  induction l as [|[t|w] r IH]; intros acc ts H; cbn in H.
  - injection H as <-. cbn. rewrite app_nil_r. reflexivity.
  - rewrite (IH _ _ H). cbn [rev]. rewrite <- app_assoc. reflexivity.
  - discriminate.
Qed.

Lemma layout_facts ty n : renum_type ty = true -> 0 < n ->
  let tt := if is_16 ty then 4 * (n * n) else 4 * n in
  t_terms_of ty n = tt /\ unknowns ty n n = tt - 1 /\
  unity_pos ty n = (if VNACAL_IS_T ty then (if is_16 ty then 3 * (n * n) else 3 * n) else 0) /\
  v_columns_of ty n n = n.
Proof.
  intros Hty Hn. unfold t_terms_of, unknowns, unity_pos, v_columns_of.
  destruct ty; try discriminate; cbn; repeat split; try lia; try nia.
Qed.

Section Records.
Variable K : CField.
Add Field Kf_ren3 : (cth K).
Notation O := (ops_of K).
Variables (n : nat) (p q : nat -> nat).
Hypothesis Hren : is_renum n p q.
Variable pval : Z -> K.

Lemma nth_renum_cells {A} (l : list A) d i j : i < n -> j < n ->
  nth (p i * n + p j) (renum_cells n q l d) d = nth (i * n + j) l d.
Proof.
  intros Hi Hj. destruct Hren as [Hp _]. destruct (Hp i Hi) as [Pi Qi], (Hp j Hj) as [Pj Qj].
  assert (Hc : p i * n + p j < n * n) by nia.
  unfold renum_cells.
  rewrite (SolveRecovers.nth_map_dflt _ (seq 0 (n * n)) 0 d) by (rewrite seq_length; exact Hc).
  rewrite seq_nth by exact Hc. cbn [Nat.add].
  rewrite (cell_div n _ _ Pj), (cell_mod n _ _ Pj), Qi, Qj. reflexivity.
Qed.

Variable ty : caltype.

Lemma leak_acc_renum (ms : list (mvals O)) i j : i < n -> j < n ->
  leak_acc O n n (map (renum_mv O ty n p q) ms) (p i, p j) = leak_acc O n n ms (i, j).
Proof.
  intros Hi Hj. unfold leak_acc. generalize (o0 O, 0). induction ms as [|mv r IH]; intros acc; [reflexivity|].
  cbn [map fold_left]. rewrite IH. f_equal.
  unfold renum_mv, renum_meas. cbn [mv_meas mv_m ms_conn ms_m_given]. rewrite Nat.max_id. unfold g.
  rewrite !nth_renum_cells by assumption.
  destruct (ms_conn (mv_meas O mv)); cbn [option_map]; [rewrite nth_renum_cells by assumption|]; reflexivity.
Qed.

Lemma m_adjusted_renum (ms : list (mvals O)) mv i j : i < n -> j < n ->
  m_adjusted O ty n n (map (renum_mv O ty n p q) ms) (renum_mv O ty n p q mv) (p i * n + p j) =
  m_adjusted O ty n n ms mv (i * n + j).
Proof.
  intros Hi Hj. destruct (proj1 Hren i Hi) as [Pi _], (proj1 Hren j Hj) as [Pj _].
  unfold m_adjusted. cbv zeta.
  rewrite (cell_div n _ _ Pj), (cell_mod n _ _ Pj), (cell_div n _ _ Hj), (cell_mod n _ _ Hj).
  unfold leak_mean. rewrite (leak_acc_renum ms i j Hi Hj). rewrite (renum_eqb n p q i j Hren Hi Hj).
  unfold renum_mv. cbn [mv_m]. unfold g. rewrite !nth_renum_cells by assumption. reflexivity.
Qed.

Lemma row_of_mv_rstep (ms : list (mvals O)) mv e :
  OrderProofs.row_of_mv O ty n n pval ms mv e =
  fold_left (rstep K (v_columns_of ty n n) (m_adjusted O ty n n ms mv) (s_value O pval (mv_meas O mv)))
            (e_terms e) (repeat (@c0 K) (unknowns ty n n), @c0 K).
Proof. reflexivity. Qed.

Theorem renum_row_lemma (ms : list (mvals O)) mv e k :
  renum_type ty = true -> meas_wf ty n (mv_meas O mv) -> In e (ms_eqs (mv_meas O mv)) -> k < t_terms_of ty n ->
  hrow O (unity_pos ty n)
       (OrderProofs.row_of_mv O ty n n pval (map (renum_mv O ty n p q) ms) (renum_mv O ty n p q mv)
          (renum_eqn ty p (ctx_of_meas n (renum_meas ty n p q (mv_meas O mv))) e))
       (perm_index ty n p k) =
  hrow O (unity_pos ty n) (OrderProofs.row_of_mv O ty n n pval ms mv e) k.
Proof.
  intros Hty Hwf He Hk.
  destruct (Hwf e He) as (Hr & Hc0 & Hb).
  assert (Hn : 0 < n) by lia.
  destruct (layout_facts ty n Hty Hn) as (Ett & Eunk & Eu & Evc). cbv zeta in Ett, Eunk.
  rewrite Ett in Hk.
  assert (Hpk : perm_index ty n p k < (if is_16 ty then 4 * (n * n) else 4 * n)).
  { destruct (is_16 ty) eqn:E16.
    - set (cell := k mod (n * n)).
      assert (Hnn : 0 < n * n) by nia.
      assert (Hi : cell / n < n) by (apply Nat.div_lt_upper_bound; [lia|]; unfold cell; apply Nat.mod_upper_bound; lia).
      assert (Hj : cell mod n < n) by (apply Nat.mod_upper_bound; lia).
      unfold perm_index. rewrite E16. cbv zeta. fold cell.
      destruct (proj1 Hren _ Hi) as [Pi _], (proj1 Hren _ Hj) as [Pj _].
      assert (k / (n * n) < 4) by (apply Nat.div_lt_upper_bound; lia). nia.
    - assert (Hj : k mod n < n) by (apply Nat.mod_upper_bound; lia).
      unfold perm_index. rewrite E16. destruct (proj1 Hren _ Hj) as [Pj _].
      assert (k / n < 4) by (apply Nat.div_lt_upper_bound; lia). nia. }
  rewrite !row_of_mv_rstep. rewrite Evc.
  rewrite !(hrow_terms K n (unity_pos ty n) (unknowns ty n n))
    by (rewrite ?Eu, Eunk; destruct (VNACAL_IS_T ty), (is_16 ty); nia).
  unfold renum_eqn at 1. cbn [e_terms].
  rewrite <- !isum_terms.
  assert (Et : e_terms e = terms_of_items (items_of ty (ctx_of_meas n (mv_meas O mv)) (e_row e) (e_col e))).
  { unfold build_terms in Hb. unfold items_of.
    destruct ty; try discriminate Hty; exact (collect_terms _ _ _ Hb). }
  rewrite Et. rewrite <- isum_terms.
  set (m := mv_meas O mv) in *.
  assert (HS : forall i j, i < n -> j < n ->
             c_s (ctx_of_meas n (renum_meas ty n p q m)) (p i * n + p j) = c_s (ctx_of_meas n m) (i * n + j)).
  { intros i j Hi Hj. cbn [c_s ctx_of_meas renum_meas ms_s]. apply nth_renum_cells; assumption. }
  assert (HC : forall i j, i < n -> j < n ->
             c_conn (ctx_of_meas n (renum_meas ty n p q m)) (p i * n + p j) = c_conn (ctx_of_meas n m) (i * n + j)).
  { intros i j Hi Hj. cbn [c_conn ctx_of_meas renum_meas ms_conn].
    destruct (ms_conn m); cbn [option_map]; [|reflexivity]. unfold getb. apply nth_renum_cells; assumption. }
  assert (HG : forall i j, i < n -> j < n ->
             c_mgiven (ctx_of_meas n (renum_meas ty n p q m)) (p i * n + p j) = c_mgiven (ctx_of_meas n m) (i * n + j)).
  { intros i j Hi Hj. cbn [c_mgiven ctx_of_meas renum_meas ms_m_given]. unfold getb. apply nth_renum_cells; assumption. }
  assert (HA : forall i j, i < n -> j < n ->
             m_adjusted O ty n n (map (renum_mv O ty n p q) ms) (renum_mv O ty n p q mv) (p i * n + p j) =
             m_adjusted O ty n n ms mv (i * n + j)) by (intros; apply m_adjusted_renum; assumption).
  assert (HV : forall i j, i < n -> j < n ->
             s_value O pval (mv_meas O (renum_mv O ty n p q mv)) (p i * n + p j) = s_value O pval m (i * n + j)).
  { intros i j Hi Hj. unfold s_value. cbn [renum_mv mv_meas renum_meas ms_s]. fold m.
    rewrite nth_renum_cells by assumption. reflexivity. }
  change (mv_meas O (renum_mv O ty n p q mv)) with (renum_meas ty n p q m) in *.
  unfold items_of.
  destruct ty; try discriminate Hty; rewrite Eu; cbn [VNACAL_IS_T is_16 caltype_eqb caltype_code Z.eqb Pos.eqb orb] in *.
  - exact (t8_equiv K n p q Hren _ _ _ _ _ _ _ _ _ _ HS HC HG HA HV T8 eq_refl _ _ k Hr Hc0 Hk).
  - exact (u8_equiv K n p q Hren _ _ _ _ _ _ _ _ _ _ HS HC HG HA HV U8 eq_refl _ _ k Hr Hc0 Hk).
  - exact (t8_equiv K n p q Hren _ _ _ _ _ _ _ _ _ _ HS HC HG HA HV TE10 eq_refl _ _ k Hr Hc0 Hk).
  - exact (u8_equiv K n p q Hren _ _ _ _ _ _ _ _ _ _ HS HC HG HA HV UE10 eq_refl _ _ k Hr Hc0 Hk).
  - exact (t16_equiv K n p q Hren _ _ _ _ _ _ _ _ _ _ HS HG HA HV T16 eq_refl _ _ k Hr Hc0 Hk).
  - exact (u16_equiv K n p q Hren _ _ _ _ _ _ _ _ _ _ HS HG HA HV U16 eq_refl _ _ k Hr Hc0 Hk).
Qed.
End Records.

(* ---------------------------------------------------------------- the assembled system *)
Lemma Forall2_flat_map {A B C} (R : B -> C -> Prop) (f : A -> list B) (h : A -> list C) (l : list A) :
  (forall x, In x l -> Forall2 R (f x) (h x)) -> Forall2 R (flat_map f l) (flat_map h l).
Proof.
  induction l as [|x r IH]; intros H; cbn; [constructor|].
  apply Forall2_app; [apply H; left; reflexivity | apply IH; intros y Hy; apply H; right; exact Hy].
Qed.

Lemma Forall2_map_in {A B C} (R : B -> C -> Prop) (f : A -> B) (h : A -> C) (l : list A) :
  (forall x, In x l -> R (f x) (h x)) -> Forall2 R (map f l) (map h l).
Proof.
  induction l as [|x r IH]; intros H; cbn; constructor; [apply H; left; reflexivity|].
  apply IH. intros y Hy. apply H. right. exact Hy.
Qed.

Lemma filter_all {A} (f : A -> bool) (l : list A) : (forall x, f x = true) -> filter f l = l.
Proof. intros H. induction l as [|x r IH]; cbn; [reflexivity|]. rewrite H, IH. reflexivity. Qed.

(* every row of the renumbered calibration is the row of the same standard and equation of the original one
   with its columns permuted by perm_index (rows in the same order: renum_meas keeps the order of the equations) *)
Theorem renum_assemble_lemma (K : CField) (ty : caltype) (n : nat) (p q : nat -> nat) (pval : Z -> K)
        (ms : list (mvals (ops_of K))) (sys : nat) :
  renum_type ty = true -> is_renum n p q ->
  (forall mv, In mv ms -> meas_wf ty n (mv_meas (ops_of K) mv)) ->
  Forall2 (fun row' row => forall k, k < t_terms_of ty n ->
             hrow (ops_of K) (unity_pos ty n) row' (perm_index ty n p k) = hrow (ops_of K) (unity_pos ty n) row k)
          (assemble (ops_of K) ty n n pval (map (renum_mv (ops_of K) ty n p q) ms) sys)
          (assemble (ops_of K) ty n n pval ms sys).
Proof.
  intros Hty Hren Hwf. rewrite !assemble_flat.
  assert (Hall : forall e, C17Proofs.eq_in_system ty sys e = true).
  { intros e. unfold C17Proofs.eq_in_system. destruct ty; try discriminate Hty; reflexivity. }
  rewrite flat_map_concat_map, map_map, <- flat_map_concat_map.
  apply Forall2_flat_map. intros mv Hmv.
  rewrite !filter_all by exact Hall.
  cbn [renum_mv mv_meas renum_meas ms_eqs]. rewrite map_map.
  apply Forall2_map_in. intros e He k Hk.
  exact (renum_row_lemma K n p q Hren pval ty ms mv e k Hty (Hwf mv Hmv) He Hk).
Qed.

(* ---------------------------------------------------------------- the hypotheses can be met *)
Require Import QArith Qcanon LV.Base.QcI LV.Cal.CalQI.
Local Open Scope nat_scope.

Definition sw2 (i : nat) : nat := 1 - i.
Definition rn_valid (h : Z) : bool := true.
(* TE10 2x2: a through between ports 1 and 2, reflect h on port 1 (the renumbering moves it to port 2) *)
Definition rn_thru : add_args := mkArgs TE10 2 2 false rn_valid false 0 0 2 2 [0; 1; 1; 0]%Z 2 2 false (Some [1; 2]%Z).
Definition rn_refl (port : Z) : add_args := mkArgs TE10 2 2 false rn_valid false 0 0 2 2 [2]%Z 1 1 true (Some [port]).
Definition rn_meas (a : add_args) : measurement :=
  match add_common a with Accepted m => m | _ => mkMeas [] [] None [] end.
Definition rn_vals : list qi := [mkqi 1 2 0 1; mkqi 1 3 1 5; mkqi 2 7 0 1; mkqi 0 1 1 4].
Definition rn_ms : list (mvals qops) := [mkMV qops (rn_meas rn_thru) rn_vals; mkMV qops (rn_meas (rn_refl 1)) rn_vals].
Definition rn_pval (h : Z) : qi := mkqi 1 2 1 3.

Definition meas_same (a b : measurement) : bool :=
  andb (andb (C17Proofs.list_eqb Bool.eqb (ms_m_given a) (ms_m_given b))
             (C17Proofs.list_eqb C17Proofs.scell_eqb (ms_s a) (ms_s b)))
       (andb (C17Proofs.conn_eqb (ms_conn a) (ms_conn b))
             (C17Proofs.list_eqb C17Proofs.eq_eqb (ms_eqs a) (ms_eqs b))).

Lemma renum_example_lemma :
  is_renum 2 sw2 sw2 /\
  (forall mv, In mv rn_ms -> meas_wf TE10 2 (mv_meas qops mv)) /\
  (* the renumbered record of the reflect on port 1 is the record add_common builds for the reflect on port 2 *)
  meas_same (renum_meas TE10 2 sw2 sw2 (rn_meas (rn_refl 1))) (rn_meas (rn_refl 2)) = true /\
  (* the unity term tm[0] = column 6 of the original is column 7 = tm[1] of the renumbered system *)
  perm_index TE10 2 sw2 6 = 7 /\ unity_pos TE10 2 = 6 /\
  map (fun row => map (hrow qops 6 row) (seq 0 8)) (assemble qops TE10 2 2 rn_pval rn_ms 0) <>
  map (fun row => map (hrow qops 6 row) (seq 0 8))
      (assemble qops TE10 2 2 rn_pval (map (renum_mv qops TE10 2 sw2 sw2) rn_ms) 0).
Proof.
  split.
  { split; intros i Hi; unfold sw2; split; lia. }
  split.
  { intros mv [<-|[<-|[]]]; intros e He; vm_compute in He;
      repeat (destruct He as [<-|He]; [split; [cbn; lia|split; [cbn; lia|vm_compute; reflexivity]]|]); destruct He. }
  split; [vm_compute; reflexivity|]. split; [reflexivity|]. split; [reflexivity|].
  intros H.
  apply (f_equal (map (map (fun z : qi => qi_eqb z qi0)))) in H. vm_compute in H. discriminate H.
Qed.
