(* C17, renumbering of the VNA ports, from the equations (RenumberProofs.renum_assemble_lemma) to the results.
   Types T8, TE10, U8, UE10, T16, U16, mr = mc = n, EVERY n, every renumbering p (with inverse q).
     perm_index_renum_lemma     perm_index p is a renumbering of the t_terms error terms, inverse perm_index q
     (a) renum_solution_sets_lemma  (any field) e solves the homogeneous system of the original standards iff
                                e o perm_index q solves that of the renumbered standards
     (b) renum_solved_terms_lemma   (Gaussian rationals, CalQI.q_solve_system as coded) data that fit the model
                                (xt satisfies every assembled row), the renumbered system determining (enough rows,
                                trivial kernel), the entry of the full vector that lands on the unity position
                                non-zero  ->  the solve of the renumbered standards returns SysOk with
                                renum_terms xt = the permuted full vector divided by that entry, unity entry removed
     (c) doc_cell_renum_lemma   (any field) the documented equation (ApplyIdentity.doc_cell) of the renumbered
                                measurement / device with terms permuted and multiplied by ANY common scalar ci
                                (leakage terms permuted, not scaled) is ci times the original one, cell (p i, p j);
         renum_apply_lemma      hence CalQI.q_apply (fill functions as coded + LU model) on the renumbered terms and
                                measurement returns the renumbered S whenever it reports success, for data that fit
                                the model (FillLoopsRecovers.apply_model_recovers_S_every_n)
   Examples: RenumberResultsEx.v. *)
Require Import List ZArith Bool Arith Lia Permutation QArith Qcanon.
Require Import LV.Base.CField LV.Base.QcI LV.Lin.MatL LV.Lin.LuGenA.
Require Import LV.Gen.LayoutGen LV.Cal.Sym LV.Cal.TermsModel LV.Cal.AddModel LV.Cal.ApplyModel LV.Cal.SolveSimple
               LV.Cal.CalQI LV.Cal.SolveRecovers LV.Cal.RenumberModel LV.Cal.RenumberProofs LV.Cal.RenumberResultsModel.
Import ListNotations.
Local Open Scope nat_scope.

(* ---------------------------------------------------------------- perm_index is a renumbering of the terms *)
Lemma pidx_bound ty n p q k : renum_type ty = true -> is_renum n p q -> 0 < n ->
  k < t_terms_of ty n -> perm_index ty n p k < t_terms_of ty n.
Proof.
  intros Hty Hren Hn Hk.
  destruct (layout_facts ty n Hty Hn) as (Ett & _). cbv zeta in Ett. rewrite Ett in *.
  destruct (is_16 ty) eqn:E16.
  - set (cell := k mod (n * n)).
    assert (Hnn : 0 < n * n) by nia.
    assert (Hi : cell / n < n) by (apply Nat.div_lt_upper_bound; [lia|]; unfold cell; apply Nat.mod_upper_bound; lia).
    assert (Hj : cell mod n < n) by (apply Nat.mod_upper_bound; lia).
    unfold perm_index. rewrite E16. cbv zeta. fold cell.
    destruct (proj1 Hren _ Hi) as [Pi _], (proj1 Hren _ Hj) as [Pj _].
    assert (k / (n * n) < 4) by (apply Nat.div_lt_upper_bound; lia). nia.
  - assert (Hj : k mod n < n) by (apply Nat.mod_upper_bound; lia).
    unfold perm_index. rewrite E16. destruct (proj1 Hren _ Hj) as [Pj _].
    assert (k / n < 4) by (apply Nat.div_lt_upper_bound; lia). nia.
Qed.

Lemma pidx_inverse ty n p q k : is_renum n p q -> 0 < n -> perm_index ty n q (perm_index ty n p k) = k.
Proof.
  intros Hren Hn. destruct (is_16 ty) eqn:E16; [apply pidx16_inv | apply pidx_inv]; assumption.
Qed.

Theorem perm_index_renum_lemma ty n p q : renum_type ty = true -> is_renum n p q -> 0 < n ->
  is_renum (t_terms_of ty n) (perm_index ty n p) (perm_index ty n q).
Proof.
  intros Hty Hren Hn. split; intros k Hk; split.
  - apply (pidx_bound ty n p q); assumption.
  - apply pidx_inverse; assumption.
  - apply (pidx_bound ty n q p); try assumption. apply renum_sym. exact Hren.
  - apply pidx_inverse; [apply renum_sym; exact Hren | exact Hn].
Qed.

Lemma t_terms_zero ty : renum_type ty = true -> t_terms_of ty 0 = 0.
Proof. destruct ty; try discriminate; reflexivity. Qed.

Lemma Forall2_iff_in {A B} (R : A -> B -> Prop) (P : B -> Prop) (Q : A -> Prop) (l' : list A) (l : list B) :
  Forall2 R l' l -> (forall y x, R y x -> (P x <-> Q y)) ->
  ((forall x, In x l -> P x) <-> (forall y, In y l' -> Q y)).
Proof.
  intros F H. induction F as [|y x l' l Hr F IH]; [split; intros _ z []|].
  split; intros G z [<-|Hz].
  - apply (H _ _ Hr). apply G. left. reflexivity.
  - apply (proj1 IH); [intros w Hw; apply G; right; exact Hw | exact Hz].
  - apply (H _ _ Hr). apply G. left. reflexivity.
  - apply (proj2 IH); [intros w Hw; apply G; right; exact Hw | exact Hz].
Qed.

(* ---------------------------------------------------------------- (a) the solution sets correspond *)
Section SolutionSets.
Variable K : CField.
Add Field Kf_rr1 : (cth K).

Lemma hrow_pair_sum ty n p q (row' row : list K * K) (e : nat -> K) :
  renum_type ty = true -> is_renum n p q -> 0 < n ->
  (forall k, k < t_terms_of ty n ->
     hrow (ops_of K) (unity_pos ty n) row' (perm_index ty n p k) = hrow (ops_of K) (unity_pos ty n) row k) ->
  @sumf K (t_terms_of ty n) (fun k => cmul (hrow (ops_of K) (unity_pos ty n) row' k) (e (perm_index ty n q k))) =
  @sumf K (t_terms_of ty n) (fun k => cmul (hrow (ops_of K) (unity_pos ty n) row k) (e k)).
Proof.
  intros Hty Hren Hn H.
  rewrite <- (sumf_renum K (t_terms_of ty n) (perm_index ty n p) (perm_index ty n q) _
                (perm_index_renum_lemma ty n p q Hty Hren Hn)).
  apply sumf_ext. intros k Hk. cbv beta. rewrite (H k Hk). rewrite pidx_inverse by assumption. reflexivity.
Qed.

Theorem renum_solution_sets_lemma (ty : caltype) (n : nat) (p q : nat -> nat) (pval : Z -> K)
        (ms : list (mvals (ops_of K))) (sys : nat) (e : nat -> K) :
  renum_type ty = true -> is_renum n p q ->
  (forall mv, In mv ms -> meas_wf ty n (mv_meas (ops_of K) mv)) ->
  (hsat K (unity_pos ty n) (t_terms_of ty n) (assemble (ops_of K) ty n n pval ms sys) e <->
   hsat K (unity_pos ty n) (t_terms_of ty n)
        (assemble (ops_of K) ty n n pval (map (renum_mv (ops_of K) ty n p q) ms) sys)
        (fun k => e (perm_index ty n q k))).
Proof.
  intros Hty Hren Hwf. unfold hsat.
  destruct (Nat.eq_dec n 0) as [->|Hn0].
  { rewrite (t_terms_zero ty Hty). split; intros _ row _; reflexivity. }
  assert (Hn : 0 < n) by lia.
  apply (Forall2_iff_in _ _ _ _ _ (renum_assemble_lemma K ty n p q pval ms sys Hty Hren Hwf)).
  intros row' row H. rewrite (hrow_pair_sum ty n p q row' row e Hty Hren Hn H). reflexivity.
Qed.
End SolutionSets.

(* ---------------------------------------------------------------- (b) the solved terms *)
Section FullVector.
Variable K : CField.
Add Field Kf_rr2 : (cth K).
Notation O := (ops_of K).

Lemma full_nth (u : nat) (x : list K) k : u <= length x ->
  nth k (firstn u x ++ [@c1 K] ++ skipn u x) (@c0 K) =
  if Nat.ltb k u then nth k x (@c0 K) else if Nat.eqb k u then @c1 K else nth (k - 1) x (@c0 K).
Proof.
  intros Hu. assert (Hl : length (firstn u x) = u) by (apply firstn_length_le; exact Hu).
  destruct (Nat.ltb_spec k u) as [H|H].
  - rewrite app_nth1 by lia. rewrite <- (firstn_skipn u x) at 2. rewrite app_nth1 by lia. reflexivity.
  - rewrite app_nth2 by lia. rewrite Hl.
    destruct (Nat.eqb_spec k u) as [E|E].
    + subst k. rewrite Nat.sub_diag. reflexivity.
    + rewrite <- (firstn_skipn u x) at 2. rewrite (app_nth2 (firstn u x)) by lia. rewrite Hl.
      replace (k - u) with (S (k - 1 - u)) by lia. reflexivity.
Qed.

(* sum over the t_terms columns of a homogeneous row against a full vector = a . x - b *)
Lemma hrow_full_sum (u unk : nat) (a : list K) (b : K) (x : list K) : u <= unk -> length x = unk ->
  @sumf K (S unk) (fun k => cmul (hrow O u (a, b) k) (nth k (firstn u x ++ [@c1 K] ++ skipn u x) (@c0 K))) =
  csub (@sumf K unk (fun k => cmul (nth k a (@c0 K)) (nth k x (@c0 K)))) b.
Proof.
  intros Hu Hx.
  assert (E : @sumf K unk (fun k => cmul (nth k a (@c0 K)) (nth k x (@c0 K))) =
              cadd (@sumf K u (fun k => cmul (nth k a (@c0 K)) (nth k x (@c0 K))))
                   (@sumf K (unk - u) (fun k => cmul (nth (u + k) a (@c0 K)) (nth (u + k) x (@c0 K))))).
  { rewrite <- (sumf_split K u (unk - u) (fun k => cmul (nth k a (@c0 K)) (nth k x (@c0 K)))).
    replace (u + (unk - u)) with unk by lia. reflexivity. }
  rewrite E. clear E.
  replace (S unk) with (u + (1 + (unk - u))) by lia.
  rewrite !sumf_split.
  rewrite (sumf_ext K u _ (fun k => cmul (nth k a (@c0 K)) (nth k x (@c0 K)))).
  2:{ intros k Hk. rewrite full_nth by lia. unfold hrow, g. cbn [fst snd T o0 osub ops_of].
      destruct (Nat.ltb_spec k u); [reflexivity|lia]. }
  rewrite (sumf_ext K (unk - u) (fun k => cmul (hrow O u (a, b) (u + (1 + k))) _)
                    (fun k => cmul (nth (u + k) a (@c0 K)) (nth (u + k) x (@c0 K)))).
  2:{ intros k Hk. rewrite full_nth by lia. unfold hrow, g. cbn [fst snd T o0 osub ops_of].
      destruct (Nat.ltb_spec (u + (1 + k)) u); [lia|]. destruct (Nat.eqb_spec (u + (1 + k)) u); [lia|].
      replace (u + (1 + k) - 1) with (u + k) by lia. reflexivity. }
  cbn [sumf]. rewrite full_nth by lia. unfold hrow, g. cbn [fst snd T o0 osub ops_of].
  rewrite Nat.add_0_r. destruct (Nat.ltb_spec u u); [lia|]. rewrite Nat.eqb_refl. ring.
Qed.
End FullVector.

Require Import LV.SolveCount.DeterminingProofs.

Lemma nth_map_seq {A} (f : nat -> A) m j d : j < m -> nth j (map f (seq 0 m)) d = f j.
Proof.
  intros H. rewrite (SolveRecovers.nth_map_dflt f (seq 0 m) 0 d) by (rewrite seq_length; exact H).
  rewrite seq_nth by exact H. reflexivity.
Qed.

Lemma unity_le_unknowns ty n : renum_type ty = true -> 0 < n ->
  unity_pos ty n <= unknowns ty n n /\ t_terms_of ty n = S (unknowns ty n n).
Proof.
  intros Hty Hn. destruct (layout_facts ty n Hty Hn) as (Ett & Eunk & Eu & _). cbv zeta in Ett, Eunk.
  rewrite Ett, Eunk, Eu. destruct (VNACAL_IS_T ty), (is_16 ty); nia.
Qed.

Lemma full_terms_eq (K : CField) ty n (x : list K) k :
  full_terms (ops_of K) ty n x k =
  nth k (firstn (unity_pos ty n) x ++ [@c1 K] ++ skipn (unity_pos ty n) x) (@c0 K).
Proof. reflexivity. Qed.

Section Solved.
Add Field QIF_rr3 : (cth QIF).
Ltac qeq := match goal with |- @eq _ ?a ?b => change (@eq (F QIF) a b) end.
Variables (ty : caltype) (n : nat) (p q : nat -> nat) (pval : Z -> qi) (ms : list (mvals qops)).
Hypothesis Hty : renum_type ty = true.
Hypothesis Hren : is_renum n p q.
Hypothesis Hn : 0 < n.
Hypothesis Hwf : forall mv, In mv ms -> meas_wf ty n (mv_meas qops mv).
Notation unk := (unknowns ty n n).
Notation u := (unity_pos ty n).
Notation tt := (t_terms_of ty n).
Notation ms' := (map (renum_mv qops ty n p q) ms).
Notation rows := (q_assemble ty n n ms pval 0).
Notation rows' := (q_assemble ty n n ms' pval 0).

(* a normalised solution of the assembled rows, with the unity term inserted, solves the homogeneous system *)
Lemma sat_hsat (rws : list (list qi * qi)) (x : list qi) : length x = unk ->
  (forall r, In r rws -> rdot unk (fst r) x = snd r) ->
  hsat QIF u tt rws (full_terms qops ty n x).
Proof.
  intros Hx Hs [a b] Hr. destruct (unity_le_unknowns ty n Hty Hn) as [Hu Ht]. rewrite Ht.
  etransitivity; [exact (hrow_full_sum QIF u unk a b x Hu Hx)|].
  pose proof (Hs (a, b) Hr) as E. unfold rdot in E. cbn [fst snd] in E.
  etransitivity; [|exact (q_sub_self b)]. f_equal. exact E.
Qed.

(* ... and conversely, when the unity entry of the full vector is 1 by construction *)
Lemma hsat_sat (rws : list (list qi * qi)) (x : list qi) : length x = unk ->
  hsat QIF u tt rws (full_terms qops ty n x) ->
  forall r, In r rws -> rdot unk (fst r) x = snd r.
Proof.
  intros Hx Hs [a b] Hr. destruct (unity_le_unknowns ty n Hty Hn) as [Hu Ht].
  pose proof (Hs (a, b) Hr) as E. rewrite Ht in E.
  apply q_sub_zero. etransitivity; [symmetry; exact (hrow_full_sum QIF u unk a b x Hu Hx) | exact E].
Qed.

Lemma renum_terms_length (xt : list qi) : length (renum_terms QIF ty n q xt) = unk.
Proof. unfold renum_terms. cbv zeta. rewrite map_length, seq_length. reflexivity. Qed.

(* the full vector of renum_terms is the permuted full vector divided by the entry at the unity position *)
Lemma renum_terms_full (xt : list qi) k : k < tt ->
  full_terms qops ty n xt (perm_index ty n q u) <> q0 ->
  full_terms qops ty n (renum_terms QIF ty n q xt) k =
  cdiv (full_terms qops ty n xt (perm_index ty n q k)) (full_terms qops ty n xt (perm_index ty n q u)).
Proof.
  intros Hk Hc. destruct (unity_le_unknowns ty n Hty Hn) as [Hu Ht]. rewrite Ht in Hk.
  change qops with (ops_of QIF). rewrite (full_terms_eq QIF ty n (renum_terms QIF ty n q xt) k).
  rewrite full_nth by (rewrite renum_terms_length; exact Hu).
  unfold renum_terms. cbv zeta.
  destruct (Nat.ltb_spec k u) as [H|H].
  - rewrite nth_map_seq by lia. destruct (Nat.ltb_spec k u); [reflexivity|lia].
  - destruct (Nat.eqb_spec k u) as [E|E].
    + subst k. qeq. field. exact Hc.
    + rewrite nth_map_seq by lia. destruct (Nat.ltb_spec (k - 1) u); [lia|].
      replace (S (k - 1)) with k by lia. reflexivity.
Qed.

Theorem renum_solved_terms_lemma (xt : list qi) :
  length xt = unk -> (forall r, In r rows -> rdot unk (fst r) xt = snd r) ->
  unk <= length rows' -> kernel_trivial unk rows' ->
  full_terms qops ty n xt (perm_index ty n q u) <> q0 ->
  q_solve_system ty n n ms' pval 0 = SysOk rows' (renum_terms QIF ty n q xt).
Proof.
  intros Hx Hsat Hcnt Hker Hc.
  apply determining_system_recovers; [exact Hcnt | exact Hker | apply renum_terms_length |].
  apply hsat_sat; [apply renum_terms_length|].
  pose proof (sat_hsat rows xt Hx Hsat) as H0.
  apply (proj1 (renum_solution_sets_lemma QIF ty n p q pval ms 0 _ Hty Hren Hwf)) in H0.
  intros row Hr. specialize (H0 row Hr).
  set (c := full_terms qops ty n xt (perm_index ty n q u)) in *.
  set (f := fun k => cmul (hrow (ops_of QIF) u row k) (full_terms qops ty n xt (perm_index ty n q k))).
  transitivity (@sumf QIF tt (fun k => cmul (f k) (cinv c))).
  - apply sumf_ext. intros k Hk. rewrite (renum_terms_full xt k Hk Hc). unfold f. fold c. qeq. field. exact Hc.
  - etransitivity; [symmetry; exact (sumf_scale_r QIF tt (cinv c) f)|].
    etransitivity; [exact (f_equal (fun z => cmul z (cinv c)) H0)|]. qeq. ring.
Qed.
End Solved.

(* ---------------------------------------------------------------- (c) the applied S *)
Require Import LV.Cal.ApplyProofs LV.Cal.ApplyIdentity LV.Cal.ApplyRecovers LV.Cal.FillLoopsRecovers.

Lemma layout_offsets ty n : renum_type ty = true -> 0 < n ->
  let B := if is_16 ty then n * n else n in
  let l := layout ty (Z.of_nat n) (Z.of_nat n) in
  ApplyModel.zn (VL_TS_OFFSET l) = 0 * B /\ ApplyModel.zn (VL_TI_OFFSET l) = 1 * B /\
  ApplyModel.zn (VL_TX_OFFSET l) = 2 * B /\ ApplyModel.zn (VL_TM_OFFSET l) = 3 * B /\
  ApplyModel.zn (VL_EL_OFFSET l) = 4 * B.
Proof.
  intros Hty Hn. unfold ApplyModel.zn. destruct ty; try discriminate; cbn; repeat split; try lia; try nia.
Qed.

Section ApplyEquiv.
Variable K : CField.
Add Field Kf_rr4 : (cth K).
Notation O := (ops_of K).
Variables (ty : caltype) (n : nat) (p q : nat -> nat).
Hypothesis Hty : renum_type ty = true.
Hypothesis Hren : is_renum n p q.
Hypothesis Hn : 0 < n.
Variables (e e' m m' s s' : list K) (ci : K).
Notation B := (if is_16 ty then n * n else n).
(* the error terms of the linear system: permuted and multiplied by a common scalar *)
Hypothesis He : forall k, k < t_terms_of ty n -> g O e' (perm_index ty n p k) = cmul (g O e k) ci.
(* the leakage terms outside of the system: permuted *)
Hypothesis Hel : has_leak ty = true -> forall r c, r < n -> c < n -> r <> c ->
  el_at O ty n n e' (leak_index n (p r) (p c)) = el_at O ty n n e (leak_index n r c).
Hypothesis Hm : forall i j, i < n -> j < n -> g O m' (p i * n + p j) = g O m (i * n + j).
Hypothesis Hs : forall i j, i < n -> j < n -> g O s' (p i * n + p j) = g O s (i * n + j).

Ltac absK := change (o0 O) with (@c0 K);
  repeat match goal with |- context [?t] =>
    lazymatch t with g _ _ _ => idtac | blk _ _ _ _ _ _ _ => idtac | m_minus_el _ _ _ _ _ _ _ => idtac
                   | sumk _ _ _ => idtac | el_at _ _ _ _ _ _ => idtac end;
    let x := fresh "x" in pose (x := (t : F K)); change t with x; clearbody x end.
Ltac kring := absK; match goal with |- @eq _ ?a ?b => change (@eq (F K) a b) end; ring.

Lemma sumk_sumf_K (N : nat) (f : nat -> K) : sumk O N f = @sumf K N f.
Proof. exact (msum_sumf K N f). Qed.

Lemma sum_renum_scale (f' f : nat -> K) :
  (forall k, k < n -> f' (p k) = cmul (f k) ci) -> @sumf K n f' = cmul (@sumf K n f) ci.
Proof.
  intros H. rewrite <- (sumf_renum K n p q f' Hren). rewrite (sumf_scale_r K). apply sumf_ext. exact H.
Qed.

Lemma sum_renum_same (f' f : nat -> K) :
  (forall k, k < n -> f' (p k) = f k) -> @sumf K n f' = @sumf K n f.
Proof. intros H. rewrite <- (sumf_renum K n p q f' Hren). apply sumf_ext. exact H. Qed.

Lemma pn' i : i < n -> p i < n.
Proof. intros H. apply (proj1 Hren i H). Qed.

Lemma blk_renum b i j : b < 4 -> i < n -> j < n ->
  blk O (is_16 ty) (b * B) n e' (p i) (p j) = cmul (blk O (is_16 ty) (b * B) n e i j) ci.
Proof.
  intros Hb Hi Hj. unfold blk.
  destruct (layout_facts ty n Hty Hn) as (Ett & _). cbv zeta in Ett.
  destruct (is_16 ty) eqn:E16.
  - assert (Hc : i * n + j < n * n) by nia.
    replace (b * (n * n) + p i * n + p j) with (perm_index ty n p (b * (n * n) + (i * n + j)))
      by (rewrite (pidx16_block ty n p b i j E16 Hi Hj); lia).
    rewrite He by (rewrite Ett; nia). f_equal. f_equal. lia.
  - rewrite (renum_eqb n p q i j Hren Hi Hj). destruct (Nat.eqb i j); [|kring].
    rewrite <- (pidx_block ty n p b i E16 Hi). apply He. rewrite Ett. nia.
Qed.

Lemma mu_renum (i a : nat) : i < n -> a < n ->
  m_minus_el O (has_leak ty) (el_at O ty n n e') n (fun r c => g O m' (r * n + c)) (p i) (p a) =
  m_minus_el O (has_leak ty) (el_at O ty n n e) n (fun r c => g O m (r * n + c)) i a.
Proof.
  intros Hi Ha. unfold m_minus_el. rewrite (renum_eqb n p q i a Hren Hi Ha). rewrite (Hm i a Hi Ha).
  destruct (Nat.eqb_spec i a) as [E|E]; cbn [negb]; [rewrite !andb_false_r; reflexivity|].
  destruct (has_leak ty) eqn:EL; cbn [andb]; [|reflexivity].
  rewrite (Hel eq_refl i a Hi Ha E). reflexivity.
Qed.

Lemma docT_renum i j : i < n -> j < n ->
  docT_row K ty n n e' (p i) (fun a => m_minus_el O (has_leak ty) (el_at O ty n n e') n (fun r c => g O m' (r * n + c)) (p i) a)
           (fun a b => g O s' (a * n + b)) (p j) =
  cmul (docT_row K ty n n e i (fun a => m_minus_el O (has_leak ty) (el_at O ty n n e) n (fun r c => g O m (r * n + c)) i a)
           (fun a b => g O s (a * n + b)) j) ci.
Proof.
  intros Hi Hj. unfold docT_row. cbv zeta. rewrite !Nat.max_id.
  destruct (layout_offsets ty n Hty Hn) as (E0 & E1 & E2 & E3 & _). cbv zeta in E0, E1, E2, E3.
  rewrite E0, E1, E2, E3. change (orb (caltype_eqb ty T16) (caltype_eqb ty U16)) with (is_16 ty).
  rewrite !sumk_sumf_K.
  rewrite (sum_renum_scale (fun k => cmul (blk O (is_16 ty) (0 * B) n e' (p i) k) (g O s' (k * n + p j)))
                           (fun k => cmul (blk O (is_16 ty) (0 * B) n e i k) (g O s (k * n + j)))).
  2:{ intros k Hk. cbv beta. rewrite blk_renum by (lia || assumption). rewrite (Hs k j Hk Hj). kring. }
  rewrite (blk_renum 1 i j) by (lia || assumption).
  rewrite (sum_renum_scale (fun a => cmul (m_minus_el O (has_leak ty) (el_at O ty n n e') n (fun r c => g O m' (r * n + c)) (p i) a)
                  (sumk O n (fun k => cmul (blk O (is_16 ty) (2 * B) n e' a k) (g O s' (k * n + p j)))))
               (fun a => cmul (m_minus_el O (has_leak ty) (el_at O ty n n e) n (fun r c => g O m (r * n + c)) i a)
                  (sumk O n (fun k => cmul (blk O (is_16 ty) (2 * B) n e a k) (g O s (k * n + j)))))).
  2:{ intros a Ha. cbv beta. rewrite (mu_renum i a Hi Ha). rewrite !sumk_sumf_K.
      rewrite (sum_renum_scale (fun k => cmul (blk O (is_16 ty) (2 * B) n e' (p a) k) (g O s' (k * n + p j)))
                               (fun k => cmul (blk O (is_16 ty) (2 * B) n e a k) (g O s (k * n + j)))).
      - kring.
      - intros k Hk. cbv beta. rewrite blk_renum by (lia || assumption). rewrite (Hs k j Hk Hj). kring. }
  rewrite (sum_renum_scale (fun a => cmul (m_minus_el O (has_leak ty) (el_at O ty n n e') n (fun r c => g O m' (r * n + c)) (p i) a) (blk O (is_16 ty) (3 * B) n e' a (p j)))
               (fun a => cmul (m_minus_el O (has_leak ty) (el_at O ty n n e) n (fun r c => g O m (r * n + c)) i a)
                  (blk O (is_16 ty) (3 * B) n e a j))).
  2:{ intros a Ha. cbv beta. rewrite (mu_renum i a Hi Ha). rewrite blk_renum by (lia || assumption). kring. }
  kring.
Qed.

Lemma docU_renum i j : i < n -> j < n ->
  docU_col K ty n n e' (p j) (fun a => m_minus_el O (has_leak ty) (el_at O ty n n e') n (fun r c => g O m' (r * n + c)) a (p j))
           (fun a b => g O s' (a * n + b)) (p i) =
  cmul (docU_col K ty n n e j (fun a => m_minus_el O (has_leak ty) (el_at O ty n n e) n (fun r c => g O m (r * n + c)) a j)
           (fun a b => g O s (a * n + b)) i) ci.
Proof.
  intros Hi Hj. unfold docU_col. cbv zeta. rewrite !Nat.max_id.
  destruct (layout_offsets ty n Hty Hn) as (E0 & E1 & E2 & E3 & _). cbv zeta in E0, E1, E2, E3.
  change (VL_UM_OFFSET (layout ty (Z.of_nat n) (Z.of_nat n))) with (VL_TS_OFFSET (layout ty (Z.of_nat n) (Z.of_nat n))).
  change (VL_UI_OFFSET (layout ty (Z.of_nat n) (Z.of_nat n))) with (VL_TI_OFFSET (layout ty (Z.of_nat n) (Z.of_nat n))).
  change (VL_UX_OFFSET (layout ty (Z.of_nat n) (Z.of_nat n))) with (VL_TX_OFFSET (layout ty (Z.of_nat n) (Z.of_nat n))).
  change (VL_US_OFFSET (layout ty (Z.of_nat n) (Z.of_nat n))) with (VL_TM_OFFSET (layout ty (Z.of_nat n) (Z.of_nat n))).
  rewrite E0, E1, E2, E3. change (orb (caltype_eqb ty T16) (caltype_eqb ty U16)) with (is_16 ty).
  rewrite !sumk_sumf_K.
  rewrite (sum_renum_scale (fun a => cmul (blk O (is_16 ty) (0 * B) n e' (p i) a) (m_minus_el O (has_leak ty) (el_at O ty n n e') n (fun r c => g O m' (r * n + c)) a (p j)))
               (fun a => cmul (blk O (is_16 ty) (0 * B) n e i a)
                  (m_minus_el O (has_leak ty) (el_at O ty n n e) n (fun r c => g O m (r * n + c)) a j))).
  2:{ intros a Ha. cbv beta. rewrite blk_renum by (lia || assumption). rewrite (mu_renum a j Ha Hj). kring. }
  rewrite (blk_renum 1 i j) by (lia || assumption).
  rewrite (sum_renum_scale (fun k => cmul (g O s' (p i * n + k))
                  (sumk O n (fun a => cmul (blk O (is_16 ty) (2 * B) n e' k a) (m_minus_el O (has_leak ty) (el_at O ty n n e') n (fun r c => g O m' (r * n + c)) a (p j)))))
               (fun k => cmul (g O s (i * n + k))
                  (sumk O n (fun a => cmul (blk O (is_16 ty) (2 * B) n e k a)
                     (m_minus_el O (has_leak ty) (el_at O ty n n e) n (fun r c => g O m (r * n + c)) a j))))).
  2:{ intros k Hk. cbv beta. rewrite (Hs i k Hi Hk). rewrite !sumk_sumf_K.
      rewrite (sum_renum_scale (fun a => cmul (blk O (is_16 ty) (2 * B) n e' (p k) a) (m_minus_el O (has_leak ty) (el_at O ty n n e') n (fun r c => g O m' (r * n + c)) a (p j)))
                               (fun a => cmul (blk O (is_16 ty) (2 * B) n e k a)
                     (m_minus_el O (has_leak ty) (el_at O ty n n e) n (fun r c => g O m (r * n + c)) a j))).
      - kring.
      - intros a Ha. cbv beta. rewrite blk_renum by (lia || assumption). rewrite (mu_renum a j Ha Hj). kring. }
  rewrite (sum_renum_scale (fun k => cmul (g O s' (p i * n + k)) (blk O (is_16 ty) (3 * B) n e' k (p j)))
                           (fun k => cmul (g O s (i * n + k)) (blk O (is_16 ty) (3 * B) n e k j))).
  2:{ intros k Hk. cbv beta. rewrite (Hs i k Hi Hk). rewrite blk_renum by (lia || assumption). kring. }
  kring.
Qed.

(* the documented equation of the renumbered data is the documented equation of the original data times the
   common scalar of the terms *)
Theorem doc_cell_renum_lemma i j : i < n -> j < n ->
  doc_cell K ty n n e' m' s' (p i) (p j) = cmul (doc_cell K ty n n e m s i j) ci.
Proof.
  intros Hi Hj. unfold doc_cell. cbv zeta. rewrite !Nat.max_id, !Nat.eqb_refl.
  destruct (VNACAL_IS_T ty) eqn:ET.
  - exact (docT_renum i j Hi Hj).
  - assert (E12f : caltype_eqb ty E12 = false) by (destruct ty; try discriminate Hty; reflexivity).
    assert (E14f : VNACAL_IS_UE14 ty = false) by (destruct ty; try discriminate Hty; reflexivity).
    rewrite E12f, E14f. exact (docU_renum i j Hi Hj).
Qed.
End ApplyEquiv.

Theorem renum_apply_lemma (ty : caltype) (n : nat) (p q : nat -> nat) (e e' m s : list qi) (ci : qi) :
  renum_type ty = true -> is_renum n p q -> 1 <= n -> length m = n * n -> length s = n * n ->
  (forall k, k < t_terms_of ty n -> g qops e' (perm_index ty n p k) = cmul (g qops e k) ci) ->
  (has_leak ty = true -> forall r c, r < n -> c < n -> r <> c ->
     el_at qops ty n n e' (leak_index n (p r) (p c)) = el_at qops ty n n e (leak_index n r c)) ->
  (forall i j, i < n -> j < n -> doc_cell QIF ty n n e m s i j = @c0 QIF) ->
  forall a b x, q_apply ty n n e' (renum_cells n q m qi0) = AOk a b x -> x = renum_cells n q s qi0.
Proof.
  intros Hty Hren Hn Hm Hs He Hel Hdoc a b x Hq.
  assert (Hst : In ty stored_types) by (destruct ty; try discriminate Hty; cbn; tauto).
  assert (Hl : forall l : list qi, length (renum_cells n q l qi0) = n * n)
    by (intros l; unfold renum_cells; rewrite map_length, seq_length; reflexivity).
  apply (apply_model_recovers_S_every_n ty n e' (renum_cells n q m qi0) (renum_cells n q s qi0) Hst Hn (Hl m) (Hl s))
    with (a := a) (b := b); [|exact Hq].
  intros i j Hi Hj.
  destruct (proj2 Hren i Hi) as [Qi Pi], (proj2 Hren j Hj) as [Qj Pj].
  rewrite <- Pi, <- Pj.
  assert (Hm' : forall i0 j0, i0 < n -> j0 < n ->
            g (ops_of QIF) (renum_cells n q m qi0) (p i0 * n + p j0) = g (ops_of QIF) m (i0 * n + j0))
    by (intros i0 j0 H1 H2; exact (nth_renum_cells n p q Hren m qi0 i0 j0 H1 H2)).
  assert (Hs' : forall i0 j0, i0 < n -> j0 < n ->
            g (ops_of QIF) (renum_cells n q s qi0) (p i0 * n + p j0) = g (ops_of QIF) s (i0 * n + j0))
    by (intros i0 j0 H1 H2; exact (nth_renum_cells n p q Hren s qi0 i0 j0 H1 H2)).
  rewrite (doc_cell_renum_lemma QIF ty n p q Hty Hren Hn e e' m _ s _ ci He Hel Hm' Hs' _ _ Qi Qj).
  rewrite (Hdoc _ _ Qi Qj). destruct ci; apply qi_eq; cbn; ring.
Qed.
