(* ALL hypotheses of EndToEndCoreDevice.c01_model_end_to_end_core_lemma at once, and its conclusions computed:
   2 x 2 T8 at the Gaussian rationals with a NON-ideal network, Ts = diag(2, 1), Ti = diag(1, 0), Tx = diag(0, 1),
   Tm = diag(1, 1) (tm11 is the unity term), and a MINIMAL determining set of three standards of the family zcfgs:
   an ideal through entered with S11 = S22 = known zero (4 equations), a two-port with S12 = S21 = known zero and
   reflections -1, 1/2 (2 equations), a match on port 1 with port 2 not given (1 equation): 7 equations for 7
   unknowns, the square (LU) branch.  Responses Mc = (Ts S + Ti)(Tx S + Tm)^-1 written out and CHECKED against the
   determining equation; full column rank from the solve model's own success (DeterminingProofs.system_ok_iff);
   device: a non-reciprocal two-port with complex entries. *)
Require Import List ZArith Bool Arith Lia QArith Qcanon.
Require Import LV.Base.CField LV.Base.QcI LV.Lin.MatL LV.Lin.LuModel LV.Lin.LuQI LV.Lin.LuQI2 LV.Lin.LsSpec LV.Lin.LuGenA.
Require Import LV.Gen.LayoutGen LV.Cal.Sym LV.Cal.TermsModel LV.Cal.AddModel LV.Cal.ApplyModel LV.Cal.SolveSimple
               LV.Cal.CalQI LV.Cal.ApplyIdentity LV.Cal.AssembleIdentity LV.Cal.AssembleList
               LV.Cal.ApplyRecovers LV.Cal.SolveRecovers LV.Cal.EndToEnd
               LV.Cal.LeakPhysical LV.Cal.EndToEndAll LV.Cal.EndToEndDevice LV.Cal.EndToEndFinalEx
               LV.Cal.EndToEndCore LV.Cal.EndToEndCoreDevice.
Require Import LV.SolveCount.DeterminingProofs.
Import ListNotations.
Local Open Scope nat_scope.

Definition cz_c1 : zcfg := (T8, (2, 2), [1; 2], [true; false; false; true]).
Definition cz_c2 : zcfg := (T8, (2, 2), [1; 2], [false; true; true; false]).
Definition cz_c3 : zcfg := (T8, (2, 2), [1], [true]).
Definition cz_pv (h : Z) : qi :=
  if Z.eqb h 3 then mkqi (-1) 1 0 1 else if Z.eqb h 6 then mkqi 1 2 0 1 else mkqi 1 1 0 1.
Definition cz_meas (c : zcfg) : measurement :=
  match add_common (zcfg_args c) with Accepted m => m | _ => mkMeas [] [] None [] end.
Definition qn (z : Z) : qi := mkqi z 1 0 1.
(* ts1 ts2 ti1 ti2 tx1 tx2 tm1 tm2 *)
Definition cz_fe (k : nat) : qi := nth k [qn 2; qn 1; qn 1; qn 0; qn 0; qn 1; qn 1; qn 1] qi0.
Definition cz_ms : list (mvals qops) :=
  [mkMV qops (cz_meas cz_c1) [qn (-1); qn 2; qn 1; qn 0];                       (* through *)
   mkMV qops (cz_meas cz_c2) [qn (-1); qn 0; qn 0; mkqi 1 3 0 1];              (* reflects -1, 1/2 *)
   mkMV qops (cz_meas cz_c3) [qn 1; qn 0; qn 0; qn 0]].                          (* match on port 1 *)
Definition cz_fx (mv : mvals qops) (k : nat) : qi := qi0.
Definition cz_core (mv : mvals qops) (r c : nat) : qi := g qops (mv_m qops mv) (r * 2 + c).

Definition cz_s : list qi := [mkqi 1 3 0 1; mkqi 1 5 0 1; mkqi 0 1 1 2; mkqi (-1) 4 0 1].
Definition cz_m : list qi := [mkqi 5 3 (-4) 15; mkqi 8 15 0 1; mkqi 0 1 2 3; mkqi (-1) 3 0 1].
Definition cz_Mc (r c : nat) : qi := nth (r * 2 + c) cz_m qi0.

Ltac two i Hi := destruct i as [|[|i]]; [| |exfalso; lia].
Ltac qdec := apply qi_eqb_eq; vm_compute; reflexivity.
Ltac in_zcfgs :=
  apply in_flat_map; exists T8; split; [simpl; tauto|];
  unfold zcfgs_for; apply in_flat_map; exists (2, 2); split; [vm_compute; tauto|];
  vm_compute; repeat (first [left; reflexivity | right]).

Lemma cz_rows_count : length (q_assemble T8 2 2 cz_ms cz_pv 0) = 7 /\ unknowns T8 2 2 = 7.
Proof. split; vm_compute; reflexivity. Qed.
Lemma cz_verdict : sysok_is (q_solve_system T8 2 2 cz_ms cz_pv 0) = true.
Proof. vm_compute. reflexivity. Qed.
Lemma cz_rank : kernel_trivial (unknowns T8 2 2) (q_assemble T8 2 2 cz_ms cz_pv 0).
Proof. exact (proj2 (proj1 (system_ok_iff T8 2 2 cz_ms cz_pv 0) (sysok_sound T8 2 2 cz_ms cz_pv 0 cz_verdict))). Qed.
Lemma cz_vector : core_dev_vector QIF T8 2 cz_fe = [qn 2; qn 1; qn 1; qn 0; qn 0; qn 1; qn 1; qn 1].
Proof. apply qlist_eqb_sound. vm_compute. reflexivity. Qed.
Lemma cz_apply : exists a b, q_apply T8 2 2 (core_dev_vector QIF T8 2 cz_fe) cz_m = AOk a b cz_s.
Proof. apply res_is_sound. vm_compute. reflexivity. Qed.

Example c01_model_end_to_end_core_nonvacuous :
  In (T8, 2) core_e2e_cases /\
  (forall mv, In mv cz_ms ->
     std_of QIF T8 2 2 mv /\ core_network QIF T8 2 2 cz_fe cz_pv cz_fx cz_core mv /\ measured_exactly QIF 2 2 cz_core mv) /\
  (forall sys, sys < systems_of T8 2 ->
     let rows := q_assemble T8 2 2 cz_ms cz_pv sys in
     length rows = 7 /\ unknowns T8 2 2 <= length rows /\ kernel_trivial (unknowns T8 2 2) rows) /\
  length cz_m = 4 /\ length cz_s = 4 /\
  core_device_network QIF T8 2 cz_fe cz_Mc (fun a b => nth (a * 2 + b) cz_s (@c0 QIF)) /\
  (forall r c, r < 2 -> c < 2 -> nth (r * 2 + c) cz_m (@c0 QIF) = cz_Mc r c) /\
  (* conclusions: through the theorem, and the values *)
  q_error_terms T8 2 2 cz_ms cz_pv = Some [qn 2; qn 1; qn 1; qn 0; qn 0; qn 1; qn 1; qn 1] /\
  (forall a b x, q_apply T8 2 2 (core_dev_vector QIF T8 2 cz_fe) cz_m = AOk a b x -> x = cz_s) /\
  exists a b, q_apply T8 2 2 (core_dev_vector QIF T8 2 cz_fe) cz_m = AOk a b cz_s.
Proof.
  assert (H : forall mv, In mv cz_ms ->
     std_of QIF T8 2 2 mv /\ core_network QIF T8 2 2 cz_fe cz_pv cz_fx cz_core mv /\ measured_exactly QIF 2 2 cz_core mv).
  { intros mv Hmv. split; [|split].
    - destruct Hmv as [<-|[<-|[<-|[]]]].
      + exists cz_c1. split; [in_zcfgs|]. repeat split; vm_compute; reflexivity.
      + exists cz_c2. split; [in_zcfgs|]. repeat split; vm_compute; reflexivity.
      + exists cz_c3. split; [in_zcfgs|]. repeat split; vm_compute; reflexivity.
    - intros i j Hi Hj. destruct Hmv as [<-|[<-|[<-|[]]]]; two i Hi; two j Hj; qdec.
    - intros r c Hr Hc. reflexivity. }
  assert (Hrank : forall sys, sys < systems_of T8 2 ->
     let rows := q_assemble T8 2 2 cz_ms cz_pv sys in
     length rows = 7 /\ unknowns T8 2 2 <= length rows /\ kernel_trivial (unknowns T8 2 2) rows).
  { intros sys Hs. assert (sys = 0) by (vm_compute in Hs; lia). subst sys. cbv zeta.
    destruct cz_rows_count as [E1 E2]. split; [exact E1|]. split; [rewrite E1, E2; lia | exact cz_rank]. }
  assert (Hdev : core_device_network QIF T8 2 cz_fe cz_Mc (fun a b => nth (a * 2 + b) cz_s (@c0 QIF))).
  { intros i j Hi Hj. two i Hi; two j Hj; qdec. }
  assert (Hmeas : forall r c, r < 2 -> c < 2 -> nth (r * 2 + c) cz_m (@c0 QIF) = cz_Mc r c) by (intros; reflexivity).
  split; [vm_compute; tauto|]. split; [exact H|]. split; [exact Hrank|].
  split; [reflexivity|]. split; [reflexivity|]. split; [exact Hdev|]. split; [exact Hmeas|].
  pose proof (c01_model_end_to_end_core_lemma T8 2 ltac:(vm_compute; tauto) cz_fe cz_pv cz_ms cz_fx cz_core H
                (fun sys Hs => proj2 (Hrank sys Hs))) as [Hq Hap].
  split; [rewrite <- cz_vector; exact Hq|]. split.
  - intros a b x Ha. exact (Hap cz_m cz_s cz_Mc eq_refl eq_refl Hdev Hmeas a b x Ha).
  - exact cz_apply.
Qed.
