(* fill_solves: for every field K (no symbolic layer, no computation on polynomials), every stored type
   and every shape vnacal_apply accepts with dimensions 1..4 (apply_cases: 40 cases), and ALL error-term
   vectors e, measured matrices m and candidate S matrices s of the right lengths, the matrices
   (A, B) filled by fill_t8/u8/t16/u16/ue14/e12 AS CODED (Cal/ApplyModel.v) satisfy, cell by cell,

        T types:   (A S - B)[i,j] = - doc[i,j]            U, UE14, E12:   (S A - B)[i,j] = - doc[i,j]

   where doc is the documented matrix expression of vnacal_layout.h evaluated at (e, m, s) in its "== 0"
   form, the blocks being read from e through the layout regenerated from the C text:
        T    - Ts S - Ti + M' Tx S + M' Tm                     (M' = M - El off the diagonal, TE10)
        U    Um M' + Ui - S Ux M' - S Us                       (UE10 likewise)
        UE14 column j: Um_j M'(:,j) + Ui_j e_j - S (Ux_j M'(:,j) + Us_j e_j)
        E12  column j: (I - S Em_j) Er_j^-1 (M(:,j) - El_j) - S e_j
   and for the 1x2 / 2x1 calibrations, applied to a 2x2 matrix [m11 m12; m21 m22] of a two-port
   measured in both orientations: row (column) 0 is the equation of the measurement (m11, m12) with S,
   row (column) 1 that of (m22, m21) with the device turned round (S with both ports exchanged).
   Hence: if the measurement of the device satisfies the documented equation with the error terms e,
   then S solves A X = B (resp. X A = B).  Proved by unfolding the model at an abstract field and `ring'. *)
Require Import List ZArith Bool Arith Lia.
Require Import LV.Base.CField LV.Gen.LayoutGen LV.Cal.Sym LV.Cal.ApplyModel LV.Cal.ApplyProofs.
Import ListNotations.
Local Open Scope nat_scope.

Definition conj_all (l : list Prop) : Prop := fold_right and True l.

Lemma conj_all_in (l : list Prop) : conj_all l -> forall P, In P l -> P.
Proof.
  induction l as [|Q l IH]; intros H P HP; [destruct HP|].
  destruct H as [HQ Hl]. destruct HP as [<-|HP]; [exact HQ | exact (IH Hl P HP)].
Qed.

Definition pairs (p : nat) : list (nat * nat) := flat_map (fun i => map (fun j => (i, j)) (seq 0 p)) (seq 0 p).

Lemma in_pairs p i j : i < p -> j < p -> In (i, j) (pairs p).
Proof.
  intros Hi Hj. unfold pairs. apply in_flat_map. exists i. split; [apply in_seq; lia|].
  apply in_map_iff. exists j. split; [reflexivity | apply in_seq; lia].
Qed.

Definition nterms (ty : caltype) (mr mc : nat) : nat :=
  Z.to_nat (VL_ERROR_TERMS (layout ty (Z.of_nat mr) (Z.of_nat mc))).

Section K.
Variable K : CField.
Add Field Kf_ai : (cth K).
Let O := ops_of K.

Definition lst (n : nat) (f : nat -> K) : list K := map f (seq 0 n).

Lemma nth_lst (n : nat) (f : nat -> K) (i : nat) : i < n -> nth i (lst n f) c0 = f i.
Proof.
  intros Hi. unfold lst.
  assert (G : forall a len k, k < len -> nth k (map f (seq a len)) c0 = f (a + k)).
  { intros a len; revert a; induction len as [|len IH]; intros a k Hk; [lia|].
    destruct k as [|k]; cbn [seq map nth]; [f_equal; lia|].
    rewrite IH by lia. f_equal; lia. }
  exact (G 0 n i Hi).
Qed.

Lemma lst_of_list (n : nat) (l : list K) : length l = n -> l = lst n (fun i => nth i l c0).
Proof.
  intros H. apply (nth_ext _ _ c0 c0).
  - unfold lst. rewrite map_length, seq_length. exact H.
  - intros i Hi. rewrite nth_lst by lia. reflexivity.
Qed.

(* ---------------------------------------------------------------- the documented expressions *)
Section Doc.
Variables (ty : caltype) (mr mc : nat) (e : list K).
Let l := layout ty (Z.of_nat mr) (Z.of_nat mc).
Let p := Nat.max mr mc.
Let full := orb (caltype_eqb ty T16) (caltype_eqb ty U16).
Let sm (n : nat) (f : nat -> K) : K := sumk O n f.

(* one measured row mu (mc values, leakage already subtracted) against the device S (p x p):
   cell j of  - Ts[i,:] S - Ti[i,:] + mu Tx S + mu Tm *)
Definition docT_row (i : nat) (mu : nat -> K) (S : nat -> nat -> K) (j : nat) : K :=
  let Ts := blk O full (zn (VL_TS_OFFSET l)) p e in let Ti := blk O full (zn (VL_TI_OFFSET l)) p e in
  let Tx := blk O full (zn (VL_TX_OFFSET l)) p e in let Tm := blk O full (zn (VL_TM_OFFSET l)) p e in
  cadd (cadd (csub (copp (sm p (fun k => cmul (Ts i k) (S k j)))) (Ti i j))
             (sm mc (fun a => cmul (mu a) (sm p (fun k => cmul (Tx a k) (S k j))))))
       (sm mc (fun a => cmul (mu a) (Tm a j))).

(* one measured column nu (mr values) against S: cell i of  Um nu + Ui[:,c] - S Ux nu - S Us[:,c] *)
Definition docU_col (c : nat) (nu : nat -> K) (S : nat -> nat -> K) (i : nat) : K :=
  let Um := blk O full (zn (VL_UM_OFFSET l)) mr e in let Ui := blk O full (zn (VL_UI_OFFSET l)) mc e in
  let Ux := blk O full (zn (VL_UX_OFFSET l)) mr e in let Us := blk O full (zn (VL_US_OFFSET l)) mc e in
  csub (csub (cadd (sm mr (fun a => cmul (Um i a) (nu a))) (Ui i c))
             (sm p (fun k => cmul (S i k) (sm mr (fun a => cmul (Ux k a) (nu a))))))
       (sm p (fun k => cmul (S i k) (Us k c))).

(* UE14: column c has its own diagonal Um_c, Ux_c and the scalars Ui_c, Us_c in row c *)
Definition doc14_col (c : nat) (nu : nat -> K) (S : nat -> nat -> K) (i : nat) : K :=
  let um k := g O e (zn (VL_UM14_OFFSET l (Z.of_nat c)) + k) in
  let ux k := g O e (zn (VL_UX14_OFFSET l (Z.of_nat c)) + k) in
  let ui := g O e (zn (VL_UI14_OFFSET l (Z.of_nat c))) in
  let us := g O e (zn (VL_US14_OFFSET l (Z.of_nat c))) in
  csub (csub (cadd (cmul (um i) (nu i)) (if Nat.eqb i c then ui else c0))
             (sm p (fun k => cmul (S i k) (cmul (ux k) (nu k)))))
       (cmul (S i c) us).

(* E12: column c,  (I - S Em_c) Er_c^-1 (nu - El_c) - S e_c   (nu: the raw measured column) *)
Definition doc12_col (c : nat) (nu : nat -> K) (S : nat -> nat -> K) (i : nat) : K :=
  let el k := g O e (zn (VL_EL12_OFFSET l (Z.of_nat c)) + k) in
  let er k := g O e (zn (VL_ER12_OFFSET l (Z.of_nat c)) + k) in
  let em k := g O e (zn (VL_EM12_OFFSET l (Z.of_nat c)) + k) in
  let b k := cdiv (csub (nu k) (el k)) (er k) in
  csub (csub (b i) (sm p (fun k => cmul (S i k) (cmul (em k) (b k))))) (S i c).

(* the documented expression for the p x p matrix m handed to apply and the candidate s, cell (i, j) *)
Definition doc_cell (m s : list K) (i j : nat) : K :=
  let S a b := g O s (a * p + b) in
  let Srev a b := g O s ((1 - a) * p + (1 - b)) in
  let leak := has_leak ty in
  let el := el_at O ty mr mc e in
  let sq := Nat.eqb mr mc in
  if VNACAL_IS_T ty then
    if sq then docT_row i (fun a => m_minus_el O leak el mc (fun r c => g O m (r * mc + c)) i a) S j
    else if Nat.eqb i 0 then docT_row 0 (fun a => m_minus_el O leak el mc (fun r c => g O m c) 0 a) S j
    else docT_row 0 (fun a => m_minus_el O leak el mc (fun r c => g O m (3 - c)) 0 a) Srev (1 - j)
  else
    let col := if caltype_eqb ty E12 then doc12_col else if VNACAL_IS_UE14 ty then doc14_col else docU_col in
    if sq then col j (fun a => m_minus_el O leak el mc (fun r c => g O m (r * mc + c)) a j) S i
    else if Nat.eqb j 0 then col 0 (fun a => m_minus_el O leak el mc (fun r c => g O m (2 * r)) a 0) S i
    else col 0 (fun a => m_minus_el O leak el mc (fun r c => g O m (3 - 2 * r)) a 0) Srev (1 - i).

(* cell (i, j) of A S (T) or S A (U, E) *)
Definition prod_cell (a s : list K) (i j : nat) : K :=
  if VNACAL_IS_T ty then sm p (fun k => cmul (g O a (i * p + k)) (g O s (k * p + j)))
  else sm p (fun k => cmul (g O s (i * p + k)) (g O a (k * p + j))).
End Doc.

Definition fill_identity (c : caltype * (nat * nat)) : Prop :=
  let '(ty, (mr, mc)) := c in
  let p := Nat.max mr mc in
  forall fe fm fs : nat -> K,
    let e := lst (nterms ty mr mc) fe in let m := lst (p * p) fm in let s := lst (p * p) fs in
    match apply_fill O ty mr mc e m with
    | Filled _ a b =>
        conj_all (map (fun ij => csub (prod_cell ty mr mc a s (fst ij) (snd ij)) (g O b (fst ij * p + snd ij))
                                 = copp (doc_cell ty mr mc e m s (fst ij) (snd ij))) (pairs p))
    | _ => False
    end.

Ltac fill_id := intros fe fm fs; cbv -[cadd cmul csub copp cdiv cinv c0 c1 F]; repeat split; ring.

Lemma fill_identity_all : forall c, In c apply_cases -> fill_identity c.
Proof.
  intros c H. vm_compute in H.
  repeat (destruct H as [<-|H]; [fill_id|]). contradiction.
Qed.

(* the statement used downstream: all e, m, s of the right lengths *)
Lemma fill_solves_lemma (ty : caltype) (mr mc : nat) (e m s : list K) :
  In (ty, (mr, mc)) apply_cases ->
  let p := Nat.max mr mc in
  length e = nterms ty mr mc -> length m = p * p -> length s = p * p ->
  exists m' a b, apply_fill O ty mr mc e m = Filled m' a b /\
    forall i j, i < p -> j < p ->
      csub (prod_cell ty mr mc a s i j) (g O b (i * p + j)) = copp (doc_cell ty mr mc e m s i j).
Proof.
  intros Hin p He Hm Hs.
  pose proof (fill_identity_all _ Hin) as H. unfold fill_identity in H. fold p in H.
  specialize (H (fun i => nth i e c0) (fun i => nth i m c0) (fun i => nth i s c0)). cbv zeta in H.
  rewrite <- (lst_of_list _ e He), <- (lst_of_list _ m Hm), <- (lst_of_list _ s Hs) in H.
  destruct (apply_fill O ty mr mc e m) as [m' a b| |]; try contradiction.
  exists m', a, b. split; [reflexivity|].
  intros i j Hi Hj.
  apply (conj_all_in _ H).
  apply in_map_iff. exists (i, j). split; [reflexivity | apply in_pairs; assumption].
Qed.
End K.
