(* ue14_to_e12_sound: the E12 terms produced by convert_ue14_to_e12 (as coded) make fill_e12 produce,
   column by column, the (A, B) of fill_ue14 on the UE14 terms divided by the column's scalar
   n_c = us_c - ui_c ux_c,c / um_c,c; hence B A^-1 is the same.
   (1) the three scalar identities, for every field (tactic field);
   (2) the list-level statement on the models as coded, dims 1..4 and 2x1, on symbolic values. *)
Require Import List ZArith Bool Arith.
Require Import LV.Base.CField LV.Gen.LayoutGen LV.Cal.Sym LV.Cal.TermsModel LV.Cal.AddModel
               LV.Cal.ApplyModel LV.Cal.SolveSimple.
Import ListNotations.

Section Scalars.
Variable K : CField.
Add Field Kf_e12 : (cth K).
Local Open Scope cf_scope.
Variables (um_c um_r ui ux_c ux_r us m el_in : K).
Let n := us - ui * ux_c / um_c.

Lemma n_cleared : um_c <> 0 -> n <> 0 -> us * um_c - ui * ux_c <> 0.
Proof.
  intros H1 H2 Hz. apply H2. unfold n.
  replace (us - ui * ux_c / um_c) with ((us * um_c - ui * ux_c) / um_c) by (field; exact H1).
  rewrite Hz. field. exact H1.
Qed.

(* the cell on the diagonal of column c: el = -ui / um_c, er = n / um_c, em = ux_c / um_c *)
Lemma e12_diag_cell :
  um_c <> 0 -> n <> 0 ->
  let el := (0 - ui) / um_c in let er := n / um_c in let em := ux_c / um_c in
  let b12 := (m - el) / er in let a12 := 1 + em * b12 in
  b12 * n = m * um_c + ui /\ a12 * n = m * ux_c + us.
Proof.
  intros H1 H2; pose proof (n_cleared H1 H2) as H3; cbv zeta; unfold n in *; split; field; split; assumption.
Qed.

(* a cell of row r <> c: el = the leakage term, er = n / um_r, em = ux_r / um_r *)
Lemma e12_offdiag_cell :
  um_c <> 0 -> um_r <> 0 -> n <> 0 ->
  let er := n / um_r in let em := ux_r / um_r in
  let b12 := (m - el_in) / er in let a12 := 0 + em * b12 in
  b12 * n = (m - el_in) * um_r /\ a12 * n = (m - el_in) * ux_r.
Proof.
  intros H1 H2 H3; pose proof (n_cleared H1 H3) as H4; cbv zeta; unfold n in *; split; field;
    repeat split; assumption.
Qed.
End Scalars.

Local Open Scope nat_scope.

(* list level, on indeterminates *)
Definition e14_sym (mr mc : nat) : list frac :=
  map (fun k => fvar (v_e k)) (seq 0 (Z.to_nat (VL_ERROR_TERMS (layout E12_UE14 (Z.of_nat mr) (Z.of_nat mc))))).

Definition n_col (mr mc : nat) (e : list frac) (c : nat) : frac :=
  let li := layout E12_UE14 (Z.of_nat mr) (Z.of_nat mc) in
  let um := g sym_ops e (zn (VL_UM14_OFFSET li (Z.of_nat c)) + c) in
  let ux := g sym_ops e (zn (VL_UX14_OFFSET li (Z.of_nat c)) + c) in
  let ui := g sym_ops e (zn (VL_UI14_OFFSET li (Z.of_nat c))) in
  let us := g sym_ops e (zn (VL_US14_OFFSET li (Z.of_nat c))) in
  fsub us (fdiv (fmul ui ux) um).

Definition check_e12 (rc : nat * nat) : bool :=
  let '(mr, mc) := rc in
  let p := Nat.max mr mc in
  let e14 := e14_sym mr mc in
  let m := map (fun c => fvar (v_m c)) (seq 0 (p * p)) in
  match fill_ue14 sym_ops E12_UE14 mr mc e14 m,
        fill_e12 sym_ops E12 mr mc (convert_ue14_to_e12 sym_ops mr mc e14) m with
  | Filled _ a14 b14, Filled _ a12 b12 =>
      forallb (fun cell =>
        (* in the 2x1 case both columns of the 2x2 matrix belong to the single system 0 *)
        let c := if Nat.eqb mc 1 then 0 else cell mod p in
        let n := n_col mr mc e14 c in
        andb (feqb (fmul (nth cell a12 (fconst 0)) n) (nth cell a14 (fconst 0)))
             (feqb (fmul (nth cell b12 (fconst 0)) n) (nth cell b14 (fconst 0))))
        (seq 0 (p * p))
  | _, _ => false
  end.

Lemma ue14_to_e12_sound_all : forallb check_e12 [(1, 1); (2, 2); (3, 3); (4, 4); (2, 1)] = true.
Proof. vm_compute. reflexivity. Qed.

Lemma ue14_to_e12_sound_lemma :
  forall rc, In rc [(1, 1); (2, 2); (3, 3); (4, 4); (2, 1)] -> check_e12 rc = true.
Proof. apply forallb_forall. exact ue14_to_e12_sound_all. Qed.

(* the hypotheses of the scalar identities can be met: um = 2, ui = 1/2, ux = 1/3, us = 1 at the
   Gaussian rationals gives n = 1 - (1/2)(1/3)/2 = 11/12 *)
Require Import QArith Qcanon LV.Base.QcI.
Example e12_scalars_nonvacuous :
  let um : QIF := mkqi 2 1 0 1 in let ui : QIF := mkqi 1 2 0 1 in
  let ux : QIF := mkqi 1 3 0 1 in let us : QIF := mkqi 1 1 0 1 in
  um <> @c0 QIF /\ csub us (cdiv (cmul ui ux) um) <> @c0 QIF.
Proof. cbv zeta. split; apply qi_neqb; vm_compute; reflexivity. Qed.
