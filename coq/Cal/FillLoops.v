(* Loop-literal model of the general (not 1x2 / 2x1) branch of fill_t8, fill_u8, fill_t16, fill_u16,
   fill_ue14 and fill_e12 of vnacal_apply.c (lines 73-549), written over the interface Sym.Ops as a
   list program that follows the C text statement by statement:
     - the arrays a and b are lists of length rows*columns, initialised to zeros (every cell is assigned
       before it is accumulated, so the prior content is irrelevant);
     - each C `for (int i = 0; i < bound; ++i)' is a `fold_left' over `seq 0 bound';
     - `x[cell] = v' is `updl x cell v', `x[cell] += v' is `updl x cell (g x cell +! v)', likewise -=;
     - the leakage subtraction keeps the running pointer el_cur as a counter in the fold state.
   Cal/ApplyModel.v writes the same functions in closed form (build / div / mod); Cal/FillLoopsProofs.v
   proves that both agree for every square dimension.  No proofs here. *)
Require Import List ZArith Bool Arith.
Require Import LV.Base.CField LV.Gen.LayoutGen LV.Cal.Sym LV.Cal.ApplyModel.
Import ListNotations.
Local Open Scope nat_scope.

Section Loops.
Variable O : Ops.
Notation "x +! y" := (oadd O x y) (at level 50, left associativity).
Notation "x -! y" := (osub O x y) (at level 50, left associativity).
Notation "x *! y" := (omul O x y) (at level 40, left associativity).
Notation "x /! y" := (odiv O x y) (at level 40, left associativity).
Notation Z0 := (o0 O).
Notation ONE := (o1 O).
Notation g := (g O).

(* for (m_row) for (m_column) if (m_row != m_column) m[m_row * m_columns + m_column] -= *el_cur++; *)
Definition loop_sub_leak (mr mc : nat) (m : list O) (el : nat -> O) : list O :=
  fst (fold_left (fun st m_row =>
         fold_left (fun st m_column =>
            if Nat.eqb m_row m_column then st
            else
              let '(m, el_cur) := st in
              let m_cell := m_row * mc + m_column in
              (updl m m_cell (g m m_cell -! el el_cur), S el_cur))
           (seq 0 mc) st)
         (seq 0 mr) (m, 0)).

Definition loop_fill_t8 (ty : caltype) (mr mc : nat) (e m : list O) : list O * list O * list O :=
  let l := layout ty (Z.of_nat mr) (Z.of_nat mc) in
  let m_rows := mr in let m_columns := mc in
  let s_rows := Nat.max mr mc in let s_columns := Nat.max mr mc in
  let ts i := g e (zn (VL_TS_OFFSET l) + i) in let ti i := g e (zn (VL_TI_OFFSET l) + i) in
  let tx i := g e (zn (VL_TX_OFFSET l) + i) in let tm i := g e (zn (VL_TM_OFFSET l) + i) in
  let el i := g e (zn (VL_EL_OFFSET l) + i) in
  let m := if caltype_eqb ty TE10 then loop_sub_leak m_rows m_columns m el else m in
  let a :=
    fold_left (fun a a_row =>
      fold_left (fun a a_column =>
        let a_cell := a_row * s_rows + a_column in
        let a := updl a a_cell Z0 in
        let a := if Nat.eqb a_row a_column then updl a a_cell (g a a_cell +! ts a_row) else a in
        updl a a_cell (g a a_cell -! g m a_cell *! tx a_column))
      (seq 0 s_rows) a)
    (seq 0 m_rows) (repeat Z0 (m_rows * s_rows)) in
  let b :=
    fold_left (fun b b_row =>
      fold_left (fun b b_column =>
        let b_cell := b_row * s_columns + b_column in
        let b := updl b b_cell Z0 in
        let b := if Nat.eqb b_row b_column then updl b b_cell (g b b_cell -! ti b_row) else b in
        updl b b_cell (g b b_cell +! g m b_cell *! tm b_column))
      (seq 0 s_columns) b)
    (seq 0 m_rows) (repeat Z0 (m_rows * s_columns)) in
  (m, a, b).

Definition loop_fill_u8 (ty : caltype) (mr mc : nat) (e m : list O) : list O * list O * list O :=
  let l := layout ty (Z.of_nat mr) (Z.of_nat mc) in
  let m_rows := mr in let m_columns := mc in
  let s_rows := Nat.max mr mc in let s_columns := Nat.max mr mc in
  let um i := g e (zn (VL_UM_OFFSET l) + i) in let ui i := g e (zn (VL_UI_OFFSET l) + i) in
  let ux i := g e (zn (VL_UX_OFFSET l) + i) in let us i := g e (zn (VL_US_OFFSET l) + i) in
  let el i := g e (zn (VL_EL_OFFSET l) + i) in
  let m := if caltype_eqb ty UE10 then loop_sub_leak m_rows m_columns m el else m in
  let a :=
    fold_left (fun a a_row =>
      fold_left (fun a a_column =>
        let a_cell := a_row * m_columns + a_column in
        let a := updl a a_cell (g m a_cell *! ux a_row) in
        if Nat.eqb a_row a_column then updl a a_cell (g a a_cell +! us a_row) else a)
      (seq 0 m_columns) a)
    (seq 0 s_columns) (repeat Z0 (s_columns * m_columns)) in
  let b :=
    fold_left (fun b b_row =>
      fold_left (fun b b_column =>
        let b_cell := b_row * m_columns + b_column in
        let b := updl b b_cell (g m b_cell *! um b_row) in
        if Nat.eqb b_row b_column then updl b b_cell (g b b_cell +! ui b_row) else b)
      (seq 0 m_columns) b)
    (seq 0 s_rows) (repeat Z0 (s_rows * m_columns)) in
  (m, a, b).

Definition loop_fill_t16 (ty : caltype) (mr mc : nat) (e m : list O) : list O * list O * list O :=
  let l := layout ty (Z.of_nat mr) (Z.of_nat mc) in
  let m_rows := mr in let m_columns := mc in
  let s_rows := Nat.max mr mc in let s_columns := Nat.max mr mc in
  let ts i := g e (zn (VL_TS_OFFSET l) + i) in let ti i := g e (zn (VL_TI_OFFSET l) + i) in
  let tx i := g e (zn (VL_TX_OFFSET l) + i) in let tm i := g e (zn (VL_TM_OFFSET l) + i) in
  let a :=
    fold_left (fun a a_row =>
      fold_left (fun a a_column =>
        let a_cell := a_row * s_rows + a_column in
        let a := updl a a_cell (ts a_cell) in
        fold_left (fun a m_column =>
          let m_cell := a_row * m_columns + m_column in
          let tx_cell := m_column * s_rows + a_column in
          updl a a_cell (g a a_cell -! g m m_cell *! tx tx_cell))
        (seq 0 m_columns) a)
      (seq 0 s_rows) a)
    (seq 0 m_rows) (repeat Z0 (m_rows * s_rows)) in
  let b :=
    fold_left (fun b b_row =>
      fold_left (fun b b_column =>
        let b_cell := b_row * s_columns + b_column in
        let b := updl b b_cell (oopp O (ti b_cell)) in
        fold_left (fun b m_column =>
          let m_cell := b_row * m_columns + m_column in
          let tm_cell := m_column * s_columns + b_column in
          updl b b_cell (g b b_cell +! g m m_cell *! tm tm_cell))
        (seq 0 m_columns) b)
      (seq 0 s_columns) b)
    (seq 0 m_rows) (repeat Z0 (m_rows * s_columns)) in
  (m, a, b).

Definition loop_fill_u16 (ty : caltype) (mr mc : nat) (e m : list O) : list O * list O * list O :=
  let l := layout ty (Z.of_nat mr) (Z.of_nat mc) in
  let m_rows := mr in let m_columns := mc in
  let s_rows := Nat.max mr mc in let s_columns := Nat.max mr mc in
  let um i := g e (zn (VL_UM_OFFSET l) + i) in let ui i := g e (zn (VL_UI_OFFSET l) + i) in
  let ux i := g e (zn (VL_UX_OFFSET l) + i) in let us i := g e (zn (VL_US_OFFSET l) + i) in
  let a :=
    fold_left (fun a a_row =>
      fold_left (fun a a_column =>
        let a_cell := a_row * m_columns + a_column in
        let a := updl a a_cell Z0 in
        let a :=
          fold_left (fun a m_row =>
            let m_cell := m_row * m_columns + a_column in
            let ux_cell := a_row * m_rows + m_row in
            updl a a_cell (g a a_cell +! g m m_cell *! ux ux_cell))
          (seq 0 m_rows) a in
        updl a a_cell (g a a_cell +! us a_cell))
      (seq 0 m_columns) a)
    (seq 0 s_columns) (repeat Z0 (s_columns * m_columns)) in
  let b :=
    fold_left (fun b b_row =>
      fold_left (fun b b_column =>
        let b_cell := b_row * m_columns + b_column in
        let b := updl b b_cell Z0 in
        let b :=
          fold_left (fun b m_row =>
            let m_cell := m_row * m_columns + b_column in
            let um_cell := b_row * m_rows + m_row in
            updl b b_cell (g b b_cell +! g m m_cell *! um um_cell))
          (seq 0 m_rows) b in
        updl b b_cell (g b b_cell +! ui b_cell))
      (seq 0 m_columns) b)
    (seq 0 s_rows) (repeat Z0 (s_rows * m_columns)) in
  (m, a, b).

(* outer loop over m_column; inside it one loop for the column of A, then one for the column of B *)
Definition loop_fill_ue14 (ty : caltype) (mr mc : nat) (e m : list O) : list O * list O * list O :=
  let l := layout ty (Z.of_nat mr) (Z.of_nat mc) in
  let m_rows := mr in let m_columns := mc in
  let s_rows := Nat.max mr mc in let s_columns := Nat.max mr mc in
  let el i := g e (zn (VL_EL_OFFSET l) + i) in
  let m := loop_sub_leak m_rows m_columns m el in
  let ab :=
    fold_left (fun ab m_column =>
      let '(a, b) := ab in
      let um i := g e (zn (VL_UM14_OFFSET l (Z.of_nat m_column)) + i) in
      let ui i := g e (zn (VL_UI14_OFFSET l (Z.of_nat m_column)) + i) in
      let ux i := g e (zn (VL_UX14_OFFSET l (Z.of_nat m_column)) + i) in
      let us i := g e (zn (VL_US14_OFFSET l (Z.of_nat m_column)) + i) in
      let a :=
        fold_left (fun a a_row =>
          let a_cell := a_row * m_columns + m_column in
          let a := updl a a_cell (g m a_cell *! ux a_row) in
          if Nat.eqb a_row m_column then updl a a_cell (g a a_cell +! us 0) else a)
        (seq 0 s_columns) a in
      let b :=
        fold_left (fun b b_row =>
          let b_cell := b_row * m_columns + m_column in
          let b := updl b b_cell (g m b_cell *! um b_row) in
          if Nat.eqb b_row m_column then updl b b_cell (g b b_cell +! ui 0) else b)
        (seq 0 s_rows) b in
      (a, b))
    (seq 0 m_columns) (repeat Z0 (s_columns * m_columns), repeat Z0 (s_rows * m_columns)) in
  (m, fst ab, snd ab).

(* outer loop over m_column, inner loop over m_row writing one cell of A and one of B *)
Definition loop_fill_e12 (ty : caltype) (mr mc : nat) (e m : list O) : list O * list O * list O :=
  let l := layout ty (Z.of_nat mr) (Z.of_nat mc) in
  let m_rows := mr in let m_columns := mc in
  let ab :=
    fold_left (fun ab m_column =>
      let el i := g e (zn (VL_EL12_OFFSET l (Z.of_nat m_column)) + i) in
      let er i := g e (zn (VL_ER12_OFFSET l (Z.of_nat m_column)) + i) in
      let em i := g e (zn (VL_EM12_OFFSET l (Z.of_nat m_column)) + i) in
      fold_left (fun ab m_row =>
        let '(a, b) := ab in
        let cell := m_row * m_columns + m_column in
        let x := (g m cell -! el m_row) /! er m_row in
        (updl a cell ((if Nat.eqb m_row m_column then ONE else Z0) +! em m_row *! x),
         updl b cell x))
      (seq 0 m_rows) ab)
    (seq 0 m_columns) (repeat Z0 (m_rows * m_columns), repeat Z0 (m_rows * m_columns)) in
  (m, fst ab, snd ab).

(* the switch of _vnacal_apply_common, square calibrations (m_rows = m_columns = n) *)
Definition loop_apply_fill (ty : caltype) (n : nat) (e m : list O) : list O * list O * list O :=
  match ty with
  | T8 | TE10 => loop_fill_t8 ty n n e m
  | U8 | UE10 => loop_fill_u8 ty n n e m
  | T16 => loop_fill_t16 ty n n e m
  | U16 => loop_fill_u16 ty n n e m
  | UE14 | E12_UE14 => loop_fill_ue14 ty n n e m
  | E12 => loop_fill_e12 ty n n e m
  end.
End Loops.
