(* C17, renumbering of the VNA ports, from the equations to the results: definitions (no proofs here). *)
Require Import List ZArith Bool Arith.
Require Import LV.Base.CField LV.Lin.MatL LV.Lin.LuGenA LV.Gen.LayoutGen LV.Cal.Sym LV.Cal.TermsModel LV.Cal.AddModel
               LV.Cal.ApplyModel LV.Cal.SolveSimple LV.Cal.RenumberModel.
Import ListNotations.
Local Open Scope nat_scope.

(* e (a value for each of the t_terms error terms, unity term included) satisfies every row of the
   homogeneous system *)
Definition hsat (K : CField) (u tt : nat) (rows : list (list K * K)) (e : nat -> K) : Prop :=
  forall row, In row rows -> @sumf K tt (fun k => cmul (hrow (ops_of K) u row k) (e k)) = @c0 K.

(* the error terms of the renumbered calibration predicted from the normalised solution xt of the original one:
   the full vector (unity term inserted) permuted by perm_index, divided by the entry that lands on the unity
   position of the renumbered system, unity position removed *)
Definition renum_terms (K : CField) (ty : caltype) (n : nat) (q : nat -> nat) (xt : list K) : list K :=
  let u := unity_pos ty n in
  let X k := full_terms (ops_of K) ty n xt (perm_index ty n q k) in
  map (fun j => cdiv (X (if Nat.ltb j u then j else S j)) (X u)) (seq 0 (unknowns ty n n)).
