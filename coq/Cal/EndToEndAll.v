(* C01, the composition for the leakage types TE10, UE10, UE14, E12 from the PHYSICAL hypothesis, at the Gaussian
   rationals.  Part 1 (this file): the calibration half is no longer assumed.
     - rows_satisfied_rdot: the residual form row_res = 0 of EndToEndLeak.leak_rows_satisfied_lemma is the
       hypothesis  rdot n (fst r) xt = snd r  of the solve theorems, xt = xs_of fe = the network's terms with the
       unity term removed (every type, all dimensions, every row of the right length);
     - leak_solve_returns_true_terms: standards of the family zcfgs measured by one physical network of the type,
       every off-diagonal cell sampled (or free of leakage), every assembled system with at least as many
       equations as unknowns and full column rank (SolveRecovers.kernel_trivial, the form of
       DeterminingProofs / Properties_C20.determining_set_solves): the solve model SUCCEEDS and returns the true
       vector (unity terms inserted, El appended, converted for E12) -- by uniqueness;
     - c01_model_end_to_end_leak_lemma: with EndToEnd / ApplyRecovers: the apply model on that vector returns S
       for every device whose measurement satisfies the documented equation with the true vector (the device
       hypothesis is derived from the physical model in EndToEndDevice.v). *)
Require Import List ZArith Bool Arith Lia QArith Qcanon.
Require Import LV.Base.CField LV.Base.QcI LV.Lin.MatL LV.Lin.LuGenA.
Require Import LV.Gen.LayoutGen LV.Cal.Sym LV.Cal.TermsModel LV.Cal.AddModel LV.Cal.ApplyModel LV.Cal.ApplyProofs
               LV.Cal.ApplyIdentity LV.Cal.AssembleIdentity LV.Cal.SolveSimple LV.Cal.CalQI LV.Cal.AssembleList
               LV.Cal.LeakProofs LV.Cal.LeakPhysical LV.Cal.EndToEndLeak LV.Cal.ApplyRecovers LV.Cal.SolveRecovers
               LV.Cal.EndToEnd.
Require Import LV.SolveCount.DeterminingProofs.
Import ListNotations.
Local Open Scope nat_scope.

Add Field qif_e2a : (cth QIF).
Ltac keq := match goal with |- @eq _ ?x ?y => change (@eq (F QIF) x y) end.

(* the normalised solution vector of system sys that the network fe stands for *)
Definition x_of_sys (ty : caltype) (mr mc : nat) (fe : nat -> qi) (sys : nat) : list qi :=
  map (x_of' QIF ty mr mc fe sys) (seq 0 (unknowns ty mr mc)).
Definition xs_of (ty : caltype) (mr mc : nat) (fe : nat -> qi) : list (list qi) :=
  map (x_of_sys ty mr mc fe) (seq 0 (systems_of ty mc)).

Lemma nth_map_seq {A} (f : nat -> A) (d : A) : forall len a k, k < len -> nth k (map f (seq a len)) d = f (a + k).
Proof.
  induction len as [|len IH]; intros a k Hk; [lia|].
  destruct k as [|k]; cbn [seq map nth]; [f_equal; lia|]. rewrite IH by lia. f_equal; lia.
Qed.

Section AnyK.
Variable K : CField.
Add Field Kf_e2a : (cth K).
Lemma fold_combine_sumf (f : nat -> K) : forall (a : list K) (off : nat) (init : K),
  fold_left (fun acc (ka : nat * K) => cadd acc (cmul (snd ka) (f (fst ka)))) (combine (seq off (length a)) a) init
  = cadd init (@sumf K (length a) (fun k => cmul (nth k a c0) (f (off + k)))).
Proof.
  induction a as [|x a IH]; intros off init.
  - cbn [length seq combine fold_left sumf]. ring.
  - cbn [length seq combine fold_left fst snd]. rewrite IH.
    change (S (length a)) with (1 + length a). rewrite (sumf_split K 1 (length a)). cbv beta.
    assert (E : @sumf K (length a) (fun k => cmul (nth (1 + k) (x :: a) c0) (f (off + (1 + k))))
              = @sumf K (length a) (fun k => cmul (nth k a c0) (f (S off + k))))
      by (apply sumf_ext; intros k _; cbn [Nat.add nth]; f_equal; f_equal; lia).
    rewrite E. cbn [sumf nth]. rewrite Nat.add_0_r.
    ring.
Qed.

Lemma row_res_sumf ty mr mc (fe : nat -> K) (sys : nat) (row : list K * K) :
  row_res K ty mr mc fe sys row = @c0 K ->
  @sumf K (length (fst row)) (fun k => cmul (nth k (fst row) c0) (x_of' K ty mr mc fe sys k)) = snd row.
Proof.
  intros H. unfold row_res in H. rewrite (fold_combine_sumf (x_of' K ty mr mc fe sys) (fst row) 0 c0) in H.
  cbn [Nat.add] in H.
  transitivity (cadd (csub (cadd c0 (@sumf K (length (fst row)) (fun k => cmul (nth k (fst row) c0) (x_of' K ty mr mc fe sys k)))) (snd row)) (snd row));
    [ring | rewrite H; ring].
Qed.
End AnyK.

Lemma rows_satisfied_rdot ty mr mc (fe : nat -> qi) (sys : nat) (row : list qi * qi) :
  length (fst row) = unknowns ty mr mc ->
  row_res QIF ty mr mc fe sys row = @c0 QIF ->
  rdot (unknowns ty mr mc) (fst row) (x_of_sys ty mr mc fe sys) = snd row.
Proof.
  intros Hl H. pose proof (row_res_sumf QIF ty mr mc fe sys row H) as E.
  unfold rdot. etransitivity; [|exact E].
  assert (Hl' : unknowns ty mr mc = @length (F QIF) (@fst (list (F QIF)) (F QIF) row)) by (symmetry; exact Hl).
  rewrite <- Hl'. apply (sumf_ext QIF). intros k Hk.
  unfold x_of_sys. rewrite (nth_map_seq _ _ _ 0 k Hk). reflexivity.
Qed.

Lemma xs_of_length ty mr mc fe : length (xs_of ty mr mc fe) = systems_of ty mc.
Proof. unfold xs_of. rewrite map_length, seq_length. reflexivity. Qed.
Lemma xs_of_nth ty mr mc fe sys : sys < systems_of ty mc -> nth sys (xs_of ty mr mc fe) [] = x_of_sys ty mr mc fe sys.
Proof. intros H. unfold xs_of. rewrite (nth_map_seq _ _ _ 0 sys H). reflexivity. Qed.
Lemma x_of_sys_length ty mr mc fe sys : length (x_of_sys ty mr mc fe sys) = unknowns ty mr mc.
Proof. unfold x_of_sys. rewrite map_length, seq_length. reflexivity. Qed.

Section Leak.
Variables (mr mc : nat) (fe : nat -> qi) (el : nat -> nat -> qi) (pv : Z -> qi) (ms : list (mvals qops)).
Variables (fxof : mvals qops -> nat -> qi) (core : mvals qops -> nat -> nat -> qi).
Variable sty : caltype.                               (* the type while measuring / solving *)
Hypothesis Hsty : In sty [TE10; UE10; UE14; E12_UE14].
Hypothesis Hstd : forall mv, In mv ms ->
  std_of QIF sty mr mc mv /\ network_of QIF mr mc fe pv fxof core sty mv /\ measured_with_leakage QIF mr mc el core mv.
Hypothesis Hcov : covered QIF mr mc el ms.
(* sufficient and well conditioned, in the form of determining_set_solves *)
Hypothesis Hrank : forall sys, sys < systems_of sty mc ->
  let rows := q_assemble sty mr mc ms pv sys in
  unknowns sty mr mc <= length rows /\ kernel_trivial (unknowns sty mr mc) rows.

Lemma leak_rows_rdot sys : sys < systems_of sty mc ->
  forall r, In r (q_assemble sty mr mc ms pv sys) ->
    rdot (unknowns sty mr mc) (fst r) (x_of_sys sty mr mc fe sys) = snd r.
Proof.
  intros Hs r Hr.
  destruct (leak_rows_satisfied_lemma QIF mr mc fe el pv ms fxof core onat_qif_nonzero sty Hsty Hstd Hcov) as [_ C].
  apply rows_satisfied_rdot.
  - exact (assemble_rows_length qops sty mr mc pv ms sys r Hr).
  - exact (C sys Hs r Hr).
Qed.

Theorem leak_solve_returns_true_terms_lemma :
  q_error_terms sty mr mc ms pv =
  Some (if caltype_eqb sty E12_UE14 then convert_ue14_to_e12 qops mr mc (e_vector qops sty mr mc ms (xs_of sty mr mc fe))
        else e_vector qops sty mr mc ms (xs_of sty mr mc fe)) /\
  leak_terms qops sty mr mc ms = map (fun rc => el (fst rc) (snd rc)) (offdiag_cells mr mc).
Proof.
  split.
  - apply (determining_set_recovers sty mr mc ms pv (xs_of sty mr mc fe) (xs_of_length sty mr mc fe)).
    intros sys Hs. cbv zeta. rewrite (xs_of_nth sty mr mc fe sys Hs).
    split; [apply x_of_sys_length|]. split; [exact (leak_rows_rdot sys Hs)|]. exact (Hrank sys Hs).
  - exact (proj1 (leak_rows_satisfied_lemma QIF mr mc fe el pv ms fxof core onat_qif_nonzero sty Hsty Hstd Hcov)).
Qed.
End Leak.

(* the composition: stored type ty, solved as solve_type ty *)
Theorem c01_model_end_to_end_leak_lemma (ty : caltype) (mr mc : nat) :
  In (ty, (mr, mc)) apply_cases -> In ty [TE10; UE10; UE14; E12] ->
  let sty := solve_type ty in
  let p := Nat.max mr mc in
  forall (fe : nat -> qi) (el : nat -> nat -> qi) (pv : Z -> qi) (ms : list (mvals qops))
         (fxof : mvals qops -> nat -> qi) (core : mvals qops -> nat -> nat -> qi),
  (forall mv, In mv ms ->
     std_of QIF sty mr mc mv /\ network_of QIF mr mc fe pv fxof core sty mv /\ measured_with_leakage QIF mr mc el core mv) ->
  covered QIF mr mc el ms ->
  (forall sys, sys < systems_of sty mc ->
     let rows := q_assemble sty mr mc ms pv sys in
     unknowns sty mr mc <= length rows /\ kernel_trivial (unknowns sty mr mc) rows) ->
  let e_true := true_terms ty mr mc ms (xs_of sty mr mc fe) in
  q_error_terms sty mr mc ms pv = Some e_true /\
  leak_terms qops sty mr mc ms = map (fun rc => el (fst rc) (snd rc)) (offdiag_cells mr mc) /\
  forall m s : list qi, length m = p * p -> length s = p * p ->
    (forall i j, i < p -> j < p -> doc_cell QIF ty mr mc e_true m s i j = @c0 QIF) ->
    forall a b x, q_apply ty mr mc e_true m = AOk a b x -> x = s.
Proof.
  intros Hin Hty sty p fe el pv ms fxof core Hstd Hcov Hrank e_true.
  assert (Hsty : In sty [TE10; UE10; UE14; E12_UE14]).
  { unfold sty, solve_type. destruct Hty as [<-|[<-|[<-|[<-|[]]]]]; cbn; tauto. }
  destruct (leak_solve_returns_true_terms_lemma mr mc fe el pv ms fxof core sty Hsty Hstd Hcov Hrank) as [Hq Hl].
  assert (Hq' : q_error_terms sty mr mc ms pv = Some e_true).
  { rewrite Hq. unfold e_true, true_terms. fold sty. reflexivity. }
  split; [exact Hq'|]. split; [exact Hl|].
  intros m s Hm Hs Hdoc a b x Ha.
  assert (Hsys : forall sys, sys < systems_of sty mc ->
     let xt := nth sys (xs_of sty mr mc fe) [] in
     let rows := q_assemble sty mr mc ms pv sys in
     length xt = unknowns sty mr mc /\ (forall r, In r rows -> rdot (unknowns sty mr mc) (fst r) xt = snd r) /\
     (unknowns sty mr mc < length rows -> kernel_trivial (unknowns sty mr mc) rows)).
  { intros sys Hsy. cbv zeta. rewrite (xs_of_nth sty mr mc fe sys Hsy).
    split; [apply x_of_sys_length|]. split; [exact (leak_rows_rdot mr mc fe el pv ms fxof core sty Hsty Hstd Hcov sys Hsy)|].
    intros _. exact (proj2 (Hrank sys Hsy)). }
  destruct (c01_model_end_to_end_lemma ty mr mc Hin ms pv (xs_of sty mr mc fe) e_true
              (xs_of_length sty mr mc fe) Hsys Hq') as [_ C].
  exact (C m s Hm Hs Hdoc a b x Ha).
Qed.
