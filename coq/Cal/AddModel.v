(* Executable model of _vnacal_new_add_common (vnacal_new_add_common.c) as coded (including the
   repairs D48: b/m matrix bounds, D63: rectangular S only for T16/U16): argument checks in the order of the C code, the maps from the
   caller's B and S matrices to the cells of the full M and S matrices (port map, sorted port map for
   M, abbreviated matrices), the *_given[] flags, zero fill, the union-find connectivity closure, and
   the selection of the equations.  The m_is_diagonal branch (dead code: no entry point sets it,
   candidate D18) is not modelled.  Numeric work (b a^-1) is not part of this model; what is modelled
   of the measured values is WHERE they go: the map m_cell_map from the cells of the caller's B (or M)
   matrix to the cells of vnm_m_matrix (ms_m_cells) and the copy loop that uses it (store_m).
   No proofs here. *)
Require Import List ZArith Bool Arith.
Require Import LV.Gen.LayoutGen LV.Cal.TermsModel.
Import ListNotations.
Local Open Scope nat_scope.

Record add_args := mkArgs {
  aa_ty : caltype;            (* layout type (E12 is E12_UE14 while measuring) *)
  aa_mr : nat;                (* VL_M_ROWS *)
  aa_mc : nat;                (* VL_M_COLUMNS *)
  aa_merr : bool;             (* vn_m_error_vector != NULL *)
  aa_valid : Z -> bool;       (* handle denotes a live parameter of the vnacal_t *)
  aa_a_given : bool;
  aa_a_rows : Z; aa_a_cols : Z;
  aa_b_rows : Z; aa_b_cols : Z;
  aa_s : list Z;              (* parameter handles, s_rows x s_columns by rows, or the diagonal *)
  aa_s_rows : Z; aa_s_cols : Z;
  aa_s_diag : bool;           (* vnaa_s_is_diagonal *)
  aa_map : option (list Z)    (* vnaa_s_port_map (1-based VNA ports), None = NULL *)
}.

Record equation := mkEq { e_row : nat; e_col : nat; e_terms : list term }.

Record measurement := mkMeasurement {
  ms_m_given : list bool;             (* full_m_matrix[cell] != NULL, cells by rows *)
  ms_s : list scell;                  (* vnm_s_matrix *)
  ms_conn : option (list bool);       (* vnm_connectivity_matrix, None for T16/U16 *)
  ms_eqs : list equation;
  ms_m_cells : list nat               (* m_cell_map[]: for every cell of the caller's B (M) matrix, by rows,
                                         the cell of vnm_m_matrix its values are stored in *)
}.
(* a measurement record without the cell map (place holders and hand-made examples of the numeric files) *)
Definition mkMeas (g : list bool) (s : list scell) (c : option (list bool)) (e : list equation) : measurement :=
  mkMeasurement g s c e [].

Inductive outcome :=
| Rejected (check : nat)      (* EINVAL: which check of the C code refused the call *)
| Aborts (why : nat)          (* an assert of the library fails / abort() *)
| Accepted (m : measurement).

(* ---------------------------------------------------------------- small array helpers *)
Fixpoint upd {A} (l : list A) (i : nat) (x : A) : list A :=
  match l, i with
  | [], _ => []
  | _ :: r, O => x :: r
  | y :: r, S k => y :: upd r k x
  end.

Definition getb (l : list bool) (i : nat) : bool := nth i l false.

Fixpoint insert_sorted (x : Z) (l : list Z) : list Z :=
  match l with
  | [] => [x]
  | y :: r => if Z.leb x y then x :: l else y :: insert_sorted x r
  end.
Definition sort_z (l : list Z) : list Z := fold_right insert_sorted [] l.

Definition is_ue14 (ty : caltype) := VNACAL_IS_UE14 ty.
Definition is_16 (ty : caltype) := orb (caltype_eqb ty T16) (caltype_eqb ty U16).

(* ---------------------------------------------------------------- union-find as coded *)
(* find(), first loop:   while (set[leader] != leader) leader = set[leader];
   The fuel is the number of ports: a parent has a smaller index than its child (ConnProofs.wfset), so
   the loop ends by its own condition before the fuel is used up (ConnProofs.find_fuel_adequate). *)
Fixpoint find_leader (fuel : nat) (set : list nat) (i : nat) : nat :=
  match fuel with
  | O => i
  | S f => let j := nth i set i in if Nat.eqb j i then i else find_leader f set j
  end.

(* find(), second loop:  for (i = index; set[i] != leader; i = set[i]) set[i] = leader;
   as coded: the step  i = set[i]  reads the cell that the body has just redirected to the leader, so
   the loop stops after having redirected set[index] alone (ConnProofs.collapse_as_coded) *)
Fixpoint collapse (fuel : nat) (set : list nat) (leader i : nat) : list nat :=
  match fuel with
  | O => set
  | S f => if Nat.eqb (nth i set i) leader then set
           else let set' := upd set i leader in collapse f set' leader (nth i set' i)
  end.

(* find(set, index): the leader and the array as find leaves it *)
Definition find_set (n : nat) (set : list nat) (index : nat) : nat * list nat :=
  let leader := find_leader n set index in (leader, collapse n set leader index).

(* i = find(set, s_row); j = find(set, s_column); if (i < j) set[j] = i; else if (i > j) set[i] = j; *)
Definition union (n : nat) (set : list nat) (a b : nat) : list nat :=
  let '(i, s1) := find_set n set a in
  let '(j, s2) := find_set n s1 b in
  if Nat.ltb i j then upd s2 j i else if Nat.ltb j i then upd s2 i j else s2.

Definition all_cells (n : nat) : list (nat * nat) :=
  flat_map (fun r => map (fun c => (r, c)) (seq 0 n)) (seq 0 n).

(* first pass of build_connectivity_matrix: set[i] = i, then the scan of the S cells by rows *)
Definition scan_set (n : nat) (s : list scell) : list nat :=
  fold_left (fun set rc =>
    let '(r, c) := rc in
    if Nat.eqb r c then set
    else if scell_is_zero (nth (r * n + c) s SNull) then set
    else union n set r c) (all_cells n) (seq 0 n).

(* second pass:  if (i == j || find(set, i) == find(set, j)) matrix[cell] = true;  the two find calls
   (which go on redirecting cells of set[]) are made only when i != j; they are modelled left to right
   (C leaves the order open; ConnProofs.find_set_spec shows that neither changes any leader) *)
Fixpoint conn_scan (n : nat) (set : list nat) (cells : list (nat * nat)) : list bool :=
  match cells with
  | [] => []
  | (i, j) :: r =>
      if Nat.eqb i j then true :: conn_scan n set r
      else let '(li, s1) := find_set n set i in
           let '(lj, s2) := find_set n s1 j in
           Nat.eqb li lj :: conn_scan n s2 r
  end.

Definition build_connectivity (n : nat) (s : list scell) : list bool :=
  conn_scan n (scan_set n s) (all_cells n).

(* ---------------------------------------------------------------- the add *)
Definition zle (a b : Z) := Z.leb a b.
Definition zlt (a b : Z) := Z.ltb a b.

(* port map checks: first failing check, or None *)
Fixpoint check_map (l : list Z) (idx : Z) (max_port : Z) (seen : list Z)
         (s_rows s_cols full : Z) : option nat :=
  match l with
  | [] => None
  | port :: r =>
      if zlt port 1 then Some 9 else
      let max_port := Z.max max_port port in
      if andb (zlt idx s_rows) (zlt full max_port) then Some 10 else
      if andb (zlt idx s_cols) (zlt full max_port) then Some 11 else
      if existsb (Z.eqb port) seen then Some 12 else
      check_map r (idx + 1)%Z max_port (port :: seen) s_rows s_cols full
  end.

(* rows and columns of the full M matrix the rows / columns of the caller's B matrix stand for: the
   SORTED port map m_port_map (qsort) when the matrix is abbreviated, the identity otherwise *)
Definition m_port_map_of (a : add_args) : list Z :=
  match aa_map a with
  | Some mp => sort_z (firstn (Z.to_nat (Z.max (aa_s_rows a) (aa_s_cols a))) mp)
  | None => []
  end.

Definition m_rows_of_args (a : add_args) : list nat :=
  let nbr := Z.to_nat (aa_b_rows a) in
  match aa_map a with
  | Some _ => map (fun b_row => if zlt (aa_b_rows a) (Z.of_nat (aa_mr a))
                                then Z.to_nat (nth b_row (m_port_map_of a) 1%Z - 1) else b_row) (seq 0 nbr)
  | None => seq 0 nbr
  end.

Definition m_cols_of_args (a : add_args) : list nat :=
  let nbc := Z.to_nat (aa_b_cols a) in
  match aa_map a with
  | Some _ => map (fun b_col => if zlt (aa_b_cols a) (Z.of_nat (aa_mc a))
                                then Z.to_nat (nth b_col (m_port_map_of a) 1%Z - 1) else b_col) (seq 0 nbc)
  | None => seq 0 nbc
  end.

(* m_cell_map[b_row * b_columns + b_column] = full_m_row * full_m_columns + full_m_column;
   without a port map the cell map is the identity on 0 .. b_cells-1 (as coded) *)
Definition m_cell_map (a : add_args) : list nat :=
  match aa_map a with
  | Some _ => flat_map (fun r => map (fun c => r * aa_mc a + c) (m_cols_of_args a)) (m_rows_of_args a)
  | None => seq 0 (Z.to_nat (aa_b_rows a) * Z.to_nat (aa_b_cols a))
  end.

(* the copy loop (a_matrix == NULL):  for b_cell: full_m_matrix[m_cell_map[b_cell]] = copy of b_matrix[b_cell];
   cells not written stay NULL.  V stands for the vector of values of one cell. *)
Definition store_m {V : Type} (ncells : nat) (cells : list nat) (b : list V) : list (option V) :=
  fold_left (fun m kb => upd m (fst kb) (Some (snd kb))) (combine cells b) (repeat None ncells).

Definition add_common (a : add_args) : outcome :=
  let ty := aa_ty a in
  let fmr := aa_mr a in let fmc := aa_mc a in
  let full := Nat.max fmr fmc in               (* full_s_rows = full_s_columns = full_s_ports *)
  let zfull := Z.of_nat full in
  let zfmr := Z.of_nat fmr in let zfmc := Z.of_nat fmc in
  let s_rows := aa_s_rows a in let s_cols := aa_s_cols a in
  let s_ports := Z.max s_rows s_cols in
  let b_rows := aa_b_rows a in let b_cols := aa_b_cols a in
  let is_t := VNACAL_IS_T ty in
  if caltype_eqb ty E12 then Aborts 0 else
  let '(min_b_rows, min_b_cols) :=
     if caltype_eqb ty T16 then (s_rows, zfmc)
     else if caltype_eqb ty U16 then (zfmr, s_cols)
     else (s_ports, s_ports) in
  if orb (zlt s_rows 1) (zlt zfull s_rows) then Rejected 1 else
  if orb (zlt s_cols 1) (zlt zfull s_cols) then Rejected 2 else
  if andb (andb (zlt s_rows s_cols) (negb (Z.eqb s_rows zfull))) is_t then Rejected 3 else
  if andb (andb (zlt s_cols s_rows) (negb (Z.eqb s_cols zfull))) (negb is_t) then Rejected 4 else
  if andb (aa_s_diag a) (negb (Z.eqb s_rows s_cols)) then Aborts 1 else
  (* D63: only T16 / U16 take a rectangular (partially known) S matrix *)
  if andb (negb (Z.eqb s_rows s_cols)) (negb (is_16 ty)) then Rejected 17 else
  if andb (match aa_map a with None => true | Some _ => false end)
          (orb (negb (Z.eqb s_rows zfull)) (negb (Z.eqb s_cols zfull))) then Rejected 5 else
  if andb (negb (Z.eqb b_rows min_b_rows)) (negb (Z.eqb b_rows zfmr)) then Rejected 6 else
  if andb (negb (Z.eqb b_cols min_b_cols)) (negb (Z.eqb b_cols zfmc)) then Rejected 7 else
  (* D48: the B matrix cannot exceed the calibration matrix *)
  if orb (zlt zfmr b_rows) (zlt zfmc b_cols) then Rejected 13 else
  if (match aa_map a with
      | Some mp => existsb (fun port => orb (andb (zlt b_rows zfmr) (zlt zfmr port))
                                            (andb (zlt b_cols zfmc) (zlt zfmc port)))
                           (firstn (Z.to_nat s_ports) mp)
      | None => false end) then Rejected 14 else
  if andb (aa_a_given a)
          (orb (negb (Z.eqb (aa_a_rows a) (if is_ue14 ty then 1%Z else b_cols)))
               (negb (Z.eqb (aa_a_cols a) b_cols))) then Rejected 8 else
  let nsp := Z.to_nat s_ports in
  match (match aa_map a with
         | Some mp => check_map (firstn nsp mp) 0 0 [] s_rows s_cols zfull
         | None => None end) with
  | Some k => Rejected k
  | None =>
  let port_connected : list bool :=
    match aa_map a with
    | Some mp => map (fun i => existsb (Z.eqb (Z.of_nat i + 1)) (firstn nsp mp)) (seq 0 full)
    | None => map (fun _ => true) (seq 0 full)
    end in
  let nbr := Z.to_nat b_rows in let nbc := Z.to_nat b_cols in
  let nsr := Z.to_nat s_rows in let nsc := Z.to_nat s_cols in
  (* rows and columns of the full M matrix the B matrix stands for, and the cell map *)
  let m_rows_of : list nat := m_rows_of_args a in
  let m_cols_of : list nat := m_cols_of_args a in
  let m_cells : list nat := m_cell_map a in
  let m_row_given := map (fun r => existsb (Nat.eqb r) m_rows_of) (seq 0 fmr) in
  let m_col_given := map (fun c => existsb (Nat.eqb c) m_cols_of) (seq 0 fmc) in
  let m_given := map (fun cell => existsb (Nat.eqb cell) m_cells) (seq 0 (fmr * fmc)) in
  (* S cells *)
  let port_of (i : nat) : nat :=
    match aa_map a with Some mp => Z.to_nat (nth i mp 1%Z - 1) | None => i end in
  let s_cell_map : list nat :=
    if aa_s_diag a then map (fun d => port_of d * (full + 1)) (seq 0 (Nat.min nsr nsc))
    else match aa_map a with
         | Some _ => flat_map (fun r => map (fun c => port_of r * full + port_of c) (seq 0 nsc)) (seq 0 nsr)
         | None => seq 0 (nsr * nsc)
         end in
  let s_rows_of := if aa_s_diag a then map port_of (seq 0 (Nat.min nsr nsc)) else map port_of (seq 0 nsr) in
  let s_cols_of := if aa_s_diag a then map port_of (seq 0 (Nat.min nsr nsc)) else map port_of (seq 0 nsc) in
  let s_row_given := map (fun r => existsb (Nat.eqb r) s_rows_of) (seq 0 full) in
  let s_col_given := map (fun c => existsb (Nat.eqb c) s_cols_of) (seq 0 full) in
  if negb (Nat.eqb (length (aa_s a)) (length s_cell_map)) then Aborts 2 else
  if existsb (fun h => negb (aa_valid a h)) (aa_s a) then Rejected 15 else
  let s0 : list scell := map (fun _ => SNull) (seq 0 (full * full)) in
  let s1 := fold_left (fun s ch => let '(cell, h) := ch in
                         upd s cell (if Z.eqb h 0 then SZero else SParam h))
                      (combine s_cell_map (aa_s a)) s0 in
  (* diagonal S: off-diagonal cells between connected ports are zero (assert: still NULL) *)
  let cells := flat_map (fun r => map (fun c => (r, c)) (seq 0 full)) (seq 0 full) in
  let fill (cond : nat -> nat -> bool) (st : list scell * bool) : list scell * bool :=
    fold_left (fun st rc => let '(r, c) := rc in let '(s, bad) := st in
                 if cond r c then
                   (upd s (r * full + c) SZero, orb bad (negb (scell_is_null (nth (r * full + c) s SNull))))
                 else st) cells st in
  let st2 := if aa_s_diag a
             then fill (fun r c => andb (negb (Nat.eqb r c)) (andb (getb port_connected r) (getb port_connected c))) (s1, false)
             else (s1, false) in
  let st3 := match aa_map a with
             | Some _ => fill (fun r c => xorb (getb port_connected r) (getb port_connected c)) st2
             | None => st2 end in
  let '(s3, bad) := st3 in
  if bad then Aborts 3 else
  if andb (andb (aa_merr a) (is_16 ty)) (existsb scell_is_null s3) then Rejected 16 else
  let conn := if is_16 ty then None else Some (build_connectivity full s3) in
  let conn_at (cell : nat) : bool := match conn with None => true | Some cm => getb cm cell end in
  let ctx := mkCtx fmr fmc (fun i => nth i s3 SNull) conn_at (getb m_given) in
  (* which equations *)
  let eq_cells : list (nat * nat) :=
    if is_ue14 ty then
      flat_map (fun eq_col => flat_map (fun eq_row =>
        if andb (andb (getb s_row_given eq_row) (getb m_col_given eq_col)) (conn_at (eq_row * full + eq_col))
        then [(eq_row, eq_col)] else []) (seq 0 full)) (seq 0 fmc)
    else if is_t then
      flat_map (fun eq_row => flat_map (fun eq_col =>
        if andb (andb (getb m_row_given eq_row) (getb s_col_given eq_col)) (conn_at (eq_row * full + eq_col))
        then [(eq_row, eq_col)] else []) (seq 0 full)) (seq 0 fmr)
    else
      flat_map (fun eq_row => flat_map (fun eq_col =>
        if andb (andb (getb s_row_given eq_row) (getb m_col_given eq_col)) (conn_at (eq_row * full + eq_col))
        then [(eq_row, eq_col)] else []) (seq 0 fmc)) (seq 0 full) in
  let built := map (fun rc => (rc, build_terms ty ctx (fst rc) (snd rc))) eq_cells in
  match find (fun x => match snd x with BOk _ => false | _ => true end) built with
  | Some (_, BAssert w) => Aborts (10 + w)
  | Some _ => Aborts 4
  | None =>
      Accepted (mkMeasurement m_given s3 conn
                  (map (fun x => mkEq (fst (fst x)) (snd (fst x))
                                      (match snd x with BOk l => l | _ => [] end)) built)
                  m_cells)
  end
  end.

(* ---------------------------------------------------------------- entry points vnacal_new_add_xxx *)
Section Entry.
Variables (ty : caltype) (mr mc : nat) (merr : bool) (valid : Z -> bool).
Variables (a_given : bool) (a_rows a_cols b_rows b_cols : Z).

Definition mk (s : list Z) (s_rows s_cols : Z) (diag : bool) (mp : option (list Z)) : add_args :=
  mkArgs ty mr mc merr valid a_given a_rows a_cols b_rows b_cols s s_rows s_cols diag mp.

Definition add_single_reflect (s11 port : Z) := add_common (mk [s11] 1 1 true (Some [port])).
Definition add_double_reflect (s11 s22 port1 port2 : Z) := add_common (mk [s11; s22] 2 2 true (Some [port1; port2])).
Definition add_line (s11 s12 s21 s22 port1 port2 : Z) := add_common (mk [s11; s12; s21; s22] 2 2 false (Some [port1; port2])).
(* VNACAL_ZERO = 0, VNACAL_ONE = 1 *)
Definition add_through (port1 port2 : Z) := add_common (mk [0; 1; 1; 0]%Z 2 2 false (Some [port1; port2])).
Definition add_mapped_matrix (s : list Z) (s_rows s_cols : Z) (mp : option (list Z)) := add_common (mk s s_rows s_cols false mp).
End Entry.

(* ---------------------------------------------------------------- calibration under construction *)
Definition calstate := list measurement.        (* accepted standards in order of addition *)

Definition add_step (st : calstate) (a : add_args) : calstate * outcome :=
  match add_common a with
  | Accepted m => (st ++ [m], Accepted m)
  | o => (st, o)
  end.

(* equations of one linear system in list order: (measurement index, equation) *)
Definition system_equations (ty : caltype) (st : calstate) (sys : nat) : list (nat * equation) :=
  flat_map (fun im => let '(i, m) := im in
              flat_map (fun e => if orb (negb (is_ue14 ty)) (Nat.eqb (e_col e) sys) then [(i, e)] else [])
                       (ms_eqs m))
           (combine (seq 0 (length st)) st).

Definition systems_of (ty : caltype) (mc : nat) : nat := if is_ue14 ty then mc else 1.
