(* C17, the order of the standards, ON THE EXECUTABLE MODELS (SolveSimple.assemble as coded, CalQI.q_solve_system
   = exact LU model of C19 for square systems, the normal-equation oracle LsSpec.ls_solve for tall ones,
   CalQI.q_error_terms), at the Gaussian rationals, for EVERY type, all dimensions, every list of measured
   standards and every permutation of it:
     1. the leakage sums and means do not depend on the order (a sum over the list);
     2. the assembled rows (coefficients, right-hand side) of every system are permuted;
     3. the normal equations A^H A, A^H b are EQUAL, so the least-squares model returns the same answer;
     4. a square system: the determinant the LU model reports is zero for both orders or for neither, and when
        it is not zero the two solutions are equal (the C19 theorems: trivial kernel <-> non-zero pivots,
        A X = B, uniqueness) -- the pivot sequences may differ;
     5. hence the same verdict for every system and the same saved error-term vector.
   Exact arithmetic: nothing about rounding. *)
Require Import List ZArith Bool Arith Lia QArith Qcanon Permutation.
Require Import LV.Base.CField LV.Base.QcI LV.Lin.MatL LV.Lin.LuModel LV.Lin.LuQI LV.Lin.LuQI2 LV.Lin.LuGenA
               LV.Lin.LuProofs LV.Lin.LuNonsing LV.Lin.LuNonsingQI LV.Lin.LsSpec LV.Lin.LsProofs.
Require Import LV.Gen.LayoutGen LV.Cal.Sym LV.Cal.TermsModel LV.Cal.AddModel LV.Cal.ApplyModel LV.Cal.SolveSimple
               LV.Cal.LinUnique LV.Cal.CalQI LV.Cal.SolveRecovers LV.Cal.C17Proofs.
Import ListNotations.
Local Open Scope nat_scope.

(* ---------------------------------------------------------------- folds *)
Lemma fold_left_perm {A B} (f : A -> B -> A) :
  (forall a x y, f (f a x) y = f (f a y) x) ->
  forall l l', Permutation l l' -> forall a, fold_left f l a = fold_left f l' a.
Proof.
  intros C l l' P. induction P; intros a; simpl.
  - reflexivity.
  - apply IHP.
  - rewrite C. reflexivity.
  - rewrite IHP1. apply IHP2.
Qed.

Lemma fold_left_ext2 {A B} (f h : A -> B -> A) :
  (forall a b, f a b = h a b) -> forall l a, fold_left f l a = fold_left h l a.
Proof. intros E l. induction l as [|x r IH]; intros a; simpl; [reflexivity|]. rewrite E. apply IH. Qed.

(* ---------------------------------------------------------------- assembly, any field *)
(* one row of a_matrix / b_vector, with the measured standard itself instead of its index in the list
   (the body of SolveSimple.row_of) *)
Definition row_of_mv (O : Ops) (ty : caltype) (mr mc : nat) (pval : Z -> O) (ms : list (mvals O))
           (mv : mvals O) (e : equation) : list O * O :=
  let vcols := v_columns_of ty mr mc in
  fold_left (fun ab t =>
    if negb (t_nov vcols t) then ab else
    let v0 := if t_neg t then osub O (o0 O) (o1 O) else o1 O in
    let v1 := if Z.ltb (t_m t) 0 then v0 else omul O v0 (m_adjusted O ty mr mc ms mv (Z.to_nat (t_m t))) in
    let v2 := if Z.ltb (t_s t) 0 then v1 else omul O v1 (s_value O pval (mv_meas O mv) (Z.to_nat (t_s t))) in
    if Z.ltb (t_x t) 0 then (fst ab, oadd O (snd ab) v2)
    else (updl (fst ab) (Z.to_nat (t_x t)) (oadd O (g O (fst ab) (Z.to_nat (t_x t))) v2), snd ab))
    (e_terms e) (repeat (o0 O) (unknowns ty mr mc), o0 O).

Definition no_mv (O : Ops) : mvals O := mkMV O (mkMeas [] [] None []) [].

Lemma row_of_eq (O : Ops) ty mr mc pval ms i e :
  row_of O ty mr mc pval ms (i, e) = row_of_mv O ty mr mc pval ms (nth i ms (no_mv O)) e.
Proof. reflexivity. Qed.

Lemma assemble_from (O : Ops) ty sys (F : mvals O -> equation -> list O * O) (d : mvals O) : forall st pre,
  map (fun ie : nat * equation => F (nth (fst ie) (pre ++ st) d) (snd ie))
      (flat_map (fun im : nat * measurement => let '(i, m) := im in
                   flat_map (fun e => if orb (negb (is_ue14 ty)) (Nat.eqb (e_col e) sys) then [(i, e)] else [])
                            (ms_eqs m))
                (combine (seq (length pre) (length st)) (map (mv_meas O) st)))
  = flat_map (fun mv => map (F mv) (filter (eq_in_system ty sys) (ms_eqs (mv_meas O mv)))) st.
Proof.
  induction st as [|m r IH]; intros pre; simpl; [reflexivity|].
  rewrite map_app. f_equal.
  - rewrite eqs_of_index. rewrite map_map. apply map_ext. intros e; simpl.
    rewrite app_nth2 by lia. rewrite Nat.sub_diag. reflexivity.
  - specialize (IH (pre ++ [m])). rewrite <- app_assoc in IH. simpl in IH.
    rewrite app_length in IH. simpl in IH. rewrite Nat.add_1_r in IH. exact IH.
Qed.

(* the rows of a system, standard by standard in the order of the list *)
Lemma assemble_flat (O : Ops) ty mr mc pval (ms : list (mvals O)) sys :
  assemble O ty mr mc pval ms sys =
  flat_map (fun mv => map (row_of_mv O ty mr mc pval ms mv) (filter (eq_in_system ty sys) (ms_eqs (mv_meas O mv)))) ms.
Proof.
  unfold assemble, system_equations. rewrite map_length.
  etransitivity; [|exact (assemble_from O ty sys (row_of_mv O ty mr mc pval ms) (no_mv O) ms [])].
  apply map_ext. intros [i e]. apply row_of_eq.
Qed.

Section AnyField.
Variable K : CField.
Add Field Kf_order : (cth K).
Notation O := (ops_of K).
Local Open Scope cf_scope.

Lemma cadd_swap (a x y : K) : a + x + y = a + y + x.
Proof. ring. Qed.

(* vnlt_sum, vnlt_count: a sum over the standards *)
Lemma leak_acc_perm mr mc (ms ms' : list (mvals O)) rc :
  Permutation ms ms' -> leak_acc O mr mc ms rc = leak_acc O mr mc ms' rc.
Proof.
  intros P. unfold leak_acc. destruct rc as [r c]. apply fold_left_perm; [|exact P].
  intros a x y. cbv zeta.
  repeat match goal with |- context [if ?c then _ else _] => destruct c end; cbn [fst snd]; try reflexivity.
  f_equal. apply cadd_swap.
Qed.

Lemma leak_mean_perm mr mc (ms ms' : list (mvals O)) rc :
  Permutation ms ms' -> leak_mean O mr mc ms rc = leak_mean O mr mc ms' rc.
Proof. intros P. unfold leak_mean. rewrite (leak_acc_perm mr mc ms ms' rc P). reflexivity. Qed.

Lemma m_adjusted_perm ty mr mc (ms ms' : list (mvals O)) mv cell :
  Permutation ms ms' -> m_adjusted O ty mr mc ms mv cell = m_adjusted O ty mr mc ms' mv cell.
Proof. intros P. unfold m_adjusted. cbv zeta. rewrite (leak_mean_perm mr mc ms ms' _ P). reflexivity. Qed.

Lemma leak_terms_perm ty mr mc (ms ms' : list (mvals O)) :
  Permutation ms ms' -> leak_terms O ty mr mc ms = leak_terms O ty mr mc ms' .
Proof.
  intros P. unfold leak_terms. destruct (has_outside_leakage ty); [|reflexivity].
  apply map_ext. intros rc. rewrite (leak_mean_perm mr mc ms ms' rc P). reflexivity.
Qed.

Lemma row_of_mv_perm ty mr mc pval (ms ms' : list (mvals O)) mv e :
  Permutation ms ms' -> row_of_mv O ty mr mc pval ms mv e = row_of_mv O ty mr mc pval ms' mv e.
Proof.
  intros P. unfold row_of_mv. cbv zeta. apply fold_left_ext2. intros ab t.
  rewrite (m_adjusted_perm ty mr mc ms ms' mv _ P). reflexivity.
Qed.

(* permuting the standards permutes the assembled rows (coefficients and right-hand sides, VALUES included) *)
Lemma assemble_perm ty mr mc pval (ms ms' : list (mvals O)) sys :
  Permutation ms ms' -> Permutation (assemble O ty mr mc pval ms sys) (assemble O ty mr mc pval ms' sys).
Proof.
  intros P. rewrite !assemble_flat.
  rewrite (flat_map_ext _ (fun mv => map (row_of_mv O ty mr mc pval ms' mv)
                                        (filter (eq_in_system ty sys) (ms_eqs (mv_meas O mv))))).
  - apply Permutation_flat_map. exact P.
  - intros mv. apply map_ext. intros e. apply row_of_mv_perm. exact P.
Qed.

(* ---------------------------------------------------------------- the normal equations *)
Definition lsum (l : list K) : K := fold_right (fun x acc => x + acc) 0 l.

Lemma lsum_perm l l' : Permutation l l' -> lsum l = lsum l'.
Proof.
  intros P. induction P; simpl.
  - reflexivity.
  - rewrite IHP. reflexivity.
  - ring.
  - etransitivity; eassumption.
Qed.

Lemma sumf_nth_lsum {A} (G : A -> K) (l : list A) (d : A) :
  sumf (length l) (fun k => G (nth k l d)) = lsum (map G l).
Proof.
  induction l as [|x r IH]; [reflexivity|].
  change (length (x :: r)) with (1 + length r)%nat. rewrite sumf_split.
  cbn [sumf Nat.add nth map lsum fold_right]. rewrite IH. unfold lsum. ring.
Qed.

Lemma mbuild_ext r c (f h : nat -> nat -> K) :
  (forall i j, i < r -> j < c -> f i j = h i j) -> mbuild K r c f = mbuild K r c h.
Proof.
  intros H. unfold mbuild. apply map_ext_in. intros i Hi. apply map_ext_in. intros j Hj.
  apply in_seq in Hi. apply in_seq in Hj. apply H; lia.
Qed.

Notation rhs_of := (fun r : list K * K => [snd r]).

Lemma nth_map_d {A B} (f : A -> B) (l : list A) (d : A) (d' : B) (i : nat) :
  i < length l -> nth i (map f l) d' = f (nth i l d).
Proof.
  revert i. induction l as [|y l IH]; intros i H; cbn in H; [lia|].
  destruct i as [|i]; cbn; [reflexivity | apply IH; lia].
Qed.

(* A^H A as a sum over the rows *)
Lemma normal_mat_rows n (rows : list (list K * K)) :
  normal_mat K (length rows) n (map fst rows) =
  mbuild K n n (fun i j => lsum (map (fun r => cj (nth i (fst r) 0) * nth j (fst r) 0) rows)).
Proof.
  unfold normal_mat, mmul. apply mbuild_ext. intros i j Hi Hj.
  rewrite msum_sumf.
  rewrite <- (sumf_nth_lsum (fun r => cj (nth i (fst r) 0) * nth j (fst r) 0) rows ([], 0)).
  apply sumf_ext. intros k Hk.
  unfold mherm. rewrite mget_mbuild by assumption.
  unfold mget, mrow. rewrite (nth_map_d fst rows ([], 0) []) by exact Hk. reflexivity.
Qed.

(* A^H b as a sum over the rows *)
Lemma normal_rhs_rows n (rows : list (list K * K)) :
  normal_rhs K (length rows) n 1 (map fst rows) (map rhs_of rows) =
  mbuild K n 1 (fun i j => lsum (map (fun r => cj (nth i (fst r) 0) * nth j [snd r] 0) rows)).
Proof.
  unfold normal_rhs, mmul. apply mbuild_ext. intros i j Hi Hj.
  rewrite msum_sumf.
  rewrite <- (sumf_nth_lsum (fun r => cj (nth i (fst r) 0) * nth j [snd r] 0) rows ([], 0)).
  apply sumf_ext. intros k Hk.
  unfold mherm. rewrite mget_mbuild by assumption.
  unfold mget, mrow. rewrite (nth_map_d fst rows ([], 0) []) by exact Hk.
  rewrite (nth_map_d rhs_of rows ([], 0) []) by exact Hk. reflexivity.
Qed.

(* the normal equations of a permuted system are the SAME matrices *)
Lemma normal_equations_perm n (rows rows' : list (list K * K)) : Permutation rows rows' ->
  normal_mat K (length rows) n (map fst rows) = normal_mat K (length rows') n (map fst rows') /\
  normal_rhs K (length rows) n 1 (map fst rows) (map rhs_of rows) =
  normal_rhs K (length rows') n 1 (map fst rows') (map rhs_of rows').
Proof.
  intros P. rewrite !normal_mat_rows, !normal_rhs_rows. split.
  - apply mbuild_ext. intros i j _ _. apply lsum_perm. apply Permutation_map. exact P.
  - apply mbuild_ext. intros i j _ _. apply lsum_perm. apply Permutation_map. exact P.
Qed.

(* ... so the least-squares model, which reads A and b through them only, returns the same answer *)
Lemma ls_solve_perm (isz : K -> bool) n (rows rows' : list (list K * K)) : Permutation rows rows' ->
  ls_solve K isz (length rows) n 1 (map fst rows) (map rhs_of rows) =
  ls_solve K isz (length rows') n 1 (map fst rows') (map rhs_of rows').
Proof.
  intros P. unfold ls_solve. destruct (normal_equations_perm n rows rows' P) as [-> ->]. reflexivity.
Qed.
Lemma ls_solve_perm_m (isz : K -> bool) n (rows rows' : list (list K * K)) : Permutation rows rows' ->
  ls_solve K isz (length rows) n 1 (map fst rows) (map rhs_of rows) =
  ls_solve K isz (length rows) n 1 (map fst rows') (map rhs_of rows').
Proof.
  intros P. rewrite (ls_solve_perm isz n rows rows' P). rewrite (Permutation_length P). reflexivity.
Qed.
End AnyField.

(* ---------------------------------------------------------------- one system at the Gaussian rationals *)
(* q_solve_system after the assembly *)
Definition solve_rows (n : nat) (rows : list (list qi * qi)) : sys_res :=
  let m := length rows in
  if Nat.ltb m n then SysInsufficient rows else
  let a := map fst rows in
  let b := map (fun r : list qi * qi => [snd r]) rows in
  if Nat.eqb m n then
    let '(x, d) := q_mldivide a b n 1 in
    if qi_eqb d qi0 then SysSingular rows else SysOk rows (map (fun r => nth 0 r qi0) x)
  else
    match q2_ls_solve m n 1 a b with
    | Some x => SysOk rows (map (fun r => nth 0 r qi0) x)
    | None => SysSingular rows
    end.

Lemma q_solve_system_rows ty mr mc ms pval sys :
  q_solve_system ty mr mc ms pval sys = solve_rows (unknowns ty mr mc) (assemble qops ty mr mc pval ms sys).
Proof. reflexivity. Qed.

(* same verdict, rows permuted, same solution *)
Definition sys_equiv (r r' : sys_res) : Prop :=
  match r, r' with
  | SysOk rows x, SysOk rows' x' => Permutation rows rows' /\ x = x'
  | SysInsufficient rows, SysInsufficient rows' => Permutation rows rows'
  | SysSingular rows, SysSingular rows' => Permutation rows rows'
  | _, _ => False
  end.

Notation qA rows := (map fst (rows : list (list qi * qi))).
Notation qB rows := (map (fun r : list qi * qi => [snd r]) rows).
Notation rows_kernel_trivial := SolveRecovers.kernel_trivial.
Notation mat_kernel_trivial := (LuNonsing.kernel_trivial QIF).

Lemma rows_kernel_of_mat n rows : length rows = n -> mat_kernel_trivial (qA rows) n -> rows_kernel_trivial n rows.
Proof.
  intros Hl Hk v Hv. apply Hk. intros i Hi.
  rewrite <- (Hv (nth i rows ([], q0))) by (apply nth_In; lia).
  apply sumf_ext. intros t _. rewrite mget_rows by lia. reflexivity.
Qed.

Lemma mat_kernel_of_rows n rows : length rows = n -> rows_kernel_trivial n rows -> mat_kernel_trivial (qA rows) n.
Proof.
  intros Hl Hk v Hv. apply Hk. intros r Hr.
  destruct (In_nth _ _ ([], q0) Hr) as (i & Hi & <-).
  assert (Hin : i < n) by (rewrite <- Hl; exact Hi).
  etransitivity; [|exact (Hv i Hin)]. apply sumf_ext. intros t _. rewrite mget_rows by exact Hi. reflexivity.
Qed.

Lemma rows_kernel_perm n rows rows' : Permutation rows rows' -> rows_kernel_trivial n rows -> rows_kernel_trivial n rows'.
Proof.
  intros P Hk v Hv. apply Hk. intros r Hr. apply Hv. exact (Permutation_in _ P Hr).
Qed.

Notation q_pivots a n := (pivots_nonzero QIF Qc qi_nrm Qcmult Qc_ltb 0%Qc row_scale_of_max a n).

(* the determinant the LU model reports is non-zero exactly when the kernel is trivial *)
Lemma det_nonzero_kernel n (a : mat QIF) : wf n n a -> lu_d QIF Qc (q_lu a n) <> q0 -> mat_kernel_trivial a n.
Proof.
  intros Hw Hd.
  assert (Hp : q_pivots a n) by (apply det_nonzero_pivots; assumption).
  intros v Hv k Hk. exact (lu_kernel_trivial QIF Qc qi_nrm Qcmult Qc_ltb 0%Qc row_scale_of_max a n Hw Hp v Hv k Hk).
Qed.

Lemma kernel_det_nonzero n (a : mat QIF) : wf n n a -> mat_kernel_trivial a n ->
  q_pivots a n /\ lu_d QIF Qc (q_lu a n) <> q0.
Proof.
  intros Hw Hk.
  destruct (q_lu_c_outcome a n Hw) as [(_ & _ & Hp & Hd)|[(Hs & _)|(Hs & _)]].
  - split; [exact Hp|exact Hd].
  - exfalso. exact (singular_not_trivial QIF a n Hs Hk).
  - exfalso. exact (singular_not_trivial QIF a n Hs Hk).
Qed.

(* what the LU model returns satisfies every row *)
Lemma mldivide_rows_sat n rows : length rows = n -> (forall r, In r rows -> length (fst r) = n) ->
  q_pivots (qA rows) n ->
  forall r, In r rows ->
    @sumf QIF n (fun k => qmul (nth k (fst r) q0) (mget QIF (fst (q_mldivide (qA rows) (qB rows) n 1)) k 0)) = snd r.
Proof.
  intros Hl Hw Hp r Hr.
  assert (HwA : @wf QIF n n (qA rows)) by (rewrite <- Hl at 1; apply wf_rows; exact Hw).
  assert (HwB : @wf QIF n 1 (qB rows)) by (rewrite <- Hl; apply wf_rhs).
  destruct (In_nth _ _ ([], q0) Hr) as (i & Hi & Er).
  destruct (lu_solves QIF Qc qi_nrm Qcmult Qc_ltb 0%Qc row_scale_of_max n (qA rows) HwA Hp) as (H1 & _).
  assert (Hin : i < n) by (rewrite <- Hl; exact Hi).
  pose proof (H1 1 (qB rows) HwB i 0 Hin Nat.lt_0_1) as E.
  rewrite mget_mmul in E by (exact Hin || exact Nat.lt_0_1). rewrite mget_rhs in E by exact Hi.
  transitivity (snd (nth i rows (([], q0) : list qi * qi))); [|exact (f_equal snd Er)].
  rewrite <- E. apply sumf_ext. intros t _. rewrite mget_rows by exact Hi.
  f_equal. exact (f_equal (fun z : list qi * qi => nth t (fst z) q0) (eq_sym Er)).
Qed.

Lemma q_sumf_sub n (f h : nat -> qi) :
  @sumf QIF n (fun k => qsub (f k) (h k)) = qsub (@sumf QIF n f) (@sumf QIF n h).
Proof. exact (sumf_sub' QIF n f h). Qed.

(* square systems: zero determinant for both orders or for neither; equal solutions *)
Lemma square_perm n rows rows' : Permutation rows rows' -> length rows = n ->
  (forall r, In r rows -> length (fst r) = n) ->
  lu_d QIF Qc (q_lu (qA rows) n) <> q0 ->
  lu_d QIF Qc (q_lu (qA rows') n) <> q0 /\
  map (fun r => nth 0 r qi0) (fst (q_mldivide (qA rows) (qB rows) n 1)) =
  map (fun r => nth 0 r qi0) (fst (q_mldivide (qA rows') (qB rows') n 1)).
Proof.
  intros P Hl Hw Hd.
  assert (Hl' : length rows' = n) by (rewrite <- (Permutation_length P); exact Hl).
  assert (Hw' : forall r, In r rows' -> length (fst r) = n)
    by (intros r Hr; apply Hw; exact (Permutation_in _ (Permutation_sym P) Hr)).
  assert (HwA : @wf QIF n n (qA rows)) by (rewrite <- Hl at 1; apply wf_rows; exact Hw).
  assert (HwA' : @wf QIF n n (qA rows')) by (rewrite <- Hl' at 1; apply wf_rows; exact Hw').
  pose proof (det_nonzero_kernel n _ HwA Hd) as Hk.
  pose proof (rows_kernel_of_mat n rows Hl Hk) as Hkr.
  pose proof (rows_kernel_perm n rows rows' P Hkr) as Hkr'.
  pose proof (mat_kernel_of_rows n rows' Hl' Hkr') as Hk'.
  destruct (kernel_det_nonzero n _ HwA' Hk') as [Hp' Hd'].
  destruct (kernel_det_nonzero n _ HwA Hk) as [Hp _].
  split; [exact Hd'|].
  set (X := fst (q_mldivide (qA rows) (qB rows) n 1)).
  set (X' := fst (q_mldivide (qA rows') (qB rows') n 1)).
  assert (HX : length X = n)
    by exact (proj1 (wf_mldivide QIF Qc qi_nrm Qcmult Qc_ltb 0%Qc row_scale_of_max (qA rows) (qB rows) n 1)).
  assert (HX' : length X' = n)
    by exact (proj1 (wf_mldivide QIF Qc qi_nrm Qcmult Qc_ltb 0%Qc row_scale_of_max (qA rows') (qB rows') n 1)).
  apply (nth_ext _ _ q0 q0); [rewrite !map_length; (etransitivity; [exact HX|symmetry; exact HX'])|].
  rewrite map_length. intros k Hk0.
  rewrite (nth_map_dflt _ X []) by exact Hk0.
  rewrite (nth_map_dflt _ X' []) by (rewrite HX', <- HX; exact Hk0).
  change (mget QIF X k 0 = mget QIF X' k 0).
  apply q_sub_zero.
  apply (Hkr (fun k => qsub (mget QIF X k 0) (mget QIF X' k 0))); [|rewrite <- HX; exact Hk0].
  intros r Hr.
  transitivity (qsub (@sumf QIF n (fun t => qmul (nth t (fst r) q0) (mget QIF X t 0)))
                     (@sumf QIF n (fun t => qmul (nth t (fst r) q0) (mget QIF X' t 0)))).
  { rewrite <- q_sumf_sub. apply sumf_ext. intros t _. apply q_mul_sub. }
  unfold X, X'.
  rewrite (mldivide_rows_sat n rows Hl Hw Hp r Hr).
  rewrite (mldivide_rows_sat n rows' Hl' Hw' Hp' r (Permutation_in _ P Hr)).
  apply q_sub_self.
Qed.

Lemma solve_rows_perm n rows rows' : Permutation rows rows' ->
  (forall r, In r rows -> length (fst r) = n) -> sys_equiv (solve_rows n rows) (solve_rows n rows').
Proof.
  intros P Hw. unfold solve_rows. cbv zeta.
  assert (Hw' : forall r, In r rows' -> length (fst r) = n)
    by (intros r Hr; apply Hw; exact (Permutation_in _ (Permutation_sym P) Hr)).
  rewrite <- (Permutation_length P).
  destruct (Nat.ltb (length rows) n); [exact P|].
  destruct (Nat.eqb_spec (length rows) n) as [Hl|Hl].
  - destruct (q_mldivide (qA rows) (qB rows) n 1) as [X d] eqn:EX.
    destruct (q_mldivide (qA rows') (qB rows') n 1) as [X' d'] eqn:EX'.
    assert (Ed : d = lu_d QIF Qc (q_lu (qA rows) n)) by (change d with (snd (X, d)); rewrite <- EX; reflexivity).
    assert (Ed' : d' = lu_d QIF Qc (q_lu (qA rows') n)) by (change d' with (snd (X', d')); rewrite <- EX'; reflexivity).
    assert (Hl' : length rows' = n) by (rewrite <- (Permutation_length P); exact Hl).
    destruct (qi_eqb d qi0) eqn:Z, (qi_eqb d' qi0) eqn:Z'.
    + exact P.
    + exfalso. apply qi_neqb in Z'. apply qi_eqb_eq in Z. rewrite Ed' in Z'.
      destruct (square_perm n rows' rows (Permutation_sym P) Hl' Hw' Z') as [Hd _].
      apply Hd. rewrite <- Ed. exact Z.
    + exfalso. apply qi_neqb in Z. apply qi_eqb_eq in Z'. rewrite Ed in Z.
      destruct (square_perm n rows rows' P Hl Hw Z) as [Hd _].
      apply Hd. rewrite <- Ed'. exact Z'.
    + split; [exact P|]. apply qi_neqb in Z. rewrite Ed in Z.
      destruct (square_perm n rows rows' P Hl Hw Z) as [_ Hx].
      rewrite EX, EX' in Hx. exact Hx.
  - unfold q2_ls_solve.
    pose proof (ls_solve_perm_m QIF qi_isz n rows rows' P) as E.
    change (ls_solve QIF qi_isz (length rows) n 1 (qA rows) (qB rows) =
            ls_solve QIF qi_isz (length rows) n 1 (qA rows') (qB rows')) in E.
    rewrite E.
    match goal with |- context [match ?t with Some _ => _ | None => _ end] => destruct t end;
      cbn [sys_equiv]; [split; [exact P|reflexivity]|exact P].
Qed.

(* ---------------------------------------------------------------- the theorem *)
Definition sys_ok (r : sys_res) : bool := match r with SysOk _ _ => true | _ => false end.

Lemma sys_equiv_lists (f f' : nat -> sys_res) (l : list nat) : (forall s, sys_equiv (f s) (f' s)) ->
  forallb sys_ok (map f l) = forallb sys_ok (map f' l) /\ map sys_x (map f l) = map sys_x (map f' l).
Proof.
  intros H. induction l as [|s r [IH1 IH2]]; [split; reflexivity|]. cbn [map forallb].
  specialize (H s). destruct (f s), (f' s); cbn in H; try contradiction; cbn [sys_ok sys_x andb].
  - destruct H as [_ ->]. rewrite IH1, IH2. split; reflexivity.
  - rewrite IH2. split; reflexivity.
  - rewrite IH2. split; reflexivity.
Qed.

Theorem c17_order_irrelevant_model_lemma : forall ty mr mc (pval : Z -> qi) (ms ms' : list (mvals qops)),
  Permutation ms ms' ->
  (forall sys, sys_equiv (q_solve_system ty mr mc ms pval sys) (q_solve_system ty mr mc ms' pval sys)) /\
  q_error_terms ty mr mc ms pval = q_error_terms ty mr mc ms' pval.
Proof.
  intros ty mr mc pval ms ms' P.
  assert (H : forall sys, sys_equiv (q_solve_system ty mr mc ms pval sys) (q_solve_system ty mr mc ms' pval sys)).
  { intros sys. rewrite !q_solve_system_rows. apply solve_rows_perm.
    - exact (assemble_perm QIF ty mr mc pval ms ms' sys P).
    - intros r Hr. exact (assemble_rows_length qops ty mr mc pval ms sys r Hr). }
  split; [exact H|].
  unfold q_error_terms.
  destruct (sys_equiv_lists _ _ (seq 0 (systems_of ty mc)) H) as [E1 E2].
  change (forallb (fun r => match r with SysOk _ _ => true | _ => false end)) with (forallb sys_ok).
  change (map (fun r => match r with SysOk _ x => x | _ => [] end)) with (map sys_x).
  rewrite E1, E2.
  pose proof (leak_terms_perm QIF ty mr mc ms ms' P) as L. fold qops in L.
  unfold e_vector. rewrite L. reflexivity.
Qed.

(* ... composed with the add model: the same calls (arguments and measured values) in another order *)
Definition measure_all (l : list (add_args * list qi)) : list (mvals qops) :=
  flat_map (fun av => match add_common (fst av) with Accepted m => [mkMV qops m (snd av)] | _ => [] end) l.

Theorem c17_order_irrelevant_calls_lemma : forall ty mr mc (pval : Z -> qi) (l l' : list (add_args * list qi)),
  Permutation l l' ->
  q_error_terms ty mr mc (measure_all l) pval = q_error_terms ty mr mc (measure_all l') pval.
Proof.
  intros ty mr mc pval l l' P.
  apply (c17_order_irrelevant_model_lemma ty mr mc pval). apply Permutation_flat_map. exact P.
Qed.

(* ---------------------------------------------------------------- the hypotheses can be met *)
Require Import LV.Cal.EndToEnd.

Definition is_some_terms (o : option (list qi)) : bool := match o with Some _ => true | None => false end.

(* the one-port T8 calibrations of EndToEnd (three reflects: a square system solved by the LU model; four
   reflects: a tall system solved through the normal equations) with the standards in reverse order: the
   assembled systems differ, the saved error terms do not *)
Lemma c17_order_irrelevant_model_example_lemma :
  Permutation ex_ms (rev ex_ms) /\
  map snd (q_assemble T8 1 1 (rev ex_ms) ex_pval 0) <> map snd (q_assemble T8 1 1 ex_ms ex_pval 0) /\
  q_error_terms T8 1 1 (rev ex_ms) ex_pval = Some (true_terms T8 1 1 ex_ms ex_xs) /\
  length (q_assemble T8 1 1 ex_ms4 ex_pval4 0) = 4 /\
  is_some_terms (q_error_terms T8 1 1 ex_ms4 ex_pval4) = true /\
  q_error_terms T8 1 1 (rev ex_ms4) ex_pval4 = q_error_terms T8 1 1 ex_ms4 ex_pval4.
Proof.
  split; [apply Permutation_rev|]. split.
  - intros H. apply (f_equal (map (fun z : qi => qi_eqb z (mkqi 2 1 0 1)))) in H. vm_compute in H. discriminate H.
  - split.
    + rewrite <- (proj2 (c17_order_irrelevant_model_lemma T8 1 1 ex_pval ex_ms (rev ex_ms) (Permutation_rev ex_ms))).
      exact (proj1 (proj2 (proj2 (proj2 (proj2 c01_model_end_to_end_nonvacuous))))).
    + split; [vm_compute; reflexivity|]. split; [vm_compute; reflexivity|].
      symmetry. exact (proj2 (c17_order_irrelevant_model_lemma T8 1 1 ex_pval4 ex_ms4 (rev ex_ms4) (Permutation_rev ex_ms4))).
Qed.
