(* assembled_row_is_equation_cell: the semantic form of SolveProofs.assembled_eq_matrix_cell, for EVERY
   field K (no symbolic layer): for the configurations of small_cfgs (the 8 measuring types, dimensions
   1..3 as the type allows, every non-empty port set of the standard) and ALL values of the error terms
   (unity term of the system = 1), measured cells, parameters of the standard and unknown S cells,
   every row (a, b) that the model of _vnacal_new_solve_simple assembles for the standard satisfies

        sum_k a_k x_k - b  =  cell (eq_row, eq_col) of the documented matrix expression

   (T: - Ts S - Ti + M Tx S + M Tm;  U: Um M + Ui - S Ux M - S Us;  UE14: the per-column form), x_k being
   the error term the unknown k stands for.  Hence the true error terms satisfy the assembled equation
   of a cell exactly when the documented equation holds in that cell.  One standard at a time, standards
   without known-zero cells (so no leakage samples); by unfolding the models at an abstract field + ring. *)
Require Import List ZArith Bool Arith Lia.
Require Import LV.Base.CField LV.Gen.LayoutGen LV.Cal.Sym LV.Cal.TermsModel LV.Cal.AddModel
               LV.Cal.ApplyModel LV.Cal.SolveSimple LV.Cal.TermsProofs LV.Cal.ApplyIdentity.
Import ListNotations.
Local Open Scope nat_scope.

Definition dims3 : list (nat * nat) := flat_map (fun r => map (fun c => (r, c)) (seq 1 3)) (seq 1 3).

Definition small_cfgs : list cfg :=
  flat_map (fun ty => flat_map (fun rc =>
     if dims_allowed ty rc then
       map (fun ports => (ty, rc, ports))
           (filter (fun x => negb (Nat.eqb (length x) 0)) (sublists (seq 1 (Nat.max (fst rc) (snd rc)))))
     else []) dims3) public_types.

Section K.
Variable K : CField.
Add Field Kf_as : (cth K).
Let O := ops_of K.

Section Cell.
Variables (ty : caltype) (mr mc : nat) (m : measurement).
Variables (fe fm fx : nat -> K) (pv : Z -> K).
Let p := Nat.max mr mc.
Let l := layout ty (Z.of_nat mr) (Z.of_nat mc).
Let full := orb (caltype_eqb ty T16) (caltype_eqb ty U16).
Let sm (n : nat) (f : nat -> K) : K := sumk O n f.

Definition std_S (i j : nat) : K :=
  match nth (i * p + j) (ms_s m) SNull with
  | SParam h => pv h
  | SZero => c0
  | SNull => fx (i * p + j)
  end.
Definition std_M (i j : nat) : K := fm (i * mc + j).

Definition sys_base' (sys : nat) : nat := if VNACAL_IS_UE14 ty then sys * Z.to_nat (vl_t_terms l) else 0.
Definition unity_abs' (sys : nat) : nat := sys_base' sys + Z.to_nat (vl_unity_offset l (Z.of_nat sys)).
(* error-term vector with the unity term of system sys equal to 1 *)
Definition terms_of (sys : nat) : list K :=
  lst K (nterms ty mr mc) (fun k => if Nat.eqb k (unity_abs' sys) then c1 else fe k).
(* the error term the unknown k of system sys stands for *)
Definition x_of' (sys k : nat) : K :=
  let u := Z.to_nat (vl_unity_offset l (Z.of_nat sys)) in
  fe (sys_base' sys + (if Nat.ltb k u then k else k + 1)).

Definition std_cell_T (i j : nat) : K :=
  let e := terms_of 0 in
  let Ts := blk O full (zn (VL_TS_OFFSET l)) p e in let Ti := blk O full (zn (VL_TI_OFFSET l)) p e in
  let Tx := blk O full (zn (VL_TX_OFFSET l)) p e in let Tm := blk O full (zn (VL_TM_OFFSET l)) p e in
  cadd (cadd (csub (copp (sm p (fun k => cmul (Ts i k) (std_S k j)))) (Ti i j))
             (sm mc (fun a => cmul (std_M i a) (sm p (fun k => cmul (Tx a k) (std_S k j))))))
       (sm mc (fun a => cmul (std_M i a) (Tm a j))).

Definition std_cell_U (i j : nat) : K :=
  let e := terms_of 0 in
  let Um := blk O full (zn (VL_UM_OFFSET l)) mr e in let Ui := blk O full (zn (VL_UI_OFFSET l)) mc e in
  let Ux := blk O full (zn (VL_UX_OFFSET l)) mr e in let Us := blk O full (zn (VL_US_OFFSET l)) mc e in
  csub (csub (cadd (sm mr (fun a => cmul (Um i a) (std_M a j))) (Ui i j))
             (sm p (fun k => cmul (std_S i k) (sm mr (fun a => cmul (Ux k a) (std_M a j))))))
       (sm p (fun k => cmul (std_S i k) (Us k j))).

Definition std_cell_14 (i j : nat) : K :=
  let e := terms_of j in
  let um k := g O e (zn (VL_UM14_OFFSET l (Z.of_nat j)) + k) in
  let ux k := g O e (zn (VL_UX14_OFFSET l (Z.of_nat j)) + k) in
  let ui := g O e (zn (VL_UI14_OFFSET l (Z.of_nat j))) in
  let us := g O e (zn (VL_US14_OFFSET l (Z.of_nat j))) in
  csub (csub (cadd (cmul (um i) (std_M i j)) (if Nat.eqb i j then ui else c0))
             (sm p (fun k => cmul (std_S i k) (cmul (ux k) (std_M k j)))))
       (cmul (std_S i j) us).

Definition std_cell (i j : nat) : K :=
  if VNACAL_IS_T ty then std_cell_T i j else if VNACAL_IS_UE14 ty then std_cell_14 i j else std_cell_U i j.

(* sum_k a_k x_k - b *)
Definition row_res (sys : nat) (row : list K * K) : K :=
  csub (fold_left (fun acc ka => cadd acc (cmul (snd ka) (x_of' sys (fst ka))))
                  (combine (seq 0 (length (fst row))) (fst row)) c0)
       (snd row).
End Cell.

Definition assembled_identity (c : cfg) : Prop :=
  let '(ty, (mr, mc), ports) := c in
  forall (fe fm fx : nat -> K) (pv : Z -> K),
  match add_common (cfg_args c) with
  | Accepted m =>
      let mv := mkMV O m (lst K (mr * mc) fm) in
      conj_all (map (fun sys =>
        let eqs := system_equations ty [m] sys in
        let rows := assemble O ty mr mc pv [mv] sys in
        length eqs = length rows /\
        conj_all (map (fun er => row_res ty mr mc fe sys (snd er)
                                 = std_cell ty mr mc m fe fm fx pv (e_row (snd (fst er))) (e_col (snd (fst er))))
                      (combine eqs rows)))
        (seq 0 (systems_of ty mc)))
  | _ => False
  end.

Ltac asm_id := intros fe fm fx pv; cbv -[cadd cmul csub copp cdiv cinv c0 c1 F]; repeat split; ring.

Lemma assembled_identity_all : forall c, In c small_cfgs -> assembled_identity c.
Proof.
  intros c H. vm_compute in H.
  repeat (destruct H as [<-|H]; [asm_id|]). contradiction.
Qed.
End K.

Example small_cfgs_size :
  length small_cfgs = 224 /\
  fold_left (fun n c => match add_common (cfg_args c) with Accepted m => n + length (ms_eqs m) | _ => n end)
            small_cfgs 0 = 518.
Proof. vm_compute. split; reflexivity. Qed.
