(* What the exact LU model (Lin/LuModel.v, the model of _vnacommon_lu / mldivide / mrdivide tied by C19)
   returns when the determinant it reports is not zero, for EVERY n: the only solution.
     mldivide_unique : A S = B (cell by cell) and d <> 0  ->  A \ B = S
     mrdivide_unique : S A = B and d <> 0                 ->  B / A = S
   on flat row-major arrays, as _vnacal_apply_common and _vnacal_new_solve_simple call them.
   Consequences of the C19 theorems lu_solves, lu_kernel_trivial, lu_zero_pivot_det_zero. *)
Require Import List Arith Lia Bool.
Import ListNotations.
Require Import LV.Base.CField LV.Lin.MatL LV.Lin.LuModel LV.Lin.LuGenA LV.Lin.LuProofs.
Local Open Scope nat_scope.
Local Open Scope cf_scope.

Section U.
Variable K : CField.
Variable M : Type.
Variable nrm2 : K -> M.
Variable mulM : M -> M -> M.
Variable ltM : M -> M -> bool.
Variable zeroM : M.
Variable scale_of_max : M -> M.
Add Field Kf_lu : (cth K).

Notation mat := (mat K).
Notation lu := (lu K M nrm2 mulM ltM zeroM scale_of_max).
Notation mldivide := (mldivide K M nrm2 mulM ltM zeroM scale_of_max).
Notation mrdivide := (mrdivide K M nrm2 mulM ltM zeroM scale_of_max).
Notation minverse := (minverse K M nrm2 mulM ltM zeroM scale_of_max).
Notation mg := (mget K).
Notation pivots_nonzero := (pivots_nonzero K M nrm2 mulM ltM zeroM scale_of_max).

Lemma fold_inv {A B : Type} (P : A -> Prop) (f : A -> B -> A) (l : list B) :
  (forall a b, P a -> P (f a b)) -> forall a, P a -> P (fold_left f l a).
Proof. intros Hf. induction l as [|b l IH]; intros a Ha; cbn; [exact Ha | apply IH, Hf, Ha]. Qed.

Lemma sumf_sub' (n : nat) (f g : nat -> K) : sumf n (fun k => f k - g k) = sumf n f - sumf n g.
Proof. induction n as [|n IH]; cbn [sumf]; [ring | rewrite IH; ring]. Qed.

Lemma wf_mldivide (a b : mat) (m n : nat) : wf m n (fst (mldivide a b m n)).
Proof.
  unfold LuModel.mldivide. cbn [fst].
  apply fold_inv; [|apply wf_mzero].
  intros x j Hx. apply fold_inv; [intros; apply wf_mset; assumption|].
  apply fold_inv; [intros; apply wf_mset; assumption | exact Hx].
Qed.

Lemma wf_mrdivide (b a : mat) (m n : nat) : wf m n (fst (mrdivide b a m n)).
Proof.
  unfold LuModel.mrdivide. cbn [fst].
  apply fold_inv; [|apply wf_mzero].
  intros x j Hx. apply fold_inv; [intros; apply wf_mset; assumption|].
  apply fold_inv; [intros; apply wf_mset; assumption | exact Hx].
Qed.

Lemma det_nonzero_pivots (a : mat) (n : nat) :
  wf n n a -> lu_d K M (lu a n) <> 0 -> pivots_nonzero a n.
Proof.
  intros Hw Hd j Hj Hz. apply Hd.
  exact (lu_zero_pivot_det_zero K M nrm2 mulM ltM zeroM scale_of_max a n j Hw Hj Hz).
Qed.

(* flat row-major arrays *)
Lemma mget_munflat (r c : nat) (v : list K) i j : i < r -> j < c -> mg (munflat K r c v) i j = nth (i * c + j) v 0.
Proof. intros Hi Hj. unfold munflat. apply mget_mbuild; assumption. Qed.

Lemma nth_concat_wf (r c : nat) (x : mat) : wf r c x ->
  forall i j, i < r -> j < c -> nth (i * c + j) (concat x) 0 = mg x i j.
Proof.
  revert r. induction x as [|row x IH]; intros r [Hl Hf] i j Hi Hj.
  - cbn in Hl. lia.
  - inversion Hf as [|? ? Hrow Hrest]. cbn [concat]. cbn [length] in Hl.
    destruct i as [|i].
    + cbn [Nat.mul Nat.add]. rewrite app_nth1 by lia. reflexivity.
    + rewrite app_nth2 by (cbn [Nat.mul]; lia).
      replace (S i * c + j - length row)%nat with (i * c + j)%nat by (cbn [Nat.mul]; lia).
      rewrite (IH (length x) (conj eq_refl Hrest) i j) by lia.
      reflexivity.
Qed.

Lemma length_concat_wf (r c : nat) (x : mat) : wf r c x -> length (concat x) = (r * c)%nat.
Proof.
  revert r. induction x as [|row x IH]; intros r [Hl Hf]; cbn [concat length] in *.
  - subst r. reflexivity.
  - inversion Hf as [|? ? Hrow Hrest]. rewrite app_length, (IH (length x) (conj eq_refl Hrest)).
    subst r. cbn [Nat.mul]. lia.
Qed.

(* A X = B has at most one solution when the LU run meets no zero pivot *)
Theorem mldivide_unique (n : nat) (a b s : list K) :
  length s = (n * n)%nat ->
  (forall i j, i < n -> j < n ->
     sumf n (fun k => nth (i * n + k) a 0 * nth (k * n + j) s 0) = nth (i * n + j) b 0) ->
  let r := mldivide (munflat K n n a) (munflat K n n b) n n in
  snd r <> 0 -> mflat K (fst r) = s.
Proof.
  intros Hs Heq r Hd. subst r.
  set (A := munflat K n n a) in *. set (B := munflat K n n b) in *.
  assert (HwA : wf n n A) by apply wf_mbuild.
  assert (HwB : wf n n B) by apply wf_mbuild.
  assert (Hp : pivots_nonzero A n) by (apply det_nonzero_pivots; assumption).
  pose proof (wf_mldivide A B n n) as HwX.
  set (X := fst (mldivide A B n n)) in *.
  destruct (lu_solves K M nrm2 mulM ltM zeroM scale_of_max n A HwA Hp) as (H1 & _).
  apply (nth_ext _ _ 0 0).
  - unfold mflat. rewrite (length_concat_wf n n X HwX). symmetry; exact Hs.
  - unfold mflat. rewrite (length_concat_wf n n X HwX). intros t Ht.
    assert (Hn : n <> 0%nat) by (intro; subst n; cbn in Ht; lia).
    set (i := (t / n)%nat). set (j := (t mod n)%nat).
    assert (Hi : i < n) by (apply Nat.div_lt_upper_bound; lia).
    assert (Hj : j < n) by (apply Nat.mod_upper_bound; exact Hn).
    assert (Et : t = (i * n + j)%nat) by (unfold i, j; rewrite (Nat.div_mod t n Hn) at 1; lia).
    rewrite Et. rewrite (nth_concat_wf n n X HwX) by assumption.
    (* column j of X - S is in the kernel of A *)
    assert (Hk : in_kernel K A n (fun k => mg X k j - nth (k * n + j) s 0)).
    { intros i' Hi'.
      transitivity (sumf n (fun k => mg A i' k * mg X k j) - sumf n (fun k => mg A i' k * nth (k * n + j) s 0)).
      { rewrite <- sumf_sub'. apply sumf_ext. intros k Hk. ring. }
      pose proof (H1 n B HwB i' j Hi' Hj) as E. rewrite mget_mmul in E by assumption. fold X in E.
      rewrite E.
      rewrite (sumf_ext K n (fun k => mg A i' k * nth (k * n + j) s 0)
                            (fun k => nth (i' * n + k) a 0 * nth (k * n + j) s 0)).
      - rewrite (Heq i' j Hi' Hj). unfold B. rewrite mget_munflat by assumption. ring.
      - intros k Hk. unfold A. rewrite mget_munflat by assumption. reflexivity. }
    pose proof (lu_kernel_trivial K M nrm2 mulM ltM zeroM scale_of_max A n HwA Hp _ Hk i Hi) as Hz.
    cbv beta in Hz.
    transitivity (mg X i j - nth (i * n + j) s 0 + nth (i * n + j) s 0); [ring | rewrite Hz; ring].
Qed.

(* X A = B likewise (A has a right inverse) *)
Theorem mrdivide_unique (n : nat) (a b s : list K) :
  length s = (n * n)%nat ->
  (forall i j, i < n -> j < n ->
     sumf n (fun k => nth (i * n + k) s 0 * nth (k * n + j) a 0) = nth (i * n + j) b 0) ->
  let r := mrdivide (munflat K n n b) (munflat K n n a) n n in
  snd r <> 0 -> mflat K (fst r) = s.
Proof.
  intros Hs Heq r Hd. subst r.
  set (A := munflat K n n a) in *. set (B := munflat K n n b) in *.
  assert (HwA : wf n n A) by apply wf_mbuild.
  assert (HwB : wf n n B) by apply wf_mbuild.
  assert (Hp : pivots_nonzero A n) by (apply det_nonzero_pivots; assumption).
  pose proof (wf_mrdivide B A n n) as HwX.
  set (X := fst (mrdivide B A n n)) in *.
  destruct (lu_solves K M nrm2 mulM ltM zeroM scale_of_max n A HwA Hp) as (_ & H2 & H3 & _).
  set (Ai := fst (minverse A n)) in *.
  apply (nth_ext _ _ 0 0).
  - unfold mflat. rewrite (length_concat_wf n n X HwX). symmetry; exact Hs.
  - unfold mflat. rewrite (length_concat_wf n n X HwX). intros t Ht.
    assert (Hn : n <> 0%nat) by (intro; subst n; cbn in Ht; lia).
    set (i := (t / n)%nat). set (j := (t mod n)%nat).
    assert (Hi : i < n) by (apply Nat.div_lt_upper_bound; lia).
    assert (Hj : j < n) by (apply Nat.mod_upper_bound; exact Hn).
    assert (Et : t = (i * n + j)%nat) by (unfold i, j; rewrite (Nat.div_mod t n Hn) at 1; lia).
    rewrite Et. rewrite (nth_concat_wf n n X HwX) by assumption.
    set (v := fun k => mg X i k - nth (i * n + k) s 0).
    (* row i of X - S times A is zero *)
    assert (Hv : forall c, c < n -> sumf n (fun k => v k * mg A k c) = 0).
    { intros c Hc. unfold v.
      transitivity (sumf n (fun k => mg X i k * mg A k c) - sumf n (fun k => nth (i * n + k) s 0 * mg A k c)).
      { rewrite <- sumf_sub'. apply sumf_ext. intros k Hk. ring. }
      pose proof (H2 n B HwB i c Hi Hc) as E. rewrite mget_mmul in E by assumption. fold X in E.
      rewrite E.
      rewrite (sumf_ext K n (fun k => nth (i * n + k) s 0 * mg A k c)
                            (fun k => nth (i * n + k) s 0 * nth (k * n + c) a 0)).
      - rewrite (Heq i c Hi Hc). unfold B. rewrite mget_munflat by assumption. ring.
      - intros k Hk. unfold A. rewrite mget_munflat by assumption. reflexivity. }
    (* v j = sum_c (sum_k v k A k c) Ai c j = 0 *)
    assert (Hz : v j = 0).
    { transitivity (sumf n (fun k => v k * (if Nat.eqb k j then 1 else 0))).
      { rewrite <- (sumf_single K n j v Hj). apply sumf_ext. intros k Hk.
        destruct (Nat.eqb_spec k j); ring. }
      transitivity (sumf n (fun k => v k * sumf n (fun c => mg A k c * mg Ai c j))).
      { apply sumf_ext. intros k Hk. pose proof (H3 k j Hk Hj) as E. rewrite mget_mmul in E by assumption.
        fold Ai in E. rewrite E. reflexivity. }
      transitivity (sumf n (fun k => sumf n (fun c => v k * mg A k c * mg Ai c j))).
      { apply sumf_ext. intros k Hk. rewrite sumf_scale_l. apply sumf_ext. intros c Hc. ring. }
      rewrite sumf_exchange.
      apply sumf_zero. intros c Hc.
      rewrite <- (sumf_scale_r K n (mg Ai c j) (fun k => v k * mg A k c)). rewrite (Hv c Hc). ring. }
    unfold v in Hz.
    transitivity (mg X i j - nth (i * n + j) s 0 + nth (i * n + j) s 0); [ring | rewrite Hz; ring].
Qed.
End U.
