(* leak_mean_exact: if in every measurement that contributes a sample to the leakage term of a cell
   (cell given, no path through the standard between the two ports) the measured value is x, then the
   mean the solver subtracts and saves is x.  For every field in which the sample count is invertible.
   (That the measured value of such a cell IS the leakage term El of the error model is the
   block-diagonal argument of vnacal_layout.h; it is exercised by the end-to-end oracle, not proved.) *)
Require Import List ZArith Bool Arith Lia.
Require Import LV.Base.CField LV.Gen.LayoutGen LV.Cal.Sym LV.Cal.TermsModel LV.Cal.AddModel
               LV.Cal.ApplyModel LV.Cal.SolveSimple.
Import ListNotations.

Section Leak.
Variable K : CField.
Add Field Kf_leak : (cth K).
Let O := ops_of K.
Variables (ty : caltype) (mr mc : nat).
Local Open Scope cf_scope.

Definition sampled (mv : mvals O) (r c : nat) : bool :=
  let m := mv_meas O mv in
  let conn := match ms_conn m with Some cm => nth (r * Nat.max mr mc + c) cm false | None => true end in
  andb (nth (r * mc + c) (ms_m_given m) false) (negb conn).

Lemma onat_S (n : nat) : onat O (S n) = onat O n + 1.
Proof. reflexivity. Qed.

Definition leak_step (r c : nat) (acc : K * nat) (mv : mvals O) : K * nat :=
  if sampled mv r c then (fst acc + g O (mv_m O mv) (r * mc + c), S (snd acc)) else acc.

Lemma leak_acc_unfold (ms : list (mvals O)) (r c : nat) :
  leak_acc O mr mc ms (r, c) = fold_left (leak_step r c) ms (0, 0%nat).
Proof. reflexivity. Qed.

Lemma leak_acc_gen (x : K) (r c : nat) :
  forall (ms : list (mvals O)) (s0 : K) (n0 : nat),
    (forall mv, In mv ms -> sampled mv r c = true -> g O (mv_m O mv) (r * mc + c) = x) ->
    exists k : nat, fold_left (leak_step r c) ms (s0, n0) = (s0 + onat O k * x, (n0 + k)%nat).
Proof.
  induction ms as [|mv ms IH]; intros s0 n0 H.
  - exists 0%nat. simpl. f_equal; [ring | lia].
  - cbn [fold_left]. unfold leak_step at 2.
    assert (Hs := H mv (or_introl eq_refl)).
    destruct (sampled mv r c) eqn:E.
    + rewrite (Hs eq_refl). cbn [fst snd].
      destruct (IH (s0 + x) (S n0)) as [k Hk]; [intros; apply H; [right|]; assumption|].
      exists (S k). rewrite Hk. f_equal; [rewrite onat_S; ring | lia].
    + destruct (IH s0 n0) as [k Hk]; [intros; apply H; [right|]; assumption|].
      exists k. exact Hk.
Qed.

Lemma leak_mean_exact_lemma (ms : list (mvals O)) (r c : nat) (x v : K) :
  (forall mv, In mv ms -> sampled mv r c = true -> g O (mv_m O mv) (r * mc + c) = x) ->
  (forall n : nat, n <> 0%nat -> onat O n <> 0) ->
  leak_mean O mr mc ms (r, c) = Some v -> v = x.
Proof.
  intros H Hchar. unfold leak_mean. rewrite leak_acc_unfold.
  destruct (leak_acc_gen x r c ms 0 0%nat H) as [k Hk].
  rewrite Hk. cbn [Nat.add].
  destruct (Nat.eqb k 0) eqn:E; [discriminate|].
  intros Hv; injection Hv as <-.
  apply Nat.eqb_neq in E. specialize (Hchar k E).
  change (odiv O) with (@cdiv K). field. exact Hchar.
Qed.
End Leak.

(* ---------------------------------------------------------------- the hypotheses can be met *)
Require Import QArith Qcanon LV.Base.QcI.
Local Open Scope nat_scope.

Lemma onat_qre_ge (n : nat) : (Q2Qc 0 <= qre (onat (ops_of QIF) n))%Qc.
Proof.
  induction n as [|n IH]; [cbn; unfold Qcle, Qle; cbn; lia|].
  change (onat (ops_of QIF) (S n)) with (qi_add (onat (ops_of QIF) n) qi1). cbn [qi_add qre qi1].
  replace (Q2Qc 0) with (Q2Qc 0 + Q2Qc 0)%Qc by (apply Qc_is_canon; reflexivity).
  apply Qcplus_le_compat; [exact IH | unfold Qcle, Qle; cbn; lia].
Qed.

Lemma onat_qif_nonzero : forall n : nat, n <> 0%nat -> onat (ops_of QIF) n <> @c0 QIF.
Proof.
  intros [|n] Hn; [contradiction|]. intros Hz.
  assert (H1 : (Q2Qc 1 <= qre (onat (ops_of QIF) (S n)))%Qc).
  { change (onat (ops_of QIF) (S n)) with (qi_add (onat (ops_of QIF) n) qi1). cbn [qi_add qre qi1].
    replace (Q2Qc 1) with (Q2Qc 0 + 1)%Qc by (apply Qc_is_canon; reflexivity).
    apply Qcplus_le_compat; [apply onat_qre_ge | unfold Qcle, Qle; cbn; lia]. }
  rewrite Hz in H1. revert H1. unfold Qcle, Qle. cbn. lia.
Qed.

(* two double-reflect standards on a 2x2 UE10 calibration, both with m12 = 1/4 + i/8:
   the hypotheses of leak_mean_exact_lemma hold and the mean exists *)
Definition lk_x : qi := mkqi 1 4 1 8.
Definition lk_meas : measurement := mkMeas [true; true; true; true] [] (Some [true; false; false; true]) [].
Definition lk_ms : list (mvals (ops_of QIF)) :=
  [mkMV (ops_of QIF) lk_meas [mkqi 1 2 0 1; lk_x; mkqi 3 1 0 1; mkqi 0 1 1 1];
   mkMV (ops_of QIF) lk_meas [mkqi 5 7 0 1; lk_x; mkqi 2 1 0 1; mkqi 1 1 1 1]].

Example leak_mean_exact_nonvacuous :
  (forall mv, In mv lk_ms -> sampled QIF 2 2 mv 0 1 = true -> g (ops_of QIF) (mv_m _ mv) (0 * 2 + 1) = lk_x) /\
  (forall n : nat, n <> 0%nat -> onat (ops_of QIF) n <> @c0 QIF) /\
  exists v, leak_mean (ops_of QIF) 2 2 lk_ms (0, 1) = Some v.
Proof.
  split; [|split; [exact onat_qif_nonzero|]].
  - intros mv [<-|[<-|[]]] _; reflexivity.
  - destruct (leak_mean (ops_of QIF) 2 2 lk_ms (0, 1)) as [v|] eqn:E; [exists v; reflexivity|].
    exfalso. assert (H : match leak_mean (ops_of QIF) 2 2 lk_ms (0, 1) with Some _ => true | None => false end = true)
      by (vm_compute; reflexivity).
    rewrite E in H. discriminate.
Qed.
