(* leak_mean_exact: if in every measurement that contributes a sample to the leakage term of a cell
   (cell given, no path through the standard between the two ports) the measured value is x, then the
   mean the solver subtracts and saves is x.  For every field in which the sample count is invertible.
   (That the measured value of such a cell IS the leakage term El of the error model is the
   block-diagonal argument of vnacal_layout.h; it is exercised by the end-to-end oracle, not proved.) *)
Require Import List ZArith Bool Arith Lia.
Require Import LV.Base.CField LV.Gen.LayoutGen LV.Cal.Sym LV.Cal.TermsModel LV.Cal.AddModel
               LV.Cal.ApplyModel LV.Cal.SolveSimple.
Import ListNotations.

Section Leak.
Variable K : CField.
Add Field Kf_leak : (cth K).
Let O := ops_of K.
Variables (ty : caltype) (mr mc : nat).
Local Open Scope cf_scope.

Definition sampled (mv : mvals O) (r c : nat) : bool :=
  let m := mv_meas O mv in
  let conn := match ms_conn m with Some cm => nth (r * Nat.max mr mc + c) cm false | None => true end in
  andb (nth (r * mc + c) (ms_m_given m) false) (negb conn).

Lemma onat_S (n : nat) : onat O (S n) = onat O n + 1.
Proof. reflexivity. Qed.

Definition leak_step (r c : nat) (acc : K * nat) (mv : mvals O) : K * nat :=
  if sampled mv r c then (fst acc + g O (mv_m O mv) (r * mc + c), S (snd acc)) else acc.

Lemma leak_acc_unfold (ms : list (mvals O)) (r c : nat) :
  leak_acc O mr mc ms (r, c) = fold_left (leak_step r c) ms (0, 0%nat).
Proof. reflexivity. Qed.

Lemma leak_acc_gen (x : K) (r c : nat) :
  forall (ms : list (mvals O)) (s0 : K) (n0 : nat),
    (forall mv, In mv ms -> sampled mv r c = true -> g O (mv_m O mv) (r * mc + c) = x) ->
    exists k : nat, fold_left (leak_step r c) ms (s0, n0) = (s0 + onat O k * x, (n0 + k)%nat).
Proof.
  induction ms as [|mv ms IH]; intros s0 n0 H.
  - exists 0%nat. simpl. f_equal; [ring | lia].
  - cbn [fold_left]. unfold leak_step at 2.
    assert (Hs := H mv (or_introl eq_refl)).
    destruct (sampled mv r c) eqn:E.
    + rewrite (Hs eq_refl). cbn [fst snd].
      destruct (IH (s0 + x) (S n0)) as [k Hk]; [intros; apply H; [right|]; assumption|].
      exists (S k). rewrite Hk. f_equal; [rewrite onat_S; ring | lia].
    + destruct (IH s0 n0) as [k Hk]; [intros; apply H; [right|]; assumption|].
      exists k. exact Hk.
Qed.

Lemma leak_mean_exact_lemma (ms : list (mvals O)) (r c : nat) (x v : K) :
  (forall mv, In mv ms -> sampled mv r c = true -> g O (mv_m O mv) (r * mc + c) = x) ->
  (forall n : nat, n <> 0%nat -> onat O n <> 0) ->
  leak_mean O mr mc ms (r, c) = Some v -> v = x.
Proof.
  intros H Hchar. unfold leak_mean. rewrite leak_acc_unfold.
  destruct (leak_acc_gen x r c ms 0 0%nat H) as [k Hk].
  rewrite Hk. cbn [Nat.add].
  destruct (Nat.eqb k 0) eqn:E; [discriminate|].
  intros Hv; injection Hv as <-.
  apply Nat.eqb_neq in E. specialize (Hchar k E).
  change (odiv O) with (@cdiv K). field. exact Hchar.
Qed.
End Leak.
